"""Flat clustering side of the harness (C05, C10; reused by C06)."""
import itertools
import math

from common import f2b, b2f

from lingpy.algorithm.cython import _cluster

LINKS = ['single', 'complete', 'upgma']
LINK_ID = {'single': 0, 'complete': 1, 'upgma': 2}
HELPER = {'single': '_flat_single_linkage', 'complete': '_flat_complete_linkage', 'upgma': '_flat_upgma'}
LCM25 = 26771144400


def sym(n, f):
    m = [[0.0] * n for _ in range(n)]
    for i in range(n):
        for j in range(i + 1, n):
            m[i][j] = m[j][i] = float(f(i, j))
    return m


def small_matrices(maxn=4):
    """all symmetric matrices over {0,1,2} with zero diagonal, n <= maxn"""
    for n in range(1, maxn + 1):
        pairs = [(i, j) for i in range(n) for j in range(i + 1, n)]
        for vals in itertools.product([0, 1, 2], repeat=len(pairs)):
            d = dict(zip(pairs, vals))
            yield sym(n, lambda i, j: d[i, j] * 12.0)   # 12 = lcm(1..4): averages exact


def gen_matrix(rng, maxn=9, exact=True):
    n = rng.choice([1, 2, 3, 3, 4, 4, 5, 6, 7, maxn])
    kind = rng.random()
    if exact:
        pool = rng.choice([[0, 1], [0, 1, 2], [1, 2, 3, 4, 5], list(range(0, 10)), [0, 5, 5, 5, 9]])
        scale = float(LCM25)
        m = sym(n, lambda i, j: rng.choice(pool) * scale)
        thr_pool = sorted(set(v for row in m for v in row)) + [-scale, 2.5 * scale, 100 * scale]
        if kind < 0.2:
            # averages of two entries as thresholds (tie with a linkage value)
            vals = [v for row in m for v in row]
            thr_pool.append((rng.choice(vals) + rng.choice(vals)) / 2)
    else:
        m = sym(n, lambda i, j: round(rng.random(), rng.choice([1, 2, 6, 17, 17])))     # 17 digits: the double as it is
        thr_pool = [v for row in m for v in row] + [rng.random(), 0.5, -1.0, 2.0]
    t = rng.choice(thr_pool)
    return m, float(t)


def near_tie_triples():
    """grid values (a, b, c) with (a + b) / 2 and c different as floats but equal to within a few ulps"""
    out = []
    grid = [round(k * 0.05, 2) for k in range(1, 20)]
    for a in grid:
        for b in grid:
            if a < b:
                avg = (a + b) / 2
                for c in grid:
                    if avg != c and abs(avg - c) < 1e-12:
                        out.append((a, b, c))
    return out


NEAR_TIES = near_tie_triples()


def gen_near_tie(rng):
    """matrix in which, after a first merge {A,B}, the average linkage of {A,B}-C and the distance C-D differ in the last bits only;
    returns the matrix and a sweep of thresholds (the merge order must not depend on which of them is used)"""
    a, b, c = rng.choice(NEAR_TIES)
    if rng.random() < 0.5:
        a, b = b, a
    n = rng.choice([4, 4, 5, 6])
    small = rng.choice([x for x in (0.01, 0.02, 0.05) if x < min(a, b, c)] or [0.001])
    far = rng.choice([0.9, 0.95, 1.0])
    m = [[0.0 if i == j else far for j in range(n)] for i in range(n)]

    def put(i, j, v):
        m[i][j] = m[j][i] = v
    put(0, 1, small)
    put(0, 2, a)
    put(1, 2, b)
    put(2, 3, c)
    perm = list(range(n))
    rng.shuffle(perm)
    m = [[m[perm[i]][perm[j]] for j in range(n)] for i in range(n)]
    return m, [round(k * 0.05, 2) for k in range(1, 21)]


class Tracer:
    """Records the `clusters` dictionary at every (recursive) call of a flat-clustering helper."""

    def __init__(self, link):
        self.name = HELPER[link]
        self.states = []

    def __enter__(self):
        self.orig = getattr(_cluster, self.name)
        orig = self.orig
        states = self.states

        def wrapped(clusters, matrix, threshold):
            states.append([(k, list(v)) for k, v in clusters.items()])
            return orig(clusters, matrix, threshold)
        setattr(_cluster, self.name, wrapped)
        return self

    def __exit__(self, *a):
        setattr(_cluster, self.name, self.orig)


def real_trace(link, m, t):
    mm = [list(r) for r in m]
    with Tracer(link) as tr:
        res = _cluster.flat_cluster(link, t, mm)
    final = [(k, list(v)) for k, v in res.items()]
    states = tr.states
    # the last recorded call sees the final state
    return states, final


def encode(link, m, t, last_min=0, unordered=0):
    n = len(m)
    return 'cluster|%d %d %d|%d|%s|%s' % (LINK_ID[link], last_min, unordered, n,
                                          ' '.join(f2b(v) for row in m for v in row), f2b(t))


def decode(out):
    assert out.startswith('T'), out
    states = []
    for part in out[2:].split(' / '):
        st = []
        for tok in part.split():
            k, ms = tok.split(':')
            st.append((int(k), [int(x) for x in ms.split(',')]))
        states.append(st)
    return states


# ---------------------------------------------------------------------------
# oracles (independent of the model)

def py_linkage(link, m, A, B):
    vals = [m[a][b] for a in A for b in B]
    if link == 'single':
        return min(vals)
    if link == 'complete':
        return max(vals)
    return math.fsum(vals) / len(vals)


def oracle_c05(link, m, t, clusters, tol=0.0):
    """clusters: dict key -> members.  Returns None or failure text."""
    n = len(m)
    items = sorted(x for v in clusters.values() for x in v)
    if items != list(range(n)):
        return 'not a partition of the items: %r' % (clusters,)
    keys = list(clusters)
    for a in keys:
        for b in keys:
            if a != b:
                l = py_linkage(link, m, clusters[a], clusters[b])
                if l <= t - tol:
                    return 'clusters %r and %r have %s linkage %r <= threshold %r' % (clusters[a], clusters[b], link, l, t)
    if link == 'single':
        # connected components of the <= t graph
        parent = list(range(n))

        def find(x):
            while parent[x] != x:
                parent[x] = parent[parent[x]]
                x = parent[x]
            return x
        for i in range(n):
            for j in range(n):
                if i != j and m[i][j] <= t:
                    parent[find(i)] = find(j)
        comps = {}
        for i in range(n):
            comps.setdefault(find(i), set()).add(i)
        if sorted(map(sorted, comps.values())) != sorted(map(sorted, clusters.values())):
            return 'single linkage clusters %r are not the components %r' % (clusters, list(comps.values()))
    if link == 'complete':
        for v in clusters.values():
            for x in v:
                for y in v:
                    if x != y and m[x][y] > t + tol:
                        return 'complete linkage: within-cluster distance %r > threshold %r' % (m[x][y], t)
    return None


def textbook(link, m, t):
    """Textbook agglomerative procedure on frozensets (any minimal pair; used only without ties)."""
    cl = [frozenset([i]) for i in range(len(m))]
    tie = False
    while len(cl) > 1:
        best = None
        cnt = 0
        for x, y in itertools.combinations(cl, 2):
            l = py_linkage(link, m, sorted(x), sorted(y))
            if best is None or l < best[0]:
                best, cnt = (l, x, y), 1
            elif l == best[0]:
                cnt += 1
        if best[0] > t:
            break
        if cnt > 1:
            tie = True
        cl = [c for c in cl if c not in (best[1], best[2])] + [best[1] | best[2]]
    return sorted(map(sorted, cl)), tie


def refines(p1, p2):
    """every block of p1 is contained in a block of p2"""
    return all(any(set(a) <= set(b) for b in p2) for a in p1)
