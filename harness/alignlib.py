"""Pairwise-alignment side of the harness (C01, C02, C03).

* generators for kernel inputs (exact-representable, tie-rich),
* callers of the real kernels / dispatchers,
* the encoder/decoder of the Lean driver protocol (`align`, `rescore`),
* property oracles: lossless rows (C01), independent re-scorer transcribed from
  DESIGN Appendix A (C02), brute-force optimum over all paths (C03).
"""
import itertools
import math

from common import f2b, b2f

from lingpy.algorithm import calign, talign, malign

GAP = '-'
MODES = ['global', 'overlap', 'local', 'dialign']
MODE_ID = {m: i for i, m in enumerate(MODES)}

# kernel name -> (module, function name, flavour, mode, secondary)
KERNELS = {}
for sec in (False, True):
    pre = 'secondary_' if sec else ''
    KERNELS['c_' + pre + 'globalign'] = (calign, pre + 'globalign', 0, 'global', sec)
    KERNELS['c_' + pre + 'semi_globalign'] = (calign, pre + 'semi_globalign', 0, 'overlap', sec)
    KERNELS['c_' + pre + 'localign'] = (calign, pre + 'localign', 0, 'local', sec)
    KERNELS['c_' + pre + 'dialign'] = (calign, pre + 'dialign', 0, 'dialign', sec)
KERNELS['t_globalign'] = (talign, 'globalign', 1, 'global', False)
KERNELS['t_semi_globalign'] = (talign, 'semi_globalign', 1, 'overlap', False)
KERNELS['t_localign'] = (talign, 'localign', 1, 'local', False)
KERNELS['t_dialign'] = (talign, 'dialign', 1, 'dialign', False)
KERNELS['m_nw_align'] = (malign, 'nw_align', 2, 'global', False)
KERNELS['m_sw_align'] = (malign, 'sw_align', 2, 'local', False)


def default_cfg(kname):
    """The family member we expect today's kernel to be (DESIGN §2.2)."""
    _, fn, fl, mode, sec = KERNELS[kname]
    return dict(mode=MODE_ID[mode], secondary=int(sec), flavour=fl,
                proGE2=int(mode == 'global'),
                borderCum=int(mode == 'global' or (mode == 'overlap' and sec)),
                strictA=int(mode != 'local' and fl != 2), geM=1, lastBest=1,
                quirkJN=int(mode == 'local' and sec))


CFG_ORDER = ['mode', 'secondary', 'flavour', 'proGE2', 'borderCum', 'strictA', 'geM', 'lastBest', 'quirkJN']
FAMILY_AXES = ['proGE2', 'borderCum', 'strictA', 'geM', 'lastBest', 'quirkJN']


def family(kname):
    base = default_cfg(kname)
    out = [base]
    for bits in itertools.product([0, 1], repeat=len(FAMILY_AXES)):
        c = dict(base)
        for k, v in zip(FAMILY_AXES, bits):
            c[k] = v
        if c != base:
            out.append(c)
    return out


# ---------------------------------------------------------------------------
# generation

SYMS = ['a', 'b', 'th', 'c', 'd', 'e', 'f', 'gʷ']     # segments are strings of any length
PRO_POOLS = ['AX', 'ABCXYZ', 'AXT_', 'ABCLMNXYZT_', '#+AX', 'CVT_c']
VAL_POOLS = [[-1.0, 0.0, 2.0], [-1.0, 1.0], [-2.0, -1.0, 0.0, 1.0, 2.0, 3.0],
             [-1.5, -0.5, 0.0, 0.25, 1.0, 2.5], [0.0, 1.0], [-10.0, -1.0, 5.0, 10.0]]
W_POOLS = [[1.0], [1.0, 2.0], [0.5, 1.0, 1.5, 2.0], [0.0, 1.0], [1.0, 1.25, 3.0]]


def gen_case(rng, maxlen=8, exact=True, force_scale1=False):
    K = rng.choice([1, 2, 2, 3, 3, 4])
    alpha = list(SYMS[:K])
    la = rng.choice([1, 1, 2, 2, 3, 3, 4, 5, 6, maxlen])
    lb = rng.choice([1, 1, 2, 2, 3, 3, 4, 5, 6, maxlen])
    la = min(la, maxlen)
    lb = min(lb, maxlen)
    a = [rng.choice(alpha) for _ in range(la)]
    b = [rng.choice(alpha) for _ in range(lb)]
    if rng.random() < 0.15:
        b = list(a)
        lb = la
    pool = rng.choice(VAL_POOLS) if exact else [round(rng.uniform(-3, 5), 2) for _ in range(5)]
    sym = rng.random() < 0.6
    scorer = {}
    for x in alpha:
        for y in alpha:
            if sym and (y, x) in scorer:
                scorer[x, y] = scorer[y, x]
            else:
                scorer[x, y] = rng.choice(pool)
    if rng.random() < 0.5:
        for x in alpha:
            scorer[x, x] = max(pool)
    wp = rng.choice(W_POOLS) if exact else [round(rng.uniform(0.5, 2), 1) for _ in range(3)]
    wA = [rng.choice(wp) for _ in a]
    wB = [rng.choice(wp) for _ in b]
    pp = rng.choice(PRO_POOLS)
    proA = ''.join(rng.choice(pp) for _ in a)
    proB = ''.join(rng.choice(pp) for _ in b)
    if rng.random() < 0.3:
        proB = (proA * (lb // la + 1))[:lb]
    gop = rng.choice([-1.0, -2.0, -0.5, -1.0, -4.0, 0.0, 1.0] if exact else [-1.0, -2.0, -1.3])
    scale = 1.0 if force_scale1 else rng.choice([0.5, 1.0, 0.5, 0.25, 0.75] if exact else [0.5, 0.3, 1.0, 0.7])
    factor = rng.choice([0.0, 0.5, 0.25, 1.0] if exact else [0.3, 0.0, 0.15])
    r = rng.choice(['T_', 'T_', '_', 'T', '', '#+'])
    return dict(K=K, a=a, b=b, wA=wA, wB=wB, proA=proA, proB=proB, gop=gop, scale=scale,
                factor=factor, scorer=scorer, r=r)


def small_cases():
    """Exhaustive small scope: alphabet {a,b}, lengths 1..3, a few scorers/prosodies."""
    scorers = [
        {('a', 'a'): 2.0, ('b', 'b'): 2.0, ('a', 'b'): -1.0, ('b', 'a'): -1.0},
        {('a', 'a'): 0.0, ('b', 'b'): 2.0, ('a', 'b'): 0.0, ('b', 'a'): -1.0},
        {('a', 'a'): -1.0, ('b', 'b'): 0.0, ('a', 'b'): 2.0, ('b', 'a'): 2.0},
    ]
    for la in (1, 2, 3):
        for lb in (1, 2, 3):
            for a in itertools.product('ab', repeat=la):
                for b in itertools.product('ab', repeat=lb):
                    for si, sc in enumerate(scorers):
                        for scale, factor in ((0.5, 0.0), (1.0, 0.5), (0.5, 0.5)):
                            for pk in range(3):
                                if pk == 0:
                                    proA, proB = 'A' * la, 'A' * lb
                                elif pk == 1:
                                    proA, proB = ('AXT' * 2)[:la], ('XA_' * 2)[:lb]
                                else:
                                    proA, proB = ('T_A' * 2)[:la], ('BT_' * 2)[:lb]
                                yield dict(K=2, a=list(a), b=list(b), wA=[1.0, 2.0, 1.0][:la], wB=[1.0, 1.0, 0.5][:lb],
                                           proA=proA, proB=proB, gop=-1.0, scale=scale, factor=factor,
                                           scorer=sc, r='T_')


def case_key(kname, c):
    return (kname, tuple(c['a']), tuple(c['b']), tuple(c['wA']), tuple(c['wB']), c['proA'], c['proB'],
            c['gop'], c['scale'], c['factor'], tuple(sorted(c['scorer'].items())), c['r'])


# ---------------------------------------------------------------------------
# the real code

def kernel_args(kname, c):
    mod, fn, fl, mode, sec = KERNELS[kname]
    a, b = list(c['a']), list(c['b'])
    M, N = len(a), len(b)
    if fl == 0:
        gopA = [c['gop'] * w for w in c['wA']]
        gopB = [c['gop'] * w for w in c['wB']]
        if mode == 'dialign':
            args = [a, b, c['proA'], c['proB'], M, N, c['scale'], c['factor'], c['scorer']]
        else:
            args = [a, b, gopA, gopB, c['proA'], c['proB'], M, N, c['scale'], c['factor'], c['scorer']]
        if sec:
            args.append(c['r'])
    elif fl == 1:
        if mode == 'dialign':
            args = [a, b, M, N, c['scale'], c['scorer']]
        else:
            args = [a, b, M, N, c['gop'], c['scale'], c['scorer']]
    else:
        args = [a, b, c['scorer'], c['gop']]
    return args


def canon_real(kname, res):
    """-> ('G', colsA, colsB, sim) or ('L', preA, midA, sufA, preB, midB, sufB, sim)"""
    mode = KERNELS[kname][3]
    if mode == 'local':
        A, B, sim = res
        return ('L', list(A[0]), list(A[1]), list(A[2]), list(B[0]), list(B[1]), list(B[2]), float(sim))
    A, B, sim = res
    return ('G', list(A), list(B), float(sim))


def call_real(kname, c):
    mod, fn = KERNELS[kname][0], KERNELS[kname][1]
    try:
        return canon_real(kname, getattr(mod, fn)(*kernel_args(kname, c)))
    except Exception as e:  # noqa
        return ('E', type(e).__name__)


# ---------------------------------------------------------------------------
# the Lean model

def encode(cfg, c, kname=None):
    alpha = SYMS[:c['K']]
    idx = {s: i for i, s in enumerate(alpha)}
    fl = cfg['flavour']
    if fl == 0:
        gA = [c['gop'] * w for w in c['wA']]
        gB = [c['gop'] * w for w in c['wB']]
    else:
        gA = [c['gop']] * len(c['a'])
        gB = [c['gop']] * len(c['b'])
    mat = [c['scorer'][x, y] for x in alpha for y in alpha]
    return '|'.join([
        ' '.join(str(cfg[k]) for k in CFG_ORDER),
        ' '.join(str(idx[s]) for s in c['a']),
        ' '.join(str(idx[s]) for s in c['b']),
        ' '.join(f2b(x) for x in gA),
        ' '.join(f2b(x) for x in gB),
        ' '.join(str(ord(p)) for p in c['proA']),
        ' '.join(str(ord(p)) for p in c['proB']),
        f2b(c['scale']) + ' ' + f2b(c['factor'] if fl == 0 else 0.0),
        str(c['K']) + ' ' + ' '.join(f2b(x) for x in mat),
        ' '.join(str(ord(p)) for p in (c['r'] if cfg['secondary'] else '')),
    ])


def decode(out, c):
    alpha = SYMS[:c['K']]
    t = out.split()
    if not t or t[0] in ('E', 'bad-request', 'bad-op'):
        return ('E', out)

    def cols(ts):
        A, B = [], []
        for tok in ts:
            x, y = tok.split(':')
            A.append(GAP if x == '-' else alpha[int(x)])
            B.append(GAP if y == '-' else alpha[int(y)])
        return A, B
    if t[0] == 'G':
        A, B = cols(t[2:])
        return ('G', A, B, b2f(t[1]))
    if t[0] == 'L':
        i0, j0, k, l = map(int, t[1:5])
        A, B = cols(t[6:])
        a, b = c['a'], c['b']
        return ('L', list(a[:j0]), A, list(a[l:]), list(b[:i0]), B, list(b[k:]), b2f(t[5]))
    return ('E', out)


def same(r1, r2, tol=0.0):
    if r1[0] != r2[0]:
        return False
    if r1[0] == 'E':
        return True
    if r1[1:-1] != r2[1:-1]:
        return False
    x, y = r1[-1], r2[-1]
    if x == y or (x != x and y != y):
        return True
    return abs(x - y) <= tol


# ---------------------------------------------------------------------------
# oracles

def degap(row):
    return [x for x in row if x != GAP]


def oracle_c01(kname, c, res):
    """The C01 statement on a canonical result.  Returns None or a description of the failure."""
    a, b = list(c['a']), list(c['b'])
    if res[0] == 'E':
        return 'kernel raised ' + str(res[1])
    if res[0] == 'G':
        A, B = res[1], res[2]
        if len(A) != len(B):
            return 'rows differ in length'
        if any(x == GAP and y == GAP for x, y in zip(A, B)):
            return 'column with two gaps'
        if degap(A) != a:
            return 'row A does not de-gap to the input'
        if degap(B) != b:
            return 'row B does not de-gap to the input'
        return None
    _, pA, mA, sA, pB, mB, sB, _ = res
    if len(mA) != len(mB):
        return 'aligned parts differ in length'
    if any(x == GAP and y == GAP for x, y in zip(mA, mB)):
        return 'column with two gaps'
    if GAP in pA or GAP in sA or GAP in pB or GAP in sB:
        return 'gap in prefix/suffix'
    if pA + degap(mA) + sA != a:
        return 'prefix+aligned+suffix of A is not the input'
    if pB + degap(mB) + sB != b:
        return 'prefix+aligned+suffix of B is not the input'
    return None


def py_rescore(kname, c, res):
    """Independent re-scoring of the returned columns (DESIGN Appendix A).  Reads the returned
    alignment and the inputs only.  Returns the similarity the scheme assigns to these columns."""
    mod, fn, fl, mode, sec = KERNELS[kname]
    a, b = list(c['a']), list(c['b'])
    M, N = len(a), len(b)
    scale, scorer = c['scale'], c['scorer']
    if fl == 0:
        gA = [c['gop'] * w for w in c['wA']]
        gB = [c['gop'] * w for w in c['wB']]
        factor = c['factor']
        proA, proB = c['proA'], c['proB']
        r = c['r'] if sec else ''
    else:
        gA = [c['gop']] * M
        gB = [c['gop']] * N
        factor, r = 0.0, ''
        proA, proB = None, None
        if fl == 2:
            scale = 1
    if res[0] == 'G':
        i = j = 0
        colsA, colsB = res[1], res[2]
    else:
        j, i = len(res[1]), len(res[4])
        colsA, colsB = res[2], res[5]
    acc = 0.0 if fl != 2 else 0
    prev = 'start'
    for x, y in zip(colsA, colsB):
        if x != GAP and y != GAP:
            i += 1
            j += 1
            s = scorer[a[j - 1], b[i - 1]]
            if fl != 0:
                acc = acc + s
            else:
                pa, pb = proA[j - 1], proB[i - 1]
                if pa == pb:
                    acc = s + (acc + s * factor)
                elif sec and ((pa in r) != (pb in r)):
                    acc = s + (acc - 1000000)
                elif (abs(ord(pa) - ord(pb)) >= 2) if mode == 'global' else (abs(ord(pa) - ord(pb)) <= 2):
                    acc = s + (acc + s * factor / 2)
                else:
                    acc = s + acc
            prev = 'match'
        elif x == GAP:            # gap in A, consumes B
            i += 1
            if j == 0 and mode == 'local':
                acc = 0.0 if fl != 2 else 0
            elif j == 0:
                if fl == 2:
                    acc = acc + gB[i - 1]
                elif mode == 'global' or (mode == 'overlap' and sec):
                    acc = acc + gB[i - 1] * scale
                else:
                    acc = 0.0
            elif mode == 'overlap' and j == M:
                pass
            elif sec and proB[i - 1] in r and proA[j - 1] not in r and j != M:
                acc = acc - 1000000
            elif fl == 2:
                acc = acc + gB[i - 1]
            elif prev == 'gapA':
                acc = acc + gB[i - 1] * scale
            else:
                acc = acc + gB[i - 1]
            prev = 'gapA'
        else:                     # gap in B, consumes A
            j += 1
            if i == 0 and mode == 'local':
                acc = 0.0 if fl != 2 else 0
            elif i == 0:
                if fl == 2:
                    acc = acc + gA[j - 1]
                elif mode == 'global' or (mode == 'overlap' and sec):
                    acc = acc + gA[j - 1] * scale
                else:
                    acc = 0.0
            elif mode == 'overlap' and i == N:
                pass
            elif sec and proA[j - 1] in r and proB[i - 1] not in r and ((j != N) if mode == 'local' else (i != N)):
                acc = acc - 1000000
            elif fl == 2:
                acc = acc + gA[j - 1]
            elif prev == 'gapB':
                acc = acc + gA[j - 1] * scale
            else:
                acc = acc + gA[j - 1]
            prev = 'gapB'
    return acc


def moves_of(res):
    if res[0] == 'G':
        colsA, colsB, i0, j0 = res[1], res[2], 0, 0
    else:
        colsA, colsB, i0, j0 = res[2], res[5], len(res[4]), len(res[1])
    mv = []
    for x, y in zip(colsA, colsB):
        mv.append('1' if (x != GAP and y != GAP) else ('0' if x == GAP else '2'))
    return i0, j0, mv


def brute_best(kname, c):
    """Maximum of py_rescore over *all* alignments (global/overlap) or all local segment alignments.
    Only meaningful (and only used) with scale = 1.  Exponential: keep M, N <= 4."""
    mode = KERNELS[kname][3]
    a, b = list(c['a']), list(c['b'])
    M, N = len(a), len(b)

    def paths(i0, j0, i1, j1):
        # all column sequences from (i0,j0) to (i1,j1)
        if i0 == i1 and j0 == j1:
            yield []
            return
        if i0 < i1:
            for p in paths(i0 + 1, j0, i1, j1):
                yield [(GAP, b[i0])] + p
        if j0 < j1:
            for p in paths(i0, j0 + 1, i1, j1):
                yield [(a[j0], GAP)] + p
        if i0 < i1 and j0 < j1:
            for p in paths(i0 + 1, j0 + 1, i1, j1):
                yield [(a[j0], b[i0])] + p
    best = None
    if mode != 'local':
        for p in paths(0, 0, N, M):
            res = ('G', [x for x, _ in p], [y for _, y in p], 0.0)
            s = py_rescore(kname, c, res)
            if best is None or s > best:
                best = s
        return best
    best = 0.0
    for i0 in range(N + 1):
        for j0 in range(M + 1):
            for i1 in range(i0, N + 1):
                for j1 in range(j0, M + 1):
                    for p in paths(i0, j0, i1, j1):
                        # local alignments never start or end with a gap column in an optimal solution;
                        # skip paths that start with a gap at the matrix border (scored from zero there)
                        res = ('L', a[:j0], [x for x, _ in p], a[j1:], b[:i0], [y for _, y in p], b[i1:], 0.0)
                        s = py_rescore(kname, c, res)
                        if s > best:
                            best = s
    return best
