"""Gain-loss side of the harness (C07, C08)."""
import itertools

from lingpy.thirdparty.cogent import LoadTree


def Tree(newick_string):
    """reference trees are cogent trees, as PhyBo builds them (cg.LoadTree)"""
    return LoadTree(treestring=newick_string)
from lingpy.compare.phylogeny import get_gls


def rand_nested(rng, n, binary_p=0.6):
    nodes = list(range(n))
    rng.shuffle(nodes)
    while len(nodes) > 1:
        k = 2 if rng.random() < binary_p or len(nodes) < 3 else rng.choice([2, 3, 3, 4])
        k = min(k, len(nodes))
        idx = sorted(rng.sample(range(len(nodes)), k))
        kids = [nodes[i] for i in idx]
        nodes = [x for i, x in enumerate(nodes) if i not in idx]
        nodes.insert(rng.randrange(len(nodes) + 1), kids)
    t = nodes[0]
    return t if isinstance(t, list) else [t]


def all_nested(n):
    """all rooted tree shapes on leaves 0..n-1 (small n), as nested lists (children unordered up to listing)"""
    def parts(items):
        # set partitions into >= 2 blocks
        if len(items) == 1:
            yield [items]
            return
        first, rest = items[0], items[1:]
        for p in parts(rest):
            for i in range(len(p)):
                yield p[:i] + [[first] + p[i]] + p[i + 1:]
            yield [[first]] + p

    def trees(items):
        if len(items) == 1:
            yield items[0]
            return
        for p in parts(items):
            if len(p) < 2:
                continue
            for kids in itertools.product(*[list(trees(b)) for b in p]):
                yield list(kids)
    return list(trees(list(range(n))))


class LNode(list):
    """an inner node that carries a label in the Newick text (a support value); labels may repeat"""
    label = ''


def with_support(rng, t, top=True):
    """the same tree with labelled inner nodes, as trees with support values have them: ((a,b)95,(c,d)95,e)"""
    if not isinstance(t, list):
        return t
    n = LNode(with_support(rng, c, False) for c in t)
    if not top and rng.random() < 0.8:
        n.label = rng.choice(['95', '87', '0.99', '95', '100'])
    return n


def newick(t):
    if not isinstance(t, list):
        return 'L%d' % t
    return '(' + ','.join(newick(c) for c in t) + ')' + getattr(t, 'label', '')


def structure(tree):
    """(ids, tokens) for the Lean driver from a cogent tree: every node gets an integer id"""
    names = {}

    def go(node):
        names.setdefault(node.Name, len(names) + 1)
        if node.isTip():
            return [str(names[node.Name])]
        out = [str(names[node.Name]), '(']
        for c in node.Children:
            out += go(c)
        return out + [')']
    toks = go(tree)
    return names, toks


def py_replay(tree, scenario):
    """state of every leaf when the events are applied from the root downwards"""
    ev = dict(scenario)
    out = {}

    def go(node, state):
        if node.Name in ev:
            state = ev[node.Name]
        if node.isTip():
            out[node.Name] = state
        for c in node.Children:
            go(c, state)
    go(tree, 0)
    return out


def oracle_c07(tree, taxa, paps, scenario, md):
    names = set(tree.getNodeNames())
    for n, e in scenario:
        if n not in names:
            return 'event on %r which is not a node of the tree' % (n,)
        if e not in (0, 1):
            return 'event value %r' % (e,)
    if len(set(n for n, _ in scenario)) != len(set(scenario)):
        return 'a gain and a loss on one node'
    st = py_replay(tree, scenario)
    for t, p in zip(taxa, paps):
        if p == -1:
            if md == 0 and st[t] != 0:
                return 'leaf %s is missing (counted as absent) but the scenario makes it present' % t
            continue
        if st[t] != p:
            return 'leaf %s is %s in the data but %s when the scenario is replayed' % (t, p, st[t])
    return None


def weight(scenario, w):
    ev = [e for _, e in scenario]
    return ev.count(1) * w[0] + ev.count(0) * w[1]


def opt_weight(tree, taxa, paps, w, md):
    """minimum over all assignments of present/absent to the internal nodes (and to missing leaves when they are
    unconstrained) of gains*w0 + losses*w1, by dynamic programming over (node, state); the state above the root is absent."""
    pat = dict(zip(taxa, paps))
    INF = 10 ** 9

    def go(node):
        # cost[s] = min cost of the subtree below node given node has state s (edge into node not counted)
        if node.isTip():
            p = pat[node.Name]
            if p == -1:
                p = md if md == 0 else -1
            if p == -1:
                return [0, 0]
            return [0 if p == 0 else INF, 0 if p == 1 else INF]
        cost = [0, 0]
        for c in node.Children:
            cc = go(c)
            for s in (0, 1):
                cost[s] += min(cc[s], cc[1 - s] + (w[0] if s == 0 else w[1]))
        return cost
    c = go(tree)
    return min(c[0], c[1] + w[0])


def brute_opt(tree, taxa, paps, w, md):
    """the same minimum by exhaustive enumeration of all labelings (small trees only)"""
    pat = dict(zip(taxa, paps))
    nodes = []

    def collect(n):
        nodes.append(n)
        for c in n.Children:
            collect(c)
    collect(tree)
    # labelings are keyed by the node OBJECTS (not by their names): the oracle must not depend on inner nodes having distinct names
    free = [n for n in nodes if not n.isTip() or (pat[n.Name] == -1 and md == -1)]
    fixed = {id(n): (0 if pat[n.Name] == -1 else pat[n.Name]) for n in nodes if n.isTip() and not (pat[n.Name] == -1 and md == -1)}
    best = None
    for bits in itertools.product((0, 1), repeat=len(free)):
        lab = dict(fixed)
        for n, b in zip(free, bits):
            lab[id(n)] = b
        cost = w[0] if lab[id(tree)] == 1 else 0
        for n in nodes:
            for c in n.Children:
                if lab[id(n)] != lab[id(c)]:
                    cost += w[0] if lab[id(c)] == 1 else w[1]
        if best is None or cost < best:
            best = cost
    return best


def call_real(tree, taxa, paps, gpl, w, push, md):
    return get_gls(list(paps), list(taxa), tree, gpl=gpl, weights=w, push_gains=push, missing_data=md)
