#!/bin/bash
# harness/try_seeded.sh <dir with patch.diff> <check ids...>   : apply to /repo, run the quick checks, revert. Prints one line per check.
d=$1; shift
cd /repo && git apply "$d/patch.diff" || { echo "patch does not apply"; exit 2; }
cd /verif
for id in "$@"; do
  out=$(./check $id ${TIER:+--tier $TIER} 2>&1)
  rc=$?
  echo "$id rc=$rc $(echo "$out" | grep -c '^VIOLATION') violation line(s), $(echo "$out" | grep '^VIOLATION' | grep -c no-failing-input-found) without input: $(echo "$out" | grep -A1 '^VIOLATION' | grep -v '^VIOLATION' | head -1 | cut -c1-200)"
done
git -C /repo checkout -- .
git -C /repo status --short | head -3
