"""Run in a subprocess with XDG_CACHE_HOME pointing to a scratch cache: imports lingpy with pickle.load/dump
wrapped, prints the operation trace and a digest of the loaded models as one JSON line."""
import hashlib
import json
import os
import pickle
import sys

trace = []
_load, _dump = pickle.load, pickle.dump


def name_of(fp):
    return os.path.basename(getattr(fp, 'name', '?'))


def load(fp, *a, **k):
    n = name_of(fp)
    try:
        r = _load(fp, *a, **k)
        trace.append(['L', n])
        return r
    except BaseException as e:
        trace.append(['U', n, type(e).__name__])
        raise


def dump(obj, fp, *a, **k):
    trace.append(['D', name_of(fp)])
    return _dump(obj, fp, *a, **k)


pickle.load, pickle.dump = load, dump
import builtins
_open = builtins.open
import pathlib
_popen = pathlib.Path.open


def popen(self, *a, **k):
    try:
        return _popen(self, *a, **k)
    except FileNotFoundError:
        if self.name.endswith('.pkl'):
            trace.append(['M', self.name])
        raise


pathlib.Path.open = popen
out = {'ok': True}
try:
    import logging
    logging.disable(logging.CRITICAL)
    import lingpy
    from lingpy import rc
    h = hashlib.sha256()
    out['converters'] = {}
    for m in ['asjp', 'sca', 'dolgo', '_color', 'art', 'cv', 'jaeger', 'model']:
        M = rc(m)
        h.update(repr(sorted(M.converter.items())).encode())
        out['converters'][M.name] = hashlib.sha256(repr(sorted(M.converter.items())).encode()).hexdigest()
        if hasattr(M, 'scorer'):
            h.update(repr(sorted(M.scorer.chars2int.items())).encode())
            h.update(repr(M.scorer.matrix).encode())
    out['inventories'] = {}
    for k in ['diacritics', 'vowels', 'tones']:
        h.update(repr(rc(k)).encode())
        out['inventories'][k] = hashlib.sha256(repr(rc(k)).encode()).hexdigest()
    # the other shipped schema (ASJP-based models and inventories), asked for in both spellings the loader accepts, then back to the default
    from lingpy.data.model import load_dvt
    for spelling in ('evolaemp', 'el', ''):
        v = load_dvt(spelling)
        h.update(repr(v).encode())
        out['inventories']['load_dvt(%r)' % spelling] = hashlib.sha256(repr(v).encode()).hexdigest()
    rc(schema='evolaemp')
    for m in ['asjp', 'sca', 'dolgo']:
        h.update(repr(sorted(rc(m).converter.items())).encode())
        out['converters'][rc(m).name] = hashlib.sha256(repr(sorted(rc(m).converter.items())).encode()).hexdigest()
    for k in ['diacritics', 'vowels', 'tones']:
        h.update(repr(rc(k)).encode())
    for spelling in ('evolaemp', 'el', 'asjp'):
        rc(schema='ipa')
        rc(schema=spelling)
        for k in ['diacritics', 'vowels', 'tones']:
            out['inventories']['%s under rc(schema=%r)' % (k, spelling)] = hashlib.sha256(repr(rc(k)).encode()).hexdigest()
    rc(schema='ipa')
    for k in ['diacritics', 'vowels', 'tones']:
        h.update(repr(rc(k)).encode())
        out['inventories'][k + ' (after switching the schema and back)'] = hashlib.sha256(repr(rc(k)).encode()).hexdigest()
    out['digest'] = h.hexdigest()
except BaseException as e:
    out = {'ok': False, 'error': type(e).__name__ + ': ' + str(e)[:200]}
out['trace'] = trace
sys.stdout.write('\n@@PROBE@@' + json.dumps(out) + '\n')
