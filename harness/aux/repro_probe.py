"""Run in a subprocess under a given PYTHONHASHSEED: a fixed battery of analyses on the wordlist given as JSON on argv[1];
prints one JSON line with digests of the results."""
import hashlib
import json
import logging
import random
import sys

logging.disable(logging.CRITICAL)
d = {int(k): v for k, v in json.load(open(sys.argv[1])).items()}
out = {}


def dig(x):
    return hashlib.sha256(repr(x).encode()).hexdigest()[:16]


try:
    from lingpy import LexStat, Alignments
    random.seed(1234)
    lex = LexStat(d)
    out['cols'] = list(lex.cols)
    out['rows'] = list(lex.rows)
    out['langid'] = dig([lex[k, 'langid'] for k in sorted(lex._data)])
    # an analysis that does not use the language-specific scorer, before that scorer exists ...
    lex.cluster(method='sca', cluster_method='upgma', threshold=0.45, ref='scabefore', override=True)
    sca_before = [lex[k, 'scabefore'] for k in sorted(lex._data)]
    def sca_dist(obj):
        # language-level distances from the sound-class alignments (rejects wordlists where two languages share no concept)
        try:
            return dig([[round(x, 9) for x in row] for row in obj.get_distances(method='sca')])
        except ZeroDivisionError:
            return 'rejected'
    dist_before = sca_dist(lex)
    lex.get_scorer(runs=40, threshold=0.7)
    chars = sorted(lex.cscorer.chars2int)
    out['scorer'] = dig([[round(lex.cscorer[a, b], 9) for b in chars] for a in chars])
    # ... and after it was computed: the same analysis on the same object must give the same result
    lex.cluster(method='sca', cluster_method='upgma', threshold=0.45, ref='scaafter', override=True)
    out['repeat:sca-cluster-after-get_scorer'] = sca_before == [lex[k, 'scaafter'] for k in sorted(lex._data)]
    out['repeat:sca-distances-after-get_scorer'] = dist_before == sca_dist(lex)
    # computing the scorer a second time on the same object with the same seed
    random.seed(1234)
    lex_r = LexStat(d)
    lex_r.cluster(method='sca', cluster_method='upgma', threshold=0.45, ref='scabefore', override=True)
    sca_dist(lex_r)
    lex_r.get_scorer(runs=40, threshold=0.7)
    first = [[round(lex_r.cscorer[a, b], 9) for b in chars] for a in chars]
    random.seed(1234)
    lex_r2 = LexStat(d)
    lex_r2.cluster(method='sca', cluster_method='upgma', threshold=0.45, ref='scabefore', override=True)
    sca_dist(lex_r2)
    lex_r2.get_scorer(runs=40, threshold=0.7)
    # same object, forced recomputation after re-seeding at the same point of the random stream
    state = random.getstate()
    random.seed(99)
    lex_r2.get_scorer(runs=40, threshold=0.7, force=True)
    a1 = [[round(lex_r2.cscorer[a, b], 9) for b in chars] for a in chars]
    random.seed(99)
    lex_r2.get_scorer(runs=40, threshold=0.7, force=True)
    a2 = [[round(lex_r2.cscorer[a, b], 9) for b in chars] for a in chars]
    random.setstate(state)
    out['repeat:get_scorer(force=True) twice with the same seed'] = a1 == a2
    out['scorer_symmetric'] = all(lex.cscorer[a, b] == lex.cscorer[b, a] for a in chars for b in chars)
    for method, cm in (('turchin', 'upgma'), ('edit-dist', 'single'), ('sca', 'upgma'), ('lexstat', 'upgma'), ('lexstat', 'mcl'),
                       ('sca', 'link_clustering'), ('lexstat', 'complete')):
        ref = 'customid'
        try:
            lex.cluster(method=method, cluster_method=cm, threshold=0.55, ref=ref, override=True)
            ids = [lex[k, ref] for k in sorted(lex._data)]
            out['ids:%s/%s' % (method, cm)] = dig(ids)
            # repeating the deterministic analysis on the same object gives the same result
            lex.cluster(method=method, cluster_method=cm, threshold=0.55, ref='lingpyid', override=True)
            out['repeat:%s/%s' % (method, cm)] = ids == [lex[k, 'lingpyid'] for k in sorted(lex._data)]
        except Exception as ex:  # noqa
            out['ids:%s/%s' % (method, cm)] = 'raised ' + type(ex).__name__
    # the other way of building the random distribution: Markov-generated pseudo-words
    try:
        random.seed(4321)
        lex2 = LexStat(d)
        lex2.get_scorer(method='markov', runs=30, rands=12, limit=60, threshold=0.7)
        chars2 = sorted(lex2.cscorer.chars2int)
        out['scorer:markov'] = dig([[round(lex2.cscorer[a, b], 9) for b in chars2] for a in chars2])
        out['scorer_symmetric'] = out['scorer_symmetric'] and all(lex2.cscorer[a, b] == lex2.cscorer[b, a] for a in chars2 for b in chars2)
        lex2.cluster(method='lexstat', cluster_method='upgma', threshold=0.55, ref='mkid', override=True)
        out['ids:lexstat-markov/upgma'] = dig([lex2[k, 'mkid'] for k in sorted(lex2._data)])
    except Exception as ex:  # noqa
        out['scorer:markov'] = 'raised ' + type(ex).__name__
    lex.cluster(method='sca', threshold=0.45, ref='scaid', override=True)
    alm = Alignments(lex, ref='scaid')
    alm.align()
    out['alignment'] = dig([list(alm[k, 'alignment']) for k in sorted(alm._data)])
    try:
        lex.calculate('tree', ref='scaid', tree_calc='neighbor')
        out['tree'] = str(lex.tree)
        lex.calculate('tree', ref='scaid', tree_calc='upgma', force=True)
        out['tree_upgma'] = str(lex.tree)
    except Exception as ex:  # noqa
        out['tree'] = 'raised ' + type(ex).__name__
except Exception as ex:  # noqa
    out['error'] = type(ex).__name__ + ': ' + str(ex)[:200]
sys.stdout.write('\n@@PROBE@@' + json.dumps(out, sort_keys=True) + '\n')
