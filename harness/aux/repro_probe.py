"""Run in a subprocess under a given PYTHONHASHSEED: a fixed battery of analyses on the wordlist given as JSON on argv[1];
prints one JSON line with digests of the results."""
import hashlib
import json
import logging
import random
import sys

logging.disable(logging.CRITICAL)
d = {int(k): v for k, v in json.load(open(sys.argv[1])).items()}
out = {}


def dig(x):
    return hashlib.sha256(repr(x).encode()).hexdigest()[:16]


try:
    from lingpy import LexStat, Alignments
    random.seed(1234)
    lex = LexStat(d)
    out['cols'] = list(lex.cols)
    out['rows'] = list(lex.rows)
    out['langid'] = dig([lex[k, 'langid'] for k in sorted(lex._data)])
    # an analysis that does not use the language-specific scorer, before that scorer exists ...
    lex.cluster(method='sca', cluster_method='upgma', threshold=0.45, ref='scabefore', override=True)
    sca_before = [lex[k, 'scabefore'] for k in sorted(lex._data)]
    def sca_dist(obj):
        # language-level distances from the sound-class alignments (rejects wordlists where two languages share no concept)
        try:
            return dig([[round(x, 9) for x in row] for row in obj.get_distances(method='sca')])
        except ZeroDivisionError:
            return 'rejected'
    dist_before = sca_dist(lex)
    lex.get_scorer(runs=40, threshold=0.7)
    chars = sorted(lex.cscorer.chars2int)
    out['scorer'] = dig([[round(lex.cscorer[a, b], 9) for b in chars] for a in chars])
    # ... and after it was computed: the same analysis on the same object must give the same result
    lex.cluster(method='sca', cluster_method='upgma', threshold=0.45, ref='scaafter', override=True)
    out['repeat:sca-cluster-after-get_scorer'] = sca_before == [lex[k, 'scaafter'] for k in sorted(lex._data)]
    out['repeat:sca-distances-after-get_scorer'] = dist_before == sca_dist(lex)
    # computing the scorer a second time on the same object with the same seed
    random.seed(1234)
    lex_r = LexStat(d)
    lex_r.cluster(method='sca', cluster_method='upgma', threshold=0.45, ref='scabefore', override=True)
    sca_dist(lex_r)
    lex_r.get_scorer(runs=40, threshold=0.7)
    first = [[round(lex_r.cscorer[a, b], 9) for b in chars] for a in chars]
    random.seed(1234)
    lex_r2 = LexStat(d)
    lex_r2.cluster(method='sca', cluster_method='upgma', threshold=0.45, ref='scabefore', override=True)
    sca_dist(lex_r2)
    lex_r2.get_scorer(runs=40, threshold=0.7)
    # same object, forced recomputation after re-seeding at the same point of the random stream
    state = random.getstate()
    random.seed(99)
    lex_r2.get_scorer(runs=40, threshold=0.7, force=True)
    a1 = [[round(lex_r2.cscorer[a, b], 9) for b in chars] for a in chars]
    random.seed(99)
    lex_r2.get_scorer(runs=40, threshold=0.7, force=True)
    a2 = [[round(lex_r2.cscorer[a, b], 9) for b in chars] for a in chars]
    random.setstate(state)
    out['repeat:get_scorer(force=True) twice with the same seed'] = a1 == a2
    out['scorer_symmetric'] = all(lex.cscorer[a, b] == lex.cscorer[b, a] for a in chars for b in chars)
    for method, cm in (('turchin', 'upgma'), ('edit-dist', 'single'), ('sca', 'upgma'), ('lexstat', 'upgma'), ('lexstat', 'mcl'),
                       ('sca', 'link_clustering'), ('lexstat', 'complete')):
        ref = 'customid'
        try:
            lex.cluster(method=method, cluster_method=cm, threshold=0.55, ref=ref, override=True)
            ids = [lex[k, ref] for k in sorted(lex._data)]
            out['ids:%s/%s' % (method, cm)] = dig(ids)
            # repeating the deterministic analysis on the same object gives the same result
            lex.cluster(method=method, cluster_method=cm, threshold=0.55, ref='lingpyid', override=True)
            out['repeat:%s/%s' % (method, cm)] = ids == [lex[k, 'lingpyid'] for k in sorted(lex._data)]
        except Exception as ex:  # noqa
            out['ids:%s/%s' % (method, cm)] = 'raised ' + type(ex).__name__
    # analyses that read the segments, repeated after analyses that align words of the same object (distances by alignment,
    # pairwise alignments of two languages): the stored segments must be what they were
    try:
        lex.cluster(method='edit-dist', cluster_method='upgma', threshold=0.55, ref='customid', override=True)
        ed1 = [lex[k, 'customid'] for k in sorted(lex._data)]
        tk1 = [list(lex[k, 'tokens']) for k in sorted(lex._data)]
        lex.get_distances(method='sca')
        langs = list(lex.cols)
        lex.align_pairs(langs[0], langs[1], pprint=False)
        lex.align_pairs(langs[0], langs[-1], method='sca', pprint=False)
        lex.cluster(method='edit-dist', cluster_method='upgma', threshold=0.55, ref='lingpyid', override=True)
        out['repeat:edit-dist clustering after alignment-based analyses'] = ed1 == [lex[k, 'lingpyid'] for k in sorted(lex._data)]
        out['repeat:segments after alignment-based analyses'] = tk1 == [list(lex[k, 'tokens']) for k in sorted(lex._data)]
    except Exception as ex:  # noqa
        out['note:alignment-based repetition raised ' + type(ex).__name__] = True
    # the same analysis before and after other analyses with other settings on the object (thresholds 0 / 0.0 included: only words at
    # distance 0 are joined): a call is determined by its own arguments
    try:
        for m_, cm_, t0, t1 in (('sca', 'upgma', 0, 0.6), ('edit-dist', 'single', 0.0, 0.75), ('sca', 'complete', 0.3, 0), ('turchin', 'upgma', 0.2, 0.8)):
            lex.cluster(method=m_, cluster_method=cm_, threshold=t0, ref='customid', override=True)
            first_ = [lex[k, 'customid'] for k in sorted(lex._data)]
            lex.cluster(method=m_, cluster_method=cm_, threshold=t1, ref='lingpyid', override=True)
            lex.cluster(method=m_, cluster_method=cm_, threshold=t0, ref='lingpyid', override=True)
            out['repeat:%s/%s at threshold %r after the same analysis at threshold %r' % (m_, cm_, t0, t1)] = first_ == [lex[k, 'lingpyid'] for k in sorted(lex._data)]
    except Exception as ex:  # noqa
        out['note:threshold history raised ' + type(ex).__name__] = True
    # the scorer replaced (other seed, other settings) on an object that has already been analysed with its first scorer: the analysis
    # with the new scorer is the one a fresh object gives for the same seed and settings
    try:
        def lexstat_ids(obj):
            res = []
            for t_ in (0.4, 0.55, 0.7):
                obj.cluster(method='lexstat', cluster_method='upgma', threshold=t_, ref='customid', override=True)
                res.append([obj[k, 'customid'] for k in sorted(obj._data)])
            return res
        fresh = LexStat(d)
        random.seed(77)
        fresh.get_scorer(runs=40, threshold=0.7, ratio=(1, 4), force=True)
        ids_fresh = lexstat_ids(fresh)
        sc_fresh = [[round(fresh.cscorer[a, b], 9) for b in chars] for a in chars]
        hist_obj = LexStat(d)
        random.seed(5)
        hist_obj.get_scorer(runs=40, threshold=0.7)
        lexstat_ids(hist_obj)
        random.seed(77)
        hist_obj.get_scorer(runs=40, threshold=0.7, ratio=(1, 4), force=True)
        out['repeat:scorer recomputed on an analysed object == scorer of a fresh object (same seed and settings)'] = \
            sc_fresh == [[round(hist_obj.cscorer[a, b], 9) for b in chars] for a in chars]
        out['repeat:lexstat clustering after the scorer was replaced == fresh object (same seed and settings)'] = ids_fresh == lexstat_ids(hist_obj)
    except Exception as ex:  # noqa
        out['note:scorer replacement history raised ' + type(ex).__name__] = True
    # the other way of building the random distribution: Markov-generated pseudo-words
    try:
        random.seed(4321)
        lex2 = LexStat(d)
        lex2.get_scorer(method='markov', runs=30, rands=12, limit=60, threshold=0.7)
        chars2 = sorted(lex2.cscorer.chars2int)
        out['scorer:markov'] = dig([[round(lex2.cscorer[a, b], 9) for b in chars2] for a in chars2])
        out['scorer_symmetric'] = out['scorer_symmetric'] and all(lex2.cscorer[a, b] == lex2.cscorer[b, a] for a in chars2 for b in chars2)
        lex2.cluster(method='lexstat', cluster_method='upgma', threshold=0.55, ref='mkid', override=True)
        out['ids:lexstat-markov/upgma'] = dig([lex2[k, 'mkid'] for k in sorted(lex2._data)])
    except Exception as ex:  # noqa
        out['scorer:markov'] = 'raised ' + type(ex).__name__
    lex.cluster(method='sca', threshold=0.45, ref='scaid', override=True)
    # the clustering and tree functions repeated on one and the same matrix object (a list of lists and a numpy array)
    try:
        import numpy as np
        from lingpy.algorithm import clustering as clu
        from lingpy.basic.wordlist import Wordlist as _WL
        dm = [[float(x) for x in row] for row in _WL.get_distances(lex, ref='scaid')]
        names = list(lex.cols)
        offd = sorted(dm[i][j] for i in range(len(dm)) for j in range(i))
        thr = (offd[len(offd) // 2] + 0.01) if offd else 0.5   # a threshold that joins about half of the pairs
        for cname, make in (('list', lambda: [list(r) for r in dm]), ('ndarray', lambda: np.array(dm))):
            for fname, call in (('mcl', lambda m: clu.mcl(thr, m, names)),
                                ('flat_cluster:upgma', lambda m: clu.flat_cluster('upgma', thr, m, names)),
                                ('flat_cluster:ward', lambda m: clu.flat_cluster('ward', thr, m, names)),
                                ('link_clustering', lambda m: clu.link_clustering(thr, m, names)),
                                ('upgma', lambda m: clu.upgma(m, names)),
                                ('neighbor', lambda m: clu.neighbor(m, names))):
                try:
                    m = make()
                    r1 = repr(call(m))
                    r2 = repr(call(m))
                    out['repeat:%s twice on one %s' % (fname, cname)] = r1 == r2
                except Exception as ex:  # noqa
                    out['note:%s on %s raised %s' % (fname, cname, type(ex).__name__)] = True
    except Exception as ex:  # noqa
        out['note:matrix repetitions raised ' + type(ex).__name__] = True
    alm = Alignments(lex, ref='scaid')
    alm.align()
    out['alignment'] = dig([list(alm[k, 'alignment']) for k in sorted(alm._data)])
    # with iterative refinement (off by default): the partitions are realigned one after another, so their order matters
    alm_it = Alignments(lex, ref='scaid')
    alm_it.align(iteration=True)
    out['alignment:iteration'] = dig([list(alm_it[k, 'alignment']) for k in sorted(alm_it._data)])
    alm_lib = Alignments(lex, ref='scaid')
    alm_lib.align(method='library', iteration=True, swap_check=True)
    out['alignment:library+iteration+swap_check'] = dig([list(alm_lib[k, 'alignment']) for k in sorted(alm_lib._data)])
    # an object that has been aligned before, aligned again with other settings: the result is the one a fresh object gives for them
    try:
        rows_it = [list(alm_it[k, 'alignment']) for k in sorted(alm_it._data)]
        alm.align(iteration=True)
        out['repeat:align(iteration=True) after align() on the same object == fresh object'] = rows_it == [list(alm[k, 'alignment']) for k in sorted(alm._data)]
        alm_d = Alignments(lex, ref='scaid')
        alm_d.align(mode='dialign')
        alm.align(mode='dialign')
        out['repeat:align(mode=dialign) after two other align() calls on the same object == fresh object'] = \
            [list(alm_d[k, 'alignment']) for k in sorted(alm_d._data)] == [list(alm[k, 'alignment']) for k in sorted(alm._data)]
        alm.align(method='library', iteration=True, swap_check=True)
        out['repeat:align(library, iteration, swap_check) after other align() calls on the same object == fresh object'] = \
            [list(alm_lib[k, 'alignment']) for k in sorted(alm_lib._data)] == [list(alm[k, 'alignment']) for k in sorted(alm._data)]
    except Exception as ex:  # noqa
        out['note:alignment history raised ' + type(ex).__name__] = True
    # multiple alignment with every kind of iterative refinement on word sets drawn from the wordlist itself and from a fixed pool
    from lingpy.align.multiple import Multiple
    pool = sorted(set(str(lex[k, 'ipa']) for k in lex._data)) + ['tʰɔxtər', 'dɔːtər', 'dɔxtər', 'dotər', 'hant', 'hænd', 'hɑnt', 'hand', 'ʃtɛrn',
                                                                  'stɑːr', 'stjɛrna', 'vɔlf', 'wʊlf', 'ulv', 'fɪʃ', 'pisk', 'fisk', 'waldemar', 'woldemort',
                                                                  'vladimir', 'kaːu̯ən', 'ɡəʃaft', 'wɔːtər', 'vasər', 'vatn', 'voda']
    rnd = random.Random(777)
    msas = []
    for _ in range(25):
        words = rnd.sample(pool, min(len(pool), rnd.choice([5, 6, 7, 8])))
        m = Multiple(words)
        m.prog_align()
        m.iterate_similar_gap_sites()
        m.iterate_clusters(0.5)
        m.iterate_orphans()
        msas.append([' '.join(r) for r in m.alm_matrix])
    out['multiple:iterations'] = dig(msas)
    try:
        lex.calculate('tree', ref='scaid', tree_calc='neighbor')
        out['tree'] = str(lex.tree)
        lex.calculate('tree', ref='scaid', tree_calc='upgma', force=True)
        out['tree_upgma'] = str(lex.tree)
    except Exception as ex:  # noqa
        out['tree'] = 'raised ' + type(ex).__name__
    # the tree / distance / group calculations of the wordlist level in every mode, forced a second time on the same object, and
    # against a fresh object: the calculation reads the rows, not what an earlier calculation left behind
    try:
        from lingpy.basic.wordlist import Wordlist as _WL2
        for mode_ in ('swadesh', 'shared', 'jaccard'):
            for tc_ in ('upgma', 'neighbor'):
                w1 = _WL2(d)
                w1.add_entries('scaid', {k: lex[k, 'scaid'] for k in lex}, lambda x: x)
                w1.calculate('tree', ref='scaid', tree_calc=tc_, mode=mode_, force=True)
                t1_ = str(w1.tree)
                w1.calculate('tree', ref='scaid', tree_calc=tc_, mode=mode_, force=True)
                t2_ = str(w1.tree)
                w2 = _WL2(d)
                w2.add_entries('scaid', {k: lex[k, 'scaid'] for k in lex}, lambda x: x)
                w2.calculate('tree', ref='scaid', tree_calc=tc_, mode=mode_, force=True)
                out['repeat:calculate(tree, mode=%s, tree_calc=%s, force=True) twice on one object' % (mode_, tc_)] = (t1_ == t2_ == str(w2.tree))
    except ZeroDivisionError:
        out['note:wordlist-level tree repetition rejected (two languages share no concept)'] = True
    except Exception as ex:  # noqa
        out['note:wordlist-level tree repetition raised ' + type(ex).__name__] = True
except Exception as ex:  # noqa
    out['error'] = type(ex).__name__ + ': ' + str(ex)[:200]
sys.stdout.write('\n@@PROBE@@' + json.dumps(out, sort_keys=True) + '\n')
