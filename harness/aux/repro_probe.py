"""Run in a subprocess under a given PYTHONHASHSEED: a fixed battery of analyses on the wordlist given as JSON on argv[1];
prints one JSON line with digests of the results."""
import hashlib
import json
import logging
import random
import sys

logging.disable(logging.CRITICAL)
d = {int(k): v for k, v in json.load(open(sys.argv[1])).items()}
out = {}


def dig(x):
    return hashlib.sha256(repr(x).encode()).hexdigest()[:16]


try:
    from lingpy import LexStat, Alignments
    random.seed(1234)
    lex = LexStat(d)
    out['cols'] = list(lex.cols)
    out['rows'] = list(lex.rows)
    out['langid'] = dig([lex[k, 'langid'] for k in sorted(lex._data)])
    lex.get_scorer(runs=40, threshold=0.7)
    chars = sorted(lex.cscorer.chars2int)
    out['scorer'] = dig([[round(lex.cscorer[a, b], 9) for b in chars] for a in chars])
    out['scorer_symmetric'] = all(lex.cscorer[a, b] == lex.cscorer[b, a] for a in chars for b in chars)
    for method, cm in (('turchin', 'upgma'), ('edit-dist', 'single'), ('sca', 'upgma'), ('lexstat', 'upgma'), ('lexstat', 'mcl'),
                       ('sca', 'link_clustering'), ('lexstat', 'complete')):
        ref = 'customid'
        try:
            lex.cluster(method=method, cluster_method=cm, threshold=0.55, ref=ref, override=True)
            ids = [lex[k, ref] for k in sorted(lex._data)]
            out['ids:%s/%s' % (method, cm)] = dig(ids)
            # repeating the deterministic analysis on the same object gives the same result
            lex.cluster(method=method, cluster_method=cm, threshold=0.55, ref='lingpyid', override=True)
            out['repeat:%s/%s' % (method, cm)] = ids == [lex[k, 'lingpyid'] for k in sorted(lex._data)]
        except Exception as ex:  # noqa
            out['ids:%s/%s' % (method, cm)] = 'raised ' + type(ex).__name__
    # the other way of building the random distribution: Markov-generated pseudo-words
    try:
        random.seed(4321)
        lex2 = LexStat(d)
        lex2.get_scorer(method='markov', runs=30, rands=12, limit=60, threshold=0.7)
        chars2 = sorted(lex2.cscorer.chars2int)
        out['scorer:markov'] = dig([[round(lex2.cscorer[a, b], 9) for b in chars2] for a in chars2])
        out['scorer_symmetric'] = out['scorer_symmetric'] and all(lex2.cscorer[a, b] == lex2.cscorer[b, a] for a in chars2 for b in chars2)
        lex2.cluster(method='lexstat', cluster_method='upgma', threshold=0.55, ref='mkid', override=True)
        out['ids:lexstat-markov/upgma'] = dig([lex2[k, 'mkid'] for k in sorted(lex2._data)])
    except Exception as ex:  # noqa
        out['scorer:markov'] = 'raised ' + type(ex).__name__
    lex.cluster(method='sca', threshold=0.45, ref='scaid', override=True)
    alm = Alignments(lex, ref='scaid')
    alm.align()
    out['alignment'] = dig([list(alm[k, 'alignment']) for k in sorted(alm._data)])
    try:
        lex.calculate('tree', ref='scaid', tree_calc='neighbor')
        out['tree'] = str(lex.tree)
        lex.calculate('tree', ref='scaid', tree_calc='upgma', force=True)
        out['tree_upgma'] = str(lex.tree)
    except Exception as ex:  # noqa
        out['tree'] = 'raised ' + type(ex).__name__
except Exception as ex:  # noqa
    out['error'] = type(ex).__name__ + ': ' + str(ex)[:200]
sys.stdout.write('\n@@PROBE@@' + json.dumps(out, sort_keys=True) + '\n')
