#!/bin/bash
# runs the repository's pinned test suite and compares with BASELINE.json's stable_pass list
OUT=${1:-/var/tmp/verif-baseline}
mkdir -p "$OUT"
cd /repo && /venv/bin/python -m pytest -ra -q -p no:cacheprovider --timeout=900 --continue-on-collection-errors --junitxml="$OUT/junit.xml" > "$OUT/log.txt" 2>&1 < /dev/null
/venv/bin/python - "$OUT/junit.xml" <<'PY'
import json, sys
import xml.etree.ElementTree as ET
base = json.load(open('/root/.vp/BASELINE.json'))
t = ET.parse(sys.argv[1])
passed = set()
for tc in t.iter('testcase'):
    if not any(c.tag in ('failure', 'error', 'skipped') for c in tc):
        passed.add(tc.get('classname') + '::' + tc.get('name'))
missing = [x for x in base['stable_pass'] if x not in passed]
print('baseline stable_pass: %d, passed now: %d, missing: %d' % (len(base['stable_pass']), len(passed), len(missing)))
for m in missing[:20]:
    print('  MISSING', m)
PY
