"""Generator of wordlist dictionaries (shared by C06, C12, C13, C16, C17, C18, C19)."""

LANGS = ['German', 'english', 'Dutch', 'Íslenska', 'Český', 'abc', 'Zulu', 'mandarin', 'Ελληνικά', 'quechua', 'Old_High_German', 'Proto-Germanic']
CONCEPTS = ['hand', 'Stone', 'water', 'ÁRBOL', 'to go', 'eye', 'Zahn', 'fire', 'leaf/leaves', 'one']
SYLL_C = ['p', 't', 'k', 'b', 'd', 'g', 'm', 'n', 's', 'ʃ', 'x', 'h', 'l', 'r', 'j', 'w', 'f', 'v', 'ts', 'tʃ', 'pʰ', 'ŋ']
SYLL_V = ['a', 'e', 'i', 'o', 'u', 'ə', 'ɛ', 'ɔ', 'aː', 'ai', 'y']


def gen_word(rng, maxsyl=3):
    w = ''
    for _ in range(rng.randrange(1, maxsyl + 1)):
        if rng.random() < 0.85:
            w += rng.choice(SYLL_C)
        w += rng.choice(SYLL_V)
        if rng.random() < 0.3:
            w += rng.choice(SYLL_C)
    return w


def gen_wordlist(rng, with_tokens=False, with_cogid=True, max_langs=5, max_concepts=6, min_langs=1, case_variants=False,
                 extra_cols=False, contiguous=False):
    nl = rng.randrange(min_langs, max_langs + 1)
    nc = rng.randrange(1, max_concepts + 1)
    langs = rng.sample(LANGS, nl)
    if case_variants and nl >= 2 and rng.random() < 0.5:
        langs[1] = langs[0].swapcase() if langs[0].swapcase() != langs[0] else langs[0] + 'X'
    concepts = rng.sample(CONCEPTS, nc)
    header = ['doculect', 'concept', 'ipa']
    if with_tokens:
        header.append('tokens')
    if with_cogid:
        header.append('cogid')
    if extra_cols:
        header += ['note', 'freq']
    d = {0: header}
    idx = rng.choice([1, 1, 5, 100])
    pool = [gen_word(rng) for _ in range(rng.randrange(2, 8))]
    if rng.random() < 0.5:
        # related shapes of one word: reduplicated, a doubled segment, cut short (mama / ma, kaa / ka)
        b = rng.choice(pool)
        pool += [b + b, b + b[-1], b[:max(1, len(b) // 2)]]
    cog = 0
    for c in concepts:
        cogs = {}
        for l in langs:
            r = rng.random()
            nwords = 0 if r < 0.15 else (2 if r > 0.85 else 1)
            for _ in range(nwords):
                w = rng.choice(pool) if rng.random() < 0.6 else gen_word(rng)
                row = [l, c, w]
                if with_tokens:
                    from lingpy.sequence.sound_classes import ipa2tokens
                    toks = ipa2tokens(w)
                    if len(toks) >= 2 and rng.random() < 0.12:
                        # a segment in source/target notation (what is written / what is analysed): a legal segment
                        k = rng.randrange(len(toks))
                        toks[k] = rng.choice(['h₂', '?', 'X']) + '/' + toks[k]
                    row.append(toks)
                if with_cogid:
                    if cogs and rng.random() < 0.5:
                        cid = rng.choice(list(cogs.values()))
                    else:
                        cog += 1
                        cid = cog
                    cogs[len(cogs)] = cid
                    row.append(cid)
                if extra_cols:
                    row += [rng.choice(['', 'x y', 'borrowed?', 'ünï']), rng.choice([0, 0, 1, 2, 5, 17, 49])]
                d[idx] = row
                idx += 1 if contiguous else rng.choice([1, 1, 1, 2, 7])
    if len(d) < 3:
        return gen_wordlist(rng, with_tokens, with_cogid, max_langs, max_concepts, min_langs, case_variants, extra_cols, contiguous)
    if rng.random() < 0.4:
        # the rows in another order than concept by concept (language by language, or mixed): the same ids, other rows under them
        keys = [k for k in d if k != 0]
        rows = [d[k] for k in keys]
        if rng.random() < 0.5:
            rows.sort(key=lambda r: str(r[0]))      # language by language
        else:
            rng.shuffle(rows)
        d = dict([(0, d[0])] + list(zip(keys, rows)))
    return d
