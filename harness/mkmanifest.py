#!/usr/bin/env python3
"""Regenerates MANIFEST.json from registry.json (single source of per-property metadata)."""
import json
import os
V = os.path.dirname(os.path.dirname(os.path.abspath(__file__)))
reg = json.load(open(os.path.join(V, 'registry.json')))
props = [json.loads(l) for l in open(os.path.join(V, 'properties.jsonl'))]
BASE = "cd /repo && /venv/bin/python -m pytest -ra -q -p no:cacheprovider --timeout=900 --continue-on-collection-errors"
checks, na = [], []
for p in props:
    pid = p['id']
    r = reg.get(pid)
    if not r or r.get('not_applicable'):
        na.append({'property_id': pid, 'reason': (r or {}).get('not_applicable', 'check not built yet (work in progress, see DESIGN.md section 5/%s)' % pid)})
        continue
    checks.append({
        'property_id': pid,
        'quick_cmd': './check %s --tier quick' % pid,
        'thorough_cmd': './check %s --tier thorough' % pid,
        'evidence_file': 'evidence/%s.json' % pid,
        'replay_cmd_template': './check %s --replay {path}' % pid,
        'engine': 'lean4+harness',
        'level_claimed': {'category': 'proof', 'text': r['level_text'], 'design_ref': 'DESIGN.md section 5/%s' % pid},
        'level_note': r['level_note'],
        'technique': r.get('technique', 'Lean 4 theorems about an executable model + differential correspondence model/code'),
    })
m = {
    'version': 1,
    'setup_cmd': 'cd /verif/lean && lake build',
    'hooks': {'guard': 'LINGPY_VERIF',
              'enable': 'no source hooks in /repo: instrumentation (sys.monitoring, attribute wrapping, XDG_CACHE_HOME, PYTHONHASHSEED) is applied from the harness process',
              'baseline_off_cmd': BASE, 'source_commits': [], 'add_only': True},
    'engines': [{'name': 'lean4+harness', 'path': 'lean/ (lake project Verif, driver drv) + harness/ (Python)',
                 'serves_properties': [c['property_id'] for c in checks],
                 'kind_free_text': 'Lean 4 machine-checked theorems about executable models; models tied to /repo by differential correspondence (line protocol) and translator-generated obligations'}],
    'checks': checks,
    'not_applicable': na,
    'notes': 'See DESIGN.md. Every check: (1) lake build of the property theorems + axiom audit, (2) correspondence model<->code, (3) property oracles on the real code for the failing-input search.',
}
json.dump(m, open(os.path.join(V, 'MANIFEST.json'), 'w'), indent=1)
print('checks:', [c['property_id'] for c in checks], 'n/a:', [x['property_id'] for x in na])
