#!/venv/bin/python
"""Entry point:  ./check C07 [--tier quick|thorough] [--replay file]"""
import argparse
import importlib
import os
import sys
import traceback

HERE = os.path.dirname(os.path.abspath(__file__))
sys.path.insert(0, HERE)


def main():
    ap = argparse.ArgumentParser()
    ap.add_argument('pid')
    ap.add_argument('--tier', default=os.environ.get('VERIF_TIER', 'quick'))
    ap.add_argument('--replay', default=None)
    a = ap.parse_args()
    seed = int(os.environ.get('VERIF_SEED', '0') or 0)
    tier = a.tier if a.tier in ('quick', 'thorough') else 'quick'
    os.environ.setdefault('PYTHONHASHSEED', '0')
    import logging
    import signal
    logging.disable(logging.CRITICAL)

    def on_alarm(signum, frame):
        print('check %s exceeded its wall-clock limit (exit 2, not a violation)' % a.pid)
        os._exit(2)
    signal.signal(signal.SIGALRM, on_alarm)
    signal.alarm(int(os.environ.get('VERIF_TIMEOUT', '900' if tier == 'quick' else '7200')))
    import common
    mod = importlib.import_module('props.' + a.pid.lower())
    chk = common.Check(a.pid, tier, seed)
    try:
        if a.replay:
            rc = mod.replay(chk, a.replay)
        else:
            mod.run(chk)
            rc = chk.finish()
    except Exception as ex:
        tb = traceback.extract_tb(ex.__traceback__)
        src = os.path.join(common.REPO, 'src') + os.sep
        inside = [f for f in tb if os.path.abspath(f.filename).startswith(src)]
        if inside and not a.replay:
            # the library itself raised, in a call the check does not expect to fail (on the unchanged tree it does not): the
            # correspondence machinery no longer runs to the end.  That is reported like any other broken tie for which no failing
            # input was isolated - the replay names the call that raised.
            f = inside[-1]
            where = '%s:%d in %s' % (os.path.relpath(f.filename, common.REPO), f.lineno, f.name)
            outer = [g for g in tb if not os.path.abspath(g.filename).startswith(src)][-1]
            chk.obligation('correspondence:the check runs to its end (no unexpected exception from the library)', 'correspondence', False,
                           '%s: %s at %s' % (type(ex).__name__, str(ex)[:200], where))
            chk.violation('the library raised %s: %s at %s during a call the check makes on every run (%s:%d); no failing input isolated'
                          % (type(ex).__name__, str(ex)[:160], where, os.path.basename(outer.filename), outer.lineno),
                          {'kind': 'unexpected-exception', 'exception': type(ex).__name__, 'message': str(ex)[:500], 'raised_at': where,
                           'called_from': '%s:%d' % (os.path.basename(outer.filename), outer.lineno),
                           'traceback': traceback.format_exc()[-3000:], 'broken': 'correspondence:the check runs to its end'}, found_input=False)
            rc = chk.finish()
        else:
            traceback.print_exc()
            print('infrastructure error in check %s (exit 2, not a violation)' % a.pid)
            rc = 2
    sys.exit(rc)


if __name__ == '__main__':
    main()
