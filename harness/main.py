#!/venv/bin/python
"""Entry point:  ./check C07 [--tier quick|thorough] [--replay file]"""
import argparse
import importlib
import os
import sys
import traceback

HERE = os.path.dirname(os.path.abspath(__file__))
sys.path.insert(0, HERE)


def main():
    ap = argparse.ArgumentParser()
    ap.add_argument('pid')
    ap.add_argument('--tier', default=os.environ.get('VERIF_TIER', 'quick'))
    ap.add_argument('--replay', default=None)
    a = ap.parse_args()
    seed = int(os.environ.get('VERIF_SEED', '0') or 0)
    tier = a.tier if a.tier in ('quick', 'thorough') else 'quick'
    os.environ.setdefault('PYTHONHASHSEED', '0')
    import logging
    import signal
    logging.disable(logging.CRITICAL)

    def on_alarm(signum, frame):
        print('check %s exceeded its wall-clock limit (exit 2, not a violation)' % a.pid)
        os._exit(2)
    signal.signal(signal.SIGALRM, on_alarm)
    signal.alarm(int(os.environ.get('VERIF_TIMEOUT', '900' if tier == 'quick' else '7200')))
    import common
    mod = importlib.import_module('props.' + a.pid.lower())
    chk = common.Check(a.pid, tier, seed)
    try:
        if a.replay:
            rc = mod.replay(chk, a.replay)
        else:
            mod.run(chk)
            rc = chk.finish()
    except Exception:
        traceback.print_exc()
        print('infrastructure error in check %s (exit 2, not a violation)' % a.pid)
        rc = 2
    sys.exit(rc)


if __name__ == '__main__':
    main()
