"""Shared machinery of the lingpy verification harness.

Every per-property module builds a `Check`, registers *obligations* (Lean
theorems re-checked by the kernel, generated obligations, correspondence
relations between the Lean model and the real code) and *oracle* results
(direct executable statements of the property run on the real code), and calls
`finish()`, which writes the evidence file, prints VIOLATION / KNOWN-FINDING
lines and returns the exit code.
"""
import collections
import fcntl
import hashlib
import json
import os
import random
import re
import struct
import subprocess
import sys
import time

VERIF = os.path.dirname(os.path.dirname(os.path.abspath(__file__)))
LEAN = os.environ.get('VERIF_LEAN', os.path.join(VERIF, 'lean'))      # VERIF_LEAN: a scratch copy of the Lean project (development only)
REPO = os.environ.get('VERIF_REPO', '/repo')
DRV = os.path.join(LEAN, '.lake', 'build', 'bin', 'drv')
ALLOWED_AXIOMS = {'propext', 'Classical.choice', 'Quot.sound'}
FORBIDDEN = re.compile(r'\b(sorry|admit|native_decide|bv_decide|implemented_by|unsafe)\b|^\s*axiom\s|maxHeartbeats\s+0\b', re.M)

TRUSTED_BASE = [
    "Lean 4.33.0 kernel; axioms limited to propext, Classical.choice, Quot.sound (audited with #print axioms on every run)",
    "the hand-written Lean models are models: theorems are about them; the tie to /repo is the differential correspondence run by this harness (generators, canonicalisers, comparison) and, for tables, the translator",
    "compiled driver (Lean compiler + C toolchain) computes what the kernel-checked definitions denote",
]


def f2b(x):
    """float -> decimal string of the IEEE-754 bit pattern (−0.0 canonicalised)."""
    x = float(x)
    if x == 0.0:
        x = 0.0
    return str(struct.unpack('<Q', struct.pack('<d', x))[0])


def b2f(s):
    return struct.unpack('<d', struct.pack('<Q', int(s)))[0]


class Driver:
    """Line-protocol client of the compiled Lean model driver."""

    def __init__(self):
        if not os.path.exists(DRV):
            raise RuntimeError('driver not built: ' + DRV)
        self.p = subprocess.Popen([DRV], stdin=subprocess.PIPE, stdout=subprocess.PIPE,
                                  text=True, bufsize=1)
        self.n = 0

    def ask(self, line):
        assert '\n' not in line
        self.p.stdin.write(line + '\n')
        self.p.stdin.flush()
        self.n += 1
        out = self.p.stdout.readline()
        if not out:
            raise RuntimeError('driver died on: ' + line[:200])
        return out.rstrip('\n')

    def ask_many(self, lines):
        """Pipelined: write all, then read all (uses a helper thread to avoid deadlock)."""
        import threading
        outs = []

        def writer():
            for l in lines:
                self.p.stdin.write(l + '\n')
            self.p.stdin.flush()
        t = threading.Thread(target=writer)
        t.start()
        for _ in lines:
            o = self.p.stdout.readline()
            if not o:
                raise RuntimeError('driver died')
            outs.append(o.rstrip('\n'))
        t.join()
        self.n += len(lines)
        return outs

    def close(self):
        try:
            self.p.stdin.close()
            self.p.wait(timeout=5)
        except Exception:
            self.p.kill()


def sh(cmd, cwd=None, timeout=3600, env=None):
    r = subprocess.run(cmd, cwd=cwd, shell=isinstance(cmd, str), stdout=subprocess.PIPE,
                       stderr=subprocess.STDOUT, text=True, timeout=timeout, env=env)
    return r.returncode, r.stdout


class LakeLock:
    def __enter__(self):
        os.makedirs(os.path.join(LEAN, '.lake'), exist_ok=True)
        self.f = open(os.path.join(LEAN, '.lake', 'verif.lock'), 'w')
        fcntl.flock(self.f, fcntl.LOCK_EX)
        return self

    def __exit__(self, *a):
        fcntl.flock(self.f, fcntl.LOCK_UN)
        self.f.close()


def strip_lean_comments(src):
    src = re.sub(r'/-.*?-/', '', src, flags=re.S)
    src = re.sub(r'--.*', '', src)
    return src


REGISTRY = json.load(open(os.path.join(VERIF, 'registry.json')))


class Check:
    def __init__(self, pid, tier='quick', seed=0):
        self.pid = pid
        self.tier = tier
        self.seed = int(seed)
        self.rng = random.Random(self.seed * 1000003 + int(pid[1:]))
        self.t0 = time.time()
        self.evaluations = 0
        self.distinct = set()
        self.samples = []
        self.hist = collections.Counter()
        self.obligations = []
        self.violations = []
        self.known_hits = []
        self.notes = []
        self.tested_not_proved = []
        self.extra = {}
        self.rule = ''
        self.known = [k for k in json.load(open(os.path.join(VERIF, 'known_findings.json')))['findings']
                      if k['property'] == pid and k['status'] == 'known']
        self.reg = REGISTRY.get(pid, {})
        self.thorough = tier == 'thorough'

    # -- bookkeeping -----------------------------------------------------
    def n(self, quick, thorough):
        return thorough if self.thorough else quick

    def count(self, key=None, nontrivial=True, branch=None):
        self.evaluations += 1
        if key is not None and nontrivial:
            self.distinct.add(hashlib.blake2b(repr(key).encode(), digest_size=8).digest())
        if branch:
            for b in ([branch] if isinstance(branch, str) else branch):
                self.hist[b] += 1

    def sample(self, obj, limit=4):
        if len(self.samples) < limit:
            self.samples.append(obj)

    def obligation(self, name, kind, ok, detail=''):
        self.obligations.append({'name': name, 'kind': kind, 'ok': bool(ok), 'detail': str(detail)[:2000]})
        return ok

    def elapsed(self):
        return time.time() - self.t0

    # -- Lean side -------------------------------------------------------
    def lean_obligations(self):
        """Build the property's Lean modules, audit axioms of its theorems, scan for forbidden tokens.
        Each registered theorem is one obligation."""
        mods = self.reg.get('modules', [])
        thms = self.reg.get('theorems', [])
        with LakeLock():
            rc, out = sh(['lake', 'build', 'drv'] + mods, cwd=LEAN, timeout=3000)
        build_ok = rc == 0
        self.build_log = out[-4000:]
        if not build_ok:
            self.obligation('lake build ' + ' '.join(mods), 'lean-build', False, out[-1500:])
            for t in thms:
                self.obligation(t, 'theorem', False, 'module does not build')
            return False
        # forbidden tokens
        bad = []
        for root, _, files in os.walk(os.path.join(LEAN, 'Verif')):
            for f in files:
                if f.endswith('.lean'):
                    src = strip_lean_comments(open(os.path.join(root, f)).read())
                    m = FORBIDDEN.search(src)
                    if m:
                        bad.append(f + ':' + m.group(0).strip())
        m = FORBIDDEN.search(strip_lean_comments(open(os.path.join(LEAN, 'Main.lean')).read()))
        if m:
            bad.append('Main.lean:' + m.group(0))
        self.obligation('no sorry/admit/axiom/native_decide/bv_decide/implemented_by/unsafe/maxHeartbeats 0 in /verif/lean',
                        'source-scan', not bad, ', '.join(bad))
        # axioms audit
        if thms:
            imports = sorted(set(self.reg.get('modules', [])))
            src = ''.join('import %s\n' % m for m in imports) + ''.join('#print axioms %s\n' % t for t in thms)
            path = os.path.join(LEAN, '.lake', 'audit_%s.lean' % self.pid)
            open(path, 'w').write(src)
            rc, out = sh(['lake', 'env', 'lean', path], cwd=LEAN, timeout=1200)
            found = {}
            for m in re.finditer(r"'([^']+)' depends on axioms: \[([^\]]*)\]", out):
                found[m.group(1)] = set(x.strip() for x in m.group(2).replace('\n', ' ').split(',') if x.strip())
            for m in re.finditer(r"'([^']+)' does not depend on any axioms", out):
                found[m.group(1)] = set()
            allok = True
            for t in thms:
                ax = found.get(t)
                ok = ax is not None and ax <= ALLOWED_AXIOMS
                allok &= ok
                self.obligation(t, 'theorem', ok,
                                'axioms: ' + (', '.join(sorted(ax)) if ax is not None else 'NOT FOUND: ' + out[-300:]))
            if self.thorough and self.reg.get('leanchecker', True) and mods:
                rc, out = sh(['lake', 'env', 'leanchecker'] + mods, cwd=LEAN, timeout=3000)
                self.obligation('leanchecker ' + ' '.join(mods), 'kernel-recheck', rc == 0, out[-800:])
            return allok and not bad
        return not bad

    # -- findings --------------------------------------------------------
    def violation(self, what, replay_obj, found_input=True, key=None):
        """Record a violation (a property failure on the real code, or a broken obligation/correspondence
        for which no failing input was found).  `key` is matched against known_findings."""
        for k in self.known:
            if key is not None and k['key'] == key:
                if k not in self.known_hits:
                    self.known_hits.append(k)
                    os.makedirs(os.path.join(VERIF, 'replays'), exist_ok=True)
                return
        self.violations.append({'what': what, 'replay': replay_obj, 'found_input': found_input, 'key': key})

    def finish(self):
        broken = [o for o in self.obligations if not o['ok']]
        # a broken obligation/correspondence without any concrete failing input
        if broken and not self.violations and not self.known_hits:
            self.violations.append({'what': 'obligation(s) no longer check: ' + '; '.join(o['name'] for o in broken),
                                    'replay': {'broken': broken}, 'found_input': False, 'key': None})
        elif broken and not self.violations and self.known_hits:
            # broken obligations explained only by known findings are still reported unless each is tagged known
            untagged = [o for o in broken if not o.get('known')]
            if untagged:
                self.violations.append({'what': 'obligation(s) no longer check: ' + '; '.join(o['name'] for o in untagged),
                                        'replay': {'broken': untagged}, 'found_input': False, 'key': None})
        wall = time.time() - self.t0
        cov = {
            'obligations': len(self.obligations),
            'discharged': sum(1 for o in self.obligations if o['ok']),
            'checker_cmd': 'cd /verif/lean && lake build ' + ' '.join(self.reg.get('modules', [])) +
                           ' && lake env lean .lake/audit_%s.lean   (then ./check %s --tier %s)' % (self.pid, self.pid, self.tier),
            'trusted_base': TRUSTED_BASE + self.reg.get('trusted', []),
            'evaluations': self.evaluations,
            'distinct_nontrivial': len(self.distinct),
            'rule': self.rule,
            'samples': self.samples[:6],
            'obligation_list': self.obligations,
            'branch_histogram': dict(self.hist.most_common(60)),
            'tested_not_proved': self.tested_not_proved + self.reg.get('tested_not_proved', []),
            'notes': self.notes,
        }
        cov.update(self.extra)
        ev = {
            'property_id': self.pid, 'tier': self.tier, 'seed': self.seed, 'level': 'proof',
            'coverage': cov,
            'assumptions': self.reg.get('assumptions', []),
            'wall_s': round(wall, 2),
            'violations': len(self.violations),
        }
        # runs against another checkout (VERIF_REPO, used to try seeded changes) keep their evidence apart
        evdir = os.path.join(VERIF, 'evidence') if 'VERIF_REPO' not in os.environ else os.path.join('/var/tmp/verif-evidence-alt', os.path.basename(REPO))
        os.makedirs(evdir, exist_ok=True)
        with open(os.path.join(evdir, self.pid + '.json'), 'w') as f:
            json.dump(ev, f, indent=1, default=str, ensure_ascii=False)
        for k in self.known_hits:
            print('KNOWN-FINDING: property=%s %s' % (self.pid, k['what']))
        rc = 0
        for idx, v in enumerate(self.violations[:5]):
            os.makedirs(os.path.join(VERIF, 'replays'), exist_ok=True)
            path = os.path.join(VERIF, 'replays', '%s-%d-%d.json' % (self.pid, self.seed, idx))
            with open(path, 'w') as f:
                json.dump({'property': self.pid, 'what': v['what'], 'replay': v['replay'],
                           'broken_obligations': broken}, f, indent=1, default=str, ensure_ascii=False)
            tail = '' if v['found_input'] else ' no-failing-input-found'
            print('VIOLATION property=%s replay=%s%s' % (self.pid, path, tail))
            print('  ' + v['what'][:400])
            rc = 1
        print('%s %s: %d/%d obligations, %d evaluations (%d distinct non-trivial), %.1fs, exit %d' % (
            self.pid, self.tier, cov['discharged'], cov['obligations'], self.evaluations, len(self.distinct), wall, rc))
        return rc


def shrink_list(xs, still_fails, max_steps=200):
    """Greedy delta-debugging on a list: drop chunks while the predicate still fails."""
    xs = list(xs)
    n = 2
    steps = 0
    while len(xs) >= 2 and steps < max_steps:
        chunk = max(1, len(xs) // n)
        reduced = False
        for i in range(0, len(xs), chunk):
            cand = xs[:i] + xs[i + chunk:]
            steps += 1
            if cand and still_fails(cand):
                xs = cand
                n = max(n - 1, 2)
                reduced = True
                break
        if not reduced:
            if chunk == 1:
                break
            n = min(n * 2, len(xs))
    return xs
