"""C18 — reproducible results: same data and random seed give the same output."""
import ast
import concurrent.futures
import json
import os
import shutil
import subprocess
import tempfile

import common
import wlgen

PROBE = os.path.join(common.VERIF, 'harness', 'aux', 'repro_probe.py')
ANCHORED = ['src/lingpy/compare/lexstat.py', 'src/lingpy/algorithm/clustering.py', 'src/lingpy/thirdparty/linkcomm/link_clustering.py',
            'src/lingpy/align/sca.py', 'src/lingpy/align/multiple.py', 'src/lingpy/basic/parser.py', 'src/lingpy/basic/wordlist.py', 'src/lingpy/compare/partial.py']
INVENTORY = os.path.join(common.VERIF, 'corpus', 'c18_inventory.json')


# ---------------------------------------------------------------------------
# translator: static inventory of iterations over hash-ordered containers

def is_setish(node, setnames):
    if isinstance(node, (ast.Set, ast.SetComp)):
        return True
    if isinstance(node, ast.Call):
        f = node.func
        if isinstance(f, ast.Name) and f.id in ('set', 'frozenset'):
            return True
        if isinstance(f, ast.Attribute) and f.attr in ('union', 'intersection', 'difference', 'symmetric_difference'):
            return True
    if isinstance(node, ast.BinOp) and isinstance(node.op, (ast.BitOr, ast.BitAnd, ast.Sub, ast.BitXor)):
        return is_setish(node.left, setnames) or is_setish(node.right, setnames)
    if isinstance(node, ast.Name) and node.id in setnames:
        return True
    return False


def inventory():
    """every place where a for-loop / comprehension iterates directly over a set-valued expression (not wrapped in sorted(),
    not only used for membership): (file, function, source of the iterable)"""
    sites = []
    for rel in ANCHORED:
        path = os.path.join(common.REPO, rel)
        src = open(path, encoding='utf8').read()
        tree = ast.parse(src)
        for fn in [n for n in ast.walk(tree) if isinstance(n, (ast.FunctionDef, ast.AsyncFunctionDef))]:
            setnames = set()
            for n in ast.walk(fn):
                if isinstance(n, ast.Assign) and len(n.targets) == 1 and isinstance(n.targets[0], ast.Name):
                    if is_setish(n.value, set()):
                        setnames.add(n.targets[0].id)
            for n in ast.walk(fn):
                iters = []
                if isinstance(n, ast.For):
                    iters.append(n.iter)
                elif isinstance(n, (ast.ListComp, ast.GeneratorExp, ast.DictComp)):
                    # a set comprehension's own result is a set again: its order is decided where *it* is iterated
                    iters += [g.iter for g in n.generators]
                for it in iters:
                    if is_setish(it, setnames):
                        # commutative consumers are order-free: any()/all()/sum of ints/len/min/max/set()/sorted() around the comprehension
                        sites.append([rel, fn.name, ast.unparse(it)[:80]])
    return sorted(map(tuple, sites))


# ---------------------------------------------------------------------------
# hash-seed differential

def probe(args):
    path, seed = args
    env = dict(os.environ, PYTHONHASHSEED=str(seed), TQDM_DISABLE='1')
    r = subprocess.run(['/venv/bin/python', PROBE, path], env=env, stdout=subprocess.PIPE, stderr=subprocess.DEVNULL,
                       stdin=subprocess.DEVNULL, text=True, timeout=600)
    for line in r.stdout.splitlines():
        if line.startswith('@@PROBE@@'):
            return json.loads(line[9:])
    return {'error': 'no probe output'}


def run(chk):
    chk.rule = ('generated wordlists (4-5 languages incl. names that coincide after lower-casing, 4-6 concepts, synonyms) analysed in separate '
                'interpreter runs under 4/16 values of PYTHONHASHSEED with random.seed fixed: LexStat index, permutation-based and Markov-generated scorer, '
                'cluster by turchin / edit-dist / sca / lexstat x upgma / single / complete / mcl / link_clustering, Alignments.align, NJ and UPGMA '
                'trees; each analysis repeated on the same object; non-trivial = every generated wordlist (>= 4 languages)')
    chk.lean_obligations()
    rng = chk.rng
    # static inventory
    inv = inventory()
    base = [tuple(x) for x in json.load(open(INVENTORY))] if os.path.exists(INVENTORY) else None
    chk.extra['set_iteration_sites'] = [list(x) for x in inv]
    if base is None:
        chk.obligation('generated:inventory of iterations over hash-ordered containers (baseline missing)', 'generated-obligation', False,
                       'no committed baseline inventory')
        new_sites = inv
    else:
        new_sites = [x for x in inv if x not in base]
        chk.obligation('generated:inventory of iterations over hash-ordered containers has no site outside the reviewed list (%d sites)' % len(base),
                       'generated-obligation', not new_sites, 'new unsorted set iterations: %r' % (new_sites[:5],))
    # dynamic part
    scratch = tempfile.mkdtemp(prefix='verif-c18-', dir='/var/tmp')
    fails = []
    try:
        nwl = chk.n(10, 40)
        seeds = list(range(chk.n(4, 16)))
        jobs, wls = [], []
        for i in range(nwl):
            d = wlgen.gen_wordlist(rng, with_cogid=False, min_langs=4, max_langs=5, max_concepts=6, case_variants=(i % 2 == 0))
            if i % 2 == 0:
                # make sure two language names (and two concepts) coincide after lower-casing
                langs = sorted(set(v[0] for k, v in d.items() if k))
                twin = langs[0].swapcase() if langs[0].swapcase() != langs[0] else langs[0].upper() + 'x'
                for k, v in d.items():
                    if k and v[0] == langs[1]:
                        v[0] = twin
            p = os.path.join(scratch, 'wl%d.json' % i)
            json.dump(d, open(p, 'w'))
            wls.append(d)
            for s in seeds:
                jobs.append((p, s))
        with concurrent.futures.ThreadPoolExecutor(max_workers=14) as ex:
            results = list(ex.map(probe, jobs))
        for i, d in enumerate(wls):
            res = results[i * len(seeds):(i + 1) * len(seeds)]
            langs = sorted(set(v[0] for k, v in d.items() if k))
            casevar = len(set(x.lower() for x in langs)) < len(langs)
            chk.count(('wl', tuple(sorted((k, tuple(map(str, v))) for k, v in d.items()))), True,
                      branch=['case-variant-names:%s' % casevar])
            if any('error' in r for r in res):
                fails.append((d, 'analysis failed: %s' % [r.get('error') for r in res if 'error' in r][0], None))
                continue
            keys = sorted(res[0])
            for k in keys:
                vals = [json.dumps(r.get(k), sort_keys=True) for r in res]
                if len(set(vals)) > 1:
                    key = 'case-variant-names' if casevar else None
                    fails.append((d, '%s differs across PYTHONHASHSEED values %r: %s' % (k, seeds, sorted(set(vals))[:2]), key))
                    break
            for r in res:
                if r.get('scorer_symmetric') is False:
                    fails.append((d, 'language-specific scorer is not symmetric', None))
                for k in r:
                    if k.startswith('repeat:') and r[k] is False:
                        fails.append((d, 'repeating %s on the same object gives another result' % k[7:], None))
        chk.sample({'languages': sorted(set(v[0] for k, v in wls[0].items() if k)), 'digests': results[0]}, limit=1)
    finally:
        shutil.rmtree(scratch, ignore_errors=True)
    chk.tested_not_proved.append('interpreter-level hash randomisation, numpy and networkx internals are exercised in subprocesses, not proved; '
                                 'the theorems cover symmetric writes and the order-freeness of sorted(set, key) under an injective key')
    unlisted = [f for f in fails if f[2] is None or not any(k['key'] == f[2] for k in chk.known)]
    chk.obligation('correspondence/oracle: identical digests across hash seeds, repeated analyses agree, scorer symmetric', 'correspondence',
                   not unlisted, 'wordlists=%d hash seeds=%d failures=%d' % (len(wls), len(seeds), len(fails)))
    seen = set()
    for f in sorted(fails, key=lambda f: len(f[0])):
        if f[2] in seen:
            continue
        seen.add(f[2])
        chk.violation(f[1], {'kind': 'reproducibility', 'dict': {str(k): v for k, v in f[0].items()}, 'why': f[1]}, key=f[2])
    if new_sites and not fails:
        chk.violation('new iteration over a hash-ordered container: %r; digests still agree across hash seeds' % (new_sites[0],),
                      {'kind': 'inventory', 'new_sites': [list(x) for x in new_sites], 'broken': 'generated:inventory'}, found_input=False)


def replay(chk, path):
    d = json.load(open(path))['replay']
    print(json.dumps(d, indent=1, default=str, ensure_ascii=False)[:3000])
    return 0
