"""C04 — a multiple alignment is rectangular, lossless and order-preserving."""
from props import msa_common as mc


def run(chk):
    chk.rule = ('2-9 IPA sequences (duplicates, one very long sequence) x {progressive, library} x {upgma, neighbor} x {global, overlap, dialign} x '
                '3 models x 0-4 refinement / swap-check calls in random order; plain-token mult_align; generated wordlists for Alignments.align; '
                'every profile-merge step recorded; non-trivial = at least three sequences')
    chk.lean_obligations()
    mc.run_multiple(chk, 'C04')
    mc.run_mult_align(chk)
    mc.run_wordlist_alignments(chk)


def replay(chk, path):
    return mc.replay(chk, path)
