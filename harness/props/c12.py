"""C12 — all views of a wordlist describe the same rows."""
from props import wl_common as wc


def run(chk):
    chk.rule = ('generated wordlists (dictionaries and TSV files): 1-5 languages, 1-6 concepts, synonyms, empty cells, non-contiguous ids, '
                'unicode and case-variant names, extra columns, before/after add_entries; every accessor compared with an independent '
                'recomputation from the rows and with the Lean model; non-trivial = has a synonym row or more than one language')
    chk.lean_obligations()
    alias_obligation(chk)
    wc.run_views(chk, 'C12')


def alias_obligation(chk):
    """generated obligation over the namespace table: every alias of wordlist.rc reaches its column, in lower and upper case"""
    from lingpy.basic.parser import read_conf
    alias, klass, class_string, alias2 = read_conf('')
    bad = []
    for name, als in alias2.items():
        for a in als:
            if alias.get(a) != name:
                bad.append((name, a, alias.get(a)))
        if name not in als or name.upper() not in als and name.upper() not in alias:
            bad.append((name, 'case variants missing', als))
    for a, name in alias.items():
        if name and name not in alias2:
            bad.append((a, 'points to unknown column', name))
        if name and (alias.get(a.lower()) != name or alias.get(a.upper()) != name):
            bad.append((a, 'not reachable in both cases', name))
    chk.obligation('generated:AliasClosed(wordlist.rc) (%d columns, %d aliases)' % (len(alias2), len(alias)), 'generated-obligation',
                   not bad, str(bad[:3]))
    if bad:
        chk.violation('namespace wordlist.rc: alias table not closed: %r' % (bad[0],), {'kind': 'namespace', 'bad': bad[:10]})


def replay(chk, path):
    return wc.replay(chk, path)
