"""Shared check logic for C01 / C02 / C03 (pairwise aligners)."""
import glob
import itertools
import json
import zlib
import os
import sys

import common
import alignlib as al
from common import f2b, b2f

from lingpy.algorithm import calign, talign, malign

TOOL = 3


class Spy:
    """Reads the locals of watched functions when they return (no change to the repository)."""

    def __init__(self, funcs):
        self.codes = {f.__code__: name for name, f in funcs.items()}
        self.last = None

    def __enter__(self):
        mon = sys.monitoring
        try:
            mon.use_tool_id(TOOL, 'verif')
        except ValueError:
            mon.free_tool_id(TOOL)
            mon.use_tool_id(TOOL, 'verif')
        mon.register_callback(TOOL, mon.events.PY_RETURN, self._cb)
        for c in self.codes:
            mon.set_local_events(TOOL, c, mon.events.PY_RETURN)
        return self

    def _cb(self, code, off, retval):
        if code in self.codes:
            fr = sys._getframe(1)
            loc = fr.f_locals
            self.last = {'fn': self.codes[code], 'traceback': [list(r) for r in loc.get('traceback', [])],
                         'matrix': [list(r) for r in loc.get('matrix', [])],
                         'k': loc.get('k', loc.get('imax')), 'l': loc.get('l', loc.get('jmax'))}

    def __exit__(self, *a):
        mon = sys.monitoring
        for c in self.codes:
            mon.set_local_events(TOOL, c, 0)
        mon.register_callback(TOOL, mon.events.PY_RETURN, None)
        mon.free_tool_id(TOOL)


def case_to_json(c):
    d = dict(c)
    d['scorer'] = [[x, y, v] for (x, y), v in sorted(c['scorer'].items())]
    return d


def case_from_json(d):
    c = dict(d)
    c['scorer'] = {(x, y): v for x, y, v in d['scorer']}
    return c


def corpus_cases(pid):
    out = []
    for p in sorted(glob.glob(os.path.join(common.VERIF, 'corpus', 'align', '*.json'))):
        try:
            d = json.load(open(p))
            out.append((d['kname'], case_from_json(d['case'])))
        except Exception:
            pass
    return out


def nontrivial(res):
    if res[0] == 'G':
        A, B = res[1], res[2]
    elif res[0] == 'L':
        A, B = res[2], res[5]
    else:
        return False
    gap = any(x == al.GAP or y == al.GAP for x, y in zip(A, B))
    match = any(x != al.GAP and y != al.GAP for x, y in zip(A, B))
    return gap and match


def gen_stream(chk, kname, want):
    """(case, stream-name) pairs for one kernel."""
    rng = chk.rng
    out = []
    small = list(al.small_cases())
    if not chk.thorough:
        step = 23
        off = (chk.seed + zlib.crc32(kname.encode()) % 7) % step
        small = small[off::step]
    out += [(c, 'small') for c in small]
    n = chk.n(1000, 24000)
    maxlen = chk.n(8, 25)
    for _ in range(n):
        out.append((al.gen_case(rng, maxlen=maxlen, exact=True, force_scale1=(want == 'opt')), 'random-exact'))
    for _ in range(n // 3):
        out.append((al.gen_case(rng, maxlen=maxlen, exact=False, force_scale1=(want == 'opt')), 'random-float'))
    if want == 'opt':
        for c, _ in out:
            c['scale'] = 1.0
    return out


def real_with_table(kname, c, spy):
    spy.last = None
    res = al.call_real(kname, c)
    return res, spy.last


def tbobs_line(kname, c, obs):
    alpha = al.SYMS[:c['K']]
    idx = {s: i for i, s in enumerate(alpha)}
    loc = al.KERNELS[kname][3] == 'local'
    flat = [str(v) for row in obs['traceback'] for v in row]
    kl = '%d %d' % (obs['k'], obs['l']) if loc else ''
    return 'tbobs|%d|%s|%s|%s|%s' % (int(loc), ' '.join(str(idx[s]) for s in c['a']),
                                     ' '.join(str(idx[s]) for s in c['b']), ' '.join(flat), kl)


def tbobs_matches(out, c, res):
    """Does the Lean traceback over the observed table give the returned rows (borders ok)?"""
    t = out.split()
    if not t or t[0] == 'E' or t[1] != '1':
        return False
    alpha = al.SYMS[:c['K']]

    def cols(ts):
        A, B = [], []
        for tok in ts:
            x, y = tok.split(':')
            A.append(al.GAP if x == '-' else alpha[int(x)])
            B.append(al.GAP if y == '-' else alpha[int(y)])
        return A, B
    if t[0] == 'G' and res[0] == 'G':
        A, B = cols(t[2:])
        return A == res[1] and B == res[2]
    if t[0] == 'L' and res[0] == 'L':
        i0, j0 = int(t[2]), int(t[3])
        A, B = cols(t[4:])
        return (A == res[2] and B == res[5] and list(c['a'][:j0]) == res[1] and list(c['b'][:i0]) == res[4])
    return False


def rows_equal(r1, r2):
    if r1[0] != r2[0]:
        return False
    if r1[0] == 'E':
        return True
    return r1[1:-1] == r2[1:-1]


def compare(want, real, model, c):
    if want == 'rows':
        return rows_equal(real, model)
    if want == 'opt':
        if real[0] == 'E' or model[0] == 'E':
            return real[0] == model[0]
        return real[-1] == model[-1]
    return al.same(real, model)


def kernel_correspondence(chk, want):
    """Differential correspondence model <-> real kernels, plus the property oracle on the real results."""
    drv = common.Driver()
    funcs = {k: getattr(v[0], v[1]) for k, v in al.KERNELS.items()}
    corpus = corpus_cases(chk.pid)
    with Spy(funcs) as spy:
        for kname in al.KERNELS:
            mode = al.KERNELS[kname][3]
            if want in ('score', 'opt') and mode == 'dialign':
                continue
            stream = [(c, 'corpus') for kn, c in corpus if kn == kname] + gen_stream(chk, kname, want)
            cfg = al.default_cfg(kname)
            reals, obss = [], []
            for c, _ in stream:
                r, o = real_with_table(kname, c, spy)
                reals.append(r)
                obss.append(o)
            outs = drv.ask_many(['align|' + al.encode(cfg, c) for c, _ in stream])
            models = [al.decode(o, c) for o, (c, _) in zip(outs, stream)]
            bad_b = [i for i in range(len(stream)) if not compare(want, reals[i], models[i], stream[i][0])]
            ident = None
            if bad_b:
                # identification: is today's code another member of the proved family?
                sub = bad_b[:40] + list(range(0, len(stream), max(1, len(stream) // 150)))
                for alt in al.family(kname)[1:]:
                    o2 = drv.ask_many(['align|' + al.encode(alt, stream[i][0]) for i in sub])
                    if all(compare(want, reals[i], al.decode(o, stream[i][0]), stream[i][0]) for i, o in zip(sub, o2)):
                        o3 = drv.ask_many(['align|' + al.encode(alt, c) for c, _ in stream])
                        m3 = [al.decode(o, c) for o, (c, _) in zip(o3, stream)]
                        if all(compare(want, reals[i], m3[i], stream[i][0]) for i in range(len(stream))):
                            ident = alt
                            models = m3
                            bad_b = []
                            break
            tie_a_ok = None
            bad_a = []
            if want == 'score':
                # tie (a) of C02: the observed (matrix, traceback) pair is a legal table of the scheme (every cell one of the
                # candidates from its observed neighbours) and the Lean re-scoring of the Lean traceback over it equals the
                # returned similarity bit for bit (theorem C02_of_table_global/local)
                idxs = [i for i in range(len(stream)) if obss[i] is not None and reals[i][0] != 'E']
                lines = []
                for i in idxs:
                    o, c = obss[i], stream[i][0]
                    kl = '%d %d' % (o['k'], o['l']) if mode == 'local' else ''
                    lines.append('cellok|' + al.encode(cfg, c) + '|' + ' '.join(f2b(v) for row in o['matrix'] for v in row) + '|' +
                                 ' '.join(str(v) for row in o['traceback'] for v in row) + '|' + kl)
                o5 = drv.ask_many(lines)
                for i, o in zip(idxs, o5):
                    t = o.split()
                    simb = f2b(reals[i][-1])
                    if not (len(t) == 4 and t[0] == 'K' and t[1] == '1' and t[2] == simb and t[3] == simb):
                        bad_a.append(i)
                tie_a_ok = not bad_a and len(idxs) > 0
            if want == 'rows':
                idxs = [i for i in range(len(stream)) if obss[i] is not None and reals[i][0] != 'E']
                o4 = drv.ask_many([tbobs_line(kname, stream[i][0], obss[i]) for i in idxs])
                bad_a = [i for i, o in zip(idxs, o4) if not tbobs_matches(o, stream[i][0], reals[i])]
                tie_a_ok = not bad_a and len(idxs) > 0
            # oracles on the real results
            fails = []
            for i, (c, sname) in enumerate(stream):
                r = reals[i]
                chk.count(al.case_key(kname, c), nontrivial(r), branch=[kname, 'stream:' + sname])
                e = None
                if want == 'rows':
                    e = al.oracle_c01(kname, c, r)
                elif want == 'score' and r[0] != 'E':
                    rs = al.py_rescore(kname, c, r)
                    if not (rs == r[-1] or (rs != rs and r[-1] != r[-1])):
                        e = 'returned similarity %r differs from re-scoring the returned columns: %r' % (r[-1], rs)
                elif want == 'opt' and r[0] != 'E' and len(c['a']) <= 4 and len(c['b']) <= 4 and i % 3 == 0:
                    best = al.brute_best(kname, c)
                    if abs(best - r[-1]) > 1e-9:
                        e = 'returned score %r is not the optimum %r over all alignments' % (r[-1], best)
                if e:
                    fails.append((i, e))
            if stream:
                chk.sample({'kernel': kname, 'case': case_to_json(stream[-1][0]), 'real': reals[-1]}, limit=3)
            ok_b = not bad_b
            ok = ok_b or bool(tie_a_ok)
            detail = 'cases=%d' % len(stream)
            if ident:
                detail += ' identified family member differs from default: ' + json.dumps(
                    {k: ident[k] for k in al.FAMILY_AXES})
                chk.notes.append('%s identified as %s' % (kname, detail))
            if want == 'rows':
                detail += ' tie(a) observed-table traceback: %s; tie(b) end-to-end rows: %s' % (
                    'holds' if tie_a_ok else 'BROKEN(%d)' % len(bad_a), 'holds' if ok_b else 'BROKEN(%d)' % len(bad_b))
            elif want == 'score':
                detail += ' tie(a) observed table is a legal table of the scheme + Lean re-scoring == similarity: %s; tie(b) end-to-end bit-exact: %s' % (
                    'holds' if tie_a_ok else 'BROKEN(%d)' % len(bad_a), 'holds' if ok_b else 'BROKEN(%d)' % len(bad_b))
            else:
                detail += ' end-to-end differential (bit-exact score): %s' % ('holds' if ok_b else 'BROKEN(%d)' % len(bad_b))
            chk.obligation('correspondence:%s:%s' % (want, kname), 'correspondence', ok and not fails, detail)
            for i, e in fails[:2]:
                c = shrink_case(kname, stream[i][0], lambda cc: oracle_fails(want, kname, cc))
                chk.violation('%s: %s' % (kname, e),
                              {'kind': 'kernel', 'want': want, 'kname': kname, 'case': case_to_json(c),
                               'real': al.call_real(kname, c), 'why': e})
            if not ok and not fails:
                i = (bad_b or bad_a)[0]
                chk.violation('%s: model and code disagree and no failing input was found by the oracle' % kname,
                              {'kind': 'kernel', 'want': want, 'kname': kname, 'case': case_to_json(stream[i][0]),
                               'real': reals[i], 'model': models[i],
                               'broken': 'correspondence:%s:%s' % (want, kname)}, found_input=False)
    drv.close()


def oracle_fails(want, kname, c):
    r = al.call_real(kname, c)
    if want == 'rows':
        return al.oracle_c01(kname, c, r) is not None
    if r[0] == 'E':
        return False
    if want == 'score':
        return al.py_rescore(kname, c, r) != r[-1]
    if want == 'opt':
        if len(c['a']) > 5 or len(c['b']) > 5:
            return False
        return abs(al.brute_best(kname, c) - r[-1]) > 1e-9
    return False


def shrink_case(kname, c, fails):
    """Shrink sequences from both ends while the oracle still fails."""
    c = dict(c)
    changed = True
    while changed:
        changed = False
        for side, keys in (('a', ('a', 'wA', 'proA')), ('b', ('b', 'wB', 'proB'))):
            for cut in ('head', 'tail'):
                if len(c[side]) <= 1:
                    continue
                d = dict(c)
                for k in keys:
                    d[k] = d[k][1:] if cut == 'head' else d[k][:-1]
                try:
                    if fails(d):
                        c = d
                        changed = True
                except Exception:
                    pass
    return c


# ---------------------------------------------------------------------------
# dispatchers and pairwise.py wrappers

def dispatcher_checks(chk, want):
    """align_pair / align_pairs / align_pairwise / align_profile / corrdist of calign and talign, and the
    pairwise.py wrappers: the result must be what the identified kernel model returns for the routed call,
    and must satisfy the property oracle."""
    from lingpy.align import pairwise as pw
    drv = common.Driver()
    rng = chk.rng
    n = chk.n(1200, 24000)
    bad = []
    fails = []

    def route(c, mode, flavour):
        sec = bool(set(c['r']).intersection(set(c['proA'] + c['proB']))) if flavour == 0 else False
        pre = {0: 'c_', 1: 't_'}[flavour] + ('secondary_' if sec else '')
        kn = pre + {'global': 'globalign', 'overlap': 'semi_globalign', 'local': 'localign', 'dialign': 'dialign'}[mode]
        return kn

    for it in range(n):
        c = al.gen_case(rng, maxlen=chk.n(7, 16), exact=rng.random() < 0.8, force_scale1=(want == 'opt'))
        mode = rng.choice(al.MODES if want == 'rows' else al.MODES[:3])
        entry = rng.choice(['c.align_pair', 'c.align_pairs', 'c.align_pairs', 'c.align_pairs', 'c.align_pairwise', 'c.corrdist', 't.align_pair',
                            't.align_pairs', 't.align_pairwise', 'pw_align', 'nw_align', 'sw_align', 'we_align'])
        if rng.random() < 0.15:
            # restricted characters switched off by the empty string although the prosodic strings hold tones and boundaries at
            # different places: nothing is restricted then, every alignment competes
            c = dict(c, r='', proA=''.join(rng.choice('AXT_T') for _ in c['a']), proB=''.join(rng.choice('AX_TT') for _ in c['b']))
            chk.hist['dispatcher: restricted_chars empty, tones / boundaries in the prosodic strings'] += 1
        if rng.random() < 0.2:
            # a sequence against itself with a scorer whose diagonal is NOT the best choice (mismatches or gaps score higher):
            # the identity alignment is then not the optimum, and not even a legal local alignment when self-scores are negative
            c = dict(c, b=list(c['a']), wB=list(c['wA']), proB=c['proA'], scorer=dict(c['scorer']))
            lo = min(c['scorer'].values())
            for x in set(c['a']):
                c['scorer'][x, x] = rng.choice([lo, lo - 1.0, -1.0, 0.0, 2 * c['gop'] - 1.0])
            chk.hist['dispatcher:self-pair with a weak diagonal'] += 1
        a, b = list(c['a']), list(c['b'])
        wa, wb = a, b  # what a convenience wrapper receives
        if entry in ('pw_align', 'nw_align', 'sw_align', 'we_align') and rng.random() < 0.4 and all(len(x) == 1 for x in a + b):
            # the wrappers also take strings (one segment per character) and tuples; a blank is a character like any other
            s0 = rng.choice(sorted(set(a + b)))
            c = dict(c, a=[' ' if x == s0 else x for x in a], b=[' ' if x == s0 else x for x in b],
                     scorer={(' ' if x == s0 else x, ' ' if y == s0 else y): v for (x, y), v in c['scorer'].items()})
            a, b = list(c['a']), list(c['b'])
            wa, wb = ''.join(a), rng.choice([''.join(b), tuple(b), list(b)])
            chk.hist['wrapper called with a string (blank among the characters)'] += 1
        try:
            if entry.startswith('c.'):
                kn = route(c, mode, 0)
                if entry == 'c.align_pair':
                    r = calign.align_pair(a, b, list(c['wA']), list(c['wB']), c['proA'], c['proB'], c['gop'],
                                          c['scale'], c['factor'], c['scorer'], mode, c['r'], 2)
                    res, dist = (r[0], r[1], r[2]), r[3]
                elif entry == 'c.align_pairs':
                    # the batch entry point: each pair is aligned on its own - whether the secondary variant is used depends on
                    # the prosodic strings of THAT pair, whatever else is in the batch
                    seqs, wts, pros = [(a, b)], [(list(c['wA']), list(c['wB']))], [(c['proA'], c['proB'])]
                    pos = 0
                    if rng.random() < 0.6:
                        syms = sorted(set(a + b))
                        for _k in range(rng.choice([1, 2])):
                            ca = [rng.choice(syms) for _ in range(rng.randrange(1, 6))]
                            cb = [rng.choice(syms) for _ in range(rng.randrange(1, 6))]
                            pool = rng.choice(['AXBYC', 'AXT_', 'T_', 'ABC#'])
                            comp = ((ca, cb), ([1.0] * len(ca), [1.0] * len(cb)),
                                    (''.join(rng.choice(pool) for _ in ca), ''.join(rng.choice(pool) for _ in cb)))
                            kind = rng.random()
                            if kind < 0.3:
                                # the same two sequences the other way round (a word list compared in both directions)
                                comp = ((list(b), list(a)), (list(c['wB']), list(c['wA'])), (c['proB'], c['proA']))
                                chk.hist['align_pairs-batch: the reversed pair is in the batch'] += 1
                            elif kind < 0.6:
                                # the same class sequences with other prosodic strings / position weights (h and ʔ: one class, different sonority)
                                comp = ((list(a), list(b)),
                                        ([rng.choice([1.0, 1.5, 2.0, 0.5]) for _ in a], [rng.choice([1.0, 1.5, 2.0, 0.5]) for _ in b]),
                                        (''.join(rng.choice(pool) for _ in a), ''.join(rng.choice(pool) for _ in b)))
                                chk.hist['align_pairs-batch: the same sequences with other prosody / weights are in the batch'] += 1
                            elif kind < 0.8:
                                # other words with the SAME prosodic strings but their own position weights (weights are the caller's:
                                # nothing says they follow from the prosodic string)
                                comp = (([rng.choice(syms) for _ in a], [rng.choice(syms) for _ in b]),
                                        ([rng.choice([1.0, 1.5, 2.0, 0.5, 3.0]) for _ in a], [rng.choice([1.0, 1.5, 2.0, 0.5, 3.0]) for _ in b]),
                                        (c['proA'], c['proB']))
                                chk.hist['align_pairs-batch: other words with the same prosodic strings and other weights are in the batch'] += 1
                            at = rng.randrange(len(seqs) + 1)
                            seqs.insert(at, comp[0]); wts.insert(at, comp[1]); pros.insert(at, comp[2])
                            if at <= pos:
                                pos += 1
                        chk.hist['align_pairs-batch-size:%d' % len(seqs)] += 1
                    r = calign.align_pairs(seqs, wts, pros, c['gop'], c['scale'], c['factor'], c['scorer'], mode, c['r'], 2)[pos]
                    res, dist = (r[0], r[1], r[2]), r[3]
                elif entry == 'c.align_pairwise':
                    # secondary detection is over *all* prosodic strings here
                    r = calign.align_pairwise([a, b], [list(c['wA']), list(c['wB'])], [c['proA'], c['proB']],
                                              c['gop'], c['scale'], c['factor'], c['scorer'], c['r'], mode)[1]
                    res, dist = (r[0], r[1], r[2]), r[3]
                else:
                    corrs, inc = calign.corrdist(2.0, [(a, b)], [(list(c['wA']), list(c['wB']))],
                                                 [(c['proA'], c['proB'])], c['gop'], c['scale'], c['factor'],
                                                 c['scorer'], mode, c['r'])
                    res, dist = None, None
                real = al.canon_real(kn, res) if res is not None else None
            elif entry.startswith('t.'):
                kn = route(c, mode, 1)
                if entry == 't.align_pair':
                    r = talign.align_pair(a, b, c['gop'], c['scale'], c['scorer'], mode, 2)
                elif entry == 't.align_pairs':
                    r = talign.align_pairs([(a, b)], c['gop'], c['scale'], c['scorer'], mode, 2)[0]
                else:
                    r = talign.align_pairwise([a, b], c['gop'], c['scale'], c['scorer'], mode)[1]
                res, dist = (r[0], r[1], r[2]), r[3]
                real = al.canon_real(kn, res)
            elif entry == 'pw_align':
                kn = route(c, mode, 1)
                if want == 'score' and rng.random() < 0.5:
                    # the caller's scorer together with distance=True: the distance is the one of the similarity under THAT scorer
                    chk.hist['pw_align with a scorer and distance=True'] += 1
                    given = dict(c['scorer'])
                    try:
                        rd = pw.pw_align(wa, wb, gop=c['gop'], scale=c['scale'], scorer=given, mode=mode, distance=True)
                        rs = pw.pw_align(wa, wb, gop=c['gop'], scale=c['scale'], scorer=dict(c['scorer']), mode=mode)
                        sA_ = sum([c['scorer'][x, x] for x in a])
                        sB_ = sum([c['scorer'][x, x] for x in b])
                        exp_d = 1 - (2 * rs[2]) / (sA_ + sB_)
                        if given != c['scorer']:
                            fails.append((entry, mode, c, 'pw_align(distance=True) changed the scorer it was given'))
                        elif not (rd[2] == exp_d or abs(rd[2] - exp_d) <= 1e-12 or (rd[2] != rd[2] and exp_d != exp_d)):
                            fails.append((entry, mode, c, 'pw_align(distance=True) returns %r, 1 - 2*sim/(selfA+selfB) under the given scorer is %r (sim %r)' % (rd[2], exp_d, rs[2])))
                    except ZeroDivisionError:
                        pass
                if want == 'rows' and rng.random() < 0.4:
                    # the wrapper's own scorer and distance=True (the normalised distance in place of the similarity): the rows are rows
                    # of the two inputs all the same, and the caller's sequences stay what they were
                    chk.hist['pw_align with its default scorer and distance=True'] += 1
                    wa2 = list(wa) if isinstance(wa, list) else wa
                    wb2 = list(wb) if isinstance(wb, list) else wb
                    try:
                        rd = pw.pw_align(wa2, wb2, gop=c['gop'], scale=c['scale'], mode=mode, distance=True)
                        e_d = al.oracle_c01(kn, c, al.canon_real(kn, rd))
                        if not e_d and (list(wa2) != list(wa) or list(wb2) != list(wb)):
                            e_d = 'the sequence passed in was changed: %r -> %r' % (list(wa), list(wa2))
                    except ZeroDivisionError:
                        e_d = None
                    if e_d:
                        fails.append((entry + '(distance=True, default scorer)', mode, c, e_d))
                r = pw.pw_align(wa, wb, gop=c['gop'], scale=c['scale'], scorer=c['scorer'], mode=mode)
                real, dist = al.canon_real(kn, r), None
            elif entry == 'nw_align':
                kn = 'm_nw_align'
                c = dict(c, gop=float(int(c['gop'])) or -1.0)
                r = pw.nw_align(wa, wb, scorer=c['scorer'], gap=c['gop'])
                real, dist = al.canon_real(kn, r), None
            elif entry == 'sw_align':
                kn = 'm_sw_align'
                c = dict(c, gop=float(int(c['gop'])) or -1.0)
                r = pw.sw_align(wa, wb, scorer=c['scorer'], gap=c['gop'])
                real, dist = al.canon_real(kn, r), None
            else:
                kn = 'm_sw_align'
                c = dict(c, gop=-1.0)
                outs = pw.we_align(wa, wb, scorer=c['scorer'], gap=-1)
                # every returned part: equal length, no double gap, de-gaps to an infix of the input
                e = None
                for pa, pb, sim in outs:
                    if len(pa) != len(pb) or any(x == al.GAP and y == al.GAP for x, y in zip(pa, pb)):
                        e = 'we_align part malformed'
                    if not is_infix(al.degap(pa), a) or not is_infix(al.degap(pb), b):
                        e = 'we_align part does not de-gap to an infix of the input'
                chk.count(('we', al.case_key(kn, c)), bool(outs), branch='entry:we_align')
                if e and want == 'rows':
                    fails.append((entry, mode, c, e))
                # the first part is the Smith-Waterman optimum: compare with the sw model
                if outs:
                    m = al.call_real('m_sw_align', c)
                    if m[0] == 'L' and not (outs[0][0] == m[2] and outs[0][1] == m[5] and float(outs[0][2]) == m[-1]):
                        bad.append((entry, mode, c, outs[0], m))
                continue
        except ZeroDivisionError:
            # self-scores sum to zero: the normalised distance is undefined (rejected input)
            chk.hist['rejected:zero-self-score'] += 1
            continue
        except Exception as ex:  # noqa
            fails.append((entry, mode, c, 'raised %s: %s' % (type(ex).__name__, ex)))
            continue
        if entry == 'c.corrdist':
            # correspondences counted from the returned alignment: model columns must give the same multiset
            m = al.call_real(kn, c)
            if m[0] == 'E':
                continue
            A, B = (m[1], m[2]) if m[0] == 'G' else (m[2], m[5])
            exp = {}
            for x, y in zip(A, B):
                exp[x, y] = exp.get((x, y), 0) + 1
            chk.count(('corrdist', al.case_key(kn, c)), True, branch='entry:corrdist')
            if inc == 1 and corrs != exp and want == 'rows':
                bad.append((entry, mode, c, corrs, exp))
            continue
        chk.count((entry, mode, al.case_key(kn, c)), nontrivial(real), branch='entry:' + entry)
        cfg = al.default_cfg(kn)
        line = al.encode(cfg, c) if dist is not None else None
        # routing tie: the entry point returns what the routed kernel returns for the routed arguments
        # (the kernel itself is tied to the Lean model by kernel_correspondence)
        m = al.call_real(kn, c)
        if not compare(want, real, m, c):
            bad.append((entry, mode, c, real, m, kn))
        if want == 'score' and dist is not None and real[0] != 'E':
            d = drv.ask('distof|' + line + '|' + f2b(real[-1])).split()
            if d[0] == 'D' and b2f(d[1]) != float(dist) and not (b2f(d[1]) != b2f(d[1]) and dist != dist):
                bad.append((entry + ':distance', mode, c, dist, b2f(d[1])))
            # oracle: distance formula on the returned similarity
            fl = al.KERNELS[kn][2]
            sA = sum([(1.0 + c['factor']) * c['scorer'][x, x] for x in a]) if fl == 0 else sum([c['scorer'][x, x] for x in a])
            sB = sum([(1.0 + c['factor']) * c['scorer'][x, x] for x in b]) if fl == 0 else sum([c['scorer'][x, x] for x in b])
            try:
                exp = 1 - (2 * real[-1]) / (sA + sB)
                if not (exp == dist or abs(exp - dist) <= 1e-12 or (exp != exp and dist != dist)):
                    fails.append((entry, mode, c, 'distance %r is not 1-2*sim/(selfA+selfB)=%r' % (dist, exp)))
            except ZeroDivisionError:
                pass
        e = None
        if want == 'rows':
            e = al.oracle_c01(kn, c, real)
        elif want == 'opt' and real[0] != 'E' and len(a) <= 4 and len(b) <= 4 and al.KERNELS[kn][3] != 'dialign':
            best = al.brute_best(kn, c)
            if abs(best - real[-1]) > 1e-9:
                e = 'returned score %r is not the optimum %r over all alignments' % (real[-1], best)
        elif want == 'score' and real[0] != 'E' and al.KERNELS[kn][3] != 'dialign':
            try:
                rs = al.py_rescore(kn, c, real)
            except (IndexError, KeyError) as ex:
                rs, e = None, 'the returned columns are not columns of the two inputs, they cannot be re-scored (%s)' % type(ex).__name__
            if e is None and rs != real[-1] and not (rs != rs):
                e = 'similarity %r != re-scored %r' % (real[-1], rs)
        if e:
            fails.append((entry, mode, c, e))
    drv.close()
    ok = not bad
    chk.obligation('correspondence:%s:dispatchers+wrappers' % want, 'correspondence', ok and not fails,
                   'calls=%d mismatches=%d oracle-failures=%d' % (n, len(bad), len(fails)))
    for f in fails[:2]:
        chk.violation('%s (%s): %s' % (f[0], f[1], f[3]),
                      {'kind': 'dispatcher', 'want': want, 'entry': f[0], 'mode': f[1], 'case': case_to_json(f[2]), 'why': f[3]})
    if bad and not fails and want == 'opt':
        # failing-input search: the exhaustive optimum on the (longer) cases where the tie broke
        for b in bad[:12]:
            c, real = b[2], b[3]
            try:
                if len(b) < 6:
                    continue
                kn = b[5]
                lim = 5 if al.KERNELS[kn][3] == 'local' else 7
                if real is None or real[0] == 'E' or al.KERNELS[kn][3] == 'dialign' or len(c['a']) > lim or len(c['b']) > lim or c['scale'] != 1:
                    continue
                best = al.brute_best(kn, c)
            except Exception:  # noqa
                continue
            if abs(best - real[-1]) > 1e-9:
                fails.append((b[0], b[1], c, 'returned score %r is not the optimum %r over all alignments' % (real[-1], best)))
                chk.violation('%s (%s): %s' % (b[0], b[1], fails[-1][3]),
                              {'kind': 'dispatcher', 'want': want, 'entry': b[0], 'mode': b[1], 'case': case_to_json(c), 'why': fails[-1][3]})
                break
    if bad and not fails:
        b = bad[0]
        chk.violation('%s (%s): entry point differs from the routed kernel call / Lean distance; oracle found no failing input' % (b[0], b[1]),
                      {'kind': 'dispatcher', 'want': want, 'entry': b[0], 'mode': b[1], 'case': case_to_json(b[2]),
                       'real': b[3], 'model': b[4], 'broken': 'correspondence:%s:dispatchers+wrappers' % want},
                      found_input=False)


def is_infix(x, y):
    n = len(x)
    return any(list(y[i:i + n]) == list(x) for i in range(len(y) - n + 1))


# ---------------------------------------------------------------------------
# class2tokens and the IPA-level entry point

def class2tokens_checks(chk):
    from lingpy.sequence.sound_classes import class2tokens
    drv = common.Driver()
    rng = chk.rng
    bad, fails = [], []
    n = chk.n(1200, 80000)
    lines, cases = [], []
    for _ in range(n):
        L = rng.choice([1, 2, 3, 4, 6, 9])
        tokens = ['t%d' % i for i in range(L)]
        classes = []
        k = 0
        while k < L:
            if rng.random() < 0.3:
                classes.append(rng.choice('-X'))
            else:
                classes.append(rng.choice('KPTSAEI'))
                k += 1
        while rng.random() < 0.3:
            classes.append('-')
        cases.append((tokens, classes))
        lines.append('class2tokens|%d|%s' % (L, ' '.join('0' if c in '-X' else '1' for c in classes)))
    outs = drv.ask_many(lines)
    for (tokens, classes), o in zip(cases, outs):
        real = class2tokens(tokens, classes)
        model = [('-' if t == '-' else 't' + t) for t in o.split()[1:]] if o.startswith('C') else None
        chk.count(('c2t', tuple(classes)), '-' in classes or 'X' in classes, branch='class2tokens')
        if real != model:
            bad.append((tokens, classes, real, model))
        if ([t for t in real if t != '-'] != tokens or len(real) != len(classes)
                or any((r == '-') != (c in '-X') for r, c in zip(real, classes))):
            fails.append((tokens, classes, real))
    # local mode: [prefix, aligned core, suffix]; gaps in the core spelled '-' or 'X', default and other output gap symbols
    lines, cases = [], []
    for _ in range(n // 2):
        L = rng.choice([1, 2, 3, 4, 6, 9])
        tokens = ['t%d' % i for i in range(L)]
        pre = rng.randrange(0, L)
        suf = rng.randrange(0, L - pre)
        core = L - pre - suf
        mid, k = [], 0
        while k < core:
            if rng.random() < 0.35:
                mid.append(rng.choice('-X'))
            else:
                mid.append(rng.choice('KPTSAEI'))
                k += 1
        while rng.random() < 0.25:
            mid.append(rng.choice('-X'))
        gap_char = rng.choice(['-', '-', 'Ø', '*'])
        classes = ['K' * pre, ''.join(mid) if rng.random() < 0.5 else list(mid), 'K' * suf]
        cases.append((tokens, classes, gap_char, pre, suf, mid))
        lines.append('class2tokensL|%d %d %d|%s' % (L, pre, suf, ' '.join('0' if c in '-X' else '1' for c in mid)))
    outs = drv.ask_many(lines)
    nloc = 0
    for (tokens, classes, gap_char, pre, suf, mid), o in zip(cases, outs):
        try:
            real = class2tokens(tokens, classes, gap_char=gap_char, local=True)
        except Exception as ex:  # noqa
            fails.append((tokens, classes, 'local: raised %s' % type(ex).__name__))
            continue
        nloc += 1
        model = [(gap_char if t == '-' else 't' + t) for t in o.split()[1:]] if o.startswith('C') else None
        chk.count(('c2t-local', tuple(mid), pre, suf, gap_char), any(c in '-X' for c in mid) and suf > 0, branch='class2tokens-local')
        if real != model:
            bad.append((tokens, classes, real, model))
        want = tokens[pre:len(tokens) - suf]
        if ([t for t in real if t != gap_char] != want or len(real) != len(mid)
                or any((r == gap_char) != (c in '-X') for r, c in zip(real, mid))):
            fails.append((tokens, classes, real))
    drv.close()
    chk.obligation('correspondence:class2tokens (global and local mode)', 'correspondence', not bad and not fails,
                   'cases=%d local=%d mismatches=%d oracle-failures=%d' % (n, nloc, len(bad), len(fails)))
    for f in fails[:1]:
        chk.violation('class2tokens loses/moves tokens', {'kind': 'class2tokens', 'tokens': f[0], 'classes': f[1], 'real': f[2]})
    if bad and not fails:
        chk.violation('class2tokens differs from model; no failing input found',
                      {'kind': 'class2tokens', 'tokens': bad[0][0], 'classes': bad[0][1], 'real': bad[0][2],
                       'model': bad[0][3], 'broken': 'correspondence:class2tokens'}, found_input=False)


WORDS = ['tʰɔxtər', 'dɔːtər', 'hant', 'hænd', 'ʃtɛrn', 'stɑːr', 'vɔlf', 'wʊlf', 'fɪʃ', 'pisk', 'a', 'ai', 'ts',
         'waldemar', 'woldemort', 'ʒiˈvɔt', 'tɕʰjɛn⁵¹', 'pʰjɛn³⁵', 'kaːu̯ən', 'ɡəʃaft', 'mat͡ʃi', 'ʔaŋ', 'ŋ̍',
         'ma⁵⁵ma²¹', 'θɪŋk', 'ðɪs', 'ʁoːt', 'ɾoxo', 'ɕiː', 'ɲo', 'ʋesi', 'ɦuis',
         # decomposed spellings (base letter + combining mark that has a precomposed form)
         'ma\u0303no', 'mane\u0301', 'c\u0327a', 'u\u0308ber', 'n\u0303u', 'po\u0303e\u0301']


def pairwise_entry(chk, want='rows'):
    """Pairwise(...).align in all modes: IPA strings / token lists -> tokens -> classes -> align_pairs -> class2tokens.
    want='rows': the C01 statement against the tokens the object held BEFORE align(); want='score': the alignments are what the kernel
    returns for the REQUESTED parameters (explicit zeros and empty strings included) on the object's prepared sequences."""
    import copy
    from lingpy.align.pairwise import Pairwise
    from lingpy.sequence.sound_classes import ipa2tokens
    rng = chk.rng
    fails = []
    n = chk.n(200, 6000)
    for _ in range(n):
        wa, wb = rng.choice(WORDS), rng.choice(WORDS)
        if rng.random() < 0.4:
            wa = wa + rng.choice(WORDS)
        if rng.random() < 0.3:
            # segmented input; a segment may be written in source/target notation (the target is what is analysed, the segment as
            # written is what the alignment has to show)
            wa, wb = ipa2tokens(wa), ipa2tokens(wb)
            for w in (wa, wb):
                if rng.random() < 0.6:
                    k = rng.randrange(len(w))
                    w[k] = rng.choice(['h₂', '?', 'X']) + '/' + w[k]
            if rng.random() < 0.5:
                wa, wb = ' '.join(wa), ' '.join(wb)
            chk.hist['Pairwise: segmented input (source/target notation possible)'] += 1
        mode = rng.choice(al.MODES)
        kw = dict(mode=mode, gop=rng.choice([-1, -2, -0.5, 0]), scale=rng.choice([0.5, 1.0, 0.3]),
                  factor=rng.choice([0.3, 0.0, 1.0, 0, 1.5, 2.5]), restricted_chars=rng.choice(['T_', '', '_']))
        if rng.random() < 0.3:
            kw['distance'] = rng.choice([True, False])
        topts = {}
        if isinstance(wa, str) and ' ' not in wa and ' ' not in wb and rng.random() < 0.5:
            # the segmentation options of the constructor: the same spelling is segmented one way in one object and another way in the
            # next (the pool of words is small, every word comes by with both settings in one process)
            topts = rng.choice([dict(merge_vowels=False), dict(merge_geminates=False), dict(merge_vowels=False, merge_geminates=False),
                                dict(semi_diacritics='hs')])
            chk.hist['Pairwise: constructor with segmentation options'] += 1
        try:
            p = Pairwise(copy.deepcopy(wa), copy.deepcopy(wb), **topts)
            held = copy.deepcopy(p.tokens)
            p.align(**kw)
            tokA, tokB = held[0]
            # what the caller passed: a list is taken as it is, a string with blanks is split at them, a plain string is segmented
            for w_, which_ in ((wa, 0), (wb, 1)):
                passed = list(w_) if isinstance(w_, (list, tuple)) else (w_.split(' ') if ' ' in w_ else ipa2tokens(w_, **topts))
                if want == 'rows' and list(held[0][which_]) != passed:
                    raise AssertionError('the object holds the segments %r for the input %r (passed / segmented independently: %r)' % (list(held[0][which_]), w_, passed))
            almA, almB, sim = p.alignments[0]
            clA, clB, _ = p._alignments[0]
        except AssertionError as ex:
            fails.append((wa, wb, kw, str(ex)))
            continue
        except ValueError as ex:
            if 'unknown characters' in str(ex):
                chk.hist['rejected:sequence of unknown characters only'] += 1      # documented rejection of the class converter
                continue
            fails.append((wa, wb, kw, 'raised %s: %s' % (type(ex).__name__, ex)))
            continue
        except Exception as ex:  # noqa
            fails.append((wa, wb, kw, 'raised %s: %s' % (type(ex).__name__, ex)))
            continue
        chk.count(('pairwise', str(wa), str(wb), tuple(sorted(kw.items()))), '-' in almA or '-' in almB, branch='entry:Pairwise.align/' + mode)
        e = None
        if want == 'score':
            try:
                exp = calign.align_pairs(p.classes, p.weights, p.prostrings, kw['gop'], kw['scale'], kw['factor'], p.scoredict,
                                         kw['mode'], kw['restricted_chars'], distance=1 if kw.get('distance') else 0)[0]
                got = p._alignments[0]
                if (got[0], got[1]) != (exp[0], exp[1]) or not (got[2] == exp[2] or (got[2] != got[2] and exp[2] != exp[2])):
                    e = ('Pairwise.align returned %r / score %r, the kernel called with the requested parameters on the same prepared sequences gives %r / %r'
                         % ((got[0], got[1]), got[2], (exp[0], exp[1]), exp[2]))
            except ZeroDivisionError:
                pass
            if e:
                fails.append((wa, wb, kw, e))
            continue
        if held != p.tokens:
            e = 'align() changed the segments the object holds: %r -> %r' % (held[0], p.tokens[0])
        elif len(almA) != len(almB):
            e = 'rows differ in length'
        elif any(x == '-' and y == '-' for x, y in zip(almA, almB)):
            e = 'double gap'
        elif mode != 'local':
            if al.degap(almA) != list(tokA) or al.degap(almB) != list(tokB):
                e = 'row %r does not de-gap to the tokens %r' % (almA if al.degap(almA) != list(tokA) else almB, tokA if al.degap(almA) != list(tokA) else tokB)
        else:
            pa, sa = len(clA[0]), len(clA[2])
            pb, sb = len(clB[0]), len(clB[2])
            if al.degap(almA) != list(tokA)[pa:len(tokA) - sa] or al.degap(almB) != list(tokB)[pb:len(tokB) - sb]:
                e = 'aligned part does not de-gap to tokens[prefix:-suffix]'
            if len(clA[0]) + len(al.degap(clA[1])) + len(clA[2]) != len(tokA):
                e = 'class-level prefix+aligned+suffix does not cover the word'
        if e:
            fails.append((wa, wb, kw, e))
    chk.obligation('oracle:Pairwise.align (IPA level, %s)' % want, 'correspondence', not fails, 'calls=%d failures=%d' % (n, len(fails)))
    for f in fails[:1]:
        chk.violation('Pairwise.align(%r,%r,%r): %s' % f, {'kind': 'pairwise', 'seqA': f[0], 'seqB': f[1], 'kw': f[2], 'why': f[3]})


def replay(chk, path):
    d = json.load(open(path))['replay']
    if d.get('kind') == 'kernel':
        c = case_from_json(d['case'])
        r = al.call_real(d['kname'], c)
        print('real result:', r)
        bad = oracle_fails(d['want'], d['kname'], c)
        print('oracle:', 'FAILS' if bad else 'passes')
        return 1 if bad else 0
    print(json.dumps(d, indent=1, default=str)[:3000])
    return 0
