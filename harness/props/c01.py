"""C01 — pairwise alignment never alters, drops or reorders the input segments."""
import json
import os

import common
import alignlib as al
from props import align_common as ac


def run(chk):
    chk.rule = ('kernel inputs: exhaustive small scope (alphabet {a,b}, lengths 1..3, 3 scorers, 3 prosody patterns; '
                'quick = seed-dependent slice) + structured random (tie-rich exact-representable scores, lengths <= 8/25) '
                '+ float-valued stream, through all 14 kernels, the dispatchers and the pairwise.py wrappers; '
                'non-trivial = the returned alignment contains at least one gap and one match column; distinct by full input')
    chk.lean_obligations()
    ac.kernel_correspondence(chk, want='rows')
    ac.dispatcher_checks(chk, want='rows')
    ac.class2tokens_checks(chk)
    ac.pairwise_entry(chk)


def replay(chk, path):
    return ac.replay(chk, path)
