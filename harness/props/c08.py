"""C08 — the weighted gain-loss scenario has minimum weight."""
from props import gl_common as gc


def run(chk):
    chk.rule = ('as C07 (get_gls only); optimum by dynamic programming over (node, state), cross-checked by exhaustive enumeration of all '
                'labelings on trees with <= 7 leaves; non-binding limit = gpl >= number of leaves; non-trivial = pattern with an absence and >= 2 presences')
    chk.lean_obligations()
    gc.run_get_gls(chk, 'optimal')
    gc.run_phybo_wordlist(chk, want='C08')


def replay(chk, path):
    return gc.replay(chk, path)
