"""C03 — with linear gap costs alignment is exact: optimal score, Levenshtein distance, self-distance 0."""
import itertools
import os

import common
import alignlib as al
from props import align_common as ac


def py_lev(a, b):
    """independent Levenshtein (two-row DP over suffixes, written differently from the library)"""
    prev = list(range(len(b) + 1))
    for i in range(1, len(a) + 1):
        cur = [i] + [0] * len(b)
        for j in range(1, len(b) + 1):
            cur[j] = min(prev[j] + 1, cur[j - 1] + 1, prev[j - 1] + (a[i - 1] != b[j - 1]))
        prev = cur
    return prev[-1]


def edit_checks(chk):
    from lingpy.algorithm import malign
    from lingpy.align.pairwise import edit_dist
    drv = common.Driver()
    rng = chk.rng
    cases = []
    # exhaustive: 3-letter alphabet up to length 3 (quick) / 4 (thorough)
    L = chk.n(3, 4)
    words = [w for l in range(0, L + 1) for w in itertools.product('abc', repeat=l)]
    for x in words:
        for y in words:
            cases.append((list(x), list(y)))
    for _ in range(chk.n(1500, 40000)):
        K = rng.choice([1, 2, 3, 5])
        cases.append(([rng.choice('abcde'[:K]) for _ in range(rng.randrange(0, 12))],
                      [rng.choice('abcde'[:K]) for _ in range(rng.randrange(0, 12))]))
    idx = {c: i for i, c in enumerate('abcde')}
    outs = drv.ask_many(['edit|%s|%s' % (' '.join(str(idx[c]) for c in a), ' '.join(str(idx[c]) for c in b)) for a, b in cases])
    bad, fails = [], []
    for (a, b), o in zip(cases, outs):
        t = o.split()
        model, mlev = int(t[1]), int(t[2])
        try:
            real = malign.edit_dist(a, b, False)
        except Exception as ex:  # noqa  (both empty etc.)
            real = 'E'
        exp = py_lev(a, b)
        chk.count(('edit', tuple(a), tuple(b)), a != b and len(a) > 0 and len(b) > 0, branch='edit_dist')
        if real != 'E' and real != model:
            bad.append((a, b, real, model))
        if model != mlev:
            bad.append((a, b, 'editDist', model, 'lev', mlev))
        if real != 'E' and real != exp:
            fails.append((a, b, 'edit_dist=%r, Levenshtein=%r' % (real, exp)))
        if real != 'E' and (a or b):
            nd = malign.edit_dist(a, b, True)
            if abs(nd - exp / max(len(a), len(b))) > 1e-12 or not (0.0 <= nd <= 1.0):
                fails.append((a, b, 'normalised edit_dist=%r, expected %r' % (nd, exp / max(len(a), len(b)))))
            if edit_dist(''.join(a), ''.join(b)) != exp and a and b:
                fails.append((a, b, 'pairwise.edit_dist wrapper differs from Levenshtein'))
    # metric clauses on the real code (triangle inequality is tested, not proved)
    tri = 0
    small = [w for l in range(0, chk.n(3, 4)) for w in itertools.product('ab', repeat=l)] + [tuple('abc'), tuple('cab'), tuple('acb')]
    for x, y, z in itertools.product(small, repeat=3):
        if not (x and y and z):
            continue
        dxy, dyz, dxz = (malign.edit_dist(list(x), list(y), False), malign.edit_dist(list(y), list(z), False),
                         malign.edit_dist(list(x), list(z), False))
        tri += 1
        chk.evaluations += 1
        if dxz > dxy + dyz:
            fails.append((list(x), list(z), 'triangle inequality fails via %r' % (y,)))
        if malign.edit_dist(list(y), list(x), False) != dxy:
            fails.append((list(x), list(y), 'edit_dist not symmetric'))
        if (dxy == 0) != (x == y):
            fails.append((list(x), list(y), 'identity of indiscernibles fails'))
    drv.close()
    chk.tested_not_proved.append('edit distance: symmetry, d = 0 iff equal and the triangle inequality are theorems about the model (C03_edit_symm, C03_edit_zero_iff, C03_edit_triangle); on the real code they are additionally tested exhaustively over short words (%d triples)' % tri)
    chk.obligation('correspondence:edit_dist (model editDist == malign.edit_dist; == textbook lev)', 'correspondence',
                   not bad and not fails, 'cases=%d mismatches=%d oracle-failures=%d' % (len(cases), len(bad), len(fails)))
    for f in fails[:2]:
        chk.violation('edit_dist(%r,%r): %s' % (f[0], f[1], f[2]), {'kind': 'edit', 'a': f[0], 'b': f[1], 'why': f[2]})
    if bad and not fails:
        chk.violation('edit_dist differs from the model, no failing input found',
                      {'kind': 'edit', 'case': bad[0], 'broken': 'correspondence:edit_dist'}, found_input=False)


def self_distance(chk):
    """For every shipped sound-class model with a scorer and every mode, d(x, x) = 0 (|d| <= 1e-9 on doubles)."""
    from lingpy.align.pairwise import Pairwise
    from lingpy import rc
    from lingpy.data.model import Model
    rng = chk.rng
    fails = []
    models = {}
    for m in ['sca', 'dolgo', 'asjp', 'cv', 'jaeger']:
        try:
            models[m] = rc(m) if m in ('sca', 'dolgo', 'asjp') else Model(m)
        except Exception:
            pass
    vowels = 'aeiouɛɔəyøɑæɪʊ'
    cons = 'ptkbdgmnŋfvszʃʒxhlrjwʔθðɲɾʁ'
    tones = '¹²³⁴⁵'
    n = chk.n(400, 8000)
    for it in range(n):
        w = ''
        for _ in range(rng.randrange(1, 5)):
            w += rng.choice(cons) + (rng.choice(['ʰ', 'ʲ', 'ː', '']) if rng.random() < 0.3 else '')
            w += rng.choice(vowels) + (rng.choice(vowels) if rng.random() < 0.2 else '')
            if rng.random() < 0.3:
                w += rng.choice(cons)
            if rng.random() < 0.2:
                w += rng.choice(tones) + rng.choice(tones)
        mname = rng.choice(sorted(models))
        mode = rng.choice(al.MODES)
        kw = dict(mode=mode, model=models[mname], distance=True, gop=rng.choice([-1, -2, -0.5]),
                  scale=rng.choice([0.5, 1.0, 0.3]), factor=rng.choice([0.3, 0.0, 1.0]),
                  restricted_chars=rng.choice(['T_', '']))
        try:
            p = Pairwise(w, w)
            p.align(**kw)
            d = p.alignments[0][2]
        except Exception as ex:  # noqa
            fails.append((w, mname, mode, 'raised %s' % type(ex).__name__))
            continue
        chk.count(('self', w, mname, mode, kw['gop'], kw['scale'], kw['factor'], kw['restricted_chars']), len(w) > 2,
                  branch='self-distance/%s/%s' % (mname, mode))
        if not abs(d) <= 1e-9:
            fails.append((w, mname, mode, 'distance of a word to itself is %r' % d))
    chk.tested_not_proved.append('self-distance 0 on doubles (tolerance 1e-9) and in local / dialign mode: tested on generated IPA words; in exact arithmetic, global and overlap mode, it is the theorem C03_self_distance with the hypothesis DiagDom discharged for every shipped matrix by the generated module')
    chk.obligation('oracle:self-distance (shipped models x 4 modes)', 'correspondence', not fails, 'words=%d failures=%d' % (n, len(fails)))
    for f in fails[:2]:
        chk.violation('Pairwise(%r,%r) model=%s mode=%s: %s' % (f[0], f[0], f[1], f[2], f[3]),
                      {'kind': 'self-distance', 'word': f[0], 'model': f[1], 'mode': f[2], 'why': f[3]})
    return fails


GEN_SCORERS = os.path.join(common.LEAN, 'Verif', 'Generated', 'Scorers.lean')


def translate_scorers(chk):
    """translator: the shipped scoring matrices (src/lingpy/data/models/<model>/matrix, read here as text, not through the library) ->
    Verif/Generated/Scorers.lean: per model the table of scores times a common denominator, with `diagDomTable` evaluated by `decide`
    and `DiagDom (scorerOf table D)` - the hypothesis of C03_self_distance - derived from it.  Rewritten on every run."""
    from fractions import Fraction
    from math import lcm
    base = os.path.join(common.REPO, 'src', 'lingpy', 'data', 'models')
    tables = {}
    for model in sorted(os.listdir(base)):
        p = os.path.join(base, model, 'matrix')
        if not os.path.isfile(p):
            continue
        rows, syms = [], []
        for line in open(p, encoding='utf-8-sig').read().split('\n'):
            cells = line.rstrip('\r').split('\t')
            if len(cells) > 1:
                syms.append(cells[0])
                rows.append([Fraction(x) for x in cells[1:] if x.strip() != ''])
        if not rows or any(len(r) != len(rows) for r in rows):
            chk.hist['scorer matrix of %s is not square: skipped' % model] += 1
            continue
        # the classes a sequence can hold: those the converter file of the model emits, and the marker '0' of an unknown sound
        # (symbols like '!' or '+' that no sound is mapped to may have any scores)
        emitted = {'0'}
        pc = os.path.join(base, model, 'converter')
        if os.path.isfile(pc):
            import unicodedata
            for line in unicodedata.normalize('NFC', open(pc, encoding='utf-8-sig').read()).split('\n'):
                if ' : ' in line:
                    emitted.add(line.split(' : ', 1)[0])
        keep = [i for i, c in enumerate(syms) if c in emitted]
        rows = [[rows[i][j] for j in keep] for i in keep]
        if not rows:
            continue
        D = 1
        for r in rows:
            for v in r:
                D = lcm(D, v.denominator)
        tables[model] = (D, [[int(v * D) for v in r] for r in rows])
    lines = ['-- GENERATED by harness/props/c03.py from the matrix files under src/lingpy/data/models of the checked repository. Do not edit.',
             'import Verif.Props.C03Self', 'namespace Verif.Generated.Scorers', 'open Verif.Align', '']
    for m in sorted(tables):
        D, t = tables[m]
        name = 'm_' + ''.join(c if c.isalnum() else '_' for c in m)
        off = max(0, -min(v for r in t for v in r))
        lines.append('/-- scores of the model `%s` times %d, plus %d (natural numbers elaborate fast) -/' % (m, D, off))
        lines.append('def %s_nat : List (List Nat) := [' % name)
        lines.append(',\n'.join('  [' + ', '.join(str(v + off) for v in r) + ']' for r in t))
        lines.append(']')
        lines.append('/-- scores of the model `%s` times %d -/' % (m, D))
        lines.append('def %s : List (List Int) := %s_nat.map fun r => r.map fun v => (v : Int) - %d' % (name, name, off))
        lines.append('theorem %s_table : diagDomTable %s = true := by decide +kernel' % (name, name))
        lines.append('theorem %s_dom : DiagDom (scorerOf %s %d) := diagDom_of_table _ _ (by decide) %s_table' % (name, name, D, name))
        lines.append('')
    lines += ['end Verif.Generated.Scorers', '']
    src = '\n'.join(lines)
    with common.LakeLock():
        old = open(GEN_SCORERS, encoding='utf8').read() if os.path.exists(GEN_SCORERS) else ''
        if old != src:
            os.makedirs(os.path.dirname(GEN_SCORERS), exist_ok=True)
            open(GEN_SCORERS, 'w', encoding='utf8').write(src)
        rc_, out_ = common.sh(['lake', 'build', 'Verif.Generated.Scorers'], cwd=common.LEAN, timeout=1500)
    bad = []
    for m, (D, t) in tables.items():
        for x in range(len(t)):
            if t[x][x] < 0:
                bad.append((m, x, x, t[x][x]))
            for y in range(len(t)):
                if 2 * t[x][y] > t[x][x] + t[y][y]:
                    bad.append((m, x, y, t[x][y]))
    chk.extra['models_in_generated_scorer_tables'] = {m: len(t) for m, (D, t) in tables.items()}
    chk.obligation('generated:DiagDom (decide over Verif/Generated/Scorers.lean: %d shipped scoring matrices read from the data files, restricted to the classes the converter files emit, are diagonally '
                   'dominant - the hypothesis of C03_self_distance)' % len(tables), 'generated-obligation', rc_ == 0 and not bad,
                   (str(bad[:3]) or out_[-300:]) if (rc_ or bad) else '')
    return rc_ == 0 and not bad, bad


def run(chk):
    chk.rule = ('scale = 1 streams through the 10 non-dialign kernels (exact + float scorers, position-specific weights, '
                'prosody), brute force over all alignments for M,N <= 4; edit distance: exhaustive over {a,b,c}^<=3/4 pairs + random; '
                'self-distance: generated IPA words x shipped models x modes; non-trivial = alignment with gap and match / a != b / word longer than 2')
    ok_dom, bad_dom = translate_scorers(chk)
    chk.lean_obligations()
    ac.kernel_correspondence(chk, want='opt')
    # the entry points the statement names (nw_align, sw_align, pw_align, align_pair ... with scale = 1): the score they return is
    # the score of the kernel they route to, which is the one tied to the model above
    ac.dispatcher_checks(chk, want='opt')
    edit_checks(chk)
    self_fails = self_distance(chk)
    if not ok_dom and not self_fails:
        chk.violation('the generated obligation DiagDom over the shipped scoring matrices no longer checks (hypothesis of C03_self_distance); '
                      'no word with a non-zero self-distance was found', {'kind': 'generated', 'broken': 'generated:DiagDom', 'entries (model, row, column, score x D)': bad_dom[:5]},
                      found_input=False)


def replay(chk, path):
    return ac.replay(chk, path)
