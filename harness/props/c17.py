"""C17 — shared-cognate distances and presence/absence patterns match the rows."""
from props import wl_common as wc


def run(chk):
    chk.rule = ('generated wordlists with cognate ids, synonyms and gaps in coverage; both missing-data conventions '
                '(ignore_missing False/True for distances, missing=-1/0 for patterns); every matrix entry compared with the exact fraction '
                'shared/denominator recomputed from the rows and with the Lean counts; non-trivial = more than one language or a synonym row')
    chk.lean_obligations()
    wc.run_views(chk, 'C17')


def replay(chk, path):
    return wc.replay(chk, path)
