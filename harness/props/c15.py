"""C15 — tree distances depend on topology only, not on how the tree is written."""
import itertools
import json
import os
import re

import common

from lingpy.algorithm._tree import _TreeDist
from lingpy.basic.tree import Tree


# -- trees as nested lists of ints ------------------------------------------
def rand_tree(rng, taxa, binary_p=0.7):
    taxa = list(taxa)
    rng.shuffle(taxa)
    nodes = list(taxa)
    while len(nodes) > 1:
        k = 2 if rng.random() < binary_p or len(nodes) < 3 else rng.choice([2, 3, 3, 4])
        k = min(k, len(nodes))
        if len(nodes) == k and len(nodes) > 2 and rng.random() < 0.5:
            k = 2
        idx = sorted(rng.sample(range(len(nodes)), k))
        kids = [nodes[i] for i in idx]
        nodes = [n for i, n in enumerate(nodes) if i not in idx]
        nodes.insert(rng.randrange(len(nodes) + 1), kids)
    return nodes[0]


def all_orders(t):
    if not isinstance(t, list):
        yield t
        return
    for perm in itertools.permutations(t):
        for kids in itertools.product(*[list(all_orders(c)) for c in perm]):
            yield list(kids)


def shuffle_tree(rng, t):
    if not isinstance(t, list):
        return t
    kids = [shuffle_tree(rng, c) for c in t]
    rng.shuffle(kids)
    return kids


def newick(t, names, lengths=None, rng=None):
    def go(x, top):
        if not isinstance(x, list):
            s = names[x]
        else:
            s = '(' + ','.join(go(c, False) for c in x) + ')'
        if lengths and not top:
            # mostly ordinary decimals; now and then a length that Python prints in exponent notation, an integer or zero
            s += (':%.2f' % rng.uniform(0.1, 3)) if rng.random() < 0.8 else ':' + rng.choice(['1e-05', '2.5e-07', '1e+20', '0.0', '3', '12.5', '4e-10'])
        return s
    return go(t, True) + ';'



def nwk_tokens(s, ids):
    """tokens of a printed Newick string for the model: branch lengths, quotes and the final ';' removed, names -> numbers"""
    s = re.sub(r':[0-9.eE+-]+', '', s.strip().rstrip(';'))
    out = []
    for m in re.finditer(r"\(|\)|,|'(?:[^']|'')*'|[^(),]+", s):
        tk = m.group(0)
        if tk in '(),':
            out.append(tk)
        elif tk.startswith("'") and tk.endswith("'") and len(tk) >= 2:
            out.append(str(ids[tk[1:-1].replace("''", "'")]))  # quoted label: literal, a doubled apostrophe stands for one
        else:
            out.append(str(ids[tk.strip().replace('_', ' ')] if tk.strip().replace('_', ' ') in ids else ids[tk.strip()]))   # unquoted: `_` stands for a blank
    return out


def node_structure(n, ids):
    """nested lists of a parsed cogent tree, children in their stored order"""
    if not n.Children:
        return ids[n.Name] if n.Name in ids else ids[n.Name.replace('_', ' ')]
    return [node_structure(c, ids) for c in n.Children]


def tokens(t):
    if not isinstance(t, list):
        return [str(t)]
    out = ['(']
    for c in t:
        out += tokens(c)
    return out + [')']


def clade_sets(t):
    out = []

    def go(x):
        if not isinstance(x, list):
            return frozenset([x])
        s = frozenset()
        for c in x:
            s |= go(c)
        out.append(s)
        return s
    full = go(t)
    return out, full


def splits(t):
    """non-trivial bipartitions as frozenset({side, complement})"""
    cl, full = clade_sets(t)
    out = set()
    for c in cl:
        if 1 < len(c) < len(full) - 1:
            out.add(frozenset([c, full - c]))
    return out


def name_id(ids, x):
    """id of a name as the scanner reports it: `_` may stand for a blank, apostrophes go with the quotes"""
    if x in ids:
        return ids[x]
    if x.replace('_', ' ') in ids:
        return ids[x.replace('_', ' ')]
    for k in ids:
        if isinstance(k, str) and k.replace("'", '') == x.replace("'", ''):
            return ids[k]
    raise KeyError(x)


def py_split_elems(s, ids):
    """the harness's reading of what the scanner sees in a string: one element per comma"""
    out = []
    for elem in s.split(','):
        o, c = elem.count('('), elem.count(')')
        name = elem.replace('(', '').replace(')', '').split(':')[0].strip().replace("'", '')
        if name not in ids and name.replace('_', ' ') in ids:
            name = name.replace('_', ' ')          # the writer puts `_` for a blank
        if name not in ids:
            plain = [k for k in ids if isinstance(k, str) and k.replace("'", '') == name]     # an apostrophe inside a name goes with the quotes
            if plain:
                name = plain[0]
        if name not in ids:
            ids[name] = len(ids) + 1000      # unknown name (e.g. "D;") -> fresh id
        out.append('%d.%d.%d' % (o, ids[name], c))
    return out


def run(chk):
    chk.rule = ('random tree pairs over a common taxon set (4..9/12 taxa, binary and multifurcating), all child orders for <= 5/6 taxa, '
                'with and without branch lengths; distances through Tree.get_distance(rf|grf|symmetric) and _TreeDist.grf; '
                'non-trivial = the two trees have different split sets; distinct by the two Newick strings')
    chk.lean_obligations()
    rng = chk.rng
    drv = common.Driver()
    bad_elems, bad_bip, bad_dist, fails = [], [], [], []
    nwk_lines, bad_nwk = [], []
    seen_strings = []
    orig = _TreeDist.get_bipartition

    def spy(tree):
        seen_strings.append(tree)
        return orig(tree)
    _TreeDist.get_bipartition = staticmethod(spy)
    try:
        cases = []
        n = chk.n(1200, 24000)
        for it in range(n):
            k = rng.choice([4, 4, 5, 5, 6, 7, 8, chk.n(9, 12)])
            if it % 40 == 7:
                k = rng.choice([24, 32, 40])           # family-sized trees: Newick texts of several hundred characters
            ta = rand_tree(rng, range(k))
            r = rng.random()
            if r < 0.35:
                tb = shuffle_tree(rng, ta)          # same topology, other order
            elif r < 0.45:
                tb = ta
            elif r < 0.6 and len(ta) == 2 and any(isinstance(x, list) for x in ta):
                # the same unrooted tree written with the root elsewhere: (X,(y1,y2)) -> (X,y1,y2)
                j = [i for i, x in enumerate(ta) if isinstance(x, list)][0]
                tb = [ta[1 - j]] + list(ta[j])
                if rng.random() < 0.5:
                    tb = shuffle_tree(rng, tb)
            else:
                tb = rand_tree(rng, range(k))
            cases.append((k, ta, tb, rng.random() < 0.4, 'random'))
        # exhaustive child orders of small trees
        for k in ([4, 5] if not chk.thorough else [4, 5, 6]):
            for _ in range(chk.n(3, 10)):
                ta = rand_tree(rng, range(k))
                orders = list(all_orders(ta))
                if len(orders) > chk.n(150, 8000):
                    orders = rng.sample(orders, chk.n(150, 8000))
                for tb in orders:
                    cases.append((k, ta, tb, False, 'all-orders'))
        # corpus: the recorded input of the known finding 'newick-blank-in-name' is replayed first on every run
        cases.insert(0, (4, [0, [1, 2], 3], [0, 3, [1, 2]], False, 'corpus:newick-blank-in-name'))
        first_case = [True]
        text_samples = []
        for k, ta, tb, lengths, sname in cases:
            names = {i: 'T%d' % i if rng.random() < 0.8 else 'Lg_%d' % i for i in range(k)}
            if first_case[0] or rng.random() < 0.25:
                first_case[0] = False
                # taxon names of several words ('Old Norse'): written quoted or with the blank replaced - either way one taxon, one name
                for i in rng.sample(range(k), rng.choice([1, 2])):
                    names[i] = 'Old N%d' % i
            elif rng.random() < 0.15:
                # an apostrophe in a name (Xi'an, Hawai'i): the writer quotes the label and doubles the apostrophe
                for i in rng.sample(range(k), rng.choice([1, 2])):
                    names[i] = "Xi'an%d" % i
            elif k <= 12 and rng.random() < 0.2:
                # names that contain other names (English / Old_English; L1 / L10)
                pool = rng.choice([['English', 'Old_English', 'Dutch', 'Middle_Dutch', 'German', 'Low_German', 'Frisian', 'North_Frisian', 'Norse',
                                    'Old_Norse', 'Saxon', 'Old_Saxon'], ['L%d' % (10 ** (i % 3) + i // 3) for i in range(12)],
                                   # names that differ in case only (Bai / BAI): two taxa, two names
                                   ['Bai', 'BAI', 'Naxi', 'naxi', 'a', 'A', 'Yi', 'YI', 'yi', 'Lisu', 'LISU', 'Hani']])
                order = list(range(k))
                rng.shuffle(order)
                names = {i: pool[j] for i, j in zip(order, range(k))}
                chk.hist['taxon names that contain other taxon names'] += 1
            sa = newick(ta, names, lengths, rng)
            sb = newick(tb, names, lengths, rng)
            try:
                if rng.random() < 0.15:
                    # the first tree read from a file: a file holds the same text, and gives the same tree
                    import tempfile
                    with tempfile.NamedTemporaryFile('w', suffix='.nwk', dir='/var/tmp', delete=False, encoding='utf8') as fh_:
                        fh_.write(sa)
                    try:
                        A, B = Tree(fh_.name), Tree(sb)
                    finally:
                        os.remove(fh_.name)
                    chk.hist['tree read from a file'] += 1
                else:
                    A, B = Tree(sa), Tree(sb)
                strA, strB = str(A), str(B)
                if len(text_samples) < 400:
                    text_samples.append(strA)
                    text_samples.append(sa)
            except Exception as ex:  # noqa
                fails.append((sa, sb, 'Tree() raised %s' % type(ex).__name__))
                continue
            spa, spb = splits(ta), splits(tb)
            chk.count((sa, sb), spa != spb, branch='stream:' + sname)
            # Newick round trip: same leaves and clades
            if sorted(A.taxa) != sorted(names.values()):
                fails.append((sa, sb, 'parsed tree has other leaves'))
            try:
                RA = Tree(strA)
                cl1 = sorted(sorted(n.getTipNames()) for n in A.iterNontips(include_self=True))
                cl2 = sorted(sorted(n.getTipNames()) for n in RA.iterNontips(include_self=True))
                want = sorted(sorted(names[i] for i in c) for c in clade_sets(ta)[0])
                if cl1 != want or cl2 != want:
                    und = sorted(sorted(x.replace(' ', '_') for x in c) for c in want)
                    if cl1 == want and cl2 == und:
                        fails.append((sa, sb, 'str(Tree) round trip renames a taxon: a blank in the name comes back as an underscore (%r)'
                                      % sorted(set(x for c in cl2 for x in c if '_' in x and x.replace('_', ' ') in names.values())), 'newick-blank-in-name'))
                    else:
                        fails.append((sa, sb, 'str(Tree) round trip changes the clades'))
            except Exception as ex:  # noqa
                fails.append((sa, sb, 'round trip raised %s' % type(ex).__name__))
            # Newick writer and parser against the Lean model: print(structure) == tokens of str(Tree); parse(tokens) == structure of Tree(str)
            try:
                ids_n = {names[i]: i for i in range(k)}
                toksA = nwk_tokens(strA, ids_n)
                nwk_lines.append(('print', 'nwkprint|' + ' '.join(tokens(node_structure(A, ids_n))), 'N ' + ' '.join(toksA), sa))
                nwk_lines.append(('parse', 'nwkparse|' + ' '.join(toksA), 'N ' + ' '.join(tokens(node_structure(RA, ids_n))), sa))
            except Exception as ex:  # noqa
                fails.append((sa, sb, 'Newick model check raised %s' % type(ex).__name__))
            if not spa:
                # star-like tree: no non-trivial split; the code divides by zero (documented rejected input)
                chk.hist['rejected:no-nontrivial-split'] += 1
                continue
            del seen_strings[:]
            try:
                rf = A.get_distance(B, 'rf')
                seenA, seenB = seen_strings[0], seen_strings[1]
                grf = A.get_distance(B, 'grf')
                rf_ba = B.get_distance(A, 'rf')
                rf_aa = A.get_distance(A, 'rf')
                grf_aa = A.get_distance(A, 'grf')
            except ZeroDivisionError:
                chk.hist['rejected:zero-division'] += 1
                continue
            except Exception as ex:  # noqa
                fails.append((sa, sb, 'get_distance raised %s: %s' % (type(ex).__name__, ex)))
                continue
            # --- oracles (the property itself) ---
            exp_rf = len(spa ^ spb) / (len(spa) + len(spb)) if (spa or spb) else None
            e = None
            if rf_aa != 0 or grf_aa != 0:
                e = 'distance of a tree to itself is rf=%r grf=%r' % (rf_aa, grf_aa)
            elif not (0 <= rf <= 1 and 0 <= grf <= 1):
                e = 'distance outside [0,1]: rf=%r grf=%r' % (rf, grf)
            elif rf != rf_ba:
                e = 'rf not symmetric: %r vs %r' % (rf, rf_ba)
            elif exp_rf is not None and abs(rf - exp_rf) > 1e-12:
                e = 'rf=%r is not the normalised symmetric difference %r of the split sets' % (rf, exp_rf)
            elif spa == spb and (rf != 0 or grf != 0):
                e = 'same topology written differently has rf=%r grf=%r' % (rf, grf)
            if e:
                fails.append((sa, sb, e))
            elif rng.random() < 0.3:
                # a tree object that has been printed and compared is edited (two leaves exchange their names) and used again: text and
                # distances are those of the tree as it is NOW - the same as for a tree that is built, edited and used for the first time
                try:
                    A2 = Tree(sa)
                    tipsA = [t_ for t_ in A.tips()]
                    cand_ = [(x_, y_) for x_ in tipsA for y_ in tipsA if x_.Name < y_.Name and x_.Parent is not y_.Parent]
                    if cand_:
                        x_, y_ = rng.choice(cand_)
                        nx, ny = x_.Name, y_.Name
                        str(A)
                        x_.Name, y_.Name = ny, nx
                        x2, y2 = A2.getNodeMatchingName(nx), A2.getNodeMatchingName(ny)
                        x2.Name, y2.Name = ny, nx
                        chk.hist['tree object printed and compared, two leaves renamed, printed and compared again'] += 1
                        r_hist, r_fresh = (A.get_distance(B, 'rf'), A.get_distance(B, 'grf'), B.get_distance(A, 'rf')), \
                                          (A2.get_distance(B, 'rf'), A2.get_distance(B, 'grf'), B.get_distance(A2, 'rf'))
                        if str(A) != str(A2):
                            fails.append((sa, sb, 'after the leaves %r and %r of a printed tree exchanged their names str(tree) is %r, a tree built and edited the same way prints as %r'
                                          % (nx, ny, str(A), str(A2))))
                        elif r_hist != r_fresh:
                            fails.append((sa, sb, 'after the leaves %r and %r of a compared tree exchanged their names its distances to the other tree are %r, for a tree built and edited the same way %r'
                                          % (nx, ny, r_hist, r_fresh)))
                        x_.Name, y_.Name = nx, ny
                        str(A)
                except ZeroDivisionError:
                    pass
                except Exception as ex:  # noqa
                    fails.append((sa, sb, 'edit history on a tree object raised %s: %s' % (type(ex).__name__, str(ex)[:100])))
            # --- correspondence with the Lean model ---
            ids = {names[i]: i for i in range(k)}
            out = drv.ask('elems|' + ' '.join(tokens(ta)))
            m_elems = out.split(' | ')[0].split()[1:]
            if py_split_elems(seenA, ids) != m_elems:
                bad_elems.append((sa, seenA, m_elems))
            ea, eb = py_split_elems(seenA, ids), py_split_elems(seenB, ids)
            try:
                parts, lang = orig(seenA)
                real_b = sorted(sorted(name_id(ids, x) for x in p) for p in parts)
            except Exception:
                real_b = 'ERR'
            o = drv.ask('bipart|' + ' '.join(ea))
            if o.startswith('B'):
                fin = o.split(' | ')[1]
                model_b = sorted(sorted(int(x) for x in s.split(',')) for s in fin.split(';') if s)
            else:
                model_b = 'ERR'
            if model_b != real_b:
                bad_bip.append((seenA, real_b, model_b))
            o = drv.ask('grf|' + ' '.join(ea) + '|' + ' '.join(eb)).split()
            if o[0] == 'D':
                gn, gd, rn, rd = map(int, o[1:])
                if abs(gn / gd - grf) > 1e-12 or abs(rn / rd - rf) > 1e-12:
                    bad_dist.append((sa, sb, (grf, rf), (gn / gd, rn / rd)))
            else:
                bad_dist.append((sa, sb, (grf, rf), o))
            # the composite the theorems of Props/C15Sets.lean speak about: trees in, both distances out
            o2 = drv.ask('treedist|' + ' '.join(tokens(ta)) + '|' + ' '.join(tokens(tb))).split()
            if o2 != o:
                bad_dist.append((sa, sb, ('treedist', o2), ('grf on the received elements', o)))
            # 'symmetric' goes through cogent's compareByPartitions: contract only (0 iff same splits)
            try:
                sd = A.get_distance(B, 'symmetric')
                if (sd == 0) != (spa == spb):
                    fails.append((sa, sb, "'symmetric' distance %r contradicts the split sets" % sd))
                elif sd != len(spa ^ spb):
                    fails.append((sa, sb, "'symmetric' distance %r is not the size %d of the symmetric difference of the split sets" % (sd, len(spa ^ spb))))
            except Exception:
                pass
        chk.sample({'treeA': sa, 'treeB': sb, 'rf': rf, 'grf': grf}, limit=3)
        outs_n = drv.ask_many([l[1] for l in nwk_lines])
        for o, (what, line, expect, sa_) in zip(outs_n, nwk_lines):
            if o.strip() != expect.strip():
                bad_nwk.append((what, sa_, o, expect))
    finally:
        _TreeDist.get_bipartition = staticmethod(orig)
        drv.close()
    chk.obligation('correspondence:elements (what the scanner receives == printed elements of the tree, `;` stripped)',
                   'correspondence', not bad_elems, 'trees=%d mismatches=%d' % (len(cases), len(bad_elems)))
    chk.obligation('correspondence:get_bipartition == model scanner + bipartition', 'correspondence', not bad_bip,
                   'mismatches=%d' % len(bad_bip))
    chk.obligation('correspondence:grf/rf == model formulas', 'correspondence', not bad_dist, 'mismatches=%d' % len(bad_dist))
    # --- the text level: the writer's quoting of names and the tokeniser, against the Lean model (theorems C15_text_roundtrip, label_roundtrip) ---
    bad_text, ntext = newick_text_checks(chk, fails, text_samples)
    chk.obligation('correspondence:Newick text level - getNewick name quoting == Lean escapeName, _Tokeniser.tokens == Lean tokenise (written trees, names with quotes / blanks / underscores / apostrophes, synthetic text with comments, white space, unbalanced quotes)',
                   'correspondence', not bad_text, 'texts and names=%d mismatches=%d %s' % (ntext, len(bad_text), str(bad_text[0])[:300] if bad_text else ''))
    bad_nwk = bad_nwk + bad_text
    chk.obligation('correspondence:Newick writer and parser == Lean print / parse (token level: lengths, quotes and `;` removed by the tokenizer)',
                   'correspondence', not bad_nwk, 'strings=%d mismatches=%d %s' % (len(nwk_lines), len(bad_nwk), str(bad_nwk[0])[:200] if bad_nwk else ''))
    known_keys = set(k['key'] for k in chk.known)
    real_fails = [f for f in fails if not (len(f) > 3 and f[3] in known_keys)]
    chk.obligation('oracle:C15 statement on the real code', 'correspondence', not real_fails,
                   'failures=%d (of these listed as known findings: %d)' % (len(fails), len(fails) - len(real_fails)))
    seen_k = set()
    nrep = 0
    for f in sorted(fails, key=lambda f: len(f[0]) + len(f[1])):
        key = f[3] if len(f) > 3 else None
        if key in seen_k or (key is None and nrep >= 2):
            continue
        seen_k.add(key)
        nrep += key is None
        chk.violation('Tree(%r) vs Tree(%r): %s' % tuple(f[:3]), {'kind': 'trees', 'treeA': f[0], 'treeB': f[1], 'why': f[2]}, key=key)
    fails = real_fails
    if (bad_elems or bad_bip or bad_dist or bad_nwk) and not fails:
        b = (bad_elems or bad_bip or bad_dist or bad_nwk)[0]
        chk.violation('model and code disagree on tree scanning/distances; no failing input found',
                      {'kind': 'trees-model', 'detail': b, 'broken': 'correspondence'}, found_input=False)


def newick_text_checks(chk, fails, written):
    """real writer / tokeniser against the Lean text-level model; appends property failures (round trip of a written tree) to `fails`"""
    from lingpy.thirdparty.cogent.newick import _Tokeniser, TreeParseError
    from lingpy.thirdparty.cogent import LoadTree
    rng = chk.rng
    drv = common.Driver()
    bad = []

    def cps(x):
        return ' '.join(str(ord(ch)) for ch in x)

    def real_tokens(text, um):
        try:
            return [t for t in _Tokeniser(text, underscore_unmunge=um).tokens()]
        except TreeParseError:
            return 'ERR'

    def model_tokens(text, um):
        o = drv.ask('nwktext|%d|%s' % (1 if um else 0, cps(text)))
        if o == 'ERR':
            return 'ERR'
        out = []
        for it in o[2:].split():
            if it == 'E':
                out.append(None)
            elif it[0] == 'S':
                out.append(chr(int(it[1:])))
            else:
                out.append(''.join(chr(int(x)) for x in it[1:].split(',') if x))
        return out
    texts = list(written)
    alpha = ["a", "b", "X", " ", " ", "_", "'", "'", '"', "(", ")", ",", ":", ";", "[", "]", "\t", "\n", "1", ".", "e", "-"]
    for _ in range(chk.n(400, 12000)):
        texts.append(''.join(rng.choice(alpha) for _ in range(rng.randrange(1, 14))))
    names = []
    name_alpha = ["a", "b", "X", " ", "_", "'", '"', "(", ")", ",", ":", ";", "[", "]", "é", "-", "."]
    for _ in range(chk.n(300, 8000)):
        names.append(''.join(rng.choice(name_alpha) for _ in range(rng.randrange(1, 7))))
    names += ["Xi'an", "Old Norse", "a_b", "'x'", "Are'", "a'b", "''", 'say "x"']
    for text in texts:
        um = rng.random() < 0.3
        chk.evaluations += 1
        r, m = real_tokens(text, um), model_tokens(text, um)
        if r != m:
            bad.append(('tokens', text, um, r, m))
    for nm in names:
        chk.evaluations += 1
        t = LoadTree(treestring='((a,b),(c,d));')
        t.getNodeMatchingName('a').Name = nm
        s = t.getNewick()
        written_name = s[2:s.rindex(',b),(c,d));')]    # the name itself may contain ',b)'
        o = drv.ask('nwkname|' + cps(nm))
        model_name = ''.join(chr(int(x)) for x in o[2:].split(',') if x)
        if written_name != model_name:
            bad.append(('name', nm, written_name, model_name))
    drv.close()
    # the property on names the theorem excludes (hypothesis NameOk: not starting with an apostrophe): the recorded finding is replayed first
    for nm in ["'Are'are"] + [n for n in names if n.startswith("'") and not n.endswith("'") and '\n' not in n][:3]:
        t = LoadTree(treestring='((a,b),(c,d));')
        t.getNodeMatchingName('a').Name = nm
        s = t.getNewick()
        try:
            back = LoadTree(treestring=s).getTipNames()
            ok = sorted(back) == sorted([nm, 'b', 'c', 'd'])
            why = 'the written tree %r is read with the leaves %r' % (s, back)
        except Exception as ex:  # noqa
            ok, why = False, 'the written tree %r does not parse: %s: %s' % (s, type(ex).__name__, str(ex)[:80])
        if not ok:
            fails.append(('((a,b),(c,d)); with the leaf a renamed to %r' % nm, s,
                          'a taxon name that starts with an apostrophe is not read back: ' + why, 'newick-name-leading-apostrophe'))
    return bad, len(texts) + len(names)


def replay(chk, path):
    d = json.load(open(path))['replay']
    if d.get('kind') == 'trees':
        A, B = Tree(d['treeA']), Tree(d['treeB'])
        print('rf', A.get_distance(B, 'rf'), 'grf', A.get_distance(B, 'grf'), 'self', A.get_distance(A, 'rf'))
    print(json.dumps(d, indent=1, default=str)[:2000])
    return 0
