"""C02 — the reported alignment score is the score of the returned alignment."""
import common
import alignlib as al
from props import align_common as ac


def rescore_agreement(chk):
    """The Python oracle `py_rescore` (DESIGN Appendix A) and the Lean `rescore` (the function the theorem
    speaks about) must agree bit for bit on the columns the real code returns and on arbitrary columns."""
    drv = common.Driver()
    rng = chk.rng
    bad = []
    n = chk.n(1800, 80000)
    lines, exp = [], []
    for _ in range(n):
        kname = rng.choice([k for k in al.KERNELS if al.KERNELS[k][3] != 'dialign'])
        c = al.gen_case(rng, maxlen=chk.n(7, 18), exact=rng.random() < 0.7)
        if rng.random() < 0.5:
            r = al.call_real(kname, c)
            if r[0] == 'E':
                continue
        else:
            # arbitrary (not necessarily optimal) alignment of the two sequences
            a, b = list(c['a']), list(c['b'])
            A, B = [], []
            i = j = 0
            while i < len(b) or j < len(a):
                ch = rng.choice('udl')
                if ch == 'd' and i < len(b) and j < len(a):
                    A.append(a[j]); B.append(b[i]); i += 1; j += 1
                elif ch == 'u' and i < len(b):
                    A.append(al.GAP); B.append(b[i]); i += 1
                elif ch == 'l' and j < len(a):
                    A.append(a[j]); B.append(al.GAP); j += 1
            if al.KERNELS[kname][3] == 'local':
                continue
            r = ('G', A, B, 0.0)
        i0, j0, mv = al.moves_of(r)
        cfg = al.default_cfg(kname)
        lines.append('rescore|' + al.encode(cfg, c) + '|%d %d %s' % (i0, j0, ' '.join(mv)))
        exp.append((kname, c, r, al.py_rescore(kname, c, r)))
    outs = drv.ask_many(lines)
    for o, (kname, c, r, e) in zip(outs, exp):
        t = o.split()
        v = common.b2f(t[3]) if t and t[0] == 'R' else None
        chk.count(('rescore', al.case_key(kname, c), tuple(r[1]) if r[0] == 'G' else tuple(r[2])), True, branch='rescore-agreement')
        if v is None or not (v == float(e) or (v != v and e != e)):
            bad.append((kname, c, r, e, v))
    drv.close()
    chk.obligation('correspondence:rescore (Lean rescore == Appendix-A re-scorer used as oracle)', 'correspondence', not bad,
                   'cases=%d mismatches=%d' % (len(lines), len(bad)))
    if bad:
        b = bad[0]
        chk.violation('Lean rescore and the Python oracle disagree (machinery inconsistency)',
                      {'kind': 'rescore', 'kname': b[0], 'case': ac.case_to_json(b[1]), 'cols': b[2], 'python': b[3], 'lean': b[4],
                       'broken': 'correspondence:rescore'}, found_input=False)


def run(chk):
    chk.rule = ('as C01, dialign excluded; compared bit-exactly: similarity (and normalised distance through the dispatchers); '
                'oracle = independent re-scoring of the returned columns (DESIGN Appendix A); gap-weight vectors with '
                'distinct entries, asymmetric and float-valued scorers, scale in {0.25,0.5,0.75,1,0.3,0.7}; '
                'non-trivial = alignment with at least one gap and one match column')
    chk.lean_obligations()
    ac.kernel_correspondence(chk, want='score')
    ac.dispatcher_checks(chk, want='score')
    ac.pairwise_entry(chk, want='score')
    rescore_agreement(chk)


def replay(chk, path):
    return ac.replay(chk, path)
