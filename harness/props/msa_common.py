"""Shared check logic for C04 (multiple alignments are rectangular, lossless, order preserving) and
C11 (iterative refinement never lowers the sum-of-pairs score)."""
import json
import random

import common
import wlgen
from common import f2b

from lingpy.align import multiple as mult
from lingpy.algorithm import calign, talign

WORDS = ['tʰɔxtər', 'dɔːtər', 'dɔxtər', 'dotər', 'hant', 'hænd', 'hɑnt', 'hand', 'ʃtɛrn', 'stɑːr', 'stjɛrna', 'vɔlf', 'wʊlf', 'ulv',
         'fɪʃ', 'pisk', 'fisk', 'a', 'ai', 'mat͡ʃi', 'waldemar', 'woldemort', 'vladimir', 'tɕʰjɛn', 'pʰjɛn', 'kaːu̯ən', 'ɡəʃaft',
         'θɪŋk', 'ðɪs', 'ʁoːt', 'ɾoxo', 'ɕiː', 'ɲo', 'ʋesi', 'ɦuis', 'huːs', 'haus', 'hus', 'wɔːtər', 'vasər', 'vatn', 'voda',
         'ma\u0303no', 'mane\u0301', 'ma\u0303ne\u0301', 'u\u0308ber', 'o\u0308ver']      # decomposed spellings
REFINE = ['iterate_similar_gap_sites', 'iterate_clusters', 'iterate_orphans', 'iterate_all_sequences', 'swap_check']


def gen_seqs(rng, min_distinct=2):
    k = rng.choice([2, 3, 3, 4, 5, 6, 8])
    base = rng.sample(WORDS, min(k, len(WORDS)))
    seqs = list(base)
    if rng.random() < 0.4:
        seqs.append(rng.choice(seqs))                      # duplicate
    if rng.random() < 0.2:
        seqs.append(rng.choice(WORDS) + rng.choice(WORDS) + rng.choice(WORDS))   # one very long sequence
    rng.shuffle(seqs)
    if len(set(seqs)) < min_distinct:
        return gen_seqs(rng, min_distinct)
    return seqs


class Recorder:
    """wraps the profile aligners and Multiple's merge / refinement steps (no change to the repository)"""

    def __init__(self):
        self.merges = []      # (kind, almsA, almsB, flagsA, flagsB, out)
        self.iters = []       # (gw, before, sops..., after)
        self.splits = []      # one refinement split: matrix before, idxA, flags, matrix after _join
        self.cur_split = None
        self.last_profile = None

    def __enter__(self):
        rec = self
        self.orig = {}
        for mod, name in ((calign, 'align_profile'), (talign, 'align_profile')):
            orig = getattr(mod, name)
            self.orig[(mod, name)] = orig

            def wrapped(*a, _orig=orig, **k):
                r = _orig(*a, **k)
                rec.last_profile = (list(r[0]), list(r[1]))
                return r
            setattr(mod, name, wrapped)
        for name in ('_align_profile', '_talign_profile'):
            orig = getattr(mult.Multiple, name)
            self.orig[(mult.Multiple, name)] = orig

            def wrapped_merge(self_, almsA, almsB, *a, _orig=orig, _name=name, **k):
                inA = [list(r) for r in almsA]
                inB = [list(r) for r in almsB]
                rec.last_profile = None
                out = _orig(self_, almsA, almsB, *a, **k)
                if not k.get('return_similarity') and rec.last_profile is not None:
                    fa, fb = rec.last_profile
                    if k.get('iterate'):
                        res = [list(r) for r in out[0]] + [list(r) for r in out[1]]
                    else:
                        res = [list(r) for r in out]
                    rec.merges.append((_name, inA, inB, [x != '-' for x in fa], [x != '-' for x in fb], res))
                return out
            setattr(mult.Multiple, name, wrapped_merge)
        orig_split = mult.Multiple._split
        orig_join = mult.Multiple._join
        self.orig[(mult.Multiple, '_split')] = orig_split
        self.orig[(mult.Multiple, '_join')] = orig_join

        def wrapped_split(self_, idx):
            rec.cur_split = dict(before=[list(r) for r in self_._alm_matrix], idxA=list(idx), n_merges=len(rec.merges))
            return orig_split(self_, idx)

        def wrapped_join(self_, almA, almB, idxA, idxB):
            out = orig_join(self_, almA, almB, idxA, idxB)
            cs = rec.cur_split
            if cs is not None and len(rec.merges) == cs['n_merges'] + 1:
                m = rec.merges[-1]
                rec.splits.append(dict(before=cs['before'], idxA=cs['idxA'], fa=m[3], fb=m[4], after=[list(r) for r in out]))
            rec.cur_split = None
            return out
        mult.Multiple._split = wrapped_split
        mult.Multiple._join = wrapped_join
        orig_iter = mult.Multiple._iter
        self.orig[(mult.Multiple, '_iter')] = orig_iter

        def wrapped_iter(self_, idx_list, *a, **k):
            gw = k.get('gap_weight', 0.5)
            check = k.get('check', 'final')
            before = [list(r) for r in self_._alm_matrix]
            sop0 = self_.sum_of_pairs(gap_weight=gw)
            # the candidate produced by the pass is observed through sum_of_pairs' last evaluation
            seen = []
            orig_sop = self_.sum_of_pairs

            def spy_sop(*aa, **kk):
                v = orig_sop(*aa, **kk)
                seen.append((v, [list(r) for r in self_._alm_matrix], kk.get('gap_weight', 0.0)))
                return v
            self_.sum_of_pairs = spy_sop
            try:
                r = orig_iter(self_, idx_list, *a, **k)
            finally:
                del self_.sum_of_pairs
            after = [list(r_) for r_ in self_._alm_matrix]
            sop_after = self_.sum_of_pairs(gap_weight=gw)
            rec.iters.append(dict(gw=gw, check=check, before=before, sop0=sop0, seen=seen, after=after, sop_after=sop_after,
                                  n_idx=len(idx_list), scorer=self_.scorer, kind='c' if self_._sonars else 't'))
            return r
        mult.Multiple._iter = wrapped_iter
        return self

    def __exit__(self, *a):
        for (obj, name), orig in self.orig.items():
            setattr(obj, name, orig)


def sym_code(rows):
    """symbols -> natural numbers ('X' -> 0)"""
    code = {'X': 0}
    out = []
    for r in rows:
        out.append([code.setdefault(x, len(code)) for x in r])
    return out, code


def rows_line(rows):
    return ' / '.join(' '.join(map(str, r)) for r in rows)


def scorer_tokens(scorer, mats, code):
    """the entries of the scorer that sum_of_pairs reads on these matrices (pairs of symbols of one column), as `a:b:bits`"""
    out = {}
    for mat in mats:
        for c in range(len(mat[0])):
            col = [r[c] for r in mat if r[c] != 'X']
            for a in col:
                for b in col:
                    if (a, b) not in out:
                        out[a, b] = '%d:%d:%s' % (code[a], code[b], f2b(scorer[a, b]))
    return ' '.join(out.values())


def oracle_msa(msa, seqs_tokens):
    """C04 on the final alignment: one row per input in input order, equal lengths, rows de-gap to the inputs,
    no all-gap column, identical inputs -> identical rows"""
    alm = msa.alm_matrix
    if len(alm) != len(seqs_tokens):
        return '%d rows for %d sequences' % (len(alm), len(seqs_tokens))
    L = set(len(r) for r in alm)
    if len(L) != 1:
        return 'rows of different lengths: %r' % sorted(L)
    for i, (r, toks) in enumerate(zip(alm, seqs_tokens)):
        if [x for x in r if x != '-'] != list(toks):
            return 'row %d de-gaps to %r, input tokens are %r' % (i, [x for x in r if x != '-'], list(toks))
    for c in range(len(alm[0])):
        if all(r[c] == '-' for r in alm):
            return 'column %d consists only of gaps' % c
    for i in range(len(alm)):
        for j in range(i + 1, len(alm)):
            if list(seqs_tokens[i]) == list(seqs_tokens[j]) and alm[i] != alm[j]:
                return 'identical inputs %d and %d received different rows' % (i, j)
    return None


def run_multiple(chk, want):
    """want = 'C04' or 'C11'"""
    from lingpy.sequence.sound_classes import ipa2tokens
    rng = chk.rng
    drv = common.Driver()
    bad_merge, bad_iter, fails = [], [], []
    bad_prog, bad_split, bad_upd = [], [], []
    bad_sop, nsop = [], 0
    nprog = nsplit = nupd = 0
    n = chk.n(1200, 24000)
    nmerge = 0
    npass = 0
    for it in range(n):
        seqs = gen_seqs(rng, min_distinct=3 if want == 'C11' else 2)
        method = rng.choice(['progressive', 'library'])
        kw = dict(tree_calc=rng.choice(['upgma', 'neighbor']), mode=rng.choice(['global', 'overlap', 'dialign']),
                  gop=rng.choice([-2, -3, -1]), scale=rng.choice([0.5, 0.3]), factor=rng.choice([0.3, 0.0]),
                  model=rng.choice(['sca', 'dolgo', 'asjp']))
        calls = [(rng.choice(REFINE if want == 'C04' else REFINE[:4]),
                  dict(gap_weight=rng.choice([0.0, 0.5, 1.0]))) for _ in range(rng.randrange(1 if want == 'C11' else 0, 5))]
        if rng.random() < 0.35:
            # longer sessions on one object: the same gap weight several times, the alignment mode of the refinement varied, and the
            # scorer switched in between (swap_check(score_mode=...) sets it; the library scorer exists after lib_align)
            gw = rng.choice([0.5, 1.0, 1])
            calls = []
            for _k in range(rng.randrange(2, 5)):
                calls.append((rng.choice(REFINE[:4]), dict(gap_weight=gw, mode=rng.choice(['global', 'overlap', 'dialign']))))
                if rng.random() < 0.6:
                    calls.append(('swap_check', dict(score_mode=rng.choice(['library', 'classes']) if method == 'library' else 'classes')))
            chk.hist['refinement session with scorer switches between the calls'] += 1
        if want == 'C11' and rng.random() < 0.25:
            # the other setting of `check` (outside the property - see the note at C11_immediate_le - but part of _iter and of the model)
            calls = [(nm, dict(ckw, check='immediate')) if nm != 'swap_check' and rng.random() < 0.6 else (nm, ckw) for nm, ckw in calls]
        log = []
        with Recorder() as rec:
            try:
                msa = mult.Multiple(seqs)
                (msa.prog_align if method == 'progressive' else msa.lib_align)(**kw)
                after_prog = dict(numbers=[list(r) for r in msa._numbers], tm=[(int(r[0]), int(r[1])) for r in msa.tree_matrix],
                                  merges=list(rec.merges), matrix=[list(r) for r in msa._alm_matrix])
                toks = [ipa2tokens(s) for s in seqs]
                # row content / shape is C04's statement; C11 only speaks about the compared score
                e = oracle_msa(msa, toks) if want == 'C04' else None
                for name, ckw in calls:
                    if e:
                        break
                    sop_before = {gw: msa.sum_of_pairs(gap_weight=gw) for gw in (ckw.get('gap_weight', 0.0),)}
                    before = [list(r) for r in msa.alm_matrix]
                    n_it = len(rec.iters)
                    if name == 'swap_check':
                        msa.swap_check(**{k: v for k, v in ckw.items() if k == 'score_mode'})
                    elif name == 'iterate_clusters':
                        getattr(msa, name)(rng.choice([0.3, 0.5, 0.7, 0.9, 1.0]), **ckw)
                    else:
                        getattr(msa, name)(**ckw)
                    log.append(name if not set(ckw) - {'gap_weight'} else '%s(%s)' % (name, ', '.join('%s=%r' % kv for kv in sorted(ckw.items()))))
                    e = oracle_msa(msa, toks) if want == 'C04' else None
                    if not e and name != 'swap_check' and want == 'C11' and ckw.get('check', 'final') == 'final':   # the score clause is C11's statement (default end-of-pass check), not C04's
                        gw = ckw['gap_weight']
                        sop_after = msa.sum_of_pairs(gap_weight=gw)
                        if sop_after < sop_before[gw] - 1e-12:
                            e = '%s(gap_weight=%r) lowered the sum-of-pairs score from %r to %r' % (name, gw, sop_before[gw], sop_after)
                        for itr in rec.iters[n_it:]:
                            if itr['check'] == 'final' and itr['sop_after'] < itr['sop0'] - 1e-12:
                                e = '_iter pass lowered the sum-of-pairs score from %r to %r' % (itr['sop0'], itr['sop_after'])
            except Exception as ex:  # noqa
                e = 'raised %s: %s' % (type(ex).__name__, str(ex)[:120])
        chk.count((want, tuple(seqs), method, tuple(sorted(kw.items())), tuple(log)), len(seqs) >= 3 and any(len(set(len(r) for r in [msa.alm_matrix[0]])) for _ in [0]) if not e else True,
                  branch=['method:' + method, 'mode:' + kw['mode'], 'tree:' + kw['tree_calc']] + ['call:' + c.split('(')[0] for c in log])
        if e:
            fails.append((seqs, method, kw, log, e))
            continue
        # --- trace refinement: every recorded merge step must be the model's merge of its observed inputs ---
        if want == 'C04':
            for kind, inA, inB, fa, fb, res in rec.merges[:6]:
                (cA, code) = sym_code(inA + inB + res)
                a, b, r = cA[:len(inA)], cA[len(inA):len(inA) + len(inB)], cA[len(inA) + len(inB):]
                o = drv.ask('merge|0|%s|%s|%s|%s' % (rows_line(a), rows_line(b), ' '.join('1' if x else '0' for x in fa),
                                                     ' '.join('1' if x else '0' for x in fb)))
                nmerge += 1
                if o != 'M ' + rows_line(r):
                    bad_merge.append((inA, inB, fa, fb, res, o))
        if want == 'C04':
            # the whole pass along the guide tree: input sequences + tree matrix + the index rows the real profile aligner
            # returned at every node  ->  Lean `progressive`  ==  the real _alm_matrix
            ap = after_prog
            if len(ap['merges']) >= len(ap['tm']) and ap['tm']:
                ms = ap['merges'][-len(ap['tm']):]
                coded, code = sym_code(ap['numbers'] + ap['matrix'])
                nums, real = coded[:len(ap['numbers'])], coded[len(ap['numbers']):]
                steps = ' '.join('%d,%d:%s:%s' % (m, n_, ''.join('1' if x else '0' for x in mg[3]), ''.join('1' if x else '0' for x in mg[4]))
                                 for (m, n_), mg in zip(ap['tm'], ms))
                o = drv.ask('prog|0|%s|%s' % (rows_line(nums), steps))
                nprog += 1
                if o != 'M ' + rows_line(real):
                    bad_prog.append((seqs, method, kw, o, rows_line(real)))
            for sp in rec.splits[:8]:
                coded, code = sym_code(sp['before'] + sp['after'])
                b, a = coded[:len(sp['before'])], coded[len(sp['before']):]
                o = drv.ask('refine|0|%s|%s|%s|%s' % (rows_line(b), ' '.join(map(str, sp['idxA'])), ' '.join('1' if x else '0' for x in sp['fa']),
                                                       ' '.join('1' if x else '0' for x in sp['fb'])))
                nsplit += 1
                if o != 'M ' + rows_line(a):
                    bad_split.append((seqs, sp, o))
            # _update_alignments: tokens + final internal matrix + int2ext -> Lean updateAlignments == the public alm_matrix, with the
            # hypotheses of C04_update (updateOkb: partition, one length, positions in order, no gap token) accepted on the observed data
            try:
                tcode = {'-': 0}
                tk = [[tcode.setdefault(x, len(tcode)) for x in t] for t in msa.tokens]
                intl = []
                for i, line in enumerate(msa._alm_matrix):
                    row = []
                    for num in line:
                        if num == 'X':
                            row.append(0)
                        else:
                            a_, b_ = num.split('.')[:2]
                            row.append(int(b_) if int(a_) == i + 1 else 10 ** 6)   # a number of another sequence: breaks the hypotheses
                    intl.append(row)
                i2e = [list(msa.int2ext[i]) for i in range(len(msa.int2ext))]
                pub = [[tcode.get(x, 10 ** 6) for x in r] for r in msa.alm_matrix]
                o = drv.ask('update|%s|%s|%s' % (rows_line(tk), rows_line(intl), rows_line(i2e)))
                nupd += 1
                if o != 'M ' + rows_line(pub):
                    bad_upd.append((seqs, method, kw, log, o[:300], rows_line(pub)[:300]))
            except Exception as ex:  # noqa
                bad_upd.append((seqs, method, kw, log, 'tie raised %s' % type(ex).__name__, ''))
        for itr in (rec.iters if want == 'C11' else []):
            # check='immediate': the whole pass in the model (Lean iterImmediate) on the observed candidates == the matrix left
            if itr['check'] != 'immediate' or itr['n_idx'] == 1 or len(itr['seen']) != itr['n_idx'] + 1:
                continue
            try:
                cands = [sn[1] for sn in itr['seen'][1:]]
                allm = [itr['before']] + cands + [itr['after']]
                coded, code = sym_code([r for mtx in allm for r in mtx])
                h = len(itr['before'])
                mats = [coded[i * h:(i + 1) * h] for i in range(len(allm))]
                o = drv.ask('iterimm|%s|%s %s|%s|%s|%s' % (itr['kind'], f2b(-1.0), f2b(itr['gw']), scorer_tokens(itr['scorer'], allm[:-1], code),
                                                          rows_line(mats[0]), ' // '.join(rows_line(mx) for mx in mats[1:-1])))
                nsop += 1
                chk.hist['_iter(check=immediate) passes == Lean iterImmediate'] += 1
                if o != 'P ' + rows_line(mats[-1]):
                    # this branch is outside the property (two score functions are compared): a difference is noted, it is no verdict
                    chk.hist['NOTE _iter(check=immediate) differs from Lean iterImmediate (outside the passes C11 speaks of)'] += 1
            except Exception as ex:  # noqa
                chk.hist['NOTE immediate tie raised %s' % type(ex).__name__] += 1
        for itr in (rec.iters if want == 'C11' else []):     # the end-of-pass decision is C11's mechanism, not C04's
            if itr['check'] != 'final' or itr['n_idx'] == 1 or not itr['seen']:
                continue
            # the last sum_of_pairs evaluation inside the pass is the end-of-pass check on the candidate matrix
            sop1, cand, gw_used = itr['seen'][-1]
            npass += 1
            o = drv.ask('iterfinal|%s %s' % (f2b(itr['sop0']), f2b(sop1)))
            expect = itr['before'] if o == 'old' else cand
            if itr['after'] != expect or gw_used != itr['gw']:
                bad_iter.append((seqs, itr['sop0'], sop1, gw_used, itr['gw'], o))
            # the whole pass in the model: Lean sumOfPairs (score_profile over every column, the call's gap weight) of the saved
            # matrix and of the candidate, bit for bit, then Lean iterPass == the matrix the real pass left
            try:
                coded, code = sym_code(itr['before'] + cand + itr['after'])
                h = len(itr['before'])
                o = drv.ask('iterpass|%s|%s %s|%s|%s|%s|%d' % (itr['kind'], f2b(-1.0), f2b(itr['gw']),
                                                            scorer_tokens(itr['scorer'], [itr['before'], cand], code),
                                                            rows_line(coded[:h]), rows_line(coded[h:2 * h]), itr['n_idx']))
                nsop += 1
                want_o = 'P %s %s | %s' % (f2b(itr['sop0']), f2b(sop1), rows_line(coded[2 * h:]))
                if o != want_o:
                    bad_sop.append((seqs, method, kw, log, itr['gw'], o[:160], want_o[:160]))
                    # the model's scores are computed from the scorer's entries and the two matrices alone: they are an independent
                    # statement of the property. If the pass kept the candidate although it scores lower, that is the failing input.
                    try:
                        m0, m1 = common.b2f(o.split()[1]), common.b2f(o.split()[2])
                        if itr['after'] == cand and itr['after'] != itr['before'] and m1 < m0 - 1e-12:
                            fails.append((seqs, method, kw, log, '_iter pass (gap_weight=%r) kept an alignment whose sum-of-pairs score, recomputed from the scorer and '
                                          'the matrix, is lower: %r -> %r (the library itself reports %r -> %r)' % (itr['gw'], m0, m1, itr['sop0'], sop1)))
                    except Exception:  # noqa
                        pass
            except Exception as ex:  # noqa
                bad_sop.append((seqs, method, kw, log, 'tie raised %s: %s' % (type(ex).__name__, str(ex)[:80]), '', ''))
        if want == 'C11' and it % 3 == 0:
            # sum_of_pairs / score_profile on their own, both variants (with sonority profiles: calign; plain tokens: talign, where a
            # symbol facing a gap costs gop), any gap weight and gap cost
            try:
                plain = rng.random() < 0.5
                m2 = mult.Multiple(seqs)
                m2.prog_align(**(dict(classes=False, sonar=False) if plain else {}))
                gw2, gop2 = rng.choice([0.0, 0.5, 1.0, 1, 0.25, 2.0]), rng.choice([-1, -2, -0.5, 0, -3])
                mat2 = [list(r) for r in m2._alm_matrix]
                try:
                    real = m2.sum_of_pairs(gap_weight=gw2, gop=gop2)
                except ZeroDivisionError:
                    real = None
                if real is not None:
                    coded, code = sym_code(mat2)
                    o = drv.ask('sop|%s|%s %s|%s|%s' % ('c' if m2._sonars else 't', f2b(gop2), f2b(gw2), scorer_tokens(m2.scorer, [mat2], code),
                                                     rows_line(coded)))
                    nsop += 1
                    chk.hist['sum_of_pairs alone: ' + ('talign.score_profile' if plain else 'calign.score_profile')] += 1
                    if o != 'S ' + f2b(real):
                        if plain:
                            # refinement cannot run on an object without sonority profiles (_iter always calls the calign profile
                            # aligner), so talign's variant never decides a roll-back: a difference is noted, it is no verdict on C11
                            chk.hist['NOTE talign.score_profile differs from the model (display only; outside the passes C11 speaks of)'] += 1
                        else:
                            bad_sop.append((seqs, 'prog_align', {'plain': plain}, [], gw2, o, 'S ' + f2b(real) + ' gop=%r' % gop2))
            except Exception as ex:  # noqa
                bad_sop.append((seqs, 'prog_align', {}, [], 'tie raised %s: %s' % (type(ex).__name__, str(ex)[:80]), '', ''))
    drv.close()
    if want == 'C04':
        chk.obligation('correspondence:profile merge steps == Lean mergeBlocks (observed blocks + observed profile alignment)', 'correspondence',
                       not bad_merge, 'merge steps=%d mismatches=%d' % (nmerge, len(bad_merge)))
    if want == 'C04':
        chk.obligation('correspondence:_merge_alignments (guide-tree pass + reordering) == Lean progressive on the observed tree matrix and profile alignments, hypotheses of C04_progressive (progOkb) hold on them',
                       'correspondence', not bad_prog, 'alignments=%d mismatches=%d' % (nprog, len(bad_prog)))
        chk.obligation('correspondence:refinement split (_split, _align_profile, _join) == Lean refineSplit, hypotheses of C04_refineSplit (rectb, splitOkb) hold on the observed data', 'correspondence', not bad_split,
                       'splits=%d mismatches=%d' % (nsplit, len(bad_split)))
        chk.obligation('correspondence:_update_alignments == Lean updateAlignments on the observed tokens, internal matrix and int2ext; hypotheses of C04_update (updateOkb) hold on them',
                       'correspondence', not bad_upd, 'matrices=%d mismatches=%d %s' % (nupd, len(bad_upd), str(bad_upd[0])[:300] if bad_upd else ''))
    if want == 'C11':
        chk.obligation('correspondence:end-of-pass decision of _iter == Lean iterFinal (same gap weight on both sides, exact restore)', 'correspondence',
                       not bad_iter, 'passes=%d mismatches=%d %s' % (npass, len(bad_iter), str(bad_iter[0])[:200] if bad_iter else ''))
    if want == 'C11':
        chk.obligation('correspondence:sum_of_pairs / score_profile (calign and talign variants) == Lean sumOfPairs bit for bit, and the whole _iter(check=final) pass == Lean iterPass on the observed candidate',
                       'correspondence', not bad_sop, 'evaluations=%d mismatches=%d %s' % (nsop, len(bad_sop), str(bad_sop[0])[:400] if bad_sop else ''))
    chk.obligation('oracle:%s statement on Multiple objects' % want, 'correspondence', not fails, 'alignments=%d failures=%d' % (n, len(fails)))
    fails.sort(key=lambda f: sum(map(len, f[0])))
    for f in fails[:2]:
        chk.violation('Multiple(%r).%s(%r) then %r: %s' % (f[0], f[1], f[2], f[3], f[4]),
                      {'kind': 'multiple', 'seqs': f[0], 'method': f[1], 'kw': f[2], 'calls': f[3], 'why': f[4]})
    if (bad_merge or bad_iter or bad_prog or bad_split or bad_upd or bad_sop) and not fails:
        chk.violation('merge / end-of-pass step differs from the model; oracle found no failing input',
                      {'kind': 'multiple-model', 'detail': str((bad_merge or bad_iter or bad_prog or bad_split or bad_upd or bad_sop)[0])[:2000], 'broken': 'correspondence'}, found_input=False)
    chk.sample({'seqs': seqs, 'alm_matrix': [' '.join(r) for r in msa.alm_matrix]}, limit=2)


def run_wordlist_alignments(chk):
    """Alignments(...).align(): per cognate set one length, stored alignments de-gap to the segments, singletons untouched"""
    from lingpy import Alignments
    rng = chk.rng
    fails = []
    bad_col, ncol = [], 0
    drv = common.Driver()
    n = chk.n(120, 3200)
    for it in range(n):
        d = wlgen.gen_wordlist(rng, with_tokens=True, with_cogid=True, min_langs=2, max_langs=5, max_concepts=4)
        ref = 'cogid'
        if rng.random() < 0.35:
            # a second grouping of the words (another cognate coding of the same data): aligning by it must treat ITS sets
            ci = d[0].index('concept')
            d[0] = d[0] + ['altid']
            regroup = {}
            for k in sorted(k for k in d if k != 0):
                key = (d[k][ci], rng.randrange(2))
                regroup.setdefault(key, len(regroup) + 1)
                d[k] = d[k] + [regroup[key]]
            ref = 'altid'
        try:
            if ref == 'cogid' and rng.random() < 0.25:
                # aligned with the scores of a cognate-detection object (scoredict=): the sequences are then that object's numeric
                # encoding, the stored alignments are segments all the same - with and without refinement and swap check
                from lingpy import LexStat
                lex_ = LexStat(d)
                alm = Alignments(lex_, ref='cogid')
                alm.align(method=rng.choice(['progressive', 'library']), scoredict=lex_.bscorer, iteration=rng.random() < 0.6,
                          swap_check=rng.random() < 0.3)
                chk.hist['Alignments.align(scoredict=...) on a LexStat-derived object'] += 1
            else:
                alm = Alignments(d, ref='cogid')
                if ref != 'cogid':
                    alm.add_alignments(ref=ref)
                alm.align(method=rng.choice(['progressive', 'library']), mode=rng.choice(['global', 'overlap', 'dialign']),
                          iteration=rng.random() < 0.5, **({'ref': ref} if ref != 'cogid' else {}))
        except Exception as ex:  # noqa
            fails.append((d, 'raised %s: %s' % (type(ex).__name__, str(ex)[:100])))
            continue
        ti, gi = d[0].index('tokens'), d[0].index(ref)
        sets = {}
        for k in d:
            if k != 0:
                sets.setdefault(d[k][gi], []).append(k)
        chk.count(('alignments', tuple(sorted((k, tuple(map(str, v))) for k, v in d.items()))), any(len(v) > 1 for v in sets.values()),
                  branch=['Alignments.align', 'Alignments.align:ref=' + ref])
        e = None
        for g, ks in sets.items():
            rows = {k: list(alm[k, 'alignment']) for k in ks}
            if len(set(len(r) for r in rows.values())) != 1 and len(ks) > 1:
                e = 'cognate set %r: alignments of different lengths' % g
            for k in ks:
                if [x for x in rows[k] if x != '-'] != list(d[k][ti]):
                    e = 'word %d: alignment %r does not de-gap to its segments %r' % (k, rows[k], d[k][ti])
                if len(ks) == 1 and rows[k] != list(d[k][ti]):
                    e = 'word %d outside any multi-member set was changed' % k
        if e:
            fails.append((d, e))
            continue
        # _msa2col against the Lean model (theorem C04_wordlist): word ids, their segments, the member ids and aligned rows of every
        # multiple alignment the object holds for this cognate column  ->  the alignment column
        try:
            code = {'-': 0}
            ids_ = [k for k in alm]
            tok_rows = [[code.setdefault(x, len(code)) for x in alm[k, 'tokens']] for k in ids_]
            groups, rows_ = [], []
            for g, msa in alm.msa[ref].items():
                groups.append(list(msa['ID']))
                rows_ += [[code.setdefault(x, len(code)) for x in r] for r in msa['alignment']]
            if groups and all(tok_rows) and all(rows_):
                o = drv.ask('msa2col|%s|%s|%s|%s' % (' '.join(map(str, ids_)), rows_line(tok_rows), rows_line(groups), rows_line(rows_)))
                real_col = [[code.get(x, 10 ** 6) for x in alm[k, 'alignment']] for k in ids_]
                ncol += 1
                if o != 'M ' + rows_line(real_col):
                    bad_col.append((d, ref, o[:200], rows_line(real_col)[:200]))
        except Exception as ex:  # noqa
            bad_col.append((d, ref, 'tie raised %s: %s' % (type(ex).__name__, str(ex)[:80]), ''))
    drv.close()
    chk.obligation('correspondence:Alignments._msa2col == Lean msa2col on the observed per-set alignments (theorem C04_wordlist)', 'correspondence',
                   not bad_col, 'wordlists=%d mismatches=%d %s' % (ncol, len(bad_col), str(bad_col[0][1:])[:300] if bad_col else ''))
    if bad_col and not fails:
        chk.violation("Alignments.align: the alignment column differs from the model's write-back of the per-set alignments; the oracle found no failing input",
                      {'kind': 'alignments-model', 'dict': {str(k): v for k, v in bad_col[0][0].items()}, 'detail': bad_col[0][1:], 'broken': 'correspondence:_msa2col'}, found_input=False)
    chk.obligation('oracle:Alignments.align per cognate set', 'correspondence', not fails, 'wordlists=%d failures=%d' % (n, len(fails)))
    for f in sorted(fails, key=lambda f: len(f[0]))[:1]:
        chk.violation('Alignments.align: %s' % f[1], {'kind': 'alignments', 'dict': {str(k): v for k, v in f[0].items()}, 'why': f[1]})


def run_mult_align(chk):
    from lingpy.align.multiple import mult_align
    rng = chk.rng
    fails = []
    n = chk.n(200, 6000)
    for it in range(n):
        k = rng.choice([2, 3, 4, 5])
        alpha = 'abcde'[:rng.choice([2, 3, 5])]
        seqs = [[rng.choice(alpha) for _ in range(rng.randrange(1, 9))] for _ in range(k)]
        if rng.random() < 0.3:
            seqs.append(list(seqs[0]))
        if rng.random() < 0.35:
            # segments of more than one character: two inputs that are different token lists but spell the same string
            # (ts a n / t s a n) are different sequences
            w = [rng.choice('tsa') for _ in range(rng.randrange(3, 7))]
            for _ in range(2):
                cut, seg = [], []
                for ch in w:
                    seg.append(ch)
                    if rng.random() < 0.6:
                        cut.append(''.join(seg))
                        seg = []
                if seg:
                    cut.append(''.join(seg))
                seqs.insert(rng.randrange(len(seqs) + 1), cut)
            chk.hist['mult_align: inputs with multi-character segments'] += 1
        try:
            out = mult_align(seqs, tree_calc=rng.choice(['upgma', 'neighbor']), gop=rng.choice([-1, -2]), scale=rng.choice([0.5, 1.0]))
        except Exception as ex:  # noqa
            fails.append((seqs, 'raised %s: %s' % (type(ex).__name__, str(ex)[:100])))
            continue
        chk.count(('mult_align', tuple(map(tuple, seqs))), k >= 3, branch='mult_align (plain tokens)')
        e = None
        if len(out) != len(seqs) or len(set(len(r) for r in out)) != 1:
            e = 'not rectangular / wrong number of rows'
        elif any([x for x in r if x != '-'] != s for r, s in zip(out, seqs)):
            e = 'a row does not de-gap to its input'
        elif any(all(r[c] == '-' for r in out) for c in range(len(out[0]))):
            e = 'all-gap column'
        if e:
            fails.append((seqs, e))
    chk.obligation('oracle:mult_align (plain-token scoring)', 'correspondence', not fails, 'calls=%d failures=%d' % (n, len(fails)))
    for f in sorted(fails, key=lambda f: sum(map(len, f[0])))[:1]:
        chk.violation('mult_align(%r): %s' % f, {'kind': 'mult_align', 'seqs': f[0], 'why': f[1]})


def replay(chk, path):
    d = json.load(open(path))['replay']
    print(json.dumps(d, indent=1, default=str, ensure_ascii=False)[:3000])
    return 0
