"""C14 — segmentation and sound-class conversion keep every symbol and position."""
import itertools
import json
import os

import common


def char_classes():
    from lingpy import rc
    return dict(diacritics=rc('diacritics'), vowels=rc('vowels'), tones=rc('tones'), combiners=rc('combiners'),
                breaks=rc('breaks'), stress=rc('stress'))


NULL = '∅'
NOGOS = '_◦+'


def gen_string(rng, cc, maxlen):
    cons = 'ptkbdgmnŋfvszʃʒxhlrjwʔθðɲɾʁqcɟ'
    pools = [cons, cc['vowels'], cc['diacritics'], cc['tones'], cc['stress'], cc['combiners'], cc['breaks'], '_◦+', 'ʰʲːˑ̃']
    weights = [8, 7, 4, 2, 1, 1, 1, 1, 2]
    n = rng.choice([0, 1, 1, 2, 3, 4, 5, 6, maxlen])
    s = ''
    for _ in range(n):
        p = rng.choices(pools, weights)[0]
        ch = rng.choice(p)
        if ch.isspace():
            continue
        s += ch
        if rng.random() < 0.15 and s:
            s += s[-1]          # geminate
    return s


def encode_tok(s, cc, mv, mg, semi):
    codes = [ord(c) for c in s]
    table = []
    for c in sorted(set(s)):
        m = (1 if c in cc['breaks'] else 0) | (2 if c in cc['combiners'] else 0) | (4 if c in cc['stress'] else 0) | \
            (8 if c in cc['diacritics'] else 0) | (16 if c in cc['vowels'] else 0) | (32 if c in cc['tones'] else 0) | \
            (64 if c in semi else 0)
        table.append('%d:%d' % (ord(c), m))
    return 'tok|%d %d|%d|%s|%s|%s' % (int(mv), int(mg), ord(NULL), ' '.join(str(ord(c)) for c in NOGOS), ' '.join(table),
                                      ' '.join(map(str, codes)))


def decode_tok(out):
    if out == 'IndexError':
        return 'IndexError'
    return [''.join(chr(int(x)) for x in t.split(',')) for t in out[2:].split()]


def oracle_tokens(s, toks, cc):
    """the C14 statement for the tokeniser; None or failure text"""
    nb = ''.join(c for c in s if c not in cc['breaks'])
    prefix = NULL if nb and nb[0] in cc['combiners'] else ''
    if ''.join(toks) != prefix + nb:
        return 'tokens concatenate to %r, input without breaks is %r' % (''.join(toks), prefix + nb)
    if any(t == '' for t in toks):
        return 'empty token'
    return None


def legal_prefix_steps(s, cc, kw):
    """tie (a): tokenising every prefix s[:k] (geminate merging off) must evolve by legal steps of the abstract automaton:
    a break leaves the list alone, any other character is appended to the last token or starts a new one (with the null glyph
    only on an empty list and a combiner)."""
    from lingpy.sequence.sound_classes import ipa2tokens
    prev = []
    for k in range(1, len(s) + 1):
        c = s[k - 1]
        try:
            cur = ipa2tokens(s[:k], merge_geminates=False, **kw)
        except IndexError:
            return 'IndexError on prefix %r' % s[:k]
        if c in cc['breaks']:
            ok = cur == prev
        else:
            ok = (prev and cur == prev[:-1] + [prev[-1] + c]) or cur == prev + [c] or \
                 (not prev and c in cc['combiners'] and cur == [NULL + c])
        if not ok:
            return 'illegal step at %r: %r -> %r' % (s[:k], prev, cur)
        prev = cur
    return None


def tokeniser(chk, cc):
    from lingpy.sequence.sound_classes import ipa2tokens
    rng = chk.rng
    drv = common.Driver()
    cases = []
    # exhaustive over a class-representative alphabet
    reps = ['t', 'a', 'ʰ', '⁵', 'ˈ', '͡', '.', '_', 'n']
    L = chk.n(4, 5)
    for l in range(0, L + 1):
        for w in itertools.product(reps, repeat=l):
            cases.append((''.join(w), 'exhaustive'))
    if not chk.thorough:
        cases = [c for i, c in enumerate(cases) if len(c[0]) <= 3 or i % 5 == chk.seed % 5]
    for _ in range(chk.n(12000, 800000)):
        cases.append((gen_string(rng, cc, chk.n(8, 14)), 'random'))
    lines, metas = [], []
    for s, sname in cases:
        mv, mg = rng.random() < 0.7, rng.random() < 0.6
        semi = rng.choice(['', '', 'ʃsz', 'hʰ'])
        lines.append(encode_tok(s, cc, mv, mg, semi))
        metas.append((s, mv, mg, semi, sname))
    outs = drv.ask_many(lines)
    bad_b, bad_a, fails = [], [], []
    for (s, mv, mg, semi, sname), o in zip(metas, outs):
        kw = dict(merge_vowels=mv, semi_diacritics=semi)
        try:
            real = ipa2tokens(s, merge_geminates=mg, **kw)
        except IndexError:
            real = 'IndexError'
        except ValueError:
            real = 'ValueError'
        model = decode_tok(o)
        nb = [c for c in s if c not in cc['breaks']]
        chk.count((s, mv, mg, semi), len(real) > 1 and real != 'IndexError' and len(real) < len(nb), branch=['stream:' + sname, 'mg:%s' % mg])
        if real != model:
            bad_b.append((s, kw, mg, real, model))
        if real == 'IndexError':
            if nb or not mg:
                fails.append((s, kw, mg, 'raises IndexError although the input has a non-break character'))
            continue
        if real == 'ValueError':
            continue
        e = oracle_tokens(s, real, cc)
        if e:
            fails.append((s, kw, mg, e))
    # tie (a) on a sample (quadratic in the length)
    for (s, mv, mg, semi, sname) in metas[::chk.n(7, 3)]:
        e = legal_prefix_steps(s, cc, dict(merge_vowels=mv, semi_diacritics=semi))
        if e:
            bad_a.append((s, e))
    drv.close()
    tie_a, tie_b = not bad_a, not bad_b
    chk.obligation('correspondence:ipa2tokens', 'correspondence', (tie_a or tie_b) and not fails,
                   'strings=%d tie(a) legal steps between prefix runs: %s; tie(b) exact fold differential: %s; oracle failures=%d'
                   % (len(cases), 'holds' if tie_a else 'BROKEN(%d)' % len(bad_a), 'holds' if tie_b else 'BROKEN(%d)' % len(bad_b), len(fails)))
    fails.sort(key=lambda f: len(f[0]))
    for f in fails[:2]:
        chk.violation('ipa2tokens(%r, merge_geminates=%r, %r): %s' % (f[0], f[2], f[1], f[3]),
                      {'kind': 'tokens', 'string': f[0], 'kw': f[1], 'merge_geminates': f[2], 'why': f[3]})
    if not (tie_a or tie_b) and not fails:
        b = bad_b[0]
        chk.violation('ipa2tokens differs from the model and takes an illegal step; no failing input found',
                      {'kind': 'tokens-model', 'string': b[0], 'kw': b[1], 'real': b[3], 'model': b[4], 'illegal': bad_a[0],
                       'broken': 'correspondence:ipa2tokens'}, found_input=False)
    chk.sample({'string': metas[-1][0], 'tokens': ipa2tokens(metas[-1][0]) if [c for c in metas[-1][0] if c not in cc['breaks']] else None}, limit=2)


def classes_and_prosody(chk, cc):
    from lingpy import rc
    from lingpy.data.model import Model
    from lingpy.sequence.sound_classes import (ipa2tokens, tokens2class, token2class, prosodic_string, prosodic_weights,
                                                class2tokens)
    rng = chk.rng
    drv = common.Driver()
    models = {}
    for m in ['sca', 'dolgo', 'asjp', 'art', 'cv', 'jaeger', '_color']:
        try:
            models[m] = rc(m) if m in ('sca', 'dolgo', 'asjp', 'art', '_color') else Model(m)
        except Exception:
            pass
    # generated obligations over the shipped tables
    gapfree = {m: sorted(set(v for v in M.converter.values() if v in ('X', '-'))) for m, M in models.items()}
    chk.obligation('generated:GapClassFree (no shipped converter emits the gap class "X" or "-")', 'generated-obligation',
                   not any(gapfree.values()), str({m: v for m, v in gapfree.items() if v}))
    art = models['art']
    chk.obligation('generated:ArtDigits (the art model emits only the digits 1-9)', 'generated-obligation',
                   set(art.converter.values()) <= set('123456789'), str(sorted(set(art.converter.values()))))
    symbols = set('ABCLMNXYZT_')
    try:
        w1 = prosodic_weights('ABCLMNXYZ_')
        w2 = prosodic_weights('ABCLMNXYZT_')
        wt_ok = len(w1) == 10 and len(w2) == 11
        for tr in ('align_transform', 'lexstat_transform'):
            t = rc(tr) if tr in ('align_transform',) else rc('lexstat_transform')
            wt_ok = wt_ok and symbols <= set(t)
    except Exception as ex:  # noqa
        wt_ok = False
    chk.obligation('generated:WeightsTotal (weight tables and transforms are defined on every prosodic symbol)', 'generated-obligation', wt_ok)
    bad, fails = [], []
    # prosodic strings on integer profiles: exhaustive short + random
    profs = []
    for l in range(1, chk.n(4, 5) + 1):
        for p in itertools.product([1, 3, 5, 7, 8, 9], repeat=l):
            profs.append(list(p))
    for _ in range(chk.n(9000, 400000)):
        profs.append([rng.choice([1, 2, 3, 4, 5, 6, 7, 7, 8, 9]) for _ in range(rng.randrange(1, 10))])
    outs = drv.ask_many(['pro|' + ' '.join(map(str, p)) for p in profs])
    for p, o in zip(profs, outs):
        try:
            real = prosodic_string(list(p))
        except ValueError:
            real = 'ValueError'
        chk.count(('pro', tuple(p)), len(set(p)) > 1, branch='prosodic_string')
        model = o[2:] if o.startswith('P ') else o
        if real != model:
            bad.append(('prosodic', p, real, model))
        if real == 'ValueError' or len(real) != len(p) or not set(real) <= symbols:
            fails.append(('prosodic_string(%r) = %r: not one symbol per element' % (p, real),))
        else:
            for out_mode, alpha in (('cv', set('CVT_')), ('CcV', set('CcVvT_'))):
                r2 = prosodic_string(list(p), _output=out_mode)
                if len(r2) != len(p) or not set(r2) <= alpha:
                    fails.append(('prosodic_string(%r, %r) = %r' % (p, out_mode, r2),))
            try:
                w = prosodic_weights(real)
                if len(w) != len(p):
                    fails.append(('prosodic_weights(%r) has %d elements' % (real, len(w)),))
            except Exception as ex:  # noqa
                fails.append(('prosodic_weights(%r) (the prosodic string of the profile %r) raised %s: %s - no weight per element' % (real, p, type(ex).__name__, ex),))
    # token-level: classes, sonority, prosody, weights, class2tokens
    lines, metas = [], []
    for _ in range(chk.n(4500, 160000)):
        from props.c14 import gen_string as gs
        s = gs(rng, cc, 8)
        if not [c for c in s if c not in cc['breaks']]:
            continue
        toks = ipa2tokens(s)
        mname = rng.choice(sorted(models))
        M = models[mname]
        for t in toks[:3]:
            pairs = []
            vcode = {}
            for key in {t, t[:1], t[1:], t[1:2]}:
                if key and key in M.converter:
                    v = M.converter[key]
                    vcode.setdefault(v, len(vcode) + 1)
                    pairs.append('%s=%d' % (','.join(str(ord(c)) for c in key), vcode[v]))
            lines.append('t2c|%s|%s|%d %d' % (' '.join(str(ord(c)) for c in t), ' '.join(pairs),
                                             int(t[0] in cc['stress']), int(t[0] in cc['diacritics'])))
            metas.append((t, mname, {c: v for v, c in vcode.items()}))
        try:
            cls = tokens2class(toks, M)
        except ValueError:
            chk.hist['rejected:only-unknown-sounds'] += 1
            continue
        chk.count(('cls', s, mname), len(toks) > 1, branch='tokens2class/' + mname)
        alphabet = set(M.converter.values()) | {'0'}
        if len(cls) != len(toks) or not set(cls) <= alphabet or set(cls) & {'X', '-'}:
            fails.append(('tokens2class(%r, %s) = %r' % (toks, mname, cls),))
        if mname == 'art':
            pro = prosodic_string(toks)
            try:
                nw = len(prosodic_weights(pro))
            except Exception as ex:  # noqa
                nw = 'raised %s: %s' % (type(ex).__name__, ex)
            if len(pro) != len(toks) or nw != len(toks):
                fails.append(('prosodic_string(%r) = %r, prosodic_weights of it: %r - not one element per token' % (toks, pro, nw),))
            elif rng.random() < 0.5:
                # the same characters segmented differently, in the same process (other tokeniser options; a further split of one
                # token): one element per token of THIS segmentation
                alts = []
                for okw in (dict(merge_vowels=False), dict(semi_diacritics='hs'), dict(merge_geminates=False), dict(expand_nasals=True)):
                    try:
                        t2 = ipa2tokens(s, **okw)
                    except Exception:  # noqa
                        continue
                    if list(t2) != list(toks) and ''.join(t2) == ''.join(toks):
                        alts.append((okw, list(t2)))
                long_ = [i_ for i_, t_ in enumerate(toks) if len(t_) > 1 and all(ch in M.converter for ch in t_)]
                if long_:
                    i_ = rng.choice(long_)
                    alts.append(({'split by hand': i_}, list(toks[:i_]) + list(toks[i_]) + list(toks[i_ + 1:])))
                for okw, t2 in alts[:2]:
                    try:
                        p2 = prosodic_string(t2)
                        n2 = len(prosodic_weights(p2))
                    except ValueError:
                        continue
                    except Exception as ex:  # noqa
                        p2, n2 = 'raised %s' % type(ex).__name__, -1
                    chk.hist['prosodic_string: a second segmentation of the same characters in one process'] += 1
                    if len(p2) != len(t2) or n2 != len(t2):
                        fails.append(('prosodic_string(%r) = %r with %r weights after prosodic_string(%r) in the same process (%r): not one element per token'
                                      % (t2, p2, n2, toks, okw),))
            # aligned class string -> tokens
            alm = []
            for c in cls:
                while rng.random() < 0.25:
                    alm.append('-')
                alm.append(c)
            back = class2tokens(toks, alm)
            if [x for x in back if x != '-'] != list(toks) or len(back) != len(alm):
                fails.append(('class2tokens(%r, %r) = %r' % (toks, alm, back),))
    outs = drv.ask_many(lines)
    for (t, mname, vdec), o in zip(metas, outs):
        real = token2class(t, models[mname])
        model = vdec[int(o[2:])] if o[2:] != '0' else '0'
        if real != model:
            bad.append(('token2class', t, mname, real, model))
    drv.close()
    chk.obligation('correspondence:prosodic_string / token2class == model', 'correspondence', not bad,
                   'profiles=%d token lookups=%d mismatches=%d %s' % (len(profs), len(lines), len(bad), str(bad[0])[:200] if bad else ''))
    chk.obligation('oracle:one class / prosodic symbol / weight per token, classes from the alphabet, no gap class', 'correspondence',
                   not fails, 'failures=%d' % len(fails))
    for f in fails[:2]:
        chk.violation(f[0], {'kind': 'classes', 'why': f[0]})
    if bad and not fails:
        chk.violation('prosodic_string/token2class differ from the model; no failing input found',
                      {'kind': 'classes-model', 'detail': str(bad[0]), 'broken': 'correspondence:prosodic/token2class'}, found_input=False)


def models_by_name_across_schemas(chk, cc):
    """A model may be named instead of passed (`tokens2class(tokens, 'sca')`); the name means whatever `rc(name)` is bound to at the time
    of the call, and `rc(schema=...)` rebinds the names.  Along a session that switches the schema back and forth, the classes of a call
    by name are the classes of the model the name is bound to at that moment - from its alphabet, one per token."""
    from lingpy import rc
    from lingpy.settings import rcParams
    from lingpy.sequence.sound_classes import ipa2tokens, tokens2class, token2class
    rng = chk.rng
    samples = [['m', 'a', '⁵⁵'], ['t', 'a', '³¹', 'k', 'u', '²¹⁴'], ['h', 'a', 'n', 't'], ['N', 'a', '5'], ['t', 'o', 'X', 'E', 'r']]
    for _ in range(chk.n(40, 400)):
        w = gen_string(rng, cc, 6)
        if [c for c in w if c not in cc['breaks']]:
            try:
                samples.append(ipa2tokens(w))
            except Exception:  # noqa
                pass
    fails = []
    n = 0
    try:
        for schema in ['ipa', 'asjp', 'ipa', 'evolaemp', 'ipa'][:chk.n(3, 5)]:
            rc(schema=schema)
            for name in ('sca', 'dolgo', 'asjp', 'art'):
                M = rcParams[name]
                alphabet = set(M.converter.values()) | {'0'}
                for toks in samples:
                    n += 1
                    chk.evaluations += 1
                    try:
                        by_obj = tokens2class(list(toks), M)
                    except ValueError:
                        by_obj = 'ValueError'
                    try:
                        by_name = tokens2class(list(toks), name)
                    except ValueError:
                        by_name = 'ValueError'
                    single = [token2class(t, name) for t in toks]
                    if by_name != by_obj:
                        fails.append('after rc(schema=%r): tokens2class(%r, %r) = %r, but the model the name is bound to now gives %r' % (schema, toks, name, by_name, by_obj))
                    elif by_name != 'ValueError' and (len(by_name) != len(toks) or not set(by_name) <= alphabet):
                        fails.append('after rc(schema=%r): tokens2class(%r, %r) = %r: not one class of the alphabet per token' % (schema, toks, name, by_name))
                    elif not set(single) <= alphabet:
                        fails.append('after rc(schema=%r): token2class over %r with the model named %r gives %r: %r is not in the alphabet of the model the name is bound to'
                                     % (schema, toks, name, single, sorted(set(single) - alphabet)))
    except Exception as ex:  # noqa
        fails.append('a session that switches the schema raised %s: %s' % (type(ex).__name__, str(ex)[:100]))
    finally:
        rc(schema='ipa')
    chk.hist['classes by model NAME across rc(schema=...) switches'] += n
    chk.obligation('oracle:classes by model name follow the schema in force (sessions ipa -> asjp -> ipa ...)', 'correspondence', not fails,
                   'calls=%d failures=%d' % (n, len(fails)))
    for f in fails[:1]:
        chk.violation(f, {'kind': 'classes-by-name', 'why': f})


GEN_SC = os.path.join(common.LEAN, 'Verif', 'Generated', 'SoundClasses.lean')


def translate_soundclasses(chk):
    """translator: the shipped converter files (src/lingpy/data/models/<model>/converter, read here, not through the library) ->
    Verif/Generated/SoundClasses.lean: per model the distinct class values, with the obligations GapClassFree and ArtDigits proved by
    `decide` over the table.  Rewritten on every run; a data file that starts to emit the gap class makes the generated module fail."""
    import unicodedata
    base = os.path.join(common.REPO, 'src', 'lingpy', 'data', 'models')
    table = {}
    for model in sorted(os.listdir(base)):
        p = os.path.join(base, model, 'converter')
        if not os.path.isfile(p):
            continue
        text = unicodedata.normalize('NFC', open(p, encoding='utf-8-sig').read())
        classes = []
        for line in text.split('\n'):
            line = line.rstrip('\r')
            if ' : ' in line:
                cls = line.split(' : ', 1)[0]
                if cls not in classes:
                    classes.append(cls)
        table[model] = sorted(classes)
    longer = sorted(set(c for cs in table.values() for c in cs if len(c) != 1))
    code = lambda c: ord(c) if len(c) == 1 else 1114112 + longer.index(c)       # noqa: E731
    lines = ['-- GENERATED by harness/props/c14.py from the converter files under src/lingpy/data/models of the checked repository. Do not edit.',
             'namespace Verif.Generated', '',
             '/-- per shipped model: the distinct class values of its converter file (the code point of a one-character class,',
             '1114112 + n for the n-th class name of another length - such a name is never the one-character gap class) -/',
             'def classTable : List (String × List Nat) := [']
    lines.append(',\n'.join('  ("%s", [%s])' % (m, ', '.join(str(code(c)) for c in table[m])) for m in sorted(table)))
    lines += [']', '',
              '/-- generated obligation: no shipped converter emits the gap class `X` (88) or `-` (45) -/',
              'theorem GapClassFree : ∀ m ∈ classTable, ∀ c ∈ m.2, c ≠ 88 ∧ c ≠ 45 := by decide', '',
              '/-- generated obligation: the `art` model (sonority) emits only the digits 1-9 -/',
              'theorem ArtDigits : ∀ m ∈ classTable, m.1 = "art" → ∀ c ∈ m.2, 49 ≤ c ∧ c ≤ 57 := by decide', '',
              'end Verif.Generated', '']
    src = '\n'.join(lines)
    with common.LakeLock():
        old = open(GEN_SC, encoding='utf8').read() if os.path.exists(GEN_SC) else ''
        if old != src:
            os.makedirs(os.path.dirname(GEN_SC), exist_ok=True)
            open(GEN_SC, 'w', encoding='utf8').write(src)
    chk.extra['models_in_generated_class_table'] = {m: len(v) for m, v in table.items()}
    return table


def run(chk):
    chk.rule = ('strings over the repository\'s own inventories (vowels, diacritics, tones, stress, combiners, breaks, consonants) with unusual '
                'orders forced, exhaustive over a 9-symbol class-representative alphabet to length 4/5, x merge_vowels / merge_geminates / '
                'semi_diacritics; sonority profiles exhaustive to length 4/5 over {1,3,5,7,8,9} + random; all shipped models; '
                'non-trivial = more than one token and at least one multi-character token')
    table = translate_soundclasses(chk)
    chk.lean_obligations()
    with common.LakeLock():
        rc_, out_ = common.sh(['lake', 'build', 'Verif.Generated.SoundClasses', 'Verif.Props.C14Gen'], cwd=common.LEAN, timeout=1200)
    offending = {m: [c for c in cs if c in ('X', '-')] for m, cs in table.items()}
    chk.obligation('generated:GapClassFree + ArtDigits (decide over Verif/Generated/SoundClasses.lean: %d models, class values read from the shipped converter files)' % len(table),
                   'generated-obligation', rc_ == 0, (str({m: v for m, v in offending.items() if v}) or out_[-300:]) if rc_ else '')
    if rc_ != 0:
        bad_models = sorted(m for m, v in offending.items() if v) or sorted(m for m in ('art',) if any(c not in '123456789' for c in table.get('art', [])))
        if bad_models:
            m0 = bad_models[0]
            chk.violation('the converter file of model %r emits the class %r: a sound class equal to the gap class (or, for art, not a digit)' % (m0, offending.get(m0) or table.get(m0)),
                          {'kind': 'generated', 'model': m0, 'classes': table.get(m0), 'broken': 'generated:GapClassFree/ArtDigits'})
        else:
            chk.violation('the generated obligations over the sound-class tables no longer check', {'kind': 'generated', 'broken': 'generated:GapClassFree/ArtDigits', 'build': out_[-500:]},
                          found_input=False)
    cc = char_classes()
    tokeniser(chk, cc)
    classes_and_prosody(chk, cc)
    models_by_name_across_schemas(chk, cc)
    # gap re-insertion (global and local mode) against the Lean class2tokens / class2tokensLocal (theorems C14_class2tokens(_local))
    from props import align_common as ac
    ac.class2tokens_checks(chk)


def replay(chk, path):
    d = json.load(open(path))['replay']
    if d.get('kind') == 'tokens':
        from lingpy.sequence.sound_classes import ipa2tokens
        print(ipa2tokens(d['string'], merge_geminates=d['merge_geminates'], **d['kw']))
    print(json.dumps(d, indent=1, default=str, ensure_ascii=False)[:2000])
    return 0
