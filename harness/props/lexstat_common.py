"""Shared check logic for C06 (cognate detection = per-concept clustering) and the cognate clause of C10."""
import json
import random

import common
import wlgen
import clusterlib as cl

METHODS = ['turchin', 'edit-dist', 'sca', 'lexstat']


def py_lev(a, b):
    prev = list(range(len(b) + 1))
    for i in range(1, len(a) + 1):
        cur = [i] + [0] * len(b)
        for j in range(1, len(b) + 1):
            cur[j] = min(prev[j] + 1, cur[j - 1] + 1, prev[j - 1] + (a[i - 1] != b[j - 1]))
        prev = cur
    return prev[-1]


def make_lexstat(rng, need_scorer=False):
    from lingpy import LexStat
    many = (not need_scorer) and rng.random() < 0.15          # ten and more doculects now and then (two-digit language ids)
    d = wlgen.gen_wordlist(rng, with_cogid=False, min_langs=10 if many else (2 if need_scorer else 1), max_langs=12 if many else 5, max_concepts=3 if many else 6)
    lex = LexStat(d)
    if need_scorer:
        random.seed(1234)
        lex.get_scorer(runs=50, ratio=(2, 1), vscale=0.5, threshold=0.7)
    return d, lex


def matrices_of(lex, method):
    return [(c, list(idx), [list(r) for r in m]) for c, idx, m in lex._get_matrices(method=method)]


def partition_of(ids, rows):
    p = {}
    for k in rows:
        p.setdefault(ids[k], []).append(k)
    return sorted(map(sorted, p.values()))


def turchin_key(lex, k, model):
    from lingpy.sequence.sound_classes import tokens2class
    cls = tokens2class(lex[k, 'tokens'], model)
    if cls[0] in model.vowels:
        cls[0] = 'H'
    return ''.join(c for c in cls if c not in model.vowels)[:2]


def turchin_tie(chk):
    """pairwise.turchin == Lean Turchin.dist on the class strings (theorems C06_turchin_single / _complete: at every threshold in [0, 1) the
    clusters are the classes of equal keys)"""
    from lingpy import rc
    from lingpy.align.pairwise import turchin
    from lingpy.sequence.sound_classes import tokens2class, ipa2tokens
    from props.msa_common import WORDS
    rng = chk.rng
    drv = common.Driver()
    bad = []
    n = chk.n(600, 20000)
    try:
        for it in range(n):
            mname = rng.choice(['dolgo', 'dolgo', 'sca', 'asjp'])
            model = rc(mname)
            wa, wb = rng.choice(WORDS), rng.choice(WORDS)
            if rng.random() < 0.3:
                wb = wa[:rng.randrange(1, len(wa) + 1)] + rng.choice(WORDS)[-2:]
            try:
                ta, tb = ipa2tokens(wa), ipa2tokens(wb)
                ca, cb = tokens2class(ta, model), tokens2class(tb, model)
                real = turchin(list(ta), list(tb), model=model)
            except Exception:  # noqa
                continue
            o = drv.ask('turchin|%s|%d|%s|%s' % (' '.join(str(ord(v)) for v in model.vowels), ord('H'), ' '.join(str(ord(c)) for c in ca),
                                                ' '.join(str(ord(c)) for c in cb)))
            chk.evaluations += 1
            if not o.startswith('T %d ' % real):
                bad.append((wa, wb, mname, real, o))
    finally:
        drv.close()
    chk.obligation('correspondence:pairwise.turchin == Lean Turchin.dist on the sound-class strings (theorems C06_turchin_single / C06_turchin_complete)',
                   'correspondence', not bad, 'pairs=%d mismatches=%d %s' % (n, len(bad), str(bad[0])[:200] if bad else ''))
    if bad:
        chk.violation('the consonant-class distance differs from the model for %r / %r (%s): %r vs %s; no word list with other cognate sets than the key classes was found'
                      % (bad[0][0], bad[0][1], bad[0][2], bad[0][3], bad[0][4]),
                      {'kind': 'turchin-model', 'detail': str(bad[0]), 'broken': 'correspondence:pairwise.turchin'}, found_input=False)


def run_c06(chk):
    from lingpy import rc
    rng = chk.rng
    drv = common.Driver()
    bad, fails = [], []
    n = chk.n(900, 16000)
    nlex = 0
    prev = None
    for it in range(n):
        method = rng.choice(METHODS) if it % 8 == 0 else rng.choice(METHODS[:3])
        again = None
        if prev is not None and rng.random() < 0.3:
            # a further analysis on the object of the previous call (other linkage, often the same method and threshold): every call has
            # to give the partition of ITS linkage, whatever was computed on the object before
            d, lex, pm, pt, plink, scored = prev
            if rng.random() < 0.7:
                method, again = pm, pt
            elif method == 'lexstat' and not scored:
                method = pm
            chk.hist['LexStat.cluster called again on the same object'] += 1
        else:
            try:
                d, lex = make_lexstat(rng, need_scorer=(method == 'lexstat'))
            except Exception as ex:  # noqa
                chk.hist['lexstat-init-raised:' + type(ex).__name__] += 1
                prev = None
                continue
            plink = None
            scored = (method == 'lexstat')
        nlex += 1
        link = rng.choice([x for x in cl.LINKS if x != plink])
        nudge = False
        if again is not None and plink is not None and rng.random() < 0.4:
            # the same method and linkage once more into the same column, with a threshold that differs from the earlier one only from
            # the third decimal on (0.3333.. then 0.33): it is another threshold, distances between the two change sides
            link, nudge = plink, True
        mats = matrices_of(lex, method)
        vals = sorted(set(v for _, _, m in mats for r in m for v in r))
        t = rng.choice(vals + [0.3, 0.5, 0.45, 0.75]) if method != 'turchin' else rng.choice([0.0, 0.5, 0.9])
        if again is not None:
            t = again
            if nudge:
                t2 = float('%.2f' % again)
                t = t2 if t2 != again else again + rng.choice([0.004, -0.004])
                chk.hist['LexStat.cluster again: same method, linkage and column, threshold changed in the third decimal'] += 1
        elif rng.random() < 0.12:
            t = rng.choice([0, 0.0])          # only identical words (distance exactly 0) are to be joined
            chk.hist['LexStat.cluster with threshold zero'] += 1
        prev = (d, lex, method, t, link, scored)
        ref = 'customid'
        used = []
        orig_gm = lex._get_matrices

        def spy_gm(*a, _orig=orig_gm, **k):
            for item in _orig(*a, **k):
                used.append((item[0], list(item[1]), [list(r) for r in item[2]]))
                yield item
        lex._get_matrices = spy_gm
        try:
            amode = 'overlap'
            if method in ('sca', 'lexstat') and again is None and rng.random() < 0.2:
                # the alignment mode of the distances is the caller's choice; in global mode unrelated words are further apart than 1,
                # and a threshold of 1 or more is a threshold like any other
                amode = 'global'
                t = rng.choice([1.0, 1.25, 1, t])
                chk.hist['LexStat.cluster(mode=global), thresholds of 1 and more'] += 1
            lex.cluster(method=method, cluster_method=link, threshold=t, ref=ref, override=True, **({'mode': amode} if amode != 'overlap' else {}))
        except Exception as ex:  # noqa
            fails.append((d, method, link, t, 'cluster raised %s: %s' % (type(ex).__name__, str(ex)[:100])))
            continue
        finally:
            del lex._get_matrices
        ids = {k: lex[k, ref] for k in lex}
        chk.count((method, link, t, tuple(sorted((k, tuple(map(str, v))) for k, v in d.items()))),
                  len(set(ids.values())) < len(ids), branch=['method:' + method, 'link:' + link])
        # --- oracle: the C06 statement ---
        e = None
        if sorted(ids) != sorted(k for k in d if k != 0) or any(not isinstance(v, int) for v in ids.values()):
            e = 'not every word has exactly one integer id'
        concept_of = {k: d[k][d[0].index('concept')] for k in ids}
        for a in ids:
            for b in ids:
                if ids[a] == ids[b] and concept_of[a] != concept_of[b]:
                    e = 'words %d (%s) and %d (%s) of different concepts share id %d' % (a, concept_of[a], b, concept_of[b], ids[a])
        if not e:
            # the matrix clustered for a concept holds, for EVERY pair of its words, the distance of the method (identical forms in two
            # languages included: under the lexstat scorer their distance is not 0 in general)
            try:
                fn = lex._distance_method(method, scale=0.5, factor=0.3, restricted_chars='_T', mode=amode, gop=-2,
                                          restriction='', external_scorer=False)
            except Exception:  # noqa
                fn = None
            for c, idx, m in (used or mats):        # the matrices cluster() itself asked for (with its own keywords)
                for i in range(len(idx)):
                    for j in range(i + 1, len(idx)):
                        if fn is None or e:
                            break
                        try:
                            dij = fn(idx[i], idx[j])
                        except ZeroDivisionError:
                            dij = 100
                        chk.evaluations += 1
                        if lex[idx[i], 'tokens'] == lex[idx[j], 'tokens']:
                            chk.hist['pair of identical forms in one concept (%s)' % method] += 1
                        if method == 'sca' and dij != 100:
                            # the SCA distance of the pair computed from the columns the object stores for the two words (class and
                            # prosodic symbol per segment, weights, prosodic strings) - not through the object's own distance method
                            from lingpy.algorithm import calign as _calign
                            ia, ib = idx[i], idx[j]
                            sa_ = ['%s.%s' % (x, lex._transform[y]) for x, y in zip(lex[ia, 'classes'], lex[ia, 'prostrings'])]
                            sb_ = ['%s.%s' % (x, lex._transform[y]) for x, y in zip(lex[ib, 'classes'], lex[ib, 'prostrings'])]
                            try:
                                own = _calign.align_pair(sa_, sb_, lex[ia, 'weights'], lex[ib, 'weights'], lex[ia, 'prostrings'], lex[ib, 'prostrings'],
                                                         -2, 0.5, 0.3, lex.rscorer, amode, '_T', 1)[2]
                            except ZeroDivisionError:
                                own = dij
                            if own != dij:
                                e = ('concept %r: the sca distance of words %d (%s) and %d (%s) is %r through the object, %r from its stored class / prosody / weight columns'
                                     % (c, ia, lex[ia, 'doculect'], ib, lex[ib, 'doculect'], dij, own))
                        if method == 'edit-dist' and dij != 100:
                            ta, tb = list(lex[idx[i], 'tokens']), list(lex[idx[j], 'tokens'])
                            lev = py_lev(ta, tb) / max(len(ta), len(tb))
                            if abs(lev - dij) > 1e-12:
                                e = ('concept %r: the edit-dist distance of %r and %r is %r, the normalised Levenshtein distance is %r'
                                     % (c, ta, tb, dij, lev))
                        if not (m[i][j] == dij and m[j][i] == dij):
                            e = ('concept %r: the matrix that is clustered has %r for words %d %r and %d %r, the %s distance of the pair is %r'
                                 % (c, m[i][j], idx[i], lex[idx[i], 'tokens'], idx[j], lex[idx[j], 'tokens'], method, dij))
        if not e:
            for c, idx, m in (used or mats):
                part = partition_of(ids, idx)
                clusters = {i: [idx.index(k) for k in block] for i, block in enumerate(part)}
                oe = cl.oracle_c05(link, m, t, clusters, tol=1e-12)
                if oe:
                    e = 'concept %r: ids are not the %s-linkage threshold clustering of its distance matrix: %s' % (c, link, oe)
                if method == 'edit-dist' and link == 'single':
                    toks = {k: lex[k, 'tokens'] for k in idx}
                    parent = {k: k for k in idx}

                    def find(x):
                        while parent[x] != x:
                            x = parent[x]
                        return x
                    for a in idx:
                        for b in idx:
                            if a < b and py_lev(list(toks[a]), list(toks[b])) / max(len(toks[a]), len(toks[b])) <= t:
                                parent[find(a)] = find(b)
                    comps = {}
                    for k in idx:
                        comps.setdefault(find(k), []).append(k)
                    if sorted(map(sorted, comps.values())) != part:
                        e = 'edit-dist/single: sets %r are not the components %r of the Levenshtein graph' % (part, sorted(map(sorted, comps.values())))
                if method == 'turchin' and 0 <= t < 1:
                    model = rc('dolgo')
                    cls = {}
                    for k in idx:
                        cls.setdefault(turchin_key(lex, k, model), []).append(k)
                    if sorted(map(sorted, cls.values())) != part:
                        e = 'turchin: sets %r are not the classes %r of equal first-two-consonant-classes' % (part, sorted(map(sorted, cls.values())))
        if e:
            fails.append((d, method, link, t, e))
            continue
        # --- correspondence: ids recomputed by the Lean model from (indices, matrices) ---
        def model_ids_with(labeller):
            parts = []
            for c, idx, m in (used or mats):
                labels = labeller(m)
                parts.append('%s:%s' % (','.join(map(str, idx)), ','.join(str(labels[i]) for i in range(len(idx)))))
            out = drv.ask('glue|0|' + ' '.join(parts))
            res = {}
            for blk in out[2:].split():
                for e2 in blk.split(','):
                    a, b = e2.split('=')
                    res[int(a)] = int(b)
            return res

        def lean_labels(m):
            st = cl.decode(drv.ask(cl.encode(link, m, t)))[-1]
            return {i: key + 1 for key, members in st for i in members}

        def real_labels(m):
            from lingpy.algorithm import clustering
            return clustering.flat_cluster(link, t, [list(r) for r in m], revert=True)
        model_ids = model_ids_with(lean_labels)
        if model_ids != ids:
            # C06's own level is the bookkeeping on top of the clusterer's labels (the clusterer is C05's tie)
            model_ids = model_ids_with(real_labels)
            chk.hist['glue-tie-with-real-labels'] += 1
        if model_ids != ids:
            bad.append((d, method, link, t, ids, model_ids))
    drv.close()
    chk.sample({'method': method, 'link': link, 'threshold': t, 'ids': {str(k): v for k, v in list(ids.items())[:8]}}, limit=2)
    chk.obligation('correspondence:id column == Lean glue(flatCluster(concept matrices))', 'correspondence', not bad,
                   'wordlists=%d mismatches=%d' % (nlex, len(bad)))
    chk.obligation('oracle:C06 statement (total, concept-disjoint, per-concept threshold clustering, edit-dist/turchin corollaries)',
                   'correspondence', not fails, 'failures=%d' % len(fails))
    fails.sort(key=lambda f: len(f[0]))
    for f in fails[:2]:
        chk.violation('LexStat.cluster(method=%s, cluster_method=%s, threshold=%r): %s' % (f[1], f[2], f[3], f[4]),
                      {'kind': 'cognates', 'dict': {str(k): v for k, v in f[0].items()}, 'method': f[1], 'link': f[2], 'threshold': f[3], 'why': f[4]})
    if bad and not fails:
        b = bad[0]
        chk.violation('id column differs from the model; oracle found no failing input',
                      {'kind': 'cognates-model', 'dict': {str(k): v for k, v in b[0].items()}, 'method': b[1], 'link': b[2],
                       'threshold': b[3], 'real': b[4], 'model': b[5], 'broken': 'correspondence:id column'}, found_input=False)


def cognate_threshold_pairs(chk):
    """C10, cognate clause: LexStat.cluster at t1 <= t2 with the same method/linkage gives nested sets"""
    rng = chk.rng
    fails, mech = [], []
    n = chk.n(500, 12000)
    for it in range(n):
        method = rng.choice(METHODS) if it % 10 == 0 else rng.choice(METHODS[:3])
        try:
            d, lex = make_lexstat(rng, need_scorer=(method == 'lexstat'))
        except Exception:
            continue
        link = rng.choice(cl.LINKS)
        mats = matrices_of(lex, method)
        vals = sorted(set(v for _, _, m in mats for r in m for v in r)) + [0.3, 0.55, 0.8]
        # several thresholds on one object: every earlier partition must be nested in every later one; and the distances that are
        # clustered must be the same at every threshold (the statement is about the same scoring function)
        ts = sorted(set(rng.choice(vals) for _ in range(5)))
        if len(ts) < 2:
            ts = sorted(set(ts + [0.3, 0.8]))
        parts, used = [], []
        orig = lex._get_matrices

        def spy(*a, _orig=orig, **k):
            for item in _orig(*a, **k):
                used[-1].append([list(r) for r in item[2]])
                yield item
        lex._get_matrices = spy
        interleave = rng.random() < 0.4
        if interleave:
            chk.hist['threshold sweep on an object with other analyses before and between the runs (other method, restriction=cv)'] += 1

        def other_analysis():
            # another analysis on the same object, written to another column: another method, or the same method with another option
            used.append([])
            try:
                om = rng.choice([m_ for m_ in METHODS[:3] if m_ != method] + ([method] if method == 'edit-dist' else []))
                okw = {'restriction': 'cv'} if om == 'edit-dist' and rng.random() < 0.7 else {}
                lex.cluster(method=om, cluster_method=rng.choice(cl.LINKS), threshold=rng.choice([0.3, 0.5, 0.7]), ref='lingpyid', override=True, **okw)
            except Exception:  # noqa
                pass
            used.pop()
        try:
            if interleave:
                other_analysis()
                if method == 'edit-dist':
                    used.append([])
                    lex.cluster(method='edit-dist', cluster_method=link, threshold=0.5, ref='lingpyid', override=True, restriction='cv')
                    used.pop()
            for t in ts:
                used.append([])
                lex.cluster(method=method, cluster_method=link, threshold=t, ref='customid', override=True)
                parts.append(partition_of({k: lex[k, 'customid'] for k in lex}, list(lex)))
                if interleave and rng.random() < 0.5:
                    other_analysis()
        finally:
            del lex._get_matrices
        chk.count(('cog-pair', method, link, tuple(ts), tuple(sorted((k, tuple(map(str, v))) for k, v in d.items()))), parts[0] != parts[-1],
                  branch='cognate-threshold-pair:' + method)
        hit = False
        for i in range(len(ts)):
            for j in range(i + 1, len(ts)):
                if not hit and not cl.refines(parts[i], parts[j]):
                    fails.append((d, method, link, ts[i], ts[j], parts[i], parts[j]))
                    hit = True
        if not hit and any(u != used[0] for u in used[1:]):
            mech.append((d, method, link, ts))
    chk.obligation('oracle:cognate sets at t1 are nested in cognate sets at t2', 'correspondence', not fails,
                   'pairs=%d failures=%d' % (n, len(fails)))
    chk.obligation('correspondence:the per-concept distances that LexStat.cluster hands to the clusterer do not depend on the threshold', 'correspondence',
                   not mech, 'objects=%d with threshold-dependent distances=%d' % (n, len(mech)))
    if mech and not fails:
        # the mechanism is broken: search for sets that are not nested (same method, every linkage, every distinct distance as a threshold)
        method = mech[0][1]
        for _ in range(chk.n(400, 4000)):
            if fails:
                break
            try:
                if method == 'lexstat':
                    d, lex = make_lexstat(rng, need_scorer=True)
                else:
                    # few concepts with many words of clearly different lengths over a small inventory
                    from lingpy import LexStat
                    d = {0: ['doculect', 'concept', 'ipa']}
                    k = 1
                    for c in ['hand', 'foot'][:rng.choice([1, 2])]:
                        for l in wlgen.LANGS[:rng.randrange(4, 8)]:
                            for _s in range(rng.choice([1, 1, 2])):
                                d[k] = [l, c, ''.join(rng.choice('ptk') + rng.choice('ai') for _ in range(rng.randrange(1, 5)))]
                                k += 1
                    lex = LexStat(d)
            except Exception:
                continue
            vals = sorted(set(v for _, _, m in matrices_of(lex, method) for r in m for v in r))
            ts = sorted(set(vals + [(a + b) / 2 for a, b in zip(vals, vals[1:])]))[:16]
            for link in cl.LINKS:
                parts = []
                for t in ts:
                    lex.cluster(method=method, cluster_method=link, threshold=t, ref='customid', override=True)
                    parts.append(partition_of({k: lex[k, 'customid'] for k in lex}, list(lex)))
                    chk.evaluations += 1
                bad_pair = [(i, j) for i in range(len(ts)) for j in range(i + 1, len(ts)) if not cl.refines(parts[i], parts[j])]
                if bad_pair:
                    i, j = bad_pair[0]
                    fails.append((d, method, link, ts[i], ts[j], parts[i], parts[j]))
                    break
    if mech and not fails:
        f = mech[0]
        chk.violation('LexStat.cluster(%s,%s): the distance matrices that are clustered differ between thresholds %r; no pair of thresholds with sets that are not nested was found' % (f[1], f[2], f[3]),
                      {'kind': 'cognate-mechanism', 'dict': {str(k): v for k, v in f[0].items()}, 'method': f[1], 'link': f[2], 'thresholds': f[3],
                       'broken': 'correspondence:threshold-independent distances'}, found_input=False)
    for f in fails[:1]:
        chk.violation('LexStat.cluster(%s,%s): sets at %r are not nested in sets at %r' % (f[1], f[2], f[3], f[4]),
                      {'kind': 'cognate-pair', 'dict': {str(k): v for k, v in f[0].items()}, 'method': f[1], 'link': f[2],
                       't1': f[3], 't2': f[4], 'at_t1': f[5], 'at_t2': f[6]})


def replay(chk, path):
    d = json.load(open(path))['replay']
    print(json.dumps(d, indent=1, default=str, ensure_ascii=False)[:3000])
    return 0
