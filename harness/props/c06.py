"""C06 — cognate detection is per-concept clustering of pairwise word distances."""
from props import lexstat_common as lc


def run(chk):
    chk.rule = ('generated wordlists (1-5 languages, 1-6 concepts, synonyms, missing cells, duplicate words, non-contiguous ids) x '
                '{turchin, edit-dist, sca, lexstat with a scorer from 50 seeded permutation runs} x {single, complete, upgma} x thresholds '
                'drawn from the concept matrices; per-concept matrices captured from _get_matrices; non-trivial = at least two words share an id')
    chk.lean_obligations()
    lc.turchin_tie(chk)
    lc.run_c06(chk)


def replay(chk, path):
    return lc.replay(chk, path)
