"""Shared check logic for C12 (views of a wordlist) and C17 (distances, presence/absence patterns)."""
import json
import os
import tempfile

import common
import wlgen


def encode(wl, ref='cogid'):
    """rows in dictionary order; names -> codes (code 0 is reserved for the empty value)"""
    concepts, langs = {}, {}
    rows = []
    cidx, lidx = wl._rowIdx, wl._colIdx
    gidx = wl._header[ref] if ref in wl._header else None
    for k in wl._data:
        r = wl._data[k]
        c = concepts.setdefault(r[cidx], len(concepts) + 1)
        l = langs.setdefault(r[lidx], len(langs) + 1)
        g = r[gidx] if gidx is not None else 0
        gs = list(g) if isinstance(g, (list, tuple)) else [g]
        rows.append('%d.%d.%d.%s' % (k, c, l, ','.join(str(int(x)) for x in gs)))
    cols = [langs[l] for l in wl.cols]
    return rows, cols, concepts, langs


def parse_sections(out):
    assert out.startswith('W '), out[:100]
    secs = out[2:].split(' # ')

    def kv(sec, f):
        d = {}
        for item in sec.split(';'):
            if not item:
                continue
            k, v = item.split('=')
            d[k] = f(v)
        return d
    ints = lambda v: [int(x) for x in v.split(',') if x != '']
    arr = kv(secs[0], lambda v: [ints(r) for r in v.split('/')] if v else [])
    ety = kv(secs[1], lambda v: [ints(r) for r in v.split('/')])
    paps = kv(secs[2], ints)
    dst = kv(secs[3], lambda v: [int(x) for x in v.split('.')])
    lc = kv(secs[4], ints)
    lr = kv(secs[5], ints)
    return arr, ety, paps, dst, lc, lr


def make_wordlist(chk, rng, from_file=None, **kw):
    from lingpy import Wordlist
    d = wlgen.gen_wordlist(rng, **kw)
    if rng.random() < 0.35:
        # the columns in another order (a cognate-id or concept column first, ...): the order of the columns is the caller's choice
        perm = list(range(len(d[0])))
        rng.shuffle(perm)
        d = {k: [v[i] for i in perm] for k, v in d.items()}
        chk.hist['wordlist with permuted column order'] += 1
    if from_file and rng.random() < 0.3:
        path = os.path.join(from_file, 'wl%d.tsv' % rng.randrange(10 ** 9))
        if rng.random() < 0.3:
            # a file without an ID column: the reader numbers the rows 1, 2, ... in the order of the lines
            d = dict([(0, d[0])] + [(n_ + 1, d[k]) for n_, k in enumerate(k for k in d if k != 0)])
            with_id = False
            chk.hist['wordlist file without an ID column'] += 1
        else:
            with_id = True
        with open(path, 'w', encoding='utf8') as f:
            f.write(('ID\t' if with_id else '') + '\t'.join(h.upper() for h in d[0]) + '\n')
            for k in d:
                if k != 0:
                    f.write((str(k) + '\t' if with_id else '') + '\t'.join(str(x) for x in d[k]) + '\n')
        wl = Wordlist(path)
        os.remove(path)
        # columns without a type in the namespace come back as strings
        for name in ('freq',):
            if name in d[0]:
                i = d[0].index(name)
                for k in d:
                    if k != 0:
                        d[k][i] = str(d[k][i])
        return d, wl, 'file'
    if rng.random() < 0.12:
        # labels that differ by surrounding blanks only ('hand' / 'hand ', as typed into a spreadsheet): in a wordlist built from a dictionary
        # they are different concepts / languages, each row under the label it carries
        hdr = d[0]
        i = hdr.index(rng.choice(['concept', 'concept', 'doculect']))
        vals = sorted(set(d[k][i] for k in d if k != 0 and isinstance(d[k][i], str)))
        v0 = rng.choice(vals)
        for k in d:
            if k != 0 and d[k][i] == v0 and rng.random() < 0.5:
                d[k][i] = v0 + ' '
        chk.hist['wordlist (dictionary) with labels that differ by a trailing blank'] += 1
    if rng.random() < 0.2:
        # names spelled with combining marks (decomposed unicode, as exported by many databases): a wordlist built from a dictionary
        # lists and finds the names as they are spelled in the rows (only the file reader normalises what it reads)
        import unicodedata
        hdr = d[0]
        for col in ('doculect', 'concept'):
            i = hdr.index(col)
            for k in d:
                if k != 0 and isinstance(d[k][i], str):
                    d[k][i] = unicodedata.normalize('NFD', d[k][i])
        chk.hist['wordlist (dictionary) with decomposed unicode names'] += 1
    return d, Wordlist(d), 'dict'


def oracle_views(wl, d):
    """independent statement of C12 on the real object; returns None or failure text"""
    hdr = d[0]
    ci, li = hdr.index('concept'), hdr.index('doculect')
    ids = [k for k in d if k != 0]
    rows = {k: d[k] for k in ids}
    if len(wl) != len(ids):
        return 'len() is %d, rows: %d' % (len(wl), len(ids))
    exp_rows = sorted(set(str(r[ci]) for r in rows.values()), key=lambda x: x.lower())
    exp_cols = sorted(set(str(r[li]) for r in rows.values()), key=lambda x: x.lower())
    if sorted(wl.rows) != sorted(exp_rows) or [x.lower() for x in wl.rows] != [x.lower() for x in exp_rows]:
        return 'rows are not the distinct concepts in case-insensitive order: %r' % (wl.rows,)
    if sorted(wl.cols) != sorted(exp_cols) or [x.lower() for x in wl.cols] != [x.lower() for x in exp_cols]:
        return 'cols are not the distinct languages in case-insensitive order: %r' % (wl.cols,)
    if wl.height != len(exp_rows) or wl.width != len(exp_cols):
        return 'height/width wrong'
    # the table: each id exactly once, under its own concept and language
    seen = []
    for c in wl.rows:
        for pos in wl._idx[c]:
            line = wl._array[pos]
            for j, cell in enumerate(line):
                if cell != 0:
                    seen.append(int(cell))
                    if str(rows[int(cell)][ci]) != c or str(rows[int(cell)][li]) != wl.cols[j]:
                        return 'id %d stands under concept %r / language %r' % (cell, c, wl.cols[j])
    if sorted(seen) != sorted(ids):
        return 'table does not hold every id exactly once'
    for l in wl.cols:
        got = wl.get_list(col=l, flat=True)
        exp = [k for k in ids if str(rows[k][li]) == l]
        if sorted(got) != sorted(exp):
            return 'get_list(col=%r, flat) = %r, expected ids %r' % (l, got, exp)
        gd = wl.get_dict(col=l)
        if sorted(x for v in gd.values() for x in v) != sorted(exp) or any(str(rows[x][ci]) != c for c, v in gd.items() for x in v):
            return 'get_dict(col=%r) inconsistent' % l
        ge = wl.get_dict(col=l, entry='ipa')
        if any(ge[c] != [rows[x][hdr.index('ipa')] for x in gd[c]] for c in gd):
            return 'get_dict(col, entry) inconsistent with the rows'
        nested = wl.get_list(col=l)
        if len(nested) != len(wl._array) or sorted(x for x in nested if x != 0) != sorted(exp):
            return 'get_list(col) (with gaps) inconsistent'
        # entry lists: one value per row id of the id list, in the same order - also when the value itself is 0, '' or an empty list
        for E in hdr:
            if E in ('doculect', 'concept'):
                continue
            for kw in ({'col': l}, {'language': l}, {'taxa': l}):
                ef = wl.get_list(entry=E, flat=True, **kw)
                if ef != [wl[x, E] for x in got]:
                    return 'get_list(%r, entry=%r, flat) = %r, but rows %r carry %r' % (kw, E, ef, got, [wl[x, E] for x in got])
                en = wl.get_list(entry=E.upper(), **kw)
                if en != [(wl[x, E] if x != 0 else 0) for x in nested]:
                    return 'get_list(%r, entry=%r) = %r does not match the id list %r' % (kw, E.upper(), en, nested)
    for c in wl.rows:
        got = wl.get_list(row=c, flat=True)
        exp = [k for k in ids if str(rows[k][ci]) == c]
        if sorted(got) != sorted(exp):
            return 'get_list(row=%r, flat) = %r, expected %r' % (c, got, exp)
        gd = wl.get_dict(row=c)
        if sorted(x for v in gd.values() for x in v) != sorted(exp) or any(str(rows[x][li]) != l for l, v in gd.items() for x in v):
            return 'get_dict(row=%r) inconsistent' % c
        if wl.get_list(concept=c, flat=True) != got or wl.get_dict(concept=c) != gd:
            return 'alias keyword concept= differs from row='
        for E in hdr:
            if E in ('doculect', 'concept'):
                continue
            ef = wl.get_list(row=c, entry=E, flat=True)
            if ef != [wl[x, E] for x in got]:
                return 'get_list(row=%r, entry=%r, flat) = %r, but rows %r carry %r' % (c, E, ef, got, [wl[x, E] for x in got])
            en = wl.get_list(row=c, entry=E)
            ids2 = wl.get_list(row=c)
            if en != [[(wl[x, E] if x != 0 else 0) for x in line] for line in ids2]:
                return 'get_list(row=%r, entry=%r) does not match the id table' % (c, E)
    # column access by name / alias, lower and upper case
    for k in ids[:5]:
        for name in hdr:
            vals = {repr(wl[k, name]), repr(wl[k, name.upper()]), repr(wl[k, name.lower()])}
            if len(vals) != 1 or wl[k, name] != rows[k][hdr.index(name)]:
                return 'wl[%d, %r] differs by case or from the row' % (k, name)
        for alias, target in (('language', 'doculect'), ('taxa', 'doculect'), ('taxon', 'doculect'), ('gloss', 'concept'),
                              ('LANGUAGE', 'doculect'), ('GLOSS', 'concept')):
            if wl[k, alias] != rows[k][hdr.index(target)]:
                return 'alias %r does not reach column %r' % (alias, target)
    ent = wl.get_entries('ipa')
    if [[(rows[int(c)][hdr.index('ipa')] if c != 0 else 0) for c in line] for line in wl._array] != ent:
        return 'get_entries inconsistent with the table'
    if sorted(k for k in wl) != sorted(ids):
        return 'iteration does not yield the ids'
    from lingpy.basic.ops import iter_rows
    it = list(iter_rows(wl, 'concept', 'doculect'))
    if sorted(it) != sorted([k, rows[k][ci], rows[k][li]] for k in ids):
        return 'iter_rows inconsistent'
    return None


def oracle_etym(wl, d, ref='cogid', wref=None):
    hdr = d[0]
    li, gi = hdr.index('doculect'), hdr.index(ref)
    ids = [k for k in d if k != 0]
    ety = wl.get_etymdict(ref=wref or ref)
    for g, slots in ety.items():
        if len(slots) != wl.width:
            return 'etymdict entry with wrong width'
        for j, s in enumerate(slots):
            for k in (s or []):
                if d[k][gi] != g or str(d[k][li]) != wl.cols[j]:
                    return 'id %d listed under cognate id %r / language %r' % (k, g, wl.cols[j])
    flat = sorted(k for slots in ety.values() for s in slots for k in (s or []))
    if flat != sorted(ids):
        return 'etymdict does not list every id exactly once'
    return None


def oracle_etym_multi(rng, d, drv=None):
    """rows that carry SEVERAL cognate ids (fuzzy / partial cognates: a list or a tuple of ids in the cell): the etymological dictionary
    lists the row under each of them, and under nothing else"""
    from lingpy import Wordlist
    hdr = list(d[0]) + ['cogids']
    kind = rng.choice(['list', 'tuple', 'mixed'])
    d2 = {0: hdr}
    carried = {}
    for k in d:
        if k == 0:
            continue
        ids = sorted(set(rng.randrange(1, 7) for _ in range(rng.choice([1, 1, 2, 3]))))
        carried[k] = ids
        as_tuple = kind == 'tuple' or (kind == 'mixed' and rng.random() < 0.5)
        d2[k] = list(d[k]) + [tuple(ids) if as_tuple else list(ids)]
    wl = Wordlist(d2)
    li = hdr.index('doculect')
    ety = wl.get_etymdict(ref='cogids')
    want_keys = sorted(set(g for v in carried.values() for g in v))
    try:
        got_keys = sorted(ety)
    except TypeError:
        got_keys = list(ety)
    if got_keys != want_keys:
        return 'etymdict(cogids given as %s): keys %r, the rows carry the cognate ids %r' % (kind, got_keys[:8], want_keys)
    for g, slots in ety.items():
        for j, s in enumerate(slots):
            for k in (s or []):
                if g not in carried[k] or str(d2[k][li]) != wl.cols[j]:
                    return 'etymdict(cogids): id %d listed under %r / %r' % (k, g, wl.cols[j])
        listed = sorted(k for s in slots for k in (s or []))
        if listed != sorted(k for k in carried if g in carried[k]):
            return 'etymdict(cogids given as %s): cognate id %r lists rows %r, carried by rows %r' % (kind, g, listed, sorted(k for k in carried if g in carried[k]))
    if drv is not None:
        # the same view from the Lean model (rows carry a list of ids there): C12_etymdict covers rows with several ids
        rows, cols, cmap, lmap = encode(wl, ref='cogids')
        _, m_ety, _, _, _, _ = parse_sections(drv.ask('wlviews|%s|%s|%d' % (' '.join(rows), ' '.join(map(str, cols)), -1)))
        real_ety = {str(g): [list(s_) if s_ else [] for s_ in slots] for g, slots in ety.items()}
        if real_ety != m_ety:
            return 'etymdict(cogids given as %s) differs from the Lean model: %r vs %r' % (kind, sorted(real_ety.items())[:3], sorted(m_ety.items())[:3])
    return None


def oracle_dst(wl, d, ref='cogid', wref=None):
    hdr = d[0]
    ci, li, gi = hdr.index('concept'), hdr.index('doculect'), hdr.index(ref)
    ids = [k for k in d if k != 0]
    from fractions import Fraction
    for im in (False, True):
        m = wl.get_distances(ref=wref or ref, ignore_missing=im) if hasattr(wl, 'get_distances') else None
        from lingpy.basic.ops import wl2dst
        m2 = wl2dst(wl, ref=wref or ref, ignore_missing=im)
        if m is not None and [list(r) for r in m] != [list(r) for r in m2]:
            return 'get_distances differs from wl2dst'
        for i, a in enumerate(wl.cols):
            for j, b in enumerate(wl.cols):
                v = m2[i][j]
                if i == j:
                    if v != 0:
                        return 'diagonal entry %r' % v
                    continue
                if m2[j][i] != v:
                    return 'matrix not symmetric'
                ca = {}
                cb = {}
                for k in ids:
                    if str(d[k][li]) == a:
                        ca.setdefault(d[k][ci], set()).add(d[k][gi])
                    if str(d[k][li]) == b:
                        cb.setdefault(d[k][ci], set()).add(d[k][gi])
                both = [c for c in ca if c in cb]
                shared = [c for c in both if ca[c] & cb[c]]
                denom = len(set(d[k][ci] for k in ids)) if im else len(both)
                exp = 1 - Fraction(len(shared), denom) if denom else Fraction(1)
                if abs(v - float(exp)) > 1e-12 or not (0 <= v <= 1):
                    return 'distance(%r,%r)=%r, expected 1-%d/%d (ignore_missing=%r)' % (a, b, v, len(shared), denom, im)
    return None


def oracle_paps(wl, d, ref='cogid', missing=-1, wref=None):
    hdr = d[0]
    ci, li, gi = hdr.index('concept'), hdr.index('doculect'), hdr.index(ref)
    ids = [k for k in d if k != 0]
    paps = wl.get_paps(ref=wref or ref, missing=missing)
    sets = {}
    for k in ids:
        sets.setdefault(d[k][gi], []).append(k)
    if sorted(paps, key=str) != sorted(sets, key=str):
        return 'paps keys are not the cognate ids'
    for g, members in sets.items():
        cs = set(d[k][ci] for k in members)
        for j, l in enumerate(wl.cols):
            present = any(str(d[k][li]) == l for k in members)
            if len(cs) == 1:
                c = list(cs)[0]
                has_word = any(str(d[k][li]) == l and d[k][ci] == c for k in ids)
                exp = 1 if present else (0 if has_word else missing)
            else:
                exp = 1        # documented branch for hand-made ids spanning concepts (C17_paps_multi)
            if paps[g][j] != exp:
                return 'pattern of cognate set %r at language %r is %r, expected %r' % (g, l, paps[g][j], exp)
    return None


def oracle_paps_modified(rng, d, missing=-1):
    """cognate ids with a sign (a borrowing marked -k next to inherited k) read through modify_ref=abs: the set |k| has the reflexes
    of both, whatever the order of the rows"""
    from lingpy import Wordlist
    hdr = d[0]
    ci, li, gi = hdr.index('concept'), hdr.index('doculect'), hdr.index('cogid')
    d2 = {0: list(hdr)}
    for k in d:
        if k != 0:
            row = list(d[k])
            if isinstance(row[gi], int) and row[gi] > 0 and rng.random() < 0.4:
                row[gi] = -row[gi]
            d2[k] = row
    wl = Wordlist(d2)
    ids = [k for k in d2 if k != 0]
    sets = {}
    for k in ids:
        sets.setdefault(abs(d2[k][gi]), []).append(k)
    ety = wl.get_etymdict(ref='cogid', modify_ref=abs)
    if sorted(ety) != sorted(sets):
        return 'etymdict(modify_ref=abs): keys %r, expected %r' % (sorted(ety), sorted(sets))
    for g, slots in ety.items():
        if sorted(k for s in slots for k in (s or [])) != sorted(sets[g]):
            return 'etymdict(modify_ref=abs): cognate set %r lists the rows %r, the rows with |id| = %r are %r' % (g, sorted(k for s in slots for k in (s or [])), g, sorted(sets[g]))
    paps = wl.get_paps(ref='cogid', missing=missing, modify_ref=abs)
    for g, members in sets.items():
        cs = set(d2[k][ci] for k in members)
        if len(cs) != 1:
            continue
        c = list(cs)[0]
        for j, l in enumerate(wl.cols):
            present = any(str(d2[k][li]) == l for k in members)
            has_word = any(str(d2[k][li]) == l and d2[k][ci] == c for k in ids)
            exp = 1 if present else (0 if has_word else missing)
            if paps[g][j] != exp:
                return 'get_paps(modify_ref=abs): pattern of cognate set %r at language %r is %r, expected %r' % (g, l, paps[g][j], exp)
    return None


def run_views(chk, which):
    """which in {'C12', 'C17'}"""
    from lingpy.basic.ops import renumber
    rng = chk.rng
    drv = common.Driver()
    scratch = tempfile.mkdtemp(prefix='verif-wl-', dir='/var/tmp')
    bad, fails = [], []
    n = chk.n(1500, 32000)
    try:
        for it in range(n):
            try:
                d, wl, src = make_wordlist(chk, rng, from_file=scratch, with_cogid=True, case_variants=(which == 'C12'),
                                           extra_cols=rng.random() < 0.3, max_langs=5, max_concepts=6)
            except Exception as ex:  # noqa
                fails.append(({}, 'constructor raised %s: %s' % (type(ex).__name__, str(ex)[:100])))
                continue
            stage = 'plain'
            if rng.random() < 0.3:
                wl.add_entries('extra', 'ipa', lambda x: x[::-1])
                d[0] = d[0] + ['extra']
                for k in d:
                    if k != 0:
                        d[k] = d[k] + [d[k][d[0].index('ipa')][::-1]]
                stage = 'after add_entries'
            if which == 'C12' and rng.random() < 0.4 and 'tokens' not in d[0]:
                # a column of the namespace added after construction: reachable by name and aliases in both cases like any other
                wl.add_entries('tokens', 'ipa', lambda x: list(x))
                d[0] = d[0] + ['tokens']
                for k in d:
                    if k != 0:
                        d[k] = d[k] + [list(d[k][d[0].index('ipa')])]
                stage += ' + configured column added'
                added_aliases = [('TOKENS', 'tokens'), ('ipatokens', 'tokens'), ('IPATOKENS', 'tokens')]
            else:
                added_aliases = []
            nsyn = len(wl._array) - wl.height
            chk.count((which, tuple(sorted((k, tuple(map(str, v))) for k, v in d.items()))), nsyn > 0 or wl.width > 1,
                      branch=['source:' + src, stage, 'synonym-rows:%d' % min(nsyn, 3)])
            e = None
            try:
                if which == 'C12':
                    e = oracle_views(wl, d) or oracle_etym(wl, d) or oracle_etym_multi(rng, d, drv)
                    for alias, target in added_aliases:
                        for k in list(d)[1:4]:
                            if not e and wl[k, alias] != d[k][d[0].index(target)]:
                                e = 'wl[%d, %r] = %r, the row carries %r in column %r (added after construction)' % (k, alias, wl[k, alias], d[k][d[0].index(target)], target)
                        # ... and through the views that take a column name: entry tables and entry lists
                        if not e:
                            ti = d[0].index(target)
                            ids_ = [k for k in d if k != 0]
                            want = sorted(str(d[k][ti]) for k in ids_)
                            try:
                                ge = wl.get_entries(alias)
                                got = sorted(str(x) for line in (ge or []) for x in line if x != 0)
                                l0 = wl.cols[0]
                                gl_ = wl.get_list(col=l0, entry=alias, flat=True)
                                want_l = sorted(str(d[k][ti]) for k in ids_ if str(d[k][d[0].index('doculect')]) == l0)
                                if ge is None or got != want:
                                    e = 'get_entries(%r) = %r: the column added after construction is not reachable by this spelling' % (alias, str(ge)[:80])
                                elif sorted(str(x) for x in gl_) != want_l:
                                    e = 'get_list(col=%r, entry=%r, flat=True) = %r, the rows carry %r' % (l0, alias, gl_, want_l)
                            except KeyError as ex:
                                e = 'a view asked for the column %r (added after construction) by its spelling %r raised KeyError %s' % (target, alias, ex)
                    if not e:
                        # renumber
                        # also columns whose values are numbers - the value 0 is a value like any other, only the empty value maps to 0
                        col = rng.choice(['ipa', 'concept', 'doculect', 'cogid'] + (['freq', 'freq', 'note'] if 'freq' in d[0] else []))
                        renumber(wl, col, 'rn')
                        vals = {k: str(d[k][d[0].index(col)]) for k in d if k != 0}
                        nums = {k: wl[k, 'rn'] for k in vals}
                        for a in vals:
                            for b in vals:
                                if (vals[a] == vals[b]) != (nums[a] == nums[b]):
                                    e = 'renumber(%s): %r -> %r but %r -> %r' % (col, vals[a], nums[a], vals[b], nums[b])
                            if (nums[a] > 0) != (vals[a] != '') or (vals[a] == '' and nums[a] != 0):
                                e = 'renumber: sign rule broken for %r -> %r' % (vals[a], nums[a])
                        srcs = sorted(set(vals.values()))
                        code = {s: (i + 1 if s != '' else 0) for i, s in enumerate(srcs)}
                        o = drv.ask('renumber|%s|%s' % (' '.join(str(code[s]) for s in srcs if s != '') if True else '',
                                                        ' '.join(str(code[vals[k]]) for k in vals)))
                        model_nums = [int(x) for x in o[2:].split(',') if x]
                        # model numbering is over the non-empty sources; compare as a partition + sign
                        mp = {}
                        for k, mnum in zip(vals, model_nums):
                            mp[k] = mnum
                        for a in vals:
                            for b in vals:
                                if (mp[a] == mp[b]) != (nums[a] == nums[b]) or (mp[a] == 0) != (nums[a] == 0):
                                    bad.append(('renumber', vals, nums, mp))
                else:
                    e = oracle_dst(wl, d) or oracle_paps(wl, d, missing=rng.choice([-1, 0])) or oracle_paps_modified(rng, d, missing=rng.choice([-1, 0]))
            except Exception as ex:  # noqa
                e = 'accessor raised %s: %s' % (type(ex).__name__, str(ex)[:120])
            if not e and rng.random() < 0.4:
                # a history on one object: the views are read (column named in one of its spellings), cognate ids are then written
                # (cell assignment or add_entries(override=True)), and the views are read again by the same spelling - they describe
                # the rows as they are now
                try:
                    spell = rng.choice(['COGID', 'cogid', 'COGID', 'cogid'] + [a for a, t in wl._alias.items() if t == 'cogid'])
                    gi = d[0].index('cogid')
                    ids_ = [k for k in d if k != 0]
                    if which == 'C12':
                        wl.get_etymdict(ref=spell)
                    else:
                        wl.get_distances(ref=spell) if hasattr(wl, 'get_distances') else None
                        wl.get_paps(ref=spell)
                    newv = {}
                    top = max([x for x in (d[k][gi] for k in ids_) if isinstance(x, int)] + [0])
                    for k in rng.sample(ids_, rng.randrange(1, max(2, len(ids_) // 2 + 1))):
                        # join another set of the same concept, or found a new one
                        same = [d[j][gi] for j in ids_ if d[j][d[0].index('concept')] == d[k][d[0].index('concept')] and d[j][gi] != d[k][gi]]
                        top += 1
                        newv[k] = rng.choice(same) if same and rng.random() < 0.6 else top
                    how = rng.choice(['setitem', 'add_entries'])
                    if how == 'setitem':
                        for k, v in newv.items():
                            wl[k, rng.choice(['cogid', spell])] = v
                    else:
                        full = {k: newv.get(k, d[k][gi]) for k in ids_}
                        wl.add_entries('cogid', full, lambda x: x, override=True)
                    for k, v in newv.items():
                        d[k] = list(d[k])
                        d[k][gi] = v
                    chk.hist['history: views read as %s, cognate ids written (%s), views read again' % ('canonical name' if spell == 'cogid' else 'alias / upper case', how)] += 1
                    if which == 'C12':
                        e = oracle_etym(wl, d, wref=spell) or oracle_etym(wl, d) or oracle_views(wl, d)
                    else:
                        e = (oracle_dst(wl, d, wref=spell) or oracle_paps(wl, d, missing=rng.choice([-1, 0]), wref=spell)
                             or oracle_dst(wl, d) or oracle_paps(wl, d))
                    if e:
                        e = 'after the views were read by %r and cognate ids were written (%s %r): %s' % (spell, how, newv, e)
                except Exception as ex:  # noqa
                    e = 'history (read, write cognate ids, read) raised %s: %s' % (type(ex).__name__, str(ex)[:120])
            if e:
                fails.append((d, e))
                continue
            # correspondence with the Lean model (same rows, same column order)
            rows, cols, cmap, lmap = encode(wl)
            miss = -1
            arr, ety, paps, dst, lc, lr = parse_sections(drv.ask('wlviews|%s|%s|%d' % (' '.join(rows), ' '.join(map(str, cols)), miss)))
            inv_c = {v: k for k, v in cmap.items()}
            inv_l = {v: k for k, v in lmap.items()}
            if which == 'C12':
                # languages and concepts = the distinct values in case-insensitive alphabetical order: Lean distinctSorted on the values
                # in row order (code points of the name and of its lower-cased form) == wl.cols / wl.rows (theorem C12_names)
                def cps(x):
                    return ','.join(str(ord(ch)) for ch in x)
                for attr, colname in (('cols', 'doculect'), ('rows', 'concept')):
                    ix = d[0].index(colname)
                    vals = [str(d[k][ix]) for k in d if k != 0]
                    if any(not v or ' ' in v for v in vals):
                        continue
                    o = drv.ask('names|' + ' '.join('%s:%s' % (cps(v.lower()), cps(v)) for v in vals))
                    real_names = ' '.join(cps(x) for x in getattr(wl, attr))
                    if o != 'S ' + real_names:
                        bad.append(('names:' + attr, list(getattr(wl, attr)), o[:200]))
                real_arr = {str(cmap[c]): [[int(x) for x in wl._array[p]] for p in wl._idx[c]] for c in wl._dict}
                if real_arr != arr or [str(cmap[c]) for c in wl._dict] != list(arr):
                    bad.append(('array', real_arr, arr))
                real_ety = {str(g): [list(s) if s else [] for s in slots] for g, slots in wl.get_etymdict('cogid').items()}
                if real_ety != ety:
                    bad.append(('etymdict', real_ety, ety))
                # get_dict in both directions (theorems C12_dictOfCol / C12_dictOfRow / C12_dicts_agree): keys in their order, ids in
                # their order
                od = drv.ask('wldicts|%s|%s' % (' '.join(rows), ' '.join(map(str, cols))))

                def parse_d(sec):
                    dd = {}
                    for item in sec.split(';'):
                        if item:
                            k_, v_ = item.split('=')
                            dd[k_] = [(kv.split(':')[0], [int(x) for x in kv.split(':')[1].split(',') if x]) for kv in v_.split('/') if kv]
                    return dd
                mcol, mrow = [parse_d(x) for x in od[2:].split(' # ')] if od.startswith('D ') else ({}, {})
                for l in wl.cols:
                    real_d = [(str(cmap[c_]), [int(x) for x in ids__]) for c_, ids__ in wl.get_dict(col=l).items()]
                    if real_d != mcol.get(str(lmap[l])):
                        bad.append(('get_dict col', l, real_d, mcol.get(str(lmap[l]))))
                for c in wl.rows:
                    # _dict[concept] is a defaultdict: a language that was merely asked about (by another view) stays behind with an empty
                    # list; an empty list names no row, it is dropped before comparing
                    real_d = [(str(lmap[l_]), [int(x) for x in ids__]) for l_, ids__ in wl.get_dict(row=c).items() if len(ids__)]
                    if real_d != mrow.get(str(cmap[c])):
                        bad.append(('get_dict row', c, real_d, mrow.get(str(cmap[c]))))
                for l in wl.cols:
                    if sorted(wl.get_list(col=l, flat=True)) != sorted(lc[str(lmap[l])]):
                        bad.append(('get_list col', l))
                for c in wl.rows:
                    if [int(x) for x in wl.get_list(row=c, flat=True)] != lr[str(cmap[c])]:
                        bad.append(('get_list row', c, wl.get_list(row=c, flat=True), lr[str(cmap[c])]))
            else:
                real_paps = {str(g): [int(x) for x in v] for g, v in wl.get_paps('cogid', missing=-1).items()}
                if real_paps != paps:
                    bad.append(('paps', real_paps, paps))
                from lingpy.basic.ops import wl2dst
                for im in (False, True):
                    m = wl2dst(wl, ref='cogid', ignore_missing=im)
                    for i, a in enumerate(wl.cols):
                        for j, b in enumerate(wl.cols):
                            if i != j:
                                x = dst['%d.%d' % (lmap[a], lmap[b])]
                                sh, den = (x[2], x[3]) if im else (x[0], x[1])
                                exp = 1 - sh / den if den else 1.0
                                if abs(exp - m[i][j]) > 1e-12:
                                    bad.append(('dst', a, b, im, m[i][j], (sh, den)))
        chk.sample({'wordlist': {str(k): v for k, v in list(d.items())[:6]}}, limit=2)
    finally:
        drv.close()
        import shutil
        shutil.rmtree(scratch, ignore_errors=True)
    chk.obligation('correspondence:%s views == Lean model (same rows, same column order)' % which, 'correspondence', not bad,
                   'wordlists=%d mismatches=%d %s' % (n, len(bad), str(bad[0])[:300] if bad else ''))
    chk.obligation('oracle:%s statement on the real object' % which, 'correspondence', not fails, 'failures=%d' % len(fails))
    fails.sort(key=lambda f: len(f[0]))
    for f in fails[:2]:
        chk.violation('%s: %s' % (which, f[1]), {'kind': 'wordlist', 'dict': {str(k): v for k, v in f[0].items()}, 'why': f[1]})
    if bad and not fails:
        chk.violation('%s: views differ from the model; oracle found no failing input' % which,
                      {'kind': 'wordlist-model', 'detail': str(bad[0])[:2000], 'broken': 'correspondence'}, found_input=False)


def replay(chk, path):
    d = json.load(open(path))['replay']
    print(json.dumps(d, indent=1, default=str, ensure_ascii=False)[:3000])
    return 0
