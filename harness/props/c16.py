"""C16 — partial cognates: one id per morpheme; word-level ids derived exactly."""
import json

import common
import wlgen
import clusterlib as cl


def gen_partial_wordlist(rng):
    """morpheme-segmented words: tokens column with '+' between morphemes"""
    from lingpy.sequence.sound_classes import ipa2tokens
    nl = rng.randrange(2, 5)
    nc = rng.randrange(1, 5)
    langs = rng.sample(wlgen.LANGS, nl)
    concepts = rng.sample(wlgen.CONCEPTS, nc)
    if rng.random() < 0.15:
        concepts.append(concepts[0] + ' ')          # a label that differs from another one by a trailing blank only: another concept
    morphs = [wlgen.gen_word(rng, maxsyl=1) for _ in range(rng.randrange(3, 9))]
    d = {0: ['doculect', 'concept', 'ipa', 'tokens']}
    idx = rng.choice([1, 3, 50])
    for c in concepts:
        for l in langs:
            r = rng.random()
            for _ in range(0 if r < 0.15 else (2 if r > 0.85 else 1)):
                nm = rng.choice([1, 1, 2, 2, 3, 4])
                ms = [rng.choice(morphs) if rng.random() < 0.7 else wlgen.gen_word(rng, 1) for _ in range(nm)]
                if rng.random() < 0.2 and nm >= 2:
                    ms[1] = ms[0]                      # repeated morpheme inside a word
                toks = []
                for i, m in enumerate(ms):
                    if i:
                        toks.append('+')
                    toks += ipa2tokens(m)
                    if rng.random() < 0.25:
                        toks.append(rng.choice(['⁵⁵', '²¹', '³⁵']))   # a tone, also inside a morpheme that goes on: not a morpheme border
                        if rng.random() < 0.5:
                            toks += ipa2tokens(wlgen.gen_word(rng, 1))
                d[idx] = [l, c, ''.join(ms), toks]
                idx += rng.choice([1, 1, 2, 5])
    if len(d) < 4:
        return gen_partial_wordlist(rng)
    return d


def nmorph(toks):
    return sum(1 for t in toks if t == '+') + 1


def components(nodes, edge):
    parent = {n: n for n in nodes}

    def find(x):
        while parent[x] != x:
            x = parent[x]
        return x
    for a in nodes:
        for b in nodes:
            if a < b and edge(a, b):
                parent[find(a)] = find(b)
    comps = {}
    for n in nodes:
        comps.setdefault(find(n), []).append(n)
    return sorted(map(sorted, comps.values()))



def forest_certificate(n, adj, lab):
    """spanning forest of the label classes: parent pointers and ranks (BFS order) for the Lean checker compOkb"""
    par = list(range(n))
    rank = [0] * n
    seen = set()
    for root in range(n):
        if root in seen or any(lab[x] == lab[root] for x in seen):
            # a second root inside a class that was already searched: the labelling is not a component labelling,
            # the certificate then has two roots with one label and the checker rejects it
            if root not in seen:
                seen.add(root)
            continue
        seen.add(root)
        queue = [root]
        r = 0
        while queue:
            x = queue.pop(0)
            for y in range(n):
                if y not in seen and lab[y] == lab[root] and (adj(x, y) or adj(y, x)):
                    seen.add(y)
                    par[y] = x
                    r += 1
                    rank[y] = r
                    queue.append(y)
    return par, rank


def slices_checks(chk):
    """`_get_slices` (the index ranges the partial scorer and the clustering cut out of a word) against the Lean `slices` and the theorem
    C16_slices: the observed morphemes are a decomposition of the tokens (Lean `decompOkb`), the slices are the model's, and every slice
    cuts exactly its morpheme out of the tokens - with and without splitting on tones."""
    from lingpy.compare.partial import _get_slices
    from lingpy.sequence.sound_classes import tokens2morphemes, tokens2class
    from lingpy.basictypes import lists as seglist
    from lingpy.settings import rcParams
    rng = chk.rng
    drv = common.Driver()
    sepchars = sorted(set(rcParams['morpheme_separator'] + rcParams['word_separator'] + rcParams['word_separators'] + rcParams['morpheme_separators']))
    bad, fails = [], []
    n = chk.n(600, 20000)
    lines, metas = [], []
    mlines, mmetas = [], []
    for _ in range(n):
        d = gen_partial_wordlist(rng)
        for k in list(d)[1:4]:
            toks = list(d[k][3])
            if rng.random() < 0.2 and len(toks) > 3 and '+' not in toks:
                toks.insert(rng.randrange(1, len(toks) - 1), rng.choice(['_', '+']))
            for sot in (False, True):
                chk.evaluations += 1
                if not sot and any(t in sepchars and t != '+' for t in toks):
                    continue                      # without tone splitting the morphemes are those of the `+` borders only
                try:
                    real = [tuple(x) for x in _get_slices(list(toks), split_on_tones=sot)]
                    morphs = [list(m) for m in (tokens2morphemes(list(toks), split_on_tones=True) if sot else seglist(list(toks)).n)]
                except Exception as ex:  # noqa
                    fails.append((toks, sot, 'raised %s: %s' % (type(ex).__name__, str(ex)[:80])))
                    continue
                code = {}
                for t in toks + [x for m in morphs for x in m] + sepchars:
                    code.setdefault(t, len(code) + 1)
                seps = sepchars if sot else ['+']
                lines.append('slices|%s|%s|%s' % (' '.join(str(code[t]) for t in toks), ' '.join(','.join(str(code[t]) for t in m) for m in morphs),
                                                    ' '.join(str(code[t]) for t in seps)))
                metas.append((toks, sot, real, morphs))
                # the morphemes themselves against the Lean morphemesOf (theorem C16_slices_total needs no observed morphemes then)
                try:
                    cv = tokens2class(list(toks), 'cv')
                    tones = sorted(set(code[t] for t, c_ in zip(toks, cv) if c_ == 'T'))
                except Exception:  # noqa
                    tones = None
                if tones is not None:
                    mlines.append('morphs|%d|%s|%s|%s' % (1 if sot else 0, ' '.join(str(code[t]) for t in toks), ' '.join(str(code[t]) for t in seps),
                                                          ' '.join(map(str, tones))))
                    mmetas.append((toks, sot, [[code[t] for t in m] for m in morphs]))
                for (a, b), m in zip(real, morphs):
                    if toks[a:b] != m:
                        fails.append((toks, sot, 'slice (%d, %d) cuts %r out of the segments, the morpheme is %r' % (a, b, toks[a:b], m)))
                        break
                if len(real) != len(morphs):
                    fails.append((toks, sot, '%d slices for %d morphemes' % (len(real), len(morphs))))
    for (toks, sot, real, morphs), o in zip(metas, drv.ask_many(lines)):
        model = [tuple(map(int, x.split(':'))) for x in o[3:].split()]
        if o[:2] != 'D1' or model != real:
            bad.append((toks, sot, real, o))
    mbad = []
    for (toks, sot, want), o in zip(mmetas, drv.ask_many(mlines)):
        got = [[int(x) for x in m.split(',') if x] for m in o[2:].split()]
        if got != want:
            mbad.append((toks, sot, want, o))
    chk.obligation('correspondence:tokens2morphemes / lists.n == Lean morphemesOf (written borders win, a non-final tone ends a morpheme when asked for; '
                   'theorems decomp_morphemesOf, C16_slices_total)', 'correspondence', not mbad,
                   'token lists=%d mismatches=%d %s' % (len(mmetas), len(mbad), str(mbad[0])[:200] if mbad else ''))
    if mbad and not fails:
        chk.violation('the morphemes of a token list differ from the model; every slice still cuts its morpheme',
                      {'kind': 'morphemes-model', 'detail': str(mbad[0])[:400], 'broken': 'correspondence:morphemesOf'}, found_input=False)
    drv.close()
    chk.hist['_get_slices: token lists checked (x 2 settings of split_on_tones)'] += len(metas)
    chk.obligation('correspondence:_get_slices == Lean slices on the observed morphemes, which are a decomposition of the tokens (decompOkb; theorem C16_slices)',
                   'correspondence', not bad, 'token lists=%d mismatches=%d %s' % (len(metas), len(bad), str(bad[0])[:200] if bad else ''))
    chk.obligation('oracle:every slice cuts exactly its morpheme out of the segments (with and without split_on_tones)', 'correspondence', not fails,
                   'failures=%d' % len(fails))
    for f in fails[:1]:
        chk.violation('_get_slices(%r, split_on_tones=%r): %s' % (' '.join(f[0]), f[1], f[2]), {'kind': 'slices', 'tokens': f[0], 'split_on_tones': f[1], 'why': f[2]})
    if bad and not fails:
        chk.violation('_get_slices differs from the model (or the morphemes are no decomposition of the segments); every slice still cuts its morpheme',
                      {'kind': 'slices-model', 'detail': str(bad[0])[:400], 'broken': 'correspondence:_get_slices'}, found_input=False)


def run(chk):
    from lingpy.compare.partial import Partial
    chk.rule = ('generated morpheme-segmented wordlists (1-4 morphemes per word, repeated morphemes inside a word, synonyms, gaps, '
                'non-contiguous ids) x {upgma, single, complete} x thresholds x post-processing on/off; strict and loose word-level ids; '
                'non-trivial = some word has more than one morpheme and some id is shared')
    chk.lean_obligations()
    slices_checks(chk)
    rng = chk.rng
    drv = common.Driver()
    bad, fails = [], []
    bad_cert = []
    ncert = {'loose': 0, 'pp': 0}
    n = chk.n(800, 16000)
    for it in range(n):
        d = gen_partial_wordlist(rng)
        if rng.random() < 0.25:
            # token cells as the library's own segment-list type (what a word list read from a file holds), some of them edited in place
            # after they were made (a morpheme added, a border inserted): the morphemes are those of the segments as they are NOW
            from lingpy.basictypes import lists as seglist
            for k in d:
                if k == 0:
                    continue
                cell = seglist(list(d[k][3]))
                r = rng.random()
                if r < 0.3:
                    cell.extend(rng.choice([['+', 'k', 'a'], ['+', 't', 'o'], ['m', 'a']]))
                elif r < 0.5 and len(cell) >= 3 and '+' not in (cell[0], cell[1], cell[2]):
                    cell.insert(1, '+')
                elif r < 0.7 and '+' in cell:
                    # a border moved by one segment (assignment to two positions: the length of the cell stays what it was)
                    p_ = list(cell).index('+')
                    if p_ + 1 < len(cell):
                        cell[p_], cell[p_ + 1] = cell[p_ + 1], '+'
                elif r < 0.85 and len(cell) >= 3:
                    # a segment overwritten by a border marker (a hyphen of the source replaced): same length, one more morpheme
                    cell[rng.randrange(1, len(cell) - 1)] = '+'
                segs = list(cell)
                if any(not m for m in ' '.join(segs).split(' + ')) or segs[0] == '+' or segs[-1] == '+' or any(a == b == '+' for a, b in zip(segs, segs[1:])):
                    cell = seglist(list(d[k][3]))          # the edit made an empty morpheme: malformed, keep the cell as it was
                d[k] = list(d[k][:3]) + [cell]
            chk.hist['token cells of the segment-list type, edited in place'] += 1
        link = rng.choice(['upgma', 'single', 'complete'])
        t = rng.choice([0.2, 0.35, 0.45, 0.55, 0.75, 1.0])
        pp = rng.random() < 0.5
        try:
            # the constructor's split_on_tones only concerns the slices kept for the partial scorer; partial_cluster is called with its
            # default (morphemes are delimited by '+' only)
            part = Partial(d, split_on_tones=True) if rng.random() < 0.3 else Partial(d)
            mats = []
            orig = part._get_partial_matrices

            def recording(*a, **k):
                for c, tr, m in orig(*a, **k):
                    mats.append((c, list(tr), [list(r) for r in m]))
                    yield c, tr, m
            part._get_partial_matrices = recording
            sot = rng.random() < 0.3
            if rng.random() < 0.25:
                # an earlier analysis on the same object with the other reading of tones (everything else equal): the ids of the call
                # that follows are those of ITS morphemes
                chk.hist['partial_cluster called before on the same object with the other split_on_tones'] += 1
                part.partial_cluster(method='sca', threshold=rng.choice([t, 0.45]), cluster_method=link, ref='pids0', post_processing=pp, mode='global',
                                     split_on_tones=not sot)      # another column: writing a column twice asks the user
                del mats[:]
            if sot:
                # morphemes also end after a tone (words without a written border only): the documented option of partial_cluster
                chk.hist['partial_cluster(split_on_tones=True)'] += 1
                part.partial_cluster(method='sca', threshold=t, cluster_method=link, ref='pids', post_processing=pp, mode='global', split_on_tones=True)
            else:
                part.partial_cluster(method='sca', threshold=t, cluster_method=link, ref='pids', post_processing=pp, mode='global')
        except Exception as ex:  # noqa
            fails.append((d, link, t, pp, 'raised %s: %s' % (type(ex).__name__, str(ex)[:120])))
            continue
        pids = {k: list(part[k, 'pids']) for k in part}
        toks = {k: d[k][3] for k in pids}
        concept_of = {k: d[k][1] for k in pids}
        allids = [x for v in pids.values() for x in v]
        chk.count((link, t, pp, tuple(sorted((k, tuple(map(str, v))) for k, v in d.items()))),
                  any(nmorph(toks[k]) > 1 for k in pids) and len(set(allids)) < len(allids),
                  branch=['link:' + link, 'post_processing:%s' % pp])
        e = None
        if sot:
            def nmorph_(tk):
                tk = list(tk)
                if '+' in tk or '_' in tk:
                    return nmorph(tk)
                return 1 + sum(1 for i_, x_ in enumerate(tk[:-1]) if x_ and all(ch in '⁰¹²³⁴⁵⁶' for ch in x_))
        else:
            nmorph_ = nmorph
        for k in pids:
            if len(pids[k]) != nmorph_(toks[k]):
                e = 'word %d %r has %d morphemes%s but %d partial ids' % (k, ' '.join(toks[k]), nmorph_(toks[k]), ' (borders also after tones)' if sot else '', len(pids[k]))
            if pp and len(set(pids[k])) != len(pids[k]):
                e = 'word %d: two morphemes share partial id (post-processing on): %r' % (k, pids[k])
        for a in pids:
            for b in pids:
                if concept_of[a] != concept_of[b] and set(pids[a]) & set(pids[b]):
                    e = 'words %d and %d of different concepts share a partial id' % (a, b)
        if not e:
            part.add_cognate_ids('pids', 'strictid', idtype='strict', override=True)
            part.add_cognate_ids('pids', 'looseid', idtype='loose', override=True)
            st = {k: part[k, 'strictid'] for k in pids}
            lo = {k: part[k, 'looseid'] for k in pids}
            for a in pids:
                for b in pids:
                    if (st[a] == st[b]) != (pids[a] == pids[b]):
                        e = 'strict ids of %d and %d: %r/%r but partial ids %r/%r' % (a, b, st[a], st[b], pids[a], pids[b])
            exp = []
            for c in set(concept_of.values()):
                ws = [k for k in pids if concept_of[k] == c]
                exp += components(ws, lambda x, y: bool(set(pids[x]) & set(pids[y])))
            got = {}
            for k, v in lo.items():
                got.setdefault(v, []).append(k)
            if sorted(map(sorted, got.values())) != sorted(exp):
                e = 'loose ids are not the per-concept components of "shares a partial id"'
            if not e:
                # 'loose' derivation: every concept's ids must be accepted by the Lean certificate checker (theorem C16_loose_of_observed)
                koff = 0
                for c in part.rows:
                    idxs = [int(x) for x in part.get_list(row=c, flat=True)]
                    idl = [pids[k] for k in idxs]
                    lab = [lo[k] for k in idxs]
                    par, rank = forest_certificate(len(idxs), lambda a, b: bool(set(idl[a]) & set(idl[b])), lab)
                    o = drv.ask('looseok|%d|%s|%s|%s|%s' % (koff, ' '.join(','.join(map(str, x)) for x in idl), ' '.join(map(str, lab)),
                                                          ' '.join(map(str, par)), ' '.join(map(str, rank))))
                    ncert['loose'] += 1
                    if o != 'ok':
                        bad_cert.append(('loose', d, c, idl, lab))
                    koff += len(set(lab))
            if not e:
                # strict derivation vs Lean model (ids as a partition with first-occurrence numbering)
                rows = ' '.join('%d:%s' % (k, ','.join(map(str, pids[k]))) for k in part._data)
                o = drv.ask('strict|' + rows)
                ms = {int(a): int(b) for a, b in (x.split('=') for x in o[2:].split())}
                if ms != st:
                    bad.append(('strict', d, st, ms))
        if e:
            fails.append((d, link, t, pp, e))
            continue
        if pp:
            # post-processing: the new ids must be accepted by the Lean checker ppOkb against the surviving graph the code keeps
            from lingpy.algorithm import clustering
            koff = 0
            for c, tr, m in mats:
                labels = clustering.flat_cluster(link, t, [list(r) for r in m], revert=True)
                word = [x[0] for x in tr]
                old_ids = [labels[i] + koff for i in range(len(tr))]
                new_ids = [pids[x[0]][x[1]] for x in tr]
                g = part.graphs[c]
                edges = [(a[0], b[0]) for a, b in g.edges()]
                es = set(edges) | set((b, a) for a, b in edges)
                par, rank = forest_certificate(len(tr), lambda a, b: (a, b) in es, new_ids)
                o = drv.ask('ppok|%d|%s|%s|%s|%s|%s|%s' % (koff, ' '.join(map(str, word)), ' '.join(map(str, old_ids)), ' '.join(map(str, new_ids)),
                                                         ' '.join('%d,%d' % x for x in edges), ' '.join(map(str, par)), ' '.join(map(str, rank))))
                ncert['pp'] += 1
                if o != 'ok':
                    bad_cert.append(('post-processing', d, c, word, old_ids, new_ids, edges))
                koff += len(m) + 1
        if not pp:
            parts = []
            from lingpy.algorithm import clustering
            for c, tr, m in mats:
                # C16's own level: the bookkeeping on top of whatever labels the clusterer returned
                # (the clusterer itself is tied to its model by C05; morpheme matrices mix Python ints and floats,
                # for which CPython's sum() is not bit-identical to the all-float port)
                labels = clustering.flat_cluster(link, t, [list(r) for r in m], revert=True)
                parts.append('%s:%s' % (','.join(str(x[0]) for x in tr), ','.join(str(labels[i]) for i in range(len(tr)))))
            o = drv.ask('pglue|0|' + ' '.join(parts))
            model = {}
            for blk in o[2:].split():
                for e2 in blk.split(','):
                    a, b = e2.split('=')
                    model.setdefault(int(a), []).append(int(b))
            if model != pids:
                bad.append(('pglue', d, pids, model))
    drv.close()
    chk.sample({'partial_ids': {str(k): v for k, v in list(pids.items())[:6]}}, limit=2)
    chk.obligation('correspondence:observed loose ids and post-processed partial ids are accepted by the Lean certificate checkers looseOkb / ppOkb '
                   '(hypotheses of C16_loose_of_observed / C16_pp_unique)', 'correspondence', not bad_cert,
                   'concepts checked: loose=%d post-processing=%d rejected=%d %s' % (ncert['loose'], ncert['pp'], len(bad_cert), str(bad_cert[0])[:300] if bad_cert else ''))
    chk.obligation('correspondence:partial-id column (post-processing off) == Lean pglue(flatCluster(morpheme matrices)); strict ids == strictIds',
                   'correspondence', not bad, 'wordlists=%d mismatches=%d %s' % (n, len(bad), str(bad[0])[:300] if bad else ''))
    chk.obligation('oracle:C16 statement', 'correspondence', not fails, 'failures=%d' % len(fails))
    fails.sort(key=lambda f: len(f[0]))
    for f in fails[:2]:
        chk.violation('partial_cluster(%s, t=%r, post_processing=%r): %s' % (f[1], f[2], f[3], f[4]),
                      {'kind': 'partial', 'dict': {str(k): v for k, v in f[0].items()}, 'link': f[1], 'threshold': f[2], 'post_processing': f[3], 'why': f[4]})
    if bad_cert and not fails:
        chk.violation('an observed component labelling is rejected by the Lean checker (%s); oracle found no failing input' % bad_cert[0][0],
                      {'kind': 'partial-certificate', 'detail': str(bad_cert[0])[:2000], 'broken': 'correspondence:certificate checkers'}, found_input=False)
    if bad and not fails:
        chk.violation('partial ids differ from the model; oracle found no failing input',
                      {'kind': 'partial-model', 'detail': str(bad[0])[:2000], 'broken': 'correspondence:partial-id column'}, found_input=False)


def replay(chk, path):
    d = json.load(open(path))['replay']
    print(json.dumps(d, indent=1, default=str, ensure_ascii=False)[:3000])
    return 0
