"""C20 — sound-class models load correctly whatever state the user cache is in."""
import concurrent.futures
import glob
import json
import os
import pickle
import shutil
import subprocess
import sys
import tempfile

import common

PROBE = os.path.join(common.VERIF, 'harness', 'aux', 'cache_probe.py')


def probe(cache_home):
    env = dict(os.environ, XDG_CACHE_HOME=cache_home, PYTHONHASHSEED='0', TQDM_DISABLE='1')
    r = subprocess.run(['/venv/bin/python', PROBE], env=env, stdout=subprocess.PIPE, stderr=subprocess.DEVNULL,
                       stdin=subprocess.DEVNULL, text=True, timeout=300)
    for line in r.stdout.splitlines():
        if line.startswith('@@PROBE@@'):
            return json.loads(line[9:])
    return {'ok': False, 'error': 'no probe output (rc=%s)' % r.returncode, 'trace': []}


def converters_from_data_files():
    """independent reading of the shipped converter files (one line per class: `CLASS : sound, sound, ...`, utf-8, NFC): the
    reference 'build from the shipped data files' that does not go through the library's own reader"""
    import hashlib
    import unicodedata
    base = os.path.join(common.REPO, 'src', 'lingpy', 'data', 'models')
    out = {}
    for model in sorted(os.listdir(base)):
        p = os.path.join(base, model, 'converter')
        if not os.path.isfile(p):
            continue
        text = unicodedata.normalize('NFC', open(p, encoding='utf-8-sig').read())
        per_class = {}
        for line in text.split('\n'):
            line = line.rstrip('\r')
            if ' : ' not in line:
                continue
            cls, sounds = line.split(' : ', 1)
            per_class[cls] = sounds.split(', ')      # the file format is one line per class: a class given again replaces its earlier line
        conv = {}
        for cls, sounds in per_class.items():
            for snd in sounds:
                conv[snd] = cls
        out[model] = hashlib.sha256(repr(sorted(conv.items())).encode()).hexdigest()
    return out


def inventories_from_data_files():
    """independent reading of the shipped diacritics / vowels / tones files (one item per line, utf-8, NFC): diacritics are written
    with a leading dash that is not part of them, vowels that are also listed as diacritics are left out, tones are taken as written"""
    import hashlib
    import unicodedata
    base = os.path.join(common.REPO, 'src', 'lingpy', 'data', 'models', 'dvt')

    def text(name):
        return unicodedata.normalize('NFC', open(os.path.join(base, name), encoding='utf-8-sig').read()).replace('\n', '')    # `base` as bound when called
    dia = ''.join(ch for ch in text('diacritics') if ch != '-')
    vow = ''.join(ch for ch in text('vowels') if ch not in dia)
    ton = text('tones')
    out = {k: hashlib.sha256(repr(v).encode()).hexdigest() for k, v in (('diacritics', dia), ('vowels', vow), ('tones', ton))}
    for k in ('diacritics', 'vowels', 'tones'):
        out[k + ' (after switching the schema and back)'] = out[k]
    out["load_dvt('')"] = hashlib.sha256(repr((dia, vow, ton)).encode()).hexdigest()
    base = os.path.join(common.REPO, 'src', 'lingpy', 'data', 'models', 'dvt_el')
    dia = ''.join(ch for ch in text('diacritics') if ch != '-')
    vow = ''.join(ch for ch in text('vowels') if ch not in dia)
    ton = text('tones')
    out["load_dvt('evolaemp')"] = out["load_dvt('el')"] = hashlib.sha256(repr((dia, vow, ton)).encode()).hexdigest()
    # the inventories in force after rc(schema=...) in each of the three spellings of the ASJP-based schema
    for spelling in ('evolaemp', 'el', 'asjp'):
        for k, v in (('diacritics', dia), ('vowels', vow), ('tones', ton)):
            out['%s under rc(schema=%r)' % (k, spelling)] = hashlib.sha256(repr(v).encode()).hexdigest()
    return out


def cache_files(home):
    return sorted(glob.glob(os.path.join(home, 'lingpy', '*', '*.pkl')))


def run_state(args):
    """copy the pristine cache, damage it, start twice; returns observations"""
    pristine, faults, scratch_root = args
    home = tempfile.mkdtemp(prefix='c20-', dir=scratch_root)
    try:
        shutil.copytree(os.path.join(pristine, 'lingpy'), os.path.join(home, 'lingpy'))
        for name, kind, off in faults:
            if kind == 'nodir':
                continue
            p = [f for f in cache_files(home) if os.path.basename(f) == name][0]
            if kind == 'deleted':
                os.remove(p)
            elif kind == 'emptied':
                open(p, 'wb').close()
            else:
                data = open(p, 'rb').read()
                open(p, 'wb').write(data[:max(1, min(len(data) - 1, off))])
        if any(k == 'nodir' for _, k, _ in faults):
            shutil.rmtree(os.path.join(home, 'lingpy'))
        first = probe(home)
        second = probe(home)
        files_after = {os.path.basename(f): os.path.getsize(f) for f in cache_files(home)}
        return faults, first, second, files_after
    finally:
        shutil.rmtree(home, ignore_errors=True)


def run(chk):
    chk.rule = ('fault enumeration: subsets of the cache files x {deleted, emptied, truncated at a byte offset, whole directory absent}; '
                'each damaged state is started twice in a subprocess with XDG_CACHE_HOME redirected to a scratch directory; '
                'non-trivial = at least one file damaged; distinct by the fault set')
    chk.lean_obligations()
    rng = chk.rng
    scratch_root = tempfile.mkdtemp(prefix='verif-c20-', dir='/var/tmp')
    drv = common.Driver()
    try:
        pristine = os.path.join(scratch_root, 'pristine')
        os.makedirs(pristine)
        fresh = probe(pristine)         # builds the cache from the shipped data files
        clean = probe(pristine)
        files = [os.path.basename(f) for f in cache_files(pristine)]
        sizes = {os.path.basename(f): os.path.getsize(f) for f in cache_files(pristine)}
        chk.extra['cache_files'] = files
        if not fresh.get('ok') or not clean.get('ok'):
            chk.obligation('fresh build from the shipped data files', 'correspondence', False, str(fresh)[:300])
            chk.violation('import fails on an absent cache directory: %s' % fresh.get('error'),
                          {'kind': 'cache', 'faults': [['<all>', 'nodir', 0]], 'first': fresh})
            return
        digest = fresh['digest']
        chk.obligation('fresh build and clean restart agree', 'correspondence',
                       clean['digest'] == digest and all(t[0] == 'L' for t in clean['trace']),
                       'files=%d clean-restart ops=%r' % (len(files), clean['trace'][:3]))
        # the fresh build against the shipped data files read independently (converter of every loaded model)
        ref_conv = converters_from_data_files()
        diff = sorted(m for m, dg in fresh.get('converters', {}).items() if m in ref_conv and ref_conv[m] != dg)
        chk.obligation('oracle:converters of a fresh build == the shipped converter files read independently', 'correspondence', not diff,
                       'models compared=%d differing=%r' % (len([m for m in fresh.get('converters', {}) if m in ref_conv]), diff))
        ref_inv = inventories_from_data_files()
        diff_inv = sorted(k for k, dg in fresh.get('inventories', {}).items() if ref_inv.get(k) != dg)
        chk.obligation('oracle:diacritic / vowel / tone inventories of a fresh build == the shipped dvt files read independently', 'correspondence', not diff_inv,
                       'differing=%r' % diff_inv)
        if diff_inv:
            chk.violation('a start on an absent cache yields %s that differ from the shipped data file' % ', '.join(diff_inv),
                          {'kind': 'cache', 'faults': [['<all>', 'nodir', 0]], 'inventories': diff_inv, 'why': 'inventory built from the data files differs from an independent reading of lingpy/data/models/dvt/*'})
        if diff:
            chk.violation('a start on an absent cache yields a converter for model %r that differs from its shipped data file' % diff[0],
                          {'kind': 'cache', 'faults': [['<all>', 'nodir', 0]], 'models': diff, 'why': 'converter built from the data files differs from an independent reading of lingpy/data/models/<model>/converter'})
        # units of the model, derived from the observed clean start (load order) and the fresh build (writes)
        order = [t[1] for t in clean['trace']]
        writes = {}
        cur = None
        for t in fresh['trace']:
            if t[0] in ('M', 'U'):
                cur = t[1]
                writes[cur] = []
            elif t[0] == 'D' and cur is not None:
                writes[cur].append(t[1])
        fid = {n: i for i, n in enumerate(files)}
        units = ' '.join('%d:%s' % (fid[n], ','.join(str(fid[w]) for w in writes.get(n, [n]))) for n in order)
        chk.extra['units'] = {n: writes.get(n) for n in order}
        # fault sets
        states = [[('<all>', 'nodir', 0)]]
        for f in files:                                   # every single-file fault
            for kind in ('deleted', 'emptied', 'truncated'):
                states.append([(f, kind, rng.randrange(1, sizes[f]))])
        nrand = chk.n(14, 500)
        for _ in range(nrand):
            k = rng.choice([2, 2, 3, 4, len(files)])
            sub = rng.sample(files, min(k, len(files)))
            states.append([(f, rng.choice(['deleted', 'emptied', 'truncated']), rng.randrange(1, sizes[f])) for f in sub])
        if not chk.thorough:
            single = states[1:1 + 3 * len(files)]
            rng.shuffle(single)
            states = [states[0]] + single[:chk.n(22, 0)] + states[1 + 3 * len(files):]
        else:
            for f in files:                                # truncation at spread offsets
                for j in range(1, 17):
                    states.append([(f, 'truncated', max(1, sizes[f] * j // 17))])
        # truncation inside the pickle header / first frame: the loader fails with other exception types there (EOFError, ...)
        short = list(range(1, 17)) if chk.thorough else [1, 2, 3, 4, 11]
        for f in (files if chk.thorough else rng.sample(files, min(4, len(files)))):
            for off in short:
                if off < sizes[f]:
                    states.append([(f, 'truncated', off)])
        for off in (1, 2, 3):
            states.append([(f, 'truncated', off) for f in files if off < sizes[f]])
        # truncations whose last byte is the byte that also ends a complete pickle (STOP, b'.'): the byte occurs inside pickles as an
        # operand, so such a file looks finished from its tail while it is not
        for f in cache_files(pristine):
            data = open(f, 'rb').read()
            inner = [i + 1 for i in range(16, len(data) - 1) if data[i] == 0x2e]
            pick = inner if chk.thorough else (rng.sample(inner, 2) if len(inner) > 2 else inner)
            for off in pick:
                states.append([(os.path.basename(f), 'truncated', off)])
                chk.hist['truncation ending in the STOP byte'] += 1
        fails, bad = [], []
        with concurrent.futures.ThreadPoolExecutor(max_workers=14) as ex:
            results = list(ex.map(run_state, [(pristine, st, scratch_root) for st in states]))
        for faults, first, second, files_after in results:
            chk.count(tuple(faults), True, branch=['faults:%d' % len(faults)] + ['kind:' + k for _, k, _ in faults])
            e = None
            if not first.get('ok'):
                e = 'start fails: %s' % first.get('error')
            elif first['digest'] != digest:
                e = 'models differ from the fresh build'
            elif not second.get('ok'):
                e = 'restart fails: %s' % second.get('error')
            elif second['digest'] != digest:
                e = 'models differ from the fresh build after restart'
            elif any(t[0] != 'L' for t in second['trace']):
                e = 'restart is not clean: %r' % [t for t in second['trace'] if t[0] != 'L'][:3]
            elif any(files_after.get(f) != sizes[f] for f in order):
                # only files that a start actually reads must be restored (scorer pickles of the shipped
                # models are written by compile steps but never read: the matrices come from the data files)
                e = 'a cache file that is read at start-up was not restored'
            if e:
                fails.append((faults, e, first))
            # model prediction of the first start's operation trace
            if faults[0][1] == 'nodir':
                st = ['a'] * len(files)
            else:
                st = ['v'] * len(files)
                for name, kind, _ in faults:
                    st[fid[name]] = 'a' if kind == 'deleted' else 'c'
            out = drv.ask('cachestart|1|%s|%s' % (units, ' '.join(st)))
            if out.startswith('OK'):
                mtrace = out.split()[2:]
                rtrace = ['%s%d' % (t[0], fid[t[1]]) for t in first.get('trace', []) if t[1] in fid]
                if mtrace != rtrace or not first.get('ok'):
                    bad.append((faults, rtrace, mtrace))
            else:
                bad.append((faults, first.get('trace'), out))
        chk.sample({'faults': results[1][0], 'first_start_trace': results[1][1].get('trace')}, limit=2)
        # identification of the handler parameter E: both failure kinds were recovered from
        kinds_seen = set(t[0] for _, first, _, _ in results for t in first.get('trace', []))
        chk.obligation('identification: handler catches missing-file and unpickling failures (hypothesis of C20_recovers)',
                       'correspondence', not fails and {'M', 'U'} <= kinds_seen, 'failure kinds exercised: %s' % sorted(kinds_seen))
        chk.obligation('correspondence:operation trace of the first start == model (load/dump events)', 'correspondence',
                       not bad, 'states=%d mismatches=%d' % (len(states), len(bad)))
        chk.obligation('oracle:digest equals fresh build, restart clean', 'correspondence', not fails,
                       'states=%d failures=%d' % (len(states), len(fails)))
        # the modelling assumption "a strict prefix of a pickle never loads"
        npre, loaded = 0, []
        for f in cache_files(pristine):
            data = open(f, 'rb').read()
            offs = range(0, len(data)) if chk.thorough else sorted(set([0, 1, 2, len(data) - 1, len(data) - 2] + [rng.randrange(len(data)) for _ in range(200)]))
            for o in offs:
                npre += 1
                try:
                    pickle.loads(data[:o])
                    loaded.append((os.path.basename(f), o))
                except Exception:
                    pass
        chk.evaluations += npre
        chk.obligation('assumption check: strict prefixes of the cache pickles do not load', 'correspondence', not loaded,
                       'prefixes tried=%d loaded=%r' % (npre, loaded[:3]))
        for f in fails[:2]:
            chk.violation('cache state %r: %s' % (f[0], f[1]), {'kind': 'cache', 'faults': f[0], 'why': f[1], 'first': f[2]})
        if (bad or loaded) and not fails:
            chk.violation('cache start-up trace differs from the model; results still correct',
                          {'kind': 'cache-model', 'detail': (bad or loaded)[0], 'broken': 'correspondence:operation trace'},
                          found_input=False)
    finally:
        drv.close()
        shutil.rmtree(scratch_root, ignore_errors=True)


def replay(chk, path):
    d = json.load(open(path))['replay']
    print(json.dumps(d, indent=1, default=str)[:3000])
    return 0
