"""C07 — a gain-loss scenario reproduces the presence/absence pattern it explains."""
from props import gl_common as gc


def run(chk):
    chk.rule = ('all rooted tree shapes with <= 4/5 leaves (binary and multifurcating) x all patterns over {1,0,-1} with a presence '
                '(n=4: sampled in quick) + random trees to 10/14 leaves; x weight pairs x gains-per-lineage {1,2,3,inf} x push_gains x '
                'missing_data {0,-1}; get_gls and the PhyBo restriction / weighted / top-down routines; non-trivial = pattern with an absence and >= 2 presences')
    chk.lean_obligations()
    gc.run_get_gls(chk, 'replay')
    gc.run_phybo_modes(chk)
    gc.run_phybo_wordlist(chk)


def replay(chk, path):
    return gc.replay(chk, path)
