"""C09 — UPGMA and Neighbor-Joining recover the tree behind tree-like distances."""
import itertools
import json

import common
import clusterlib as cl
from common import f2b, b2f

from lingpy.algorithm.cython import _cluster
from lingpy.algorithm import clustering


def parse_rows(o):
    rows = []
    body = o[2:].strip()
    if not body:
        return rows
    for r in body.split(' ; '):
        a, b, x, y = r.split()
        rows.append((int(a), int(b), b2f(x), b2f(y)))
    return rows


def real_rows(which, m, as_array=False):
    k = len(m)
    tm = []
    if as_array:
        import numpy as np
        mat = np.array([list(map(float, r)) for r in m], dtype=float)     # the documented alternative to nested lists
    else:
        mat = [list(r) for r in m]
    getattr(_cluster, which)(dict((i, [i]) for i in range(k)), mat, tm)
    return [(a, b, float(c), float(d)) for a, b, c, d in tm]


def decode(rows, n):
    """tree matrix -> (children dict, root); raises if it is not a valid join sequence"""
    live = set(range(n))
    kids = {}
    for i, (a, b, ba, bb) in enumerate(rows):
        if a not in live or b not in live or a == b:
            raise ValueError('row %d joins ids %r,%r that are not two live nodes' % (i, a, b))
        live -= {a, b}
        kids[n + i] = ((a, ba), (b, bb))
        live.add(n + i)
    if len(live) != 1:
        raise ValueError('%d roots' % len(live))
    return kids, live.pop()


def clades_and_depths(kids, root, n):
    clades, depths = [], {}

    def go(v, d):
        if v < n:
            depths[v] = d
            return frozenset([v])
        s = frozenset()
        for c, bl in kids[v]:
            s |= go(c, d + bl)
        clades.append(s)
        return s
    go(root, 0.0)
    return clades, depths


def path_lengths(kids, root, n):
    """leaf-to-leaf path sums in the decoded tree"""
    up = {}
    for v, ch in kids.items():
        for c, bl in ch:
            up[c] = (v, bl)

    def anc(x):
        out, d = {x: 0.0}, 0.0
        while x in up:
            x, bl = up[x][0], up[x][1]
            d += bl
            out[x] = d
        return out
    A = {i: anc(i) for i in range(n)}
    dist = {}
    for i in range(n):
        for j in range(i + 1, n):
            v = next(v for v in A[i] if v in A[j])    # the first common node on the way up (branches may be negative: not the nearest)
            dist[i, j] = A[i][v] + A[j][v]
    return dist


def rand_rooted(rng, n):
    """random rooted binary tree on leaves 0..n-1 with distinct integer node heights; returns (clades, matrix)"""
    nodes = [(frozenset([i]), 0) for i in range(n)]
    heights = sorted(rng.sample(range(1, 10 * n), n - 1))
    clades = []
    lca_h = {}
    for h in heights:
        a, b = rng.sample(range(len(nodes)), 2)
        A, B = nodes[a][0], nodes[b][0]
        for x in A:
            for y in B:
                lca_h[x, y] = lca_h[y, x] = h
        nodes = [nd for i, nd in enumerate(nodes) if i not in (a, b)] + [(A | B, h)]
        clades.append(A | B)
    m = [[0.0 if i == j else 2.0 * lca_h[i, j] for j in range(n)] for i in range(n)]
    return clades, m


def rand_unrooted(rng, n):
    """random unrooted binary tree with positive half-integer branch lengths; returns (splits, additive matrix)"""
    # grow by attaching leaves to random edges
    edges = {(0, 'c'): rng.randrange(1, 9) / 2.0, (1, 'c'): rng.randrange(1, 9) / 2.0, (2, 'c'): rng.randrange(1, 9) / 2.0}
    internal = ['c']
    for leaf in range(3, n):
        (u, v), w = rng.choice(sorted(edges.items(), key=str))
        del edges[(u, v)]
        x = 'i%d' % leaf
        internal.append(x)
        w1 = rng.choice([k / 2.0 for k in range(1, int(w * 2))] or [w / 2.0]) if w > 0.5 else w / 2.0
        edges[(u, x)] = w1
        edges[(x, v)] = w - w1
        edges[(leaf, x)] = rng.randrange(1, 9) / 2.0
    adj = {}
    for (u, v), w in edges.items():
        adj.setdefault(u, []).append((v, w))
        adj.setdefault(v, []).append((u, w))
    m = [[0.0] * n for _ in range(n)]
    for s in range(n):
        stack = [(s, None, 0.0)]
        while stack:
            x, par, d = stack.pop()
            if isinstance(x, int):
                m[s][x] = d
            for y, w in adj[x]:
                if y != par:
                    stack.append((y, x, d + w))
    splits = set()
    for (u, v), w in edges.items():
        side = set()
        stack = [(u, v)]
        while stack:
            x, par = stack.pop()
            if isinstance(x, int):
                side.add(x)
            for y, _ in adj[x]:
                if y != par:
                    stack.append((y, x))
        if 1 < len(side) < n - 1:
            splits.add(frozenset([frozenset(side), frozenset(set(range(n)) - side)]))
    return splits, m


def run(chk):
    from lingpy.basic.tree import Tree
    chk.rule = ('arbitrary symmetric matrices (tie-rich exact and float, 2..9/14 taxa) for the leaf-set, binarity and ultrametricity clauses; '
                'ultrametric matrices generated from random rooted trees with distinct integer node heights; additive matrices from random '
                'unrooted trees with positive half-integer branch lengths; non-trivial = at least 4 taxa')
    chk.lean_obligations()
    rng = chk.rng
    drv = common.Driver()
    bad = {'_upgma': [], '_neighbor': []}
    fails = []
    ident = {}
    mats = []
    for _ in range(chk.n(2500, 80000)):
        m, _t = cl.gen_matrix(rng, maxn=chk.n(9, 14), exact=rng.random() < 0.5)
        if len(m) >= 2:
            mats.append((m, 'arbitrary'))
    gen_u, gen_a = [], []
    for _ in range(chk.n(1000, 32000)):
        n = rng.choice([2, 3, 4, 5, 6, 7, 8, chk.n(10, 20)])
        cladesG, m = rand_rooted(rng, n)
        mats.append((m, 'ultrametric'))
        gen_u.append((len(mats) - 1, cladesG))
    for _ in range(chk.n(1000, 32000)):
        n = rng.choice([3, 4, 5, 6, 7, 8, chk.n(10, 20)])
        splitsG, m = rand_unrooted(rng, n)
        if rng.random() < 0.3:
            # closely related varieties: the same tree with all branches scaled by a power of two (exact in doubles), so that the shortest
            # branches are a few thousandths long - positive lengths like any other
            sc = 2.0 ** -rng.choice([7, 8, 9, 10])
            m = [[v * sc for v in r] for r in m]
            chk.hist['additive matrix scaled to branch lengths of a few thousandths'] += 1
        mats.append((m, 'additive'))
        gen_a.append((len(mats) - 1, splitsG))
    # --- exact tree-matrix differential ---
    reals = {w: [real_rows(w, m) for m, _ in mats] for w in ('_upgma', '_neighbor')}
    for lm in (0, 1):
        outs = drv.ask_many(['upgma|%d|%d|%s' % (lm, len(m), ' '.join(f2b(v) for r in m for v in r)) for m, _ in mats])
        b = [i for i, o in enumerate(outs) if parse_rows(o) != reals['_upgma'][i]]
        if not b:
            ident['_upgma'] = lm
            bad['_upgma'] = []
            break
        if lm == 0:
            bad['_upgma'] = b
    outs = drv.ask_many(['nj|%d|%s' % (len(m), ' '.join(f2b(v) for r in m for v in r)) for m, _ in mats])
    bad['_neighbor'] = [i for i, o in enumerate(outs) if parse_rows(o) != reals['_neighbor'][i]]
    # --- the reading of a tree matrix: Lean `decode` (the object C09_nj_path_sums speaks about) == the harness's own path sums ---
    dec_q, dec_want = [], []
    for i, (m, _s) in enumerate(mats):
        for which in ('_upgma', '_neighbor'):
            rows = reals[which][i]
            try:
                kids, root = decode(rows, len(m))
            except ValueError:
                continue
            dec_q.append('dec|%d|%s|%s' % (len(m), ' '.join('%d %d' % (a, b) for a, b, _x, _y in rows),
                                            ' '.join('%s %s' % (f2b(x), f2b(y)) for _a, _b, x, y in rows)))
            dec_want.append(path_lengths(kids, root, len(m)))
    dec_bad = []
    for q, o, want in zip(dec_q, drv.ask_many(dec_q), dec_want):
        got = {}
        body = o[2:].strip()
        for e in (body.split(' ; ') if body else []):
            a, b, v = e.split()
            got[min(int(a), int(b)), max(int(a), int(b))] = b2f(v)
        if got != want:
            dec_bad.append((q, sorted(got.items())[:4], sorted(want.items())[:4]))
    chk.obligation('correspondence:reading of a tree matrix - Lean decode (row t creates node n+t, path = depth + branch on either side) == path sums '
                   'computed by the harness from the rows of _upgma / _neighbor (bit-exact)', 'correspondence', not dec_bad,
                   'tree matrices=%d mismatches=%d %r' % (len(dec_q), len(dec_bad), dec_bad[:1]))
    drv.close()
    # --- oracles ---
    for i, (m, sname) in enumerate(mats):
        n = len(m)
        chk.count((sname, tuple(map(tuple, m))), n >= 4, branch=['stream:' + sname, 'taxa:%d' % min(n, 10)])
        # every third name carries an underscore (language names such as Old_English): it is part of the name
        taxa = [('T%d' if j % 3 else 'L_%d') % j for j in range(n)]
        for which in ('_upgma', '_neighbor'):
            if which == '_neighbor' and n < 2:
                continue
            rows = reals[which][i]
            try:
                kids, root = decode(rows, n)
            except ValueError as ex:
                fails.append((which, m, 'tree matrix is not a valid join sequence: %s' % ex))
                continue
            if len(rows) != n - 1:
                fails.append((which, m, '%d joins for %d taxa' % (len(rows), n)))
            clades, depths = clades_and_depths(kids, root, n)
            if which == '_upgma':
                d = list(depths.values())
                tol = 1e-9 * max(1.0, max(abs(x) for x in d))
                if max(d) - min(d) > tol:
                    fails.append((which, m, 'UPGMA tree is not ultrametric: leaf depths %r' % (d,)))
        # Newick strings through the public functions
        if i % 4 == 0:
            for fn in (clustering.upgma, clustering.neighbor):
                for dist in (True, False):
                    nwk = fn([list(r) for r in m], taxa, distances=dist)
                    try:
                        t = Tree(nwk)
                        if sorted(t.taxa) != sorted(taxa):
                            fails.append((fn.__name__, m, 'leaves of %r are not the taxa' % nwk))
                        if any(len(nd.Children) != 2 for nd in t.iterNontips(include_self=True)):
                            fails.append((fn.__name__, m, 'non-binary internal node in %r' % nwk))
                        if dist:
                            # the branch lengths in the string are those of the tree matrix, written with two decimals:
                            # root-to-leaf depths agree with the decoded tree matrix up to the rounding of each branch
                            which = '_upgma' if fn is clustering.upgma else '_neighbor'
                            kids, root = decode(reals[which][i], n)
                            _, depths = clades_and_depths(kids, root, n)
                            for leaf in t.tips():
                                d_str, node, hops = 0.0, leaf, 0
                                while node.Parent is not None:
                                    d_str += float(node.Length or 0.0)
                                    node = node.Parent
                                    hops += 1
                                want = depths[taxa.index(leaf.Name)]
                                if abs(d_str - want) > 0.005 * hops + 1e-9 * max(1.0, abs(want)):
                                    fails.append((fn.__name__, m, 'depth of %s in the Newick string is %r, the tree matrix gives %r (%d branches written with two decimals)'
                                                  % (leaf.Name, d_str, want, hops)))
                                    break
                    except Exception as ex:  # noqa
                        fails.append((fn.__name__, m, 'Newick %r does not parse: %s' % (nwk, type(ex).__name__)))
            # the tree object of the same analysis
            if n >= 2:
                for calc in ('upgma', 'neighbor'):
                    chk.evaluations += 1
                    try:
                        node = clustering.matrix2tree([list(r) for r in m], taxa, tree_calc=calc)
                        got = sorted(x.Name for x in node.tips())
                    except Exception as ex:  # noqa
                        got = 'raised %s' % type(ex).__name__
                    if got != sorted(taxa):
                        fails.append(('matrix2tree', m, 'matrix2tree(tree_calc=%r) with taxa %r: leaves of the returned tree are %r' % (calc, taxa, got)))
    # matrices made by the library's own helper (squareform of a condensed vector, as in the documentation), several of them kept
    # while others of the same size are made and while a larger analysis runs: each must still give the tree of its own distances
    try:
        from lingpy.algorithm import squareform as lib_squareform
    except Exception:  # noqa
        from lingpy.algorithm.misc import squareform as lib_squareform
    gens = gen_u + gen_a
    for b0 in range(0, min(len(gens), chk.n(240, 4000)), 4):
        batch = [mats[idx][0] for idx, _ in gens[b0:b0 + 4]]
        made = []
        for m in batch:
            n = len(m)
            made.append(lib_squareform([m[i][j] for i in range(n) for j in range(i + 1, n)]))
        big = mats[gens[(b0 + 7) % len(gens)][0]][0]
        real_rows('_neighbor', big)
        clustering.neighbor([list(r) for r in big], ['T%d' % j for j in range(len(big))])
        for m, sq in zip(batch, made):
            chk.evaluations += 1
            if [list(map(float, r)) for r in sq] != [list(map(float, r)) for r in m]:
                fails.append(('squareform', m, 'a matrix returned by squareform no longer holds its distances after later squareform calls / analyses: %r' % ([list(r) for r in sq][:3],)))
                break
            for which in ('_upgma', '_neighbor'):
                if len(m) >= (2 if which == '_upgma' else 3) and real_rows(which, sq) != real_rows(which, m):
                    fails.append((which, m, 'the tree built from squareform(condensed distances) differs from the tree built from the same distances as nested lists'))
    # the same distances given as a two-dimensional numpy array: the tree is the tree of the numbers, whatever holds them
    for idx, _g in (gen_a + gen_u)[::chk.n(4, 1)]:
        m = mats[idx][0]
        n = len(m)
        for which in ('_upgma', '_neighbor'):
            if n < (2 if which == '_upgma' else 3):
                continue
            chk.evaluations += 1
            try:
                rows_arr = real_rows(which, m, as_array=True)
            except Exception as ex:  # noqa
                fails.append((which, m, 'raised %s on a numpy array of the distances: %s' % (type(ex).__name__, str(ex)[:80])))
                continue
            if rows_arr != reals[which][idx]:
                why = 'the tree matrix built from a numpy array of the distances differs from the one built from nested lists'
                try:
                    kids, root = decode(rows_arr, n)
                    pl = path_lengths(kids, root, n)
                    if mats[idx][1] == 'additive' and which == '_neighbor' and any(abs(pl[i, j] - m[i][j]) > 1e-9 for i in range(n) for j in range(i + 1, n)):
                        why = 'numpy array input: path sums of the NJ tree do not reproduce the input distances (%r for %r)' % (pl[0, 1], m[0][1])
                except ValueError as ex:
                    why = 'numpy array input: tree matrix is not a valid join sequence: %s' % ex
                fails.append((which, m, why))
    for idx, cladesG in gen_u:
        m = mats[idx][0]
        n = len(m)
        kids, root = decode(reals['_upgma'][idx], n)
        clades, depths = clades_and_depths(kids, root, n)
        if set(clades) != set(cladesG):
            fails.append(('_upgma', m, 'clades of the generating ultrametric tree are not recovered'))
    for idx, splitsG in gen_a:
        m = mats[idx][0]
        n = len(m)
        rows = reals['_neighbor'][idx]
        kids, root = decode(rows, n)
        clades, _ = clades_and_depths(kids, root, n)
        full = frozenset(range(n))
        got = set(frozenset([c, full - c]) for c in clades if 1 < len(c) < n - 1)
        if got != splitsG:
            fails.append(('_neighbor', m, 'unrooted topology of the generating additive tree is not recovered'))
        else:
            pl = path_lengths(kids, root, n)
            if any(abs(pl[i, j] - m[i][j]) > 1e-9 for i in range(n) for j in range(i + 1, n)):
                fails.append(('_neighbor', m, 'path sums of the NJ tree do not reproduce the input distances'))
    chk.tested_not_proved += ['UPGMA ultrametricity on floats (proved for exact arithmetic by C09_upgma_ultrametric; with rounding it is tested with a relative tolerance 1e-9), '
                              'UPGMA clade recovery on ultrametric matrices with distinct node heights, NJ topology and path-sum recovery on additive matrices: tested on '
                              'generated trees, not proved',
                              'that the ids in the NJ tree matrix name the right nodes (tracer) is covered by the bit-exact differential and the decoding oracle, not by a theorem']
    chk.extra['identified_upgma_lastMin'] = ident.get('_upgma')
    for w in ('_upgma', '_neighbor'):
        chk.obligation('correspondence:%s tree matrix == model (ids and branch lengths, bit-exact)' % w, 'correspondence',
                       not bad[w] and not [f for f in fails if f[0] == w], 'matrices=%d mismatches=%d' % (len(mats), len(bad[w])))
    chk.obligation('oracle:C09 statement (leaf set, binarity, ultrametricity, recovery of generating trees)', 'correspondence', not fails,
                   'failures=%d' % len(fails))
    fails.sort(key=lambda f: len(f[1]))
    for f in fails[:2]:
        chk.violation('%s: %s' % (f[0], f[2]), {'kind': 'tree-builder', 'fn': f[0], 'matrix': f[1], 'why': f[2]})
    if (bad['_upgma'] or bad['_neighbor']) and not fails:
        w = '_upgma' if bad['_upgma'] else '_neighbor'
        i = bad[w][0]
        chk.violation('%s: tree matrix differs from the model; oracle found no failing input' % w,
                      {'kind': 'tree-builder-model', 'fn': w, 'matrix': mats[i][0], 'real': reals[w][i],
                       'broken': 'correspondence:%s tree matrix' % w}, found_input=False)
    chk.sample({'matrix': mats[-1][0], 'nj_tree_matrix': reals['_neighbor'][-1]}, limit=1)


def replay(chk, path):
    d = json.load(open(path))['replay']
    print(json.dumps(d, indent=1, default=str)[:3000])
    return 0
