"""C11 — iterative refinement never lowers an alignment's sum-of-pairs score."""
from props import msa_common as mc


def run(chk):
    chk.rule = ('sequence sets with >= 3 distinct sequences x both alignment methods x 1-4 refinement calls (similar gap sites, clusters, orphans, '
                'all sequences) with gap weights {0, 0.5, 1}; every _iter pass recorded (score before, candidate score, matrix before/after); '
                'non-trivial = at least three sequences')
    chk.lean_obligations()
    mc.run_multiple(chk, 'C11')


def replay(chk, path):
    return mc.replay(chk, path)
