"""Shared check logic for C05 / C10."""
import itertools
import json

import common
import clusterlib as cl

from lingpy.algorithm.cython import _cluster
from lingpy.algorithm import clustering

FAMILY = [(0, 0), (1, 0), (0, 1), (1, 1)]   # (lastMin, unordered)


def stream(chk):
    out = []
    small = list(cl.small_matrices(chk.n(3, 4)))
    if not chk.thorough:
        extra = list(cl.small_matrices(4))
        extra = [m for m in extra if len(m) == 4][chk.seed % 11::11]
        small += extra
    for m in small:
        for t in (-12.0, 0.0, 6.0, 12.0, 18.0, 24.0, 36.0):
            out.append((m, t, 'small'))
    for _ in range(chk.n(1500, 80000)):
        m, t = cl.gen_matrix(chk.rng, maxn=chk.n(8, 10), exact=True)
        out.append((m, t, 'random-exact'))
    for _ in range(chk.n(600, 32000)):
        m, t = cl.gen_matrix(chk.rng, maxn=chk.n(8, 14), exact=False)
        out.append((m, t, 'random-float'))
    return out


def st_str(states):
    return ' / '.join(' '.join('%d:%s' % (k, ','.join(map(str, v))) for k, v in st) for st in states)


def correspondence(chk, links=cl.LINKS, with_oracle=True, record=None):
    """exact trace differential (every recursive call's `clusters` dictionary) + property oracle.
    With `record` (a dict) the verdict per linkage is stored instead of being registered as an obligation."""
    drv = common.Driver()
    cases = stream(chk)
    for link in links:
        reals = [cl.real_trace(link, m, t) for m, t, _ in cases]
        ident = None
        for fam in FAMILY:
            outs = drv.ask_many([cl.encode(link, m, t, *fam) for m, t, _ in cases])
            models = [cl.decode(o) for o in outs]
            bad = [i for i in range(len(cases)) if not (models[i] == reals[i][0] and models[i][-1] == reals[i][1])]
            if not bad:
                ident = fam
                break
            if fam == FAMILY[0]:
                bad0, models0 = bad, models
        fails = []
        for i, (m, t, sname) in enumerate(cases):
            states, final = reals[i]
            chk.count((link, tuple(map(tuple, m)), t), 1 < len(final) < len(m), branch=[link, 'stream:' + sname])
            if with_oracle:
                e = cl.oracle_c05(link, m, t, dict(final))
                if e:
                    fails.append((m, t, e))
        chk.sample({'link': link, 'matrix': cases[-1][0], 'threshold': cases[-1][1], 'real': reals[-1][1]}, limit=3)
        detail = 'cases=%d family member (lastMin, unordered)=%r' % (len(cases), ident)
        if ident and ident != FAMILY[0]:
            chk.notes.append('%s identified as family member %r' % (link, ident))
        if record is not None:
            record[link] = (ident is not None, detail, (cases[bad0[0]], reals[bad0[0]][0], models0[bad0[0]]) if ident is None else None)
            continue
        chk.obligation('correspondence:trace:%s' % link, 'correspondence', ident is not None and not fails, detail)
        for m, t, e in fails[:2]:
            m2, t2 = shrink_matrix(link, m, t)
            chk.violation('flat_cluster(%s): %s' % (link, e),
                          {'kind': 'cluster', 'link': link, 'matrix': m2, 'threshold': t2,
                           'real': cl.real_trace(link, m2, t2)[1], 'why': cl.oracle_c05(link, m2, t2, dict(cl.real_trace(link, m2, t2)[1]))})
        if ident is None and not fails:
            i = bad0[0]
            chk.violation('flat_cluster(%s): recorded merge trace differs from every family member; oracle found no failing input' % link,
                          {'kind': 'cluster', 'link': link, 'matrix': cases[i][0], 'threshold': cases[i][1],
                           'real_trace': reals[i][0], 'model_trace': models0[i],
                           'broken': 'correspondence:trace:%s' % link}, found_input=False)
    drv.close()


def shrink_matrix(link, m, t):
    def fails(mm):
        try:
            return cl.oracle_c05(link, mm, t, dict(cl.real_trace(link, mm, t)[1])) is not None
        except Exception:
            return False
    m = [list(r) for r in m]
    changed = True
    while changed and len(m) > 2:
        changed = False
        for k in range(len(m)):
            mm = [[v for j, v in enumerate(r) if j != k] for i, r in enumerate(m) if i != k]
            if fails(mm):
                m = mm
                changed = True
                break
    return m, t


def orientations(chk):
    """taxa / revert / flat_upgma / clustering.flat_cluster wrappers describe the same partition"""
    rng = chk.rng
    fails = []
    n = chk.n(900, 32000)
    for _ in range(n):
        m, t = cl.gen_matrix(rng, maxn=8, exact=rng.random() < 0.7)
        link = rng.choice(cl.LINKS)
        k = len(m)
        v_ = rng.random()
        if v_ < 0.2 and k >= 3:
            # identical items: exact zeros off the diagonal
            m = [list(r) for r in m]
            for _z in range(rng.choice([1, 2])):
                i_, j_ = rng.sample(range(k), 2)
                m[i_][j_] = m[j_][i_] = 0.0
            chk.hist['orientations: matrix with zero distances between different items'] += 1
        elif v_ < 0.45 and k >= 2:
            # the threshold IS one of the distances (the smallest one, or any): entries with many decimals must compare as they are
            offd = sorted(m[i_][j_] for i_ in range(k) for j_ in range(i_ + 1, k))
            t = offd[0] if rng.random() < 0.5 else rng.choice(offd)
            chk.hist['orientations: threshold equal to an entry'] += 1
        elif v_ < 0.55:
            t = rng.choice([0, 0.0])
            chk.hist['orientations: threshold zero'] += 1
        taxa = ['L%d' % i for i in range(k)]
        base = _cluster.flat_cluster(link, t, [list(r) for r in m])
        rev = _cluster.flat_cluster(link, t, [list(r) for r in m], revert=True)
        tx = clustering.flat_cluster(link, t, [list(r) for r in m], taxa)
        wr = clustering.flat_cluster(link, t, [list(r) for r in m], revert=True)
        chk.count(('orient', link, tuple(map(tuple, m)), t), 1 < len(base) < k, branch='orientations')
        e = None
        if sorted(rev) != list(range(k)):
            e = 'reverted output does not label every item exactly once'
        elif any(rev[i] != key + 1 for key, v in base.items() for i in v):
            e = 'reverted labels differ from key+1 of the clusters'
        elif any(l < 1 for l in rev.values()):
            e = 'label < 1'
        elif {key: [taxa[i] for i in v] for key, v in base.items()} != tx:
            e = 'taxa output differs from index output'
        elif wr != rev:
            e = 'clustering.flat_cluster wrapper differs'
        if link == 'upgma':
            fu = _cluster.flat_upgma(t, [list(r) for r in m])
            fu2 = clustering.flat_upgma(t, [list(r) for r in m], revert=True)
            if fu != base or fu2 != rev:
                e = 'flat_upgma differs from flat_cluster("upgma")'
        if e:
            fails.append((link, m, t, e))
    chk.obligation('oracle:output orientations (taxa / revert / wrappers)', 'correspondence', not fails,
                   'cases=%d failures=%d' % (n, len(fails)))
    for f in fails[:1]:
        chk.violation('flat_cluster(%s) orientations: %s' % (f[0], f[3]),
                      {'kind': 'orient', 'link': f[0], 'matrix': f[1], 'threshold': f[2], 'why': f[3]})


def textbook_check(chk):
    rng = chk.rng
    fails = []
    n = chk.n(600, 20000)
    used = 0
    for _ in range(n):
        k = rng.choice([3, 4, 5, 6, 7])
        vals = rng.sample(range(1, 400), k * (k - 1) // 2)
        it = iter(vals)
        d = {}
        m = cl.sym(k, lambda i, j: next(it) * float(cl.LCM25))
        t = rng.choice([v * float(cl.LCM25) for v in vals] + [200.5 * cl.LCM25])
        for link in cl.LINKS:
            tb, tie = cl.textbook(link, m, t)
            if tie:
                continue
            used += 1
            res = _cluster.flat_cluster(link, t, [list(r) for r in m])
            chk.count(('textbook', link, tuple(vals), t), 1 < len(res) < k, branch='textbook-no-ties')
            if sorted(map(sorted, res.values())) != tb:
                fails.append((link, m, t, 'differs from the textbook agglomerative result %r' % tb))
    chk.notes.append('independent textbook implementation compared on %d tie-free runs' % used)
    chk.obligation('oracle:textbook agglomerative procedure on tie-free matrices', 'correspondence', not fails,
                   'runs=%d failures=%d' % (used, len(fails)))
    for f in fails[:1]:
        chk.violation('flat_cluster(%s): %s' % (f[0], f[3]), {'kind': 'cluster', 'link': f[0], 'matrix': f[1], 'threshold': f[2], 'why': f[3]})


def threshold_pairs(chk):
    """C10: tie (a) = on the real code the recorded state sequence at t1 is a prefix of the one at t2 and every
    recorded step is a merge of two entries (checked by the Lean predicate chainOkb; theorem C10_of_observed);
    tie (b) = exact trace correspondence with the concrete model (theorem C10_refines).  Shown if (a) or (b)."""
    rng = chk.rng
    tie_b = {}
    correspondence(chk, with_oracle=False, record=tie_b)
    drv = common.Driver()
    n = chk.n(1800, 80000)
    per = {l: {'fails': [], 'badp': [], 'chains': [], 'n': 0} for l in cl.LINKS}
    pairs = []
    for _ in range(n):
        m, t1 = cl.gen_matrix(rng, maxn=chk.n(8, 12), exact=rng.random() < 0.6)
        vals = sorted(set(v for r in m for v in r))
        t2 = rng.choice(vals + [t1, t1 + 1.0, 2 * max(vals) if vals else 1.0])
        pairs.append((m, min(t1, t2), max(t1, t2)))
    # linkage values that differ only in the last bits: which pair is "the closest" must not depend on the threshold in use
    for _ in range(chk.n(400, 16000)):
        m, sweep = cl.gen_near_tie(rng)
        for _k in range(4):
            t1, t2 = sorted(rng.sample(sweep, 2))
            pairs.append((m, t1, t2))
    for m, t1, t2 in pairs:
        for link in cl.LINKS:
            s1, f1 = cl.real_trace(link, m, t1)
            s2, f2 = cl.real_trace(link, m, t2)
            chk.count(('pair', link, tuple(map(tuple, m)), t1, t2), len(f1) != len(f2), branch='threshold-pair:' + link)
            per[link]['n'] += 1
            if not cl.refines([v for _, v in f1], [v for _, v in f2]):
                per[link]['fails'].append((link, m, t1, t2, f1, f2))
            if not s1 or not s2 or s2[:len(s1)] != s1 or s2[-1] != f2 or s1[-1] != f1:     # (no recorded state at all: the clusterer was not entered)
                per[link]['badp'].append((link, m, t1, t2))
            per[link]['chains'].append((s2, m, t1, t2))
    # a sweep as a user writes it: ONE matrix object handed to every call, `for threshold: for method: flat_cluster(method, threshold, M)`;
    # the partitions of each linkage have to be nested along the thresholds
    sweeps = []
    for m, t1, t2 in pairs[::chk.n(6, 2)]:
        if rng.random() < 0.3 and len(m) >= 4:
            m = [list(r) for r in m]
            for _z in range(rng.choice([1, 2])):
                i_, j_ = rng.sample(range(len(m)), 2)
                m[i_][j_] = m[j_][i_] = 0.0          # identical items
        shared = rng.choice([lambda: [list(r) for r in m], lambda: __import__('numpy').array([list(map(float, r)) for r in m])])()
        order = list(cl.LINKS)
        rng.shuffle(order)
        vals = sorted(set(v for r in m for v in r))
        ts = sorted(set([t1, t2] + rng.sample(vals, min(2, len(vals)))))
        got = {l: [] for l in cl.LINKS}
        got['flat_upgma'] = []
        calls = []
        try:
            for t in ts:
                for link in order:
                    res = _cluster.flat_cluster(link, t, shared)
                    got[link].append((t, sorted(sorted(v) for v in res.values())))
                    calls.append((link, t))
                    chk.evaluations += 1
                # the public average-linkage entry point next to the dispatcher
                res = clustering.flat_upgma(t, shared)
                got['flat_upgma'].append((t, sorted(sorted(v) for v in res.values())))
                calls.append(('flat_upgma', t))
                # ... and the grouping wrapper behind Wordlist.calculate('groups'), with every linkage name it may be given (a name
                # it does not know is its own business; the distances it was handed stay the caller's)
                tx_ = ['X%d' % i_ for i_ in range(len(m))]
                cm_ = rng.choice(['upgma', 'single', 'complete', 'ward'])
                try:
                    clustering.matrix2groups(t, shared, tx_, cluster_method=cm_)
                    calls.append(('matrix2groups:' + cm_, t))
                except Exception:  # noqa
                    calls.append(('matrix2groups:' + cm_ + ' (raised)', t))
        except Exception as ex:  # noqa
            sweeps.append((order[0], m, ts[0], ts[-1], 'raised %s' % type(ex).__name__, calls))
            continue
        for link in list(cl.LINKS) + ['flat_upgma']:
            for (ta, pa), (tb, pb) in zip(got[link], got[link][1:]):
                if not cl.refines(pa, pb):
                    sweeps.append((link, m, ta, tb, 'clusters %r at %r are not nested in clusters %r at %r' % (pa, ta, pb, tb), calls))
                    break
    chk.hist['threshold sweeps over one shared matrix object (lists / numpy array)'] += len(pairs[::chk.n(6, 2)])
    chk.obligation('oracle:C10 nesting along a threshold sweep that hands one matrix object to all calls of all linkages', 'correspondence',
                   not sweeps, 'failures=%d' % len(sweeps))
    for f in sweeps[:1]:
        chk.violation('flat_cluster(%s) in a sweep over one matrix object: %s' % (f[0], f[4]),
                      {'kind': 'threshold-sweep-shared-matrix', 'link': f[0], 'matrix': f[1], 't1': f[2], 't2': f[3], 'why': f[4], 'calls_in_order': f[5]})
    if any(per[l]['badp'] for l in cl.LINKS) and not any(per[l]['fails'] for l in cl.LINKS):
        # the merge sequence depends on the threshold: search small grid-valued matrices (many exact ties, thresholds equal to entries
        # and between them) for clusters that are not nested
        grid = [0.25, 0.375, 0.5, 0.5625, 0.75, 1.0]
        for _ in range(chk.n(3000, 40000)):
            k = rng.choice([4, 4, 5, 6])
            m = cl.sym(k, lambda i, j: rng.choice(grid))
            ts = sorted(set(grid + [(a + b) / 2 for a, b in zip(grid, grid[1:])]))
            hit = False
            for link in cl.LINKS:
                parts = []
                for t in ts:
                    res = _cluster.flat_cluster(link, t, [list(r) for r in m])
                    parts.append((t, [(kk, list(v)) for kk, v in res.items()]))
                    chk.evaluations += 1
                for i in range(len(parts)):
                    for j in range(i + 1, len(parts)):
                        if not hit and not cl.refines([v for _, v in parts[i][1]], [v for _, v in parts[j][1]]):
                            per[link]['fails'].append((link, m, parts[i][0], parts[j][0], parts[i][1], parts[j][1]))
                            hit = True
            if hit:
                break
    for link in cl.LINKS:
        p = per[link]
        outs = drv.ask_many(['chainok|' + st_str(s2) for s2, _, _, _ in p['chains']])
        badc = [c for c, o in zip(p['chains'], outs) if o != 'ok']
        tie_a = not p['badp'] and not badc
        ok_b, detail_b, ex_b = tie_b[link]
        chk.obligation('correspondence:C10:%s' % link, 'correspondence', (tie_a or ok_b) and not p['fails'],
                       'pairs=%d tie(a) threshold-independent merge sequence on the real code (prefix + merge steps): %s; '
                       'tie(b) exact trace == model: %s' % (p['n'], 'holds' if tie_a else 'BROKEN(prefix %d, steps %d)' % (len(p['badp']), len(badc)),
                                                            'holds' if ok_b else 'BROKEN'))
        for f in p['fails'][:2]:
            chk.violation('flat_cluster(%s): clusters at t1=%r are not nested in clusters at t2=%r' % (f[0], f[2], f[3]),
                          {'kind': 'threshold-pair', 'link': f[0], 'matrix': f[1], 't1': f[2], 't2': f[3], 'at_t1': f[4], 'at_t2': f[5]})
        if not (tie_a or ok_b) and not p['fails']:
            b = (p['badp'] or [(link,) + c[1:] for c in badc])[0]
            chk.violation('flat_cluster(%s): merge sequence depends on the threshold / is not a sequence of merges, and differs '
                          'from the model; no nesting failure found' % link,
                          {'kind': 'threshold-pair', 'link': link, 'matrix': b[1], 't1': b[2], 't2': b[3],
                           'broken': 'correspondence:C10:%s' % link}, found_input=False)
    drv.close()


def replay(chk, path):
    d = json.load(open(path))['replay']
    if d.get('kind') == 'cluster':
        res = cl.real_trace(d['link'], d['matrix'], d['threshold'])[1]
        e = cl.oracle_c05(d['link'], d['matrix'], d['threshold'], dict(res))
        print('real result:', res, '\noracle:', e or 'passes')
        return 1 if e else 0
    if d.get('kind') == 'threshold-pair':
        f1 = cl.real_trace(d['link'], d['matrix'], d['t1'])[1]
        f2 = cl.real_trace(d['link'], d['matrix'], d['t2'])[1]
        ok = cl.refines([v for _, v in f1], [v for _, v in f2])
        print(f1, f2, 'nested' if ok else 'NOT nested')
        return 0 if ok else 1
    print(json.dumps(d, indent=1, default=str)[:3000])
    return 0
