"""C19 — analyses do not modify the data the caller passed in."""
import copy

import numpy as np
import json

import common
import wlgen

from lingpy.algorithm import clustering
from lingpy.algorithm.cython import _cluster
import clusterlib as cl


def deep_rows(d):
    return {k: copy.deepcopy(v) for k, v in d.items()}


def obj_rows(wl):
    return {k: copy.deepcopy(v) for k, v in wl._data.items()}, dict(wl.header)


OPS = ['add_entries', 'assign', 'cluster', 'align', 'renumber', 'add_entries_src', 'etymdict']


def run_ops(chk, rng, new, src_obj, nops, log):
    """random operations on the new object (and, for the converse clause, on the source object)"""
    from lingpy import Wordlist
    for _ in range(nops):
        op = rng.choice(OPS)
        try:
            if op == 'add_entries':
                name = 'x%d' % rng.randrange(1000)
                new.add_entries(name, 'ipa', lambda x: x + '!')
                log.append(('add_entries', name))
            elif op == 'assign':
                k = rng.choice(list(new._data))
                col = rng.choice(list(new.header))
                new[k][new.header[col]] = 'ASSIGNED'
                log.append(('assign', k, col))
            elif op == 'renumber':
                cname = 'cid%d' % rng.randrange(100)
                if cname in new.header:
                    cname += 'x%d' % len(new.header)       # a fresh column (an existing one makes the library ask on the terminal)
                new.renumber('concept', cname)
                log.append(('renumber',))
            elif op == 'cluster' and hasattr(new, 'cluster'):
                new.cluster(method=rng.choice(['edit-dist', 'turchin', 'sca']), threshold=0.4,
                            ref='cog%d' % rng.randrange(100))
                log.append(('cluster',))
            elif op == 'align' and hasattr(new, 'align'):
                new.align()
                log.append(('align',))
            elif op == 'etymdict' and 'cogids' in new.header:
                # read-only views of the cognate sets, with the documented conversion of the ids (loans are coded as negative ids)
                fn_ = rng.choice([abs, int, lambda x: abs(int(x))])
                if rng.random() < 0.5:
                    new.get_etymdict(ref='cogids', modify_ref=fn_)
                else:
                    new.get_paps(ref='cogids', modify_ref=fn_)
                log.append(('get_etymdict / get_paps with modify_ref',))
            elif op == 'add_entries_src' and src_obj is not None:
                src_obj.add_entries('s%d' % rng.randrange(1000), 'ipa', lambda x: x.upper())
                log.append(('add_entries on source',))
        except Exception as ex:  # noqa
            log.append((op, 'raised %s' % type(ex).__name__))


def wordlist_clause(chk):
    from lingpy import Wordlist, LexStat, Alignments
    from lingpy.basic.parser import QLCParser
    rng = chk.rng
    drv = common.Driver()
    fails = []
    ident = {'dict': set(), 'wordlist': set()}
    model_bad = []
    n = chk.n(1000, 20000)
    for it in range(n):
        d = wlgen.gen_wordlist(rng, with_tokens=False)
        klass = rng.choice([Wordlist, Wordlist, LexStat, Alignments])
        if klass is Alignments and rng.random() < 0.5:
            # the caller already has alignments: list cells of one length per cognate set, also with a column that holds only gaps
            # (e.g. after rows of a larger alignment were removed) - nested cells belong to the caller as much as the rows do
            hi = d[0].index('ipa')
            gi = d[0].index('cogid')
            d[0] = d[0] + ['tokens', 'alignment']
            sets = {}
            for k in sorted(k for k in d if k != 0):
                sets.setdefault(d[k][gi], []).append(k)
            for g, ks in sets.items():
                width = max(len(d[k][hi]) for k in ks)
                col = rng.randrange(width + 1)
                for k in ks:
                    toks = list(d[k][hi])
                    alm = toks + ['-'] * (width - len(toks))
                    if rng.random() < 0.8 or len(ks) > 1:
                        alm = alm[:col] + ['-'] + alm[col:]
                    d[k] = d[k] + [toks, alm]
        if 'tokens' not in d[0] and rng.random() < 0.35:
            # the caller supplies the segmented words: nested lists, now and then with a segment in source/target notation
            from lingpy.sequence.sound_classes import ipa2tokens
            hi = d[0].index('ipa')
            d[0] = d[0] + ['tokens']
            for k in sorted(k for k in d if k != 0):
                toks = ipa2tokens(d[k][hi])
                if len(toks) >= 2 and rng.random() < 0.4:
                    j = rng.randrange(len(toks))
                    toks[j] = rng.choice(['h₂', '?', 'X']) + '/' + toks[j]
                d[k] = d[k] + [toks]
            chk.hist['source with a tokens column (nested lists)'] += 1
        if rng.random() < 0.3 and 'cogids' not in d[0]:
            # partial / fuzzy cognate coding: a list of ids per word (nested cells of the caller), loans with a negative id
            gi = d[0].index('cogid')
            d[0] = d[0] + ['cogids']
            for k in sorted(k for k in d if k != 0):
                ids_ = [d[k][gi] * 10 + 1] + ([d[k][gi] * 10 + 2] if rng.random() < 0.4 else [])
                if rng.random() < 0.4:
                    ids_[-1] = -ids_[-1]
                d[k] = d[k] + [ids_]
            chk.hist['source with a list-valued cognate column (negative ids)'] += 1
        if rng.random() < 0.4 and 'alignment' not in d[0]:
            # the header as callers write it: upper case, aliases of the namespace - it belongs to the caller just like the rows
            spell = {'doculect': ['DOCULECT', 'language', 'taxa', 'Taxon'], 'concept': ['CONCEPT', 'gloss', 'Concept'], 'ipa': ['IPA', 'Ipa'],
                     'cogid': ['COGID', 'CogID']}
            d[0] = [rng.choice(spell[h] + [h]) if h in spell else h for h in d[0]]
        kind = rng.choice(['dict', 'wordlist'])
        log = []
        try:
            if kind == 'dict':
                before = deep_rows(d)
                new = klass(d, **({'ref': 'cogid'} if klass is Alignments else {}))
                # identification: does the constructor copy the caller's row lists?
                copies = all(new._data[k] is not d[k] for k in new._data)
                ident['dict'].add(copies)
                src_obj = None
            else:
                src = Wordlist(copy.deepcopy(d))
                before_rows, before_hdr = obj_rows(src)
                new = klass(src, **({'ref': 'cogid'} if klass is Alignments else {}))
                copies = all(new._data[k] is not src._data[k] for k in new._data)
                ident['wordlist'].add(copies)
                src_obj = src
        except Exception as ex:  # noqa
            chk.hist['constructor-raised:%s' % type(ex).__name__] += 1
            continue
        nops = rng.randrange(0, 5)
        if kind == 'wordlist':
            snap_new = None
        run_ops(chk, rng, new, src_obj if kind == 'wordlist' and rng.random() < 0.3 else None, nops, log)
        chk.count((kind, klass.__name__, tuple(map(str, log)), tuple(sorted(d))), len(log) > 0,
                  branch=['source:' + kind, 'class:' + klass.__name__])
        ops_on_src = any(l[0] == 'add_entries on source' for l in log)
        e = None
        if kind == 'dict':
            after = deep_rows(d)
            if after != before:
                k = [k for k in before if before[k] != after.get(k)][0]
                e = 'caller\'s dictionary changed: row %r was %r, is now %r' % (k, before[k], after.get(k))
            else:
                # a second construction from the same dictionary must still work
                try:
                    klass(d, **({'ref': 'cogid'} if klass is Alignments else {}))
                except Exception as ex:  # noqa
                    e = 'second construction from the same dictionary raised %s: %s' % (type(ex).__name__, str(ex)[:80])
        else:
            after_rows, after_hdr = obj_rows(src)
            if not ops_on_src and (after_rows != before_rows or after_hdr != before_hdr):
                e = 'source wordlist changed (rows or header)'
            if ops_on_src:
                # converse: columns added to the source must not appear in the new object
                if any(c.startswith('s') and c[1:].isdigit() for c in new.header):
                    e = 'column added to the source appears in the new object'
                if any(len(r) != len(new.header) for r in new._data.values()):
                    e = 'rows of the new object changed length after an operation on the source'
        # model prediction (frame theorem): with copying constructors nothing changes
        ops_enc = ' '.join('a' if l[0] in ('add_entries', 'cluster', 'align', 'renumber') else 's' for l in log if len(l) and 'raised' not in str(l[-1]))
        out = drv.ask('frame|%d|%d|%s' % (int(copies), min(len(d) - 1, 4), ops_enc))
        predicted_changed = out.strip() == 'changed'
        really_changed = (e is not None and 'changed' in e and kind == 'dict') or (e is not None and kind == 'wordlist' and 'source wordlist changed' in e)
        if predicted_changed != really_changed and kind == 'dict' and not any('assign' == l[0] for l in log):
            model_bad.append((kind, log, copies, out, e))
        if e:
            fails.append((kind, klass.__name__, d, log, e))
    drv.close()
    chk.extra['identified'] = {'copiesDictRows': sorted(ident['dict']), 'copiesWlRows': sorted(ident['wordlist'])}
    ok_ident = ident['dict'] <= {True} and ident['wordlist'] <= {True}
    chk.obligation('identification: constructors copy the caller\'s row lists (hypothesis of C19_frame)', 'correspondence',
                   ok_ident, json.dumps(chk.extra['identified']))
    chk.obligation('correspondence:heap model predicts changed/unchanged source', 'correspondence', not model_bad,
                   'cases=%d mismatches=%d' % (n, len(model_bad)))
    chk.obligation('oracle:source unchanged / no interference', 'correspondence', not fails, 'failures=%d' % len(fails))
    fails.sort(key=lambda f: (len(f[2]), len(f[3])))
    for f in fails[:2]:
        key = 'dict-rows-aliased' if f[0] == 'dict' else None
        chk.violation('%s(%s) then %r: %s' % (f[1], f[0], f[3], f[4]),
                      {'kind': 'wordlist', 'source': f[0], 'class': f[1], 'dict': {str(k): v for k, v in f[2].items()},
                       'ops': f[3], 'why': f[4]}, key=key)
    if (not ok_ident or model_bad) and not fails:
        chk.violation('constructor shares row lists with its source, but no operation sequence changed the source',
                      {'kind': 'wordlist', 'identified': chk.extra['identified'], 'broken': 'identification'}, found_input=False)


def matrix_clause(chk):
    rng = chk.rng
    fails = []
    n = chk.n(1800, 32000)
    taxa_all = ['T%d' % i for i in range(20)]
    for it in range(n):
        m, t = cl.gen_matrix(rng, maxn=7, exact=False)
        if len(m) < 3:
            continue
        k = len(m)
        if rng.random() < 0.15:
            # distances derived as 1 - similarity: small non-zero self-distances on the diagonal
            m = [list(r) for r in m]
            for i_ in rng.sample(range(k), rng.randrange(1, k + 1)):
                m[i_][i_] = rng.choice([0.02, 1e-9, 0.1])
            chk.hist['matrix with non-zero self-distances'] += 1
        taxa = taxa_all[:k]
        fn = rng.choice(['flat:single', 'flat:complete', 'flat:upgma', 'flat:ward', 'flat_upgma', 'upgma', 'neighbor',
                         'fuzzy', 'matrix2tree', 'matrix2groups', 'mcl', 'link_clustering', '_cluster.flat', 'find_threshold',
                         'partition_density'])
        before = copy.deepcopy(m)
        as_array = rng.random() < 0.4
        if as_array:
            # callers also pass numpy arrays (squareform output, LexStat matrices): they must be left alone just as lists are
            m = np.array(m, dtype=float)

        def call():
            if fn.startswith('flat:'):
                return clustering.flat_cluster(fn[5:], t, m, taxa if rng.random() < 0.5 else None)
            if fn == 'flat_upgma':
                return clustering.flat_upgma(t, m)
            if fn == 'upgma':
                return clustering.upgma(m, taxa)
            if fn == 'neighbor':
                return clustering.neighbor(m, taxa)
            if fn == 'fuzzy':
                return clustering.fuzzy(t, m, taxa)
            if fn == 'matrix2tree':
                return str(clustering.matrix2tree(m, taxa, rng.choice(['upgma', 'neighbor'])))
            if fn == 'matrix2groups':
                return clustering.matrix2groups(t, m, taxa)
            if fn == 'mcl':
                return clustering.mcl(t, m, taxa)
            if fn == 'link_clustering':
                return clustering.link_clustering(t, m, taxa)
            if fn == '_cluster.flat':
                return _cluster.flat_cluster('upgma', t, m, [], True)
            if fn == 'find_threshold':
                return clustering.find_threshold(m)
            if fn == 'partition_density':
                return clustering.partition_density(m, t)
        st = rng.getstate()
        try:
            r1 = call()
        except Exception as ex:  # noqa
            chk.hist['matrix-fn-raised:%s:%s' % (fn, type(ex).__name__)] += 1
            r1 = ('raised', type(ex).__name__)
        chk.count((fn, as_array, tuple(map(tuple, before)), t), True, branch=['matrix:' + fn, 'matrix-as-numpy-array:%s' % as_array])
        if (m.tolist() if as_array else m) != before:
            fails.append((fn + (' (numpy array)' if as_array else ''), before, t, 'matrix changed in place: %r -> %r' % (before[0], list(m[0]))))
            continue
        rng.setstate(st)
        try:
            r2 = call()
        except Exception as ex:  # noqa
            r2 = ('raised', type(ex).__name__)
        if repr(r1) != repr(r2) and fn not in ('fuzzy',):
            fails.append((fn, before, t, 'second identical call gives another answer'))
    chk.obligation('oracle:matrix unchanged, repeated call gives the same answer', 'correspondence', not fails,
                   'calls=%d failures=%d' % (n, len(fails)))
    for f in sorted(fails, key=lambda f: len(f[1]))[:2]:
        chk.violation('%s: %s' % (f[0], f[3]), {'kind': 'matrix', 'fn': f[0], 'matrix': f[1], 'threshold': f[2], 'why': f[3]},
                      key='ward-squares-in-place' if f[0].startswith('flat:ward') else None)


def run(chk):
    chk.rule = ('generated wordlist dictionaries (1-5 languages, 1-6 concepts, synonyms, gaps, non-contiguous ids) -> '
                'Wordlist/LexStat/Alignments built from the dict or from another wordlist, followed by 0-4 random operations '
                '(add_entries, cell assignment, cluster, align, renumber; some on the source); matrices x 15 clustering / tree functions; '
                'non-trivial = at least one operation after construction; distinct by (source kind, class, operation log, ids)')
    chk.lean_obligations()
    wordlist_clause(chk)
    matrix_clause(chk)


def replay(chk, path):
    d = json.load(open(path))['replay']
    print(json.dumps(d, indent=1, default=str)[:3000])
    return 0
