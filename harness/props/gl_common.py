"""Shared check logic for C07 (scenario replays to its pattern) and C08 (weighted scenario has minimum weight)."""
import itertools
import json

import common
import gllib as gl

WEIGHTS = [(1, 1), (1, 2), (3, 1), (2, 1), (1, 3), (1, 4), (2, 5), (3, 5), (5, 2)]


def stream(chk):
    rng = chk.rng
    out = []
    nmax = chk.n(4, 5)
    for n in range(2, nmax + 1):
        shapes = gl.all_nested(n)
        for t in shapes:
            for pat in itertools.product([1, 0, -1], repeat=n):
                if 1 not in pat:
                    continue
                if not chk.thorough and n == 4 and rng.random() > 0.12:
                    continue
                out.append((t, list(pat), rng.choice(WEIGHTS), rng.choice([1, 2, 99]), rng.random() < 0.5, rng.choice([0, -1]), 'exhaustive'))
    for _ in range(chk.n(2500, 120000)):
        k = rng.choice([3, 4, 5, 6, 7, 8, 9, chk.n(10, 14)])
        t = gl.rand_nested(rng, k)
        if rng.random() < 0.2:
            t = gl.with_support(rng, t)      # inner nodes labelled with support values, labels may repeat
        pool = rng.choice([[1, 0], [1, 0, -1], [1, 1, 0, -1, -1], [1, 0, 0, 0, -1]])
        pat = [rng.choice(pool) for _ in range(k)]
        if 1 not in pat:
            pat[rng.randrange(k)] = 1
        out.append((t, pat, rng.choice(WEIGHTS), rng.choice([1, 2, 3, 99]), rng.random() < 0.5, rng.choice([0, -1]), 'random'))
    # strongly asymmetric weights with a limit that cannot bind: a state may be dropped at a node only when it is dominated for BOTH
    # states of the parent, which only shows when gain and loss weight differ by more than one unit
    for _ in range(chk.n(5000, 160000)):
        k = rng.choice([5, 6, 7, 8, 9, 10])
        t = gl.rand_nested(rng, k)
        if rng.random() < 0.2:
            t = gl.with_support(rng, t)      # inner nodes labelled with support values, labels may repeat
        pool = rng.choice([[1, 0], [1, 0, 0], [1, 1, 0], [1, 0, -1]])
        pat = [rng.choice(pool) for _ in range(k)]
        if 1 not in pat:
            pat[rng.randrange(k)] = 1
        out.append((t, pat, rng.choice([(1, 3), (1, 4), (1, 5), (2, 5), (3, 5), (5, 1), (4, 1), (5, 2), (3, 1)]), 99, rng.random() < 0.5,
                    rng.choice([0, -1]), 'asymmetric-weights'))
    # wide and shallow trees (a few leaves and one to three large multifurcations under the root) with a limit of at least the number of
    # leaves: the number of re-gains below a node that keeps the character may exceed the height of the tree by far
    for _ in range(chk.n(1500, 40000)):
        k = rng.choice([10, 12, 14, 15, 16, 18])
        ids = list(range(k))
        rng.shuffle(ids)
        top = rng.randrange(1, 5)
        t = ids[:top]
        rest = ids[top:]
        nstar = rng.choice([1, 2, 3])
        cuts = sorted(rng.sample(range(1, len(rest)), nstar - 1)) if nstar > 1 else []
        for a_, b_ in zip([0] + cuts, cuts + [len(rest)]):
            part = rest[a_:b_]
            t.append(list(part) if len(part) > 1 else part[0])
        pool = rng.choice([[1, 0], [1, 1, 0], [1, 0, 0]])
        pat = [rng.choice(pool) for _ in range(k)]
        if 1 not in pat:
            pat[rng.randrange(k)] = 1
        out.append((t, pat, rng.choice([(1, 1), (2, 1), (1, 2), (3, 2), (1, 1)]), rng.choice([99, k, k + 2]), rng.random() < 0.5,
                    rng.choice([0, -1]), 'wide-shallow'))
    # clades whose leaves are all missing (the undetermined state must stay undetermined)
    for _ in range(chk.n(1200, 40000)):
        k = rng.choice([4, 5, 6, 7, 8, 9])
        t = gl.rand_nested(rng, k)
        if rng.random() < 0.2:
            t = gl.with_support(rng, t)      # inner nodes labelled with support values, labels may repeat
        pat = [rng.choice([1, 0, 0, 1, -1]) for _ in range(k)]

        def leaves(x):
            return [x] if not isinstance(x, list) else [l for c in x for l in leaves(c)]

        def internal(x, acc):
            if isinstance(x, list):
                acc.append(x)
                for c in x:
                    internal(c, acc)
            return acc
        inner = [x for x in internal(t, []) if x is not t]
        if inner:
            for l in leaves(rng.choice(inner)):
                pat[l] = -1
        if 1 not in pat:
            cand = [i for i in range(k) if pat[i] != -1] or list(range(k))
            pat[rng.choice(cand)] = 1
        out.append((t, pat, rng.choice(WEIGHTS), 99, rng.random() < 0.5, -1, 'missing-clade'))
    return out


def prepare(t, pat):
    tree = gl.Tree(gl.newick(t) + ';')
    taxa = tree.getTipNames()
    paps = [pat[int(x[1:])] for x in taxa]
    return tree, taxa, paps


def model_line(tree, taxa, paps, w, gpl, push, md, fixed):
    names, toks = gl.structure(tree)
    return names, 'gls|%d %d %d %d %d %d|%s|%s' % (w[0], w[1], gpl, int(push), int(fixed), md, ' '.join(toks),
                                                  ' '.join('%d:%d' % (names[x], p) for x, p in zip(taxa, paps)))


def parse_model(out, names):
    inv = {v: k for k, v in names.items()}
    if not out.startswith('S '):
        return None, []
    a, b = out[2:].split(' | ')

    def st(s):
        return [(inv[int(x.split(':')[0])], int(x.split(':')[1])) for x in s.split(',') if x]
    return st(a), [st(c) for c in b.split(';')]


def own_lca(tree, names):
    """lowest node whose leaves include all of `names` (the harness's own search over node objects, not the library's)"""
    node = tree
    while True:
        nxt = [c for c in node.Children if names <= set(c.getTipNames())]
        if not nxt:
            return node
        node = nxt[0]


def has_all_missing_clade(tree, taxa, paps):
    pat = dict(zip(taxa, paps))

    def go(n):
        if n.isTip():
            return pat[n.Name] == -1
        r = [go(c) for c in n.Children]
        if all(r):
            found.append(n.Name)
        return all(r)
    found = []
    go(tree)
    return bool(found)


def run_get_gls(chk, want):
    """want in {'replay' (C07), 'optimal' (C08)}"""
    drv = common.Driver()
    cases = stream(chk)
    prepared = []
    for t, pat, w, gpl, push, md, sname in cases:
        tree, taxa, paps = prepare(t, pat)
        prepared.append((tree, taxa, paps, w, gpl, push, md, sname, t))
    ident = None
    reals = []
    for tree, taxa, paps, w, gpl, push, md, sname, t in prepared:
        try:
            reals.append(gl.call_real(tree, taxa, paps, gpl, w, push, md))
        except Exception as ex:  # noqa
            reals.append(('ERR', type(ex).__name__, str(ex)[:80]))
    res = {}
    # C07 ties the scenario itself (membership in the model's candidate set, shipped or repaired order of the case split);
    # C08 ties only what it speaks about - the weight - to the member of the family its theorem covers (repaired order)
    for fixed in ((0, 1) if want == 'replay' else (1,)):
        lines, nms = [], []
        for tree, taxa, paps, w, gpl, push, md, sname, t in prepared:
            names, line = model_line(tree, taxa, paps, w, gpl, push, md, fixed)
            lines.append(line)
            nms.append(names)
        outs = drv.ask_many(lines)
        exact_bad, member_bad = [], []
        for i, o in enumerate(outs):
            m, cands = parse_model(o, nms[i])
            r = reals[i]
            if r and r[0] == 'ERR':
                exact_bad.append(i)
                member_bad.append(i)
                continue
            if m != list(r):
                exact_bad.append(i)
            if want == 'replay':
                if set(r) not in [set(c) for c in cands]:
                    member_bad.append(i)
            elif gl.weight(r, prepared[i][3]) != gl.weight(m, prepared[i][3]) or (len(m) == 1) != (len(r) == 1):
                member_bad.append(i)
        res[fixed] = (exact_bad, member_bad)
        if not member_bad:
            ident = fixed
            break
    drv.close()
    chk.extra['identified_allMissingFirst'] = ident
    fails = []
    for i, (tree, taxa, paps, w, gpl, push, md, sname, t) in enumerate(prepared):
        r = reals[i]
        nontrivial = 0 in paps and paps.count(1) >= 2
        chk.count((gl.newick(t), tuple(paps), w, gpl, push, md), nontrivial, branch=['stream:' + sname, 'md:%d' % md, 'gpl:%s' % ('inf' if gpl == 99 else gpl)])
        if r and r[0] == 'ERR':
            fails.append((i, 'get_gls raised %s: %s' % (r[1], r[2]), None))
            continue
        if want == 'replay':
            e = gl.oracle_c07(tree, taxa, paps, r, md)
            if e:
                fails.append((i, e, None))
        else:
            ow = gl.opt_weight(tree, taxa, paps, w, md)
            if len(taxa) <= 7 and i % 5 == 0 and gl.brute_opt(tree, taxa, paps, w, md) != ow:
                raise RuntimeError('oracle inconsistency (DP vs enumeration)')
            wr = gl.weight(r, w)
            key = 'all-missing-clade-md-1' if (md == -1 and has_all_missing_clade(tree, taxa, paps)) else None
            if gpl >= len(taxa) and wr != ow:
                fails.append((i, 'weight %d of the returned scenario %r is not the minimum %d' % (wr, r, ow), key))
            elif wr < ow:
                fails.append((i, 'weight %d below the enumeration minimum %d (scenario cannot be consistent)' % (wr, ow), None))
            pat = dict(zip(taxa, paps))
            sub = own_lca(tree, set(x for x in taxa if pat[x] == 1)) if paps.count(1) > 1 else None
            if sub is not None and all(pat[x] == 1 for x in sub.getTipNames()) and list(r) != [(sub.Name, 1)]:
                fails.append((i, 'all leaves under the common ancestor are present but the scenario is %r' % (r,), None))
    exact_bad, member_bad = res[ident] if ident is not None else res[min(res)]
    chk.obligation(('correspondence:get_gls scenario is one of the model\'s minimum-weight root candidates (membership; family member allMissingFirst=%r)' % ident)
                   if want == 'replay' else 'correspondence:weight of the get_gls scenario == weight of the model\'s scenario (family member allMissingFirst=True)',
                   'correspondence', ident is not None, 'cases=%d membership-mismatches=%d exact-order-mismatches=%d' % (len(cases), len(member_bad), len(exact_bad)))
    if exact_bad and ident is not None:
        chk.notes.append('candidate order differs from the model in %d cases (absorbed by the membership relation)' % len(exact_bad))
    chk.obligation('oracle:%s on every real result' % ('replay reproduces the pattern' if want == 'replay' else 'weight equals the enumeration optimum'),
                   'correspondence', not [f for f in fails if f[2] is None or not any(k['key'] == f[2] for k in chk.known)],
                   'failures=%d' % len(fails))
    fails.sort(key=lambda f: len(prepared[f[0]][1]))
    seen_keys = set()
    nrep = 0
    for i, e, key in fails:
        if key in seen_keys:
            continue
        if key is not None:
            seen_keys.add(key)
        elif nrep >= 2:
            continue
        else:
            nrep += 1
        tree, taxa, paps, w, gpl, push, md, sname, t = prepared[i]
        chk.violation('get_gls(%s, %r, weights=%r, gpl=%d, push_gains=%r, missing_data=%d): %s' % (gl.newick(t), paps, w, gpl, push, md, e),
                      {'kind': 'get_gls', 'tree': gl.newick(t) + ';', 'taxa': taxa, 'paps': paps, 'weights': w, 'gpl': gpl,
                       'push_gains': push, 'missing_data': md, 'real': reals[i], 'why': e}, key=key)
    if ident is None and not fails:
        i = res[min(res)][1][0]
        tree, taxa, paps, w, gpl, push, md, sname, t = prepared[i]
        chk.violation(('get_gls returns a scenario outside the model\'s candidate set' if want == 'replay' else
                       'the weight of the get_gls scenario differs from the model\'s') + '; oracle found no failing input',
                      {'kind': 'get_gls', 'tree': gl.newick(t) + ';', 'taxa': taxa, 'paps': paps, 'weights': w, 'gpl': gpl,
                       'push_gains': push, 'missing_data': md, 'real': reals[i], 'broken': 'correspondence:get_gls membership'},
                      found_input=False)
    chk.sample({'tree': gl.newick(prepared[-1][8]), 'paps': prepared[-1][2], 'scenario': reals[-1]}, limit=2)


def phybo_stub(tree, taxa):
    from lingpy.compare.phylogeny import PhyBo
    p = PhyBo.__new__(PhyBo)
    p.tree = tree
    p.taxa = list(taxa)
    return p


def run_phybo_modes(chk):
    """restriction / weighted variants of PhyBo._get_GLS and the top-down mode, on a stub object (tree + taxa only)"""
    rng = chk.rng
    fails = []
    member_lines, member_meta = [], []
    n = chk.n(2000, 80000)
    # corpus: inputs of recorded findings run first (a listed finding that still reproduces prints KNOWN-FINDING)
    corpus = [([2, [4, [5, 0], 3, 1]], {2: -1, 4: 1, 5: -1, 0: -1, 3: 1, 1: 0}, -1, 'topdown', 2),
              ([[3, 7], [[6, 0], 2], [[5, 1], 4]], {3: 0, 7: 1, 6: 0, 0: 0, 2: 1, 5: 0, 1: -1, 4: -1}, -1, 'topdown', 2),
              ([[2, 1], 0], {2: 0, 1: 1, 0: 1}, 0, 'topdown', 1)]
    held = None
    for it in range(n + len(corpus)):
        forced = None
        if it < len(corpus):
            t, pd, md, mode, forced = corpus[it]
            pat = [pd[i] for i in range(len(pd))]
            k = len(pat)
        else:
            k = rng.choice([3, 4, 5, 6, 7, 8, 9])
            t = gl.rand_nested(rng, k)
            if rng.random() < 0.2:
                t = gl.with_support(rng, t)      # inner nodes labelled with support values, labels may repeat
            pool = rng.choice([[1, 0], [1, 0, -1], [1, 1, 0, -1]])
            pat = [rng.choice(pool) for _ in range(k)]
            if pat.count(1) < 2:
                for j in rng.sample(range(k), 2):
                    pat[j] = 1
            md = rng.choice([0, -1])
            mode = rng.choice(['restriction', 'weighted-internal', 'topdown'])
        if it >= len(corpus) and held is not None and len(held[3]) < 6 and rng.random() < 0.5:
            # a history on one tree object: the routines mark nodes of the tree while they run (lowestCommonAncestor), so what a call
            # returns can depend on the calls made before; the statement is about every call
            t, tree, taxa, before = held
            k = len(taxa)
            pat = [rng.choice(pool) for _ in range(k)]
            if pat.count(1) < 2:
                for j in rng.sample(range(k), 2):
                    pat[j] = 1
            paps = [pat[int(x[1:])] for x in taxa]
            chk.hist['PhyBo: call on a tree used before'] += 1
        else:
            tree, taxa, paps = prepare(t, pat)
            before = []
            held = (t, tree, taxa, before) if it >= len(corpus) else None
        p = phybo_stub(tree, taxa)
        history = list(before)
        try:
            if mode == 'restriction':
                r = rng.choice([1, 2, 3, 4])
                sc = p._get_GLS(list(paps), mode='r', r=r, gpl=rng.choice([1, 2]), push_gains=rng.random() < 0.5, missing_data=md)
                arg = r
            elif mode == 'weighted-internal':
                w = rng.choice(WEIGHTS)
                sc = p._get_GLS(list(paps), mode='w', r=w, gpl=rng.choice([1, 2]), push_gains=rng.random() < 0.5, missing_data=md)
                arg = w
            else:
                r = forced or rng.choice([1, 2, 3, 4])
                sc = p._get_GLS_top_down(list(paps), mode=r, missing_data=md)
                arg = r
        except (ValueError, KeyError) as ex:
            if mode == 'restriction':
                # the restriction admits no scenario at all for this pattern: documented rejection, not a scenario
                chk.hist['rejected:restriction-admits-no-scenario'] += 1
                continue
            fails.append((mode, t, paps, md, 'raised %s: %s' % (type(ex).__name__, str(ex)[:80]), None, None))
            continue
        except Exception as ex:  # noqa
            fails.append((mode, t, paps, md, 'raised %s: %s' % (type(ex).__name__, str(ex)[:80]), None, None))
            continue
        before.append({'mode': mode, 'paps': list(paps), 'missing_data': md, 'arg': arg})
        chk.count(('phybo', mode, gl.newick(t), tuple(paps), md, arg), 0 in paps, branch='PhyBo:' + mode)
        if mode in ('restriction', 'weighted-internal') and len(taxa) <= 8 and not history:
            # tie for theorem C07_restriction: the scenario must be one of the model's root scenarios (all candidates the
            # bottom-up combination can build, before any filtering)
            names, toks = gl.structure(tree)
            member_lines.append('glsr|%d|%s|%s' % (md, ' '.join(toks), ' '.join('%d:%d' % (names[x], q) for x, q in zip(taxa, paps))))
            member_meta.append((mode, t, list(paps), md, arg, list(sc), names))
        e = gl.oracle_c07(tree, taxa, paps, sc, md)
        if e:
            key = 'topdown-md-1-conflicting-events' if (mode == 'topdown' and md == -1 and -1 in paps and 'a gain and a loss' in e) else None
            fails.append((mode, t, paps, md, e, key, (arg, sc), history))
    drv = common.Driver()
    outs = drv.ask_many(member_lines)
    drv.close()
    member_bad = []
    for o, (mode, t, paps, md, arg, sc, names) in zip(outs, member_meta):
        inv = {v: k for k, v in names.items()}
        cands = []
        if o.startswith('R '):
            for c in o[2:].split(';'):
                cands.append(set((inv[int(x.split(':')[0])], int(x.split(':')[1])) for x in c.split(',') if x))
        if set(map(tuple, sc)) not in cands:
            member_bad.append((mode, t, paps, md, arg, sc))
    chk.obligation('correspondence:PhyBo._get_GLS (restriction, weighted) scenario is one of the model\'s root scenarios (membership in glsRCandidates; theorem C07_restriction)',
                   'correspondence', not member_bad, 'calls=%d (trees with <= 8 leaves) mismatches=%d %s' % (len(member_lines), len(member_bad), str(member_bad[0])[:200] if member_bad else ''))
    chk.obligation('oracle:PhyBo._get_GLS (restriction, weighted) and _get_GLS_top_down replay to the pattern', 'correspondence',
                   not [f for f in fails if f[5] is None or not any(k['key'] == f[5] for k in chk.known)], 'calls=%d failures=%d' % (n, len(fails)))
    fails.sort(key=lambda f: len(f[2]))
    seen = set()
    nrep = 0
    for f in fails:
        if f[5] in seen:
            continue
        if f[5] is not None:
            seen.add(f[5])
        elif nrep >= 2:
            continue
        else:
            nrep += 1
        chk.violation('PhyBo %s mode (%r) on %s %r missing_data=%d: %s' % (f[0], f[6][0] if f[6] else None, gl.newick(f[1]), f[2], f[3], f[4]),
                      {'kind': 'phybo', 'mode': f[0], 'tree': gl.newick(f[1]) + ';', 'paps': f[2], 'missing_data': f[3], 'arg_scenario': f[6], 'why': f[4],
                       'calls_made_before_on_the_same_tree_object': f[7] if len(f) > 7 else []},
                      key=f[5])
    if member_bad and not [f for f in fails if f[5] is None]:
        b = member_bad[0]
        chk.violation('PhyBo %s mode returns a scenario outside the model\'s candidate set; the replay oracle found no failing input' % b[0],
                      {'kind': 'phybo-model', 'mode': b[0], 'tree': gl.newick(b[1]) + ';', 'paps': b[2], 'missing_data': b[3], 'arg': b[4], 'scenario': b[5],
                       'broken': 'correspondence:PhyBo._get_GLS membership'}, found_input=False)


def run_phybo_wordlist(chk, want='C07'):
    """the wordlist-driven entry point: a real PhyBo object (word list file + reference tree), get_GLS in its three modes.  Every stored
    scenario must replay to the pattern stored for ITS cognate set, and the wrapper must add nothing to the stand-alone routines (same
    scenario as the routine returns when called on that pattern, number of origins = number of gain events)"""
    import logging
    import os
    import tempfile
    from lingpy.compare.phylogeny import PhyBo
    rng = chk.rng
    fails, diffs = [], []
    ncogs = 0
    logging.disable(logging.CRITICAL)
    try:
        for it in range(chk.n(10, 120)):
            k = rng.choice([4, 5, 6, 7])
            t = gl.rand_nested(rng, k)
            if rng.random() < 0.2:
                t = gl.with_support(rng, t)      # inner nodes labelled with support values, labels may repeat
            taxa = ['L%d' % i for i in range(k)]
            rows, cid = [], 0
            parts = []
            for ci in range(rng.choice([3, 4, 5, 6])):
                if parts and rng.random() < 0.5:
                    # same partition as an earlier concept, but one doculect which had a different word there has none here (or the
                    # other way round): two cognate sets with the same reflexes that differ only in absent vs. missing
                    part = dict(rng.choice(parts))
                    x = rng.choice(taxa)
                    if x in part and list(part.values()).count(part[x]) == 1 and len(part) > 2:
                        del part[x]
                    elif x not in part:
                        part[x] = max(part.values()) + 1
                else:
                    have = [x for x in taxa if rng.random() < 0.8]
                    if len(have) < 2:
                        have = rng.sample(taxa, 2)
                    ncl = rng.choice([1, 2, 2, 3])
                    part = {x: rng.randrange(ncl) for x in have}
                parts.append(part)
                base = cid
                for x, c in sorted(part.items()):
                    rows.append(('c%d' % ci, x, 'w%d' % (base + c + 1), base + c + 1))
                cid = base + max(part.values()) + 1
            with tempfile.TemporaryDirectory(dir='/var/tmp', prefix='verif-phybo-') as tmp:
                infile = os.path.join(tmp, 'gl.qlc')
                if rng.random() < 0.5:
                    rng.shuffle(rows)             # rows language by language or mixed, not concept by concept
                with open(infile, 'w') as f:
                    f.write('ID\tDOCULECT\tCONCEPT\tIPA\tCOGID\n')
                    for i, r in enumerate(rows, 1):
                        f.write('%d\t%s\t%s\t%s\t%d\n' % (i, r[1], r[0], r[2], r[3]))
                for md in (0, -1):
                    for mode in (('weighted', 'restriction', 'topdown') if want == 'C07' else ('weighted', 'weighted')):
                        try:
                            phy = PhyBo(infile, tree=gl.newick(t) + ';', output_dir=tmp)
                        except Exception as ex:  # noqa
                            fails.append((mode, t, rows, md, 'PhyBo() raised %s: %s' % (type(ex).__name__, str(ex)[:80]), None, None))
                            continue
                        ptaxa = list(phy.taxa)
                        pats = {cog: list(phy.paps[cog]) for cog in phy.cogs}
                        if not pats:
                            # only singleton sets: there is no pattern to explain (get_GLS then fails in its statistics with a division
                            # by zero - no scenario is involved, not this property's matter)
                            chk.hist['rejected:no cognate set with two reflexes'] += 1
                            continue
                        w, r = rng.choice(WEIGHTS), rng.choice([2, 3, 4])
                        gpl, push = rng.choice([1, 2]), rng.random() < 0.5
                        if want == 'C08':
                            gpl = k + rng.choice([0, 1, 90])          # the limit on gains per lineage does not bind: the minimum is over all scenarios
                        kw = dict(ratio=w, gpl=gpl, push_gains=push) if mode == 'weighted' else dict(restriction=r, gpl=gpl, push_gains=push)
                        try:
                            phy.get_GLS(mode=mode, force=True, missing_data=md, **kw)
                        except (ValueError, KeyError):
                            chk.hist['rejected:get_GLS-%s' % mode] += 1
                            continue
                        except Exception as ex:  # noqa
                            fails.append((mode, t, rows, md, 'get_GLS raised %s: %s' % (type(ex).__name__, str(ex)[:80]), None, None))
                            continue
                        for glm in phy.gls:
                            for cog in phy.cogs:
                                sc, noo = phy.gls[glm][cog]
                                ncogs += 1
                                chk.count(('phybo-wl', mode, gl.newick(t), tuple(pats[cog]), md, str(kw)), -1 in pats[cog], branch='PhyBo.get_GLS:' + mode)
                                if list(phy.paps[cog]) != pats[cog]:
                                    # restriction and top-down mode recode missing entries of the stored pattern in place when
                                    # missing_data=0; the property is stated against the pattern as it was when the call was made
                                    chk.hist['note:get_GLS(%s, missing_data=%d) recoded the stored pattern in place' % (mode, md)] += 1
                                e = gl.oracle_c07(phy.tree, ptaxa, pats[cog], sc, md)
                                if not e:
                                    # ... and to the states observed in the ROWS of the word list: a doculect with a word in the set is
                                    # present, one with another word for the set's concept absent, one without a word for it missing
                                    cid = int(str(cog).split(':')[0])
                                    conc = [r[0] for r in rows if r[3] == cid][0]
                                    own = [1 if any(r[1] == x and r[3] == cid for r in rows) else (0 if any(r[1] == x and r[0] == conc for r in rows) else -1)
                                           for x in ptaxa]
                                    e = gl.oracle_c07(phy.tree, ptaxa, own, sc, md)
                                    if e:
                                        e = 'against the states observed in the rows %r (the object codes the set as %r): %s' % (dict(zip(ptaxa, own)), pats[cog], e)
                                if not e and want == 'C08':
                                    # the weight of the stored scenario against the minimum for the states observed in the rows
                                    got_w = gl.weight(sc, w)
                                    extra = [n_.Name for n_ in phy.tree.tips() if n_.Name not in ptaxa]      # a doculect of the tree without any row
                                    best = gl.opt_weight(phy.tree, ptaxa + extra, own + [-1] * len(extra), w, md)
                                    if got_w != best:
                                        e = 'weight %r of the stored scenario is not the minimum %r for the states observed in the rows %r (weights %r)' % (got_w, best, dict(zip(ptaxa, own)), w)
                                if e:
                                    key = 'topdown-md-1-conflicting-events' if (mode == 'topdown' and md == -1 and -1 in pats[cog] and 'a gain and a loss' in e) else None
                                    fails.append((mode, t, rows, md, 'cognate set %s pattern %r scenario %r: %s' % (cog, dict(zip(ptaxa, pats[cog])), sc, e), key, (kw, cog)))
                                    continue
                                if noo != sum(1 for _, ev in sc if ev == 1):
                                    diffs.append((mode, cog, pats[cog], sc, 'number of origins %r' % (noo,)))
                                # (not for the top-down mode: its calls of lowestCommonAncestor on subtrees leave marks on the nodes
                                # above them, so the scenario it picks depends on the calls made before on the same tree - every one of
                                # them has to replay, which is what the property asks, but they need not be equal)
                                if sum(1 for q in pats[cog] if q == 1) > 1 and mode != 'topdown':
                                    try:
                                        if mode == 'weighted':
                                            alone = gl.call_real(phy.tree, ptaxa, pats[cog], gpl, w, push, md)
                                        else:
                                            alone = phy._get_GLS(list(pats[cog]), r=r, mode='r', gpl=gpl, push_gains=push, missing_data=md)
                                    except Exception:  # noqa
                                        alone = None
                                    if alone is not None and sorted(alone) != sorted(sc):
                                        diffs.append((mode, cog, pats[cog], sc, 'the routine called on this pattern returns %r' % (alone,)))
    finally:
        logging.disable(logging.NOTSET)
    chk.obligation(('oracle:every scenario stored by PhyBo.get_GLS(mode=weighted) (word list + tree, missing_data 0 and -1, non-binding gain limit) replays to the states observed '
                    'in the rows and has the minimum weight for them') if want == 'C08' else
                   'oracle:every scenario stored by PhyBo.get_GLS (word list + tree, three modes, missing_data 0 and -1) replays to the pattern of its cognate set',
                   'correspondence', not [f for f in fails if f[5] is None or not any(k['key'] == f[5] for k in chk.known)],
                   'cognate sets=%d failures=%d' % (ncogs, len(fails)))
    chk.obligation('correspondence:PhyBo.get_GLS stores what the routine returns for the pattern of each cognate set (number of origins = gains)',
                   'correspondence', not diffs, 'cognate sets=%d differences=%d %s' % (ncogs, len(diffs), str(diffs[0])[:200] if diffs else ''))
    seen, nrep = set(), 0
    for f in fails:
        if f[5] in seen:
            continue
        if f[5] is not None:
            seen.add(f[5])
        elif nrep >= 2:
            continue
        else:
            nrep += 1
        chk.violation('PhyBo.get_GLS mode %s missing_data=%d on %s: %s' % (f[0], f[3], gl.newick(f[1]), f[4]),
                      {'kind': 'phybo-wordlist', 'mode': f[0], 'tree': gl.newick(f[1]) + ';', 'rows (concept, doculect, form, cogid)': f[2], 'missing_data': f[3],
                       'arguments_cogset': f[6], 'why': f[4]}, key=f[5])
    if diffs and not [f for f in fails if f[5] is None]:
        d = diffs[0]
        chk.violation('PhyBo.get_GLS (%s) stores a scenario for cognate set %s that differs from the routine\'s (%s); the scenario replays to the pattern' % (d[0], d[1], d[4]),
                      {'kind': 'phybo-wordlist-tie', 'mode': d[0], 'cog': d[1], 'pattern': d[2], 'scenario': d[3], 'why': d[4],
                       'broken': 'correspondence:PhyBo.get_GLS wrapper'}, found_input=False)


def replay(chk, path):
    d = json.load(open(path))['replay']
    if d.get('kind') == 'get_gls':
        tree = gl.Tree(d['tree'])
        r = gl.call_real(tree, d['taxa'], d['paps'], d['gpl'], tuple(d['weights']), d['push_gains'], d['missing_data'])
        print('scenario:', r, 'weight', gl.weight(r, d['weights']), 'optimum', gl.opt_weight(tree, d['taxa'], d['paps'], d['weights'], d['missing_data']))
        print('replay oracle:', gl.oracle_c07(tree, d['taxa'], d['paps'], r, d['missing_data']) or 'passes')
        return 0
    print(json.dumps(d, indent=1, default=str)[:3000])
    return 0
