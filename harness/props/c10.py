"""C10 — raising the threshold only merges clusters and cognate sets, never splits."""
from props import cluster_common as cc


def run(chk):
    chk.rule = ('matrices as in C05 x threshold pairs t1 <= t2 (thresholds drawn from the matrix entries) x 3 linkages; '
                'non-trivial = the two thresholds give different numbers of clusters; cognate-set clause: LexStat.cluster at two '
                'thresholds on generated wordlists (see C06)')
    chk.lean_obligations()
    cc.threshold_pairs(chk)
    try:
        from props import lexstat_common as lc
    except ImportError:
        lc = None
    if lc is not None:
        lc.cognate_threshold_pairs(chk)


def replay(chk, path):
    return cc.replay(chk, path)
