"""C05 — flat clustering returns the partition its linkage rule defines."""
from props import cluster_common as cc


def run(chk):
    chk.rule = ('all symmetric matrices over {0,1,2}*12 for n<=3 (quick; +slice of n=4; thorough: all n<=4) x 7 thresholds '
                '+ random tie-rich matrices scaled by lcm(1..25) (averages exact in binary64, thresholds equal to entries) '
                '+ float matrices; x {single, complete, upgma}; every recursive call of the real helper recorded; '
                'non-trivial = result has more than one and fewer than n clusters; distinct by (linkage, matrix, threshold)')
    chk.lean_obligations()
    cc.correspondence(chk)
    cc.orientations(chk)
    cc.textbook_check(chk)


def replay(chk, path):
    return cc.replay(chk, path)
