#!/bin/bash
# harness/verify_seeded.sh <dir with patch.diff and demo.py> <check ids...>
# Confirms a seeded change: demonstration passes on the clean tree and fails with the change, the pinned suite still passes with the
# change, and runs the named quick checks against it.  /repo is reverted afterwards.  Never use `git stash` here (shared across worktrees).
d=$1; shift
test -z "$(git -C /repo status --short)" || { echo "/repo not clean"; exit 2; }
cd /repo
PYTHONPATH=/repo/src TQDM_DISABLE=1 timeout 900 /venv/bin/python "$d/demo.py" > /var/tmp/seeded-demo-clean.txt 2>&1 < /dev/null
echo "demo on clean tree: rc=$?"
git apply "$d/patch.diff" || { echo "patch does not apply"; exit 2; }
PYTHONPATH=/repo/src TQDM_DISABLE=1 timeout 900 /venv/bin/python "$d/demo.py" > /var/tmp/seeded-demo-mut.txt 2>&1 < /dev/null
echo "demo with the change: rc=$?"
tail -3 /var/tmp/seeded-demo-mut.txt | cut -c1-300
if [ -z "$SKIP_BASELINE" ]; then /verif/harness/run_baseline.sh /var/tmp/verif-baseline-seeded; fi
cd /verif
for id in "$@"; do
  out=$(./check $id 2>&1)
  rc=$?
  echo "$id rc=$rc $(echo "$out" | grep -c '^VIOLATION') violation line(s): $(echo "$out" | grep '^VIOLATION' | grep -c no-failing-input-found) without input: $(echo "$out" | grep -A1 '^VIOLATION' | grep -v '^VIOLATION' | head -1 | cut -c1-260)"
done
git -C /repo checkout -- .
git -C /repo status --short | head -3
