#!/bin/bash
# runs every registered quick check on the current tree (in parallel) and prints one line each
cd "$(dirname "$0")/.."
ids=$(python3 -c "import json;print(' '.join(c['property_id'] for c in json.load(open('MANIFEST.json'))['checks']))")
tier=${1:-quick}
mkdir -p /var/tmp/verif-runall
for id in $ids; do
  ( ./check $id --tier $tier > /var/tmp/verif-runall/$id.log 2>&1; echo "$id exit=$? $(tail -1 /var/tmp/verif-runall/$id.log)" ) &
  # limit parallelism
  while [ $(jobs -r | wc -l) -ge 6 ]; do sleep 0.5; done
done
wait
grep -h "VIOLATION\|KNOWN-FINDING" /var/tmp/verif-runall/*.log
