#!/bin/bash
# harness/try_worktree.sh <checkout of lingpy with a change applied> <check ids...> : runs quick (or TIER=thorough) checks against that
# checkout via VERIF_REPO, without touching /repo; evidence of such runs goes to /var/tmp/verif-evidence-alt
d=$1; shift
cd /verif
for id in "$@"; do
  out=$(VERIF_REPO=$d ./check $id ${TIER:+--tier $TIER} 2>&1)
  rc=$?
  echo "$id rc=$rc $(echo "$out" | grep -c '^VIOLATION') violation line(s), $(echo "$out" | grep '^VIOLATION' | grep -c no-failing-input-found) without input: $(echo "$out" | grep -A1 '^VIOLATION' | grep -v '^VIOLATION' | head -1 | cut -c1-260)"
done
