#!/usr/bin/env python3
"""harness/seeded_run.py [--baseline] [--tier quick|thorough] [ids...]

Replays the seeded changes kept under /verif/seeded/<id>/ against the checks, the way the brief prescribes: the change is applied to
/repo (git apply), the demonstration and the checks are run, and the change is undone straight afterwards (git checkout).  For each
change: the demonstration must pass on the clean tree and fail with the change, (with --baseline) the pinned test-suite must still
pass with the change, the check of the property it was written against must report a violation, and the cross-checks listed in
meta.json are run to see which other properties react.  Results go to meta.json ('confirmed', 'checks') and to seeded/RESULTS.md.
Nothing here is registered in MANIFEST.json; evidence files written by these runs are restored afterwards.
"""
import json
import os
import re
import shutil
import subprocess
import sys
import tempfile

VERIF = os.path.dirname(os.path.dirname(os.path.abspath(__file__)))
REPO = '/repo'
PY = '/venv/bin/python'


def sh(cmd, **kw):
    p = subprocess.run(cmd, stdout=subprocess.PIPE, stderr=subprocess.STDOUT, stdin=subprocess.DEVNULL, text=True, **kw)
    return p.returncode, p.stdout


def clean():
    return sh(['git', '-C', REPO, 'status', '--porcelain'])[1].strip() == ''


def demo(d):
    env = dict(os.environ, PYTHONPATH=REPO + '/src', TQDM_DISABLE='1')
    rc, out = sh(['timeout', '900', PY, os.path.join(d, 'demo.py')], cwd='/var/tmp', env=env)
    return rc, out


def run_check(pid, tier):
    rc, out = sh([os.path.join(VERIF, 'check'), pid, '--tier', tier], cwd=VERIF)
    viol = [l for l in out.splitlines() if l.startswith('VIOLATION')]
    first = ''
    lines = out.splitlines()
    for i, l in enumerate(lines):
        if l.startswith('VIOLATION') and i + 1 < len(lines):
            first = lines[i + 1].strip()[:300]
            break
    return {'exit': rc, 'violations': len(viol), 'without_input': sum('no-failing-input-found' in l for l in viol), 'first': first}


def main():
    args = sys.argv[1:]
    baseline = '--baseline' in args
    tier = 'quick'
    if '--tier' in args:
        tier = args[args.index('--tier') + 1]
    ids = [a for a in args if re.fullmatch(r'C\d\d[a-z]?', a)] or sorted(x for x in os.listdir(os.path.join(VERIF, 'seeded')) if re.fullmatch(r'C\d\d[a-z]?', x))
    if not clean():
        print('/repo is not clean')
        return 2
    keep = tempfile.mkdtemp(prefix='verif-evidence-keep-', dir='/var/tmp')
    shutil.copytree(os.path.join(VERIF, 'evidence'), os.path.join(keep, 'evidence'))
    try:
        for name in ids:
            pid = name[:3]
            d = os.path.join(VERIF, 'seeded', name)
            meta = json.load(open(os.path.join(d, 'meta.json')))
            rc0, _ = demo(d)
            rc, out = sh(['git', '-C', REPO, 'apply', os.path.join(d, 'patch.diff')])
            if rc != 0:
                print(name, 'patch does not apply:', out[:200])
                continue
            try:
                rc1, out1 = demo(d)
                conf = {'demo_exit_clean_tree': rc0, 'demo_exit_with_change': rc1,
                        'demo_says': [l for l in out1.splitlines() if l.strip()][-1][:200] if out1.strip() else ''}
                if baseline:
                    _, b = sh([os.path.join(VERIF, 'harness', 'run_baseline.sh'), '/var/tmp/verif-baseline-seeded'])
                    conf['pinned_suite_with_change'] = b.strip().splitlines()[0] if b.strip() else ''
                elif 'pinned_suite_with_change' in meta.get('confirmed', {}):
                    conf['pinned_suite_with_change'] = meta['confirmed']['pinned_suite_with_change']
                meta['confirmed'] = conf
                res = meta.setdefault('checks', {})
                for c in [pid] + [x for x in meta.get('cross_checks', []) if x != pid]:
                    res['%s:%s' % (c, tier)] = run_check(c, tier)
                    r = res['%s:%s' % (c, tier)]
                    print('%s -> check %s (%s): exit %d, %d violation line(s), %d without input  %s' % (name, c, tier, r['exit'], r['violations'], r['without_input'], r['first'][:140]), flush=True)
            finally:
                sh(['git', '-C', REPO, 'checkout', '--', '.'])
            meta['ran'] = ('git -C /repo apply seeded/%s/patch.diff; PYTHONPATH=/repo/src python seeded/%s/demo.py; %s./check <id> for the '
                           'property and the cross-checks; git -C /repo checkout -- .  (harness/seeded_run.py)' % (name, name, 'harness/run_baseline.sh; ' if baseline else ''))
            json.dump(meta, open(os.path.join(d, 'meta.json'), 'w'), indent=1, ensure_ascii=False)
    finally:
        sh(['git', '-C', REPO, 'checkout', '--', '.'])
        for f in os.listdir(os.path.join(keep, 'evidence')):
            shutil.copy(os.path.join(keep, 'evidence', f), os.path.join(VERIF, 'evidence', f))
        shutil.rmtree(keep, ignore_errors=True)
    write_results()
    return 0


def write_results():
    rows = []
    for name in sorted(x for x in os.listdir(os.path.join(VERIF, 'seeded')) if re.fullmatch(r'C\d\d[a-z]?', x)):
        pid = name[:3]
        m = json.load(open(os.path.join(VERIF, 'seeded', name, 'meta.json')))
        c = m.get('confirmed', {})
        own = m.get('checks', {}).get(pid + ':quick', {})
        others = []
        for k, r in sorted(m.get('checks', {}).items()):
            cid, tier = k.split(':')
            if cid != pid and tier == 'quick':
                others.append('%s %s' % (cid, 'quiet' if r['exit'] == 0 else ('VIOLATION' + (' (no input)' if r['without_input'] == r['violations'] else ''))))
        rows.append('| %s | %s | %s / %s | %s | %s | %s | %s |' % (
            name, m['where'].replace('|', '/'), c.get('demo_exit_clean_tree', '?'), c.get('demo_exit_with_change', '?'),
            (c.get('pinned_suite_with_change', '') or 'not re-run').replace('baseline stable_pass: ', ''),
            'caught, concrete replay' if own.get('exit') == 1 and own.get('without_input', 0) < own.get('violations', 0)
            else ('caught, no-failing-input-found' if own.get('exit') == 1 else 'MISSED' if own else 'not run'),
            own.get('first', '')[:110].replace('|', '/'), '; '.join(others)))
    with open(os.path.join(VERIF, 'seeded', 'RESULTS.md'), 'w') as f:
        f.write('# Seeded changes against the quick checks\n\nGenerated by harness/seeded_run.py (change applied to /repo, checks run, change undone).\n\n')
        f.write('| change written against | where | demo exit clean / changed | pinned suite with the change | own check | first line reported | cross-checks |\n')
        f.write('|---|---|---|---|---|---|---|\n')
        f.write('\n'.join(rows) + '\n')


if __name__ == '__main__':
    sys.exit(main())
