-- Root of the `Verif` library: models, lemmas and property theorems.
import Verif.Model.Align
import Verif.Model.EditDist
import Verif.Model.SoundClass
import Verif.Props.C01
import Verif.Props.C02
import Verif.Props.C03
import Verif.Props.C03Edit
import Verif.Model.Cluster
import Verif.Props.C05
import Verif.Props.C05Order
import Verif.Model.TreeDist
import Verif.Props.C15
import Verif.Model.Heap
import Verif.Props.C19
import Verif.Model.Cache
import Verif.Props.C20
