-- Root of the `Verif` library: models, lemmas and property theorems.
import Verif.Model.Align
