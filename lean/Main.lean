import Verif.Driver.Align
import Verif.Driver.SoundClass
import Verif.Driver.Cluster
import Verif.Driver.TreeDist
import Verif.Driver.Heap
import Verif.Driver.Cache
import Verif.Driver.Wordlist
import Verif.Driver.Cognates
import Verif.Driver.GainLoss
import Verif.Driver.TreeBuild
import Verif.Driver.MSA
import Verif.Driver.Cell
import Verif.Driver.Line
open Verif.Driver

def handlers : List (List (List String) → Option String) := [handleAlign, handleSC, handleCluster, handleTree, handleHeap, handleCache, handleWL, handleCog, handleGL, handleTB, handleMSA, handleCell, handleLine]

def dispatch (line : String) : String :=
  let fs := fields line
  match handlers.findSome? (fun h => h fs) with
  | some out => out
  | none => "bad-op"

partial def loop (hin hout : IO.FS.Stream) : IO Unit := do
  let line ← hin.getLine
  if line.isEmpty then return ()
  let l := line.trimAsciiEnd.toString
  hout.putStrLn (dispatch l)
  hout.flush
  loop hin hout

def main : IO Unit := do
  loop (← IO.getStdin) (← IO.getStdout)
