import Verif.Lemmas.Fill
import Verif.Lemmas.Traceback
set_option linter.unusedSimpArgs false
set_option linter.unusedSectionVars false
/-!
C02 at the level of an abstract affine kernel: for any table that satisfies the cell
equations of a kernel whose selection step returns *one of* its candidates, re-scoring the
traceback path reproduces the cell the traceback started from (value and move).
No law about the numbers is used; maximality of the selection is not needed.
-/
namespace Verif.Align
open ScoreOps
variable {S : Type} [ScoreOps S] [Inhabited S] {α : Type}

def movesOf (cols : List (Col α)) : List Mv := cols.filterMap colMove

@[simp] theorem movesOf_append (x y : List (Col α)) : movesOf (x ++ y) = movesOf x ++ movesOf y := by
  simp [movesOf]
@[simp] theorem movesOf_up (y : α) : movesOf [((none : Option α), some y)] = [.up] := rfl
@[simp] theorem movesOf_diag (x y : α) : movesOf [(some x, some y)] = [.diag] := rfl
@[simp] theorem movesOf_left (x : α) : movesOf [(some x, (none : Option α))] = [.left] := rfl
@[simp] theorem movesOf_nil : movesOf ([] : List (Col α)) = [] := rfl

omit [Inhabited S] [ScoreOps S] in
theorem rescore_snoc (K : AffKernel S) (st : RS S) (ms : List Mv) (m : Mv) :
    rescore K st (ms ++ [m]) = rsStep K (rescore K st ms) m := by
  simp [rescore, List.foldl_append]

/-- the selection step returns one of its three candidates, tagged with the candidate's move -/
def ChooseOkG (K : AffKernel S) : Prop :=
  ∀ a m b, K.choose a m b = (a, 3) ∨ K.choose a m b = (m, 1) ∨ K.choose a m b = (b, 2)

/-- local kernels: … or the zero floor with the stop move -/
def ChooseOkL (K : AffKernel S) : Prop :=
  ∀ a m b, K.choose a m b = (a, 3) ∨ K.choose a m b = (m, 1) ∨ K.choose a m b = (b, 2) ∨
    K.choose a m b = (zero, 0)

omit [ScoreOps S] in
theorem T_inner_aff (K : AffKernel S) (M i j : Nat) (hj : j < M) :
    T K.toFill M (i+1) (j+1) =
      K.choose (K.candUp (i+1) (j+1) (T K.toFill M i (j+1)))
        (K.candDiag (i+1) (j+1) (T K.toFill M i j).1)
        (K.candLeft (i+1) (j+1) (T K.toFill M (i+1) j)) := by
  rw [T_inner _ _ _ _ hj]; rfl

omit [ScoreOps S] in
theorem rescore_tbGlobal (K : AffKernel S) (hK : ChooseOkG K)
    (hrow : ∀ j c, (K.row0 j c).2 ≠ 3 ∧ (K.row0 j c).2 ≠ 1) (hcol : ∀ i c, (K.col0 i c).2 = 3)
    (a b : List α) (N M : Nat) (hN : N ≤ b.length) (hM : M ≤ a.length)
    (tb : Nat → Nat → Nat) (htb : ∀ i j, i ≤ N → j ≤ M → tb i j = (T K.toFill M i j).2) :
    ∀ (i j : Nat) (acc : List (Col α)), i ≤ N → j ≤ M →
      ∃ cols, tbGlobal tb a b i j acc = some (cols ++ acc) ∧
        rescore K ⟨0, 0, K.corner⟩ (movesOf cols) = ⟨i, j, T K.toFill M i j⟩ := by
  intro i j
  induction h : i + j using Nat.strongRecOn generalizing i j with
  | _ n ih =>
    intro acc hi hj
    match i, j with
    | 0, 0 =>
      exact ⟨[], by simp [tbGlobal], by simp [rescore, T_corner, AffKernel.toFill]⟩
    | i+1, 0 =>
      have hlt : i < b.length := by omega
      have h3 : tb (i+1) 0 = 3 := by rw [htb _ _ hi hj, T_col0]; exact hcol _ _
      obtain ⟨cols, h1, h2⟩ := ih (i + 0) (by omega) i 0 rfl ((none, some b[i]) :: acc) (by omega) hj
      refine ⟨cols ++ [(none, some b[i])], ?_, ?_⟩
      · rw [tbGlobal]; simp [h3, List.getElem?_eq_getElem hlt, h1]
      · rw [movesOf_append, movesOf_up, rescore_snoc, h2]
        simp [rsStep, T_col0, AffKernel.toFill]
    | 0, j+1 =>
      have hlt : j < a.length := by omega
      have hT : T K.toFill M 0 (j+1) = K.row0 (j+1) (T K.toFill M 0 j) := T_row0 _ _ _ (by omega)
      have hn : tb 0 (j+1) ≠ 3 ∧ tb 0 (j+1) ≠ 1 := by rw [htb _ _ hi hj, hT]; exact hrow _ _
      obtain ⟨cols, h1, h2⟩ := ih (0 + j) (by omega) 0 j rfl ((some a[j], none) :: acc) hi (by omega)
      refine ⟨cols ++ [(some a[j], none)], ?_, ?_⟩
      · rw [tbGlobal]; simp [hn.1, hn.2, List.getElem?_eq_getElem hlt, h1]
      · rw [movesOf_append, movesOf_left, rescore_snoc, h2]
        simp [rsStep, hT]
    | i+1, j+1 =>
      have hlti : i < b.length := by omega
      have hltj : j < a.length := by omega
      have hT := T_inner_aff K M i j (by omega)
      have htb' := htb _ _ hi hj
      by_cases c3 : tb (i+1) (j+1) = 3
      · obtain ⟨cols, h1, h2⟩ :=
          ih (i + (j+1)) (by omega) i (j+1) rfl ((none, some b[i]) :: acc) (by omega) hj
        refine ⟨cols ++ [(none, some b[i])], ?_, ?_⟩
        · rw [tbGlobal]; simp [c3, List.getElem?_eq_getElem hlti, h1]
        · rw [movesOf_append, movesOf_up, rescore_snoc, h2]
          rw [htb', hT] at c3
          rcases hK _ _ _ with e | e | e <;> rw [e] at c3 hT <;> simp at c3
          simp [rsStep, hT]
      · by_cases c1 : tb (i+1) (j+1) = 1
        · obtain ⟨cols, h1, h2⟩ :=
            ih (i + j) (by omega) i j rfl ((some a[j], some b[i]) :: acc) (by omega) (by omega)
          refine ⟨cols ++ [(some a[j], some b[i])], ?_, ?_⟩
          · rw [tbGlobal]; simp [c1, List.getElem?_eq_getElem hlti, List.getElem?_eq_getElem hltj, h1]
          · rw [movesOf_append, movesOf_diag, rescore_snoc, h2]
            rw [htb', hT] at c1
            rcases hK _ _ _ with e | e | e <;> rw [e] at c1 hT <;> simp at c1
            simp [rsStep, hT]
        · obtain ⟨cols, h1, h2⟩ :=
            ih ((i+1) + j) (by omega) (i+1) j rfl ((some a[j], none) :: acc) hi (by omega)
          refine ⟨cols ++ [(some a[j], none)], ?_, ?_⟩
          · rw [tbGlobal]; simp [c3, c1, List.getElem?_eq_getElem hltj, h1]
          · rw [movesOf_append, movesOf_left, rescore_snoc, h2]
            rw [htb', hT] at c3 c1
            rcases hK _ _ _ with e | e | e <;> rw [e] at c3 c1 hT <;> simp at c3 c1
            simp [rsStep, hT]


theorem rescore_tbLocal (K : AffKernel S) (hK : ChooseOkL K)
    (hcorner : K.corner = (zero, 0))
    (hrow : ∀ j c, K.row0 j c = (zero, 0)) (hcol : ∀ i c, K.col0 i c = (zero, 0))
    (a b : List α) (N M : Nat) (hN : N ≤ b.length) (hM : M ≤ a.length)
    (tb : Nat → Nat → Nat) (htb : ∀ i j, i ≤ N → j ≤ M → tb i j = (T K.toFill M i j).2) :
    ∀ (k l : Nat) (acc : List (Col α)), k ≤ N → l ≤ M →
      ∃ i0 j0 cols, tbLocal tb a b k l acc = some (i0, j0, cols ++ acc) ∧
        rescore K ⟨i0, j0, (zero, 0)⟩ (movesOf cols) = ⟨k, l, T K.toFill M k l⟩ := by
  intro k l
  induction h : k + l using Nat.strongRecOn generalizing k l with
  | _ n ih =>
    intro acc hk hl
    match k, l with
    | 0, 0 =>
      have hT : T K.toFill M 0 0 = (zero, 0) := by rw [T_corner]; exact hcorner
      have h0 : tb 0 0 = 0 := by rw [htb _ _ hk hl, hT]
      exact ⟨0, 0, [], by rw [tbLocal]; simp [h0], by simp [rescore, hT]⟩
    | i+1, 0 =>
      have hT : T K.toFill M (i+1) 0 = (zero, 0) := by rw [T_col0]; exact hcol _ _
      have h0 : tb (i+1) 0 = 0 := by rw [htb _ _ hk hl, hT]
      exact ⟨i+1, 0, [], by rw [tbLocal]; simp [h0], by simp [rescore, hT]⟩
    | 0, j+1 =>
      have hT : T K.toFill M 0 (j+1) = (zero, 0) := by rw [T_row0 _ _ _ (by omega)]; exact hrow _ _
      have h0 : tb 0 (j+1) = 0 := by rw [htb _ _ hk hl, hT]
      exact ⟨0, j+1, [], by rw [tbLocal]; simp [h0], by simp [rescore, hT]⟩
    | i+1, j+1 =>
      have hlti : i < b.length := by omega
      have hltj : j < a.length := by omega
      have hT := T_inner_aff K M i j (by omega)
      have htb' := htb _ _ hk hl
      by_cases c3 : tb (i+1) (j+1) = 3
      · obtain ⟨i0, j0, cols, h1, h2⟩ :=
          ih (i + (j+1)) (by omega) i (j+1) rfl ((none, some b[i]) :: acc) (by omega) hl
        refine ⟨i0, j0, cols ++ [(none, some b[i])], ?_, ?_⟩
        · rw [tbLocal]; simp [c3, List.getElem?_eq_getElem hlti, h1]
        · rw [movesOf_append, movesOf_up, rescore_snoc, h2]
          rw [htb', hT] at c3
          rcases hK _ _ _ with e | e | e | e <;> rw [e] at c3 hT <;> simp at c3
          simp [rsStep, hT]
      · by_cases c1 : tb (i+1) (j+1) = 1
        · obtain ⟨i0, j0, cols, h1, h2⟩ :=
            ih (i + j) (by omega) i j rfl ((some a[j], some b[i]) :: acc) (by omega) (by omega)
          refine ⟨i0, j0, cols ++ [(some a[j], some b[i])], ?_, ?_⟩
          · rw [tbLocal]; simp [c3, c1, List.getElem?_eq_getElem hlti, List.getElem?_eq_getElem hltj, h1]
          · rw [movesOf_append, movesOf_diag, rescore_snoc, h2]
            rw [htb', hT] at c1
            rcases hK _ _ _ with e | e | e | e <;> rw [e] at c1 hT <;> simp at c1
            simp [rsStep, hT]
        · by_cases c2 : tb (i+1) (j+1) = 2
          · obtain ⟨i0, j0, cols, h1, h2⟩ :=
              ih ((i+1) + j) (by omega) (i+1) j rfl ((some a[j], none) :: acc) hk (by omega)
            refine ⟨i0, j0, cols ++ [(some a[j], none)], ?_, ?_⟩
            · rw [tbLocal]; simp [c3, c1, c2, List.getElem?_eq_getElem hltj, h1]
            · rw [movesOf_append, movesOf_left, rescore_snoc, h2]
              rw [htb', hT] at c2
              rcases hK _ _ _ with e | e | e | e <;> rw [e] at c2 hT <;> simp at c2
              simp [rsStep, hT]
          · refine ⟨i+1, j+1, [], by rw [tbLocal]; simp [c3, c1, c2], ?_⟩
            rw [htb', hT] at c3 c1 c2
            rcases hK _ _ _ with e | e | e | e <;> rw [e] at c3 c1 c2 hT <;> simp at c3 c1 c2
            simp [rescore, hT]

end Verif.Align
