import Verif.Lemmas.KernelMono
set_option linter.unusedSectionVars false
set_option linter.unusedSimpArgs false
/-!
The row-major scan for the best cell in local mode returns a cell that dominates every
inner cell of the table (and the initial value zero).
-/
namespace Verif.Align
open ScoreOps ScoreLaws
variable {S : Type} [ScoreOps S] [Inhabited S] [LinearOrder S] [ScoreLaws S]

theorem bestScanRow_spec (cfg : Cfg) (i : Nat) (cs : List (Cell S)) :
    ∀ (j : Nat) (st : S × Nat × Nat),
      st.1 ≤ (bestScanRow cfg i j cs st).1 ∧
      (∀ c ∈ cs, c.1 ≤ (bestScanRow cfg i j cs st).1) ∧
      (bestScanRow cfg i j cs st = st ∨
        ∃ t, t < cs.length ∧ bestScanRow cfg i j cs st = ((cs.getD t (default, 0)).1, i, j + t)) := by
  induction cs with
  | nil => intro j st; simp [bestScanRow]
  | cons c cs ih =>
    intro j st
    simp only [bestScanRow]
    generalize hst' : (if (if cfg.lastBest = true then ScoreOps.le st.1 c.1 else ScoreOps.lt st.1 c.1) = true
      then (c.1, i, j) else st) = st'
    have hmono : st.1 ≤ st'.1 ∧ c.1 ≤ st'.1 ∧ (st' = st ∨ st' = (c.1, i, j)) := by
      rw [← hst']
      cases cfg.lastBest <;> simp only [Bool.false_eq_true, if_false, if_true] <;> split <;> rename_i h
      · rw [lt_iff] at h; exact ⟨le_of_lt h, le_refl _, Or.inr rfl⟩
      · rw [lt_iff] at h; exact ⟨le_refl _, by order, Or.inl rfl⟩
      · rw [le_iff] at h; exact ⟨h, le_refl _, Or.inr rfl⟩
      · rw [le_iff] at h; exact ⟨le_refl _, by order, Or.inl rfl⟩
    obtain ⟨h1, h2, h3⟩ := ih (j+1) st'
    refine ⟨le_trans hmono.1 h1, ?_, ?_⟩
    · intro x hx
      rcases List.mem_cons.mp hx with rfl | hx
      · exact le_trans hmono.2.1 h1
      · exact h2 x hx
    · rcases h3 with h3 | ⟨t, ht, h3⟩
      · rcases hmono.2.2 with e | e
        · left; rw [h3, e]
        · right; exact ⟨0, by simp, by rw [h3, e]; simp⟩
      · right
        refine ⟨t+1, by simpa using ht, ?_⟩
        rw [h3]; simp; omega

theorem bestScan_spec (cfg : Cfg) (rows : List (List (Cell S))) :
    ∀ (i : Nat) (st : S × Nat × Nat),
      st.1 ≤ (bestScan cfg i rows st).1 ∧
      (∀ t, t < rows.length → ∀ c ∈ (rows.getD t []).drop 1, c.1 ≤ (bestScan cfg i rows st).1) ∧
      (bestScan cfg i rows st = st ∨
        ∃ t u, t < rows.length ∧ u + 1 < (rows.getD t []).length ∧
          bestScan cfg i rows st = (((rows.getD t []).getD (u+1) (default, 0)).1, i + t, u + 1)) := by
  induction rows with
  | nil => intro i st; simp [bestScan]
  | cons row rows ih =>
    intro i st
    simp only [bestScan]
    obtain ⟨a1, a2, a3⟩ := bestScanRow_spec cfg i (row.drop 1) 1 st
    obtain ⟨b1, b2, b3⟩ := ih (i+1) (bestScanRow cfg i 1 (row.drop 1) st)
    refine ⟨le_trans a1 b1, ?_, ?_⟩
    · intro t ht c hc
      cases t with
      | zero => simp at hc; exact le_trans (a2 c (by simpa using hc)) b1
      | succ t => simp at hc ht; exact b2 t (by omega) c (by simpa using hc)
    · rcases b3 with b3 | ⟨t, u, ht, hu, b3⟩
      · rcases a3 with a3 | ⟨u, hu, a3⟩
        · left; rw [b3, a3]
        · right
          refine ⟨0, u, by simp, ?_, ?_⟩
          · simp at hu ⊢; omega
          · rw [b3, a3]; simp [List.getD_eq_getElem?_getD, List.getElem?_drop]; omega
      · right
        refine ⟨t+1, u, by simpa using ht, by simpa using hu, ?_⟩
        rw [b3]; simp; omega

/-- the rows handed to the scan are the specification rows `1 … N` -/
theorem rowsRev_length (F : Fill S) (M N : Nat) : (rowsRev F M N).length = N + 1 := by
  induction N with
  | zero => simp [rowsRev]
  | succ n ih => simp [rowsRev_succ, ih]

theorem scanRows_getD (F : Fill S) (M N t : Nat) (ht : t < N) :
    ((rowsRev F M N).reverse.drop 1).getD t [] = rowAt F M (t+1) := by
  have hlen := rowsRev_length F M N
  have := rowsRev_getD F M N (t+1) (by omega)
  rw [← this]
  simp only [List.getD_eq_getElem?_getD, List.getElem?_drop, List.getElem?_reverse (by omega : 1 + t < (rowsRev F M N).length)]
  congr 2
  omega

theorem scanRows_length (F : Fill S) (M N : Nat) : ((rowsRev F M N).reverse.drop 1).length = N := by
  simp [rowsRev_length]

end Verif.Align
