import Verif.Model.GainLoss
set_option linter.unusedSimpArgs false
set_option linter.unusedVariables false
/-!
Lemmas for C07: replay depends only on the events below a node; subtrees of a tree with
distinct node names do not share names.
-/
namespace Verif.GL

/-- names strictly below a node -/
def descNames : GTree → List Nat
  | .leaf _ => []
  | .node _ cs => nodeNamesL cs

theorem nodeNames_eq (t : GTree) : nodeNames t = t.name :: descNames t := by
  cases t <;> simp [nodeNames, descNames, GTree.name]

theorem name_mem_nodeNames (t : GTree) : t.name ∈ nodeNames t := by
  rw [nodeNames_eq]; exact List.mem_cons_self

theorem desc_sub_nodeNames (t : GTree) (k : Nat) (h : k ∈ descNames t) : k ∈ nodeNames t := by
  rw [nodeNames_eq]; exact List.mem_cons_of_mem _ h

theorem lookupM_congr (s1 s2 : Story) (k : Nat)
    (h : ∀ e : Int, (k, e) ∈ s1 ↔ (k, e) ∈ s2) : lookupM s1 k = lookupM s2 k := by
  unfold lookupM
  have h1 : s1.contains (k, (1 : Int)) = s2.contains (k, (1 : Int)) := by
    rw [Bool.eq_iff_iff]; simp only [List.contains_iff_mem]; exact h 1
  have h0 : s1.contains (k, (0 : Int)) = s2.contains (k, (0 : Int)) := by
    rw [Bool.eq_iff_iff]; simp only [List.contains_iff_mem]; exact h 0
  rw [h1, h0]

theorem lookupM_none (s : Story) (k : Nat) (h : ∀ e : Int, (k, e) ∉ s) : lookupM s k = none := by
  unfold lookupM
  have h1 : s.contains (k, (1 : Int)) = false := by
    simpa [List.contains_iff_mem] using h 1
  have h0 : s.contains (k, (0 : Int)) = false := by
    simpa [List.contains_iff_mem] using h 0
  rw [h1, h0]; rfl

mutual
theorem below_congr : ∀ (t : GTree) (s1 s2 : Story) (σ : Int),
    (∀ k ∈ descNames t, lookupM s1 k = lookupM s2 k) → below s1 σ t = below s2 σ t
  | .leaf n, s1, s2, σ, _ => by simp [below]
  | .node n cs, s1, s2, σ, h => by
    simp only [below]
    exact belowL_congr cs s1 s2 σ (by simpa [descNames] using h)
theorem belowL_congr : ∀ (ts : List GTree) (s1 s2 : Story) (σ : Int),
    (∀ k ∈ nodeNamesL ts, lookupM s1 k = lookupM s2 k) → belowL s1 σ ts = belowL s2 σ ts
  | [], _, _, _, _ => by simp [belowL]
  | t :: ts, s1, s2, σ, h => by
    simp only [belowL]
    have hn : lookupM s1 t.name = lookupM s2 t.name :=
      h _ (by simp only [nodeNamesL, List.mem_append]; exact Or.inl (name_mem_nodeNames t))
    rw [hn, below_congr t s1 s2 _ (fun k hk => h k (by
      simp only [nodeNamesL, List.mem_append]; exact Or.inl (desc_sub_nodeNames t k hk)))]
    rw [belowL_congr ts s1 s2 σ (fun k hk => h k (by
      simp only [nodeNamesL, List.mem_append]; exact Or.inr hk))]
end

-- leaves reported by `below` are leaves of the tree
mutual
theorem below_leaves : ∀ (t : GTree) (s : Story) (σ : Int), (below s σ t).map (·.1) = leafNames t
  | .leaf n, s, σ => by simp [below, leafNames]
  | .node n cs, s, σ => by simp only [below, leafNames]; exact belowL_leaves cs s σ
theorem belowL_leaves : ∀ (ts : List GTree) (s : Story) (σ : Int), (belowL s σ ts).map (·.1) = leafNamesL ts
  | [], _, _ => by simp [belowL, leafNamesL]
  | t :: ts, s, σ => by
    simp only [belowL, leafNamesL, List.map_append]
    rw [below_leaves t s _, belowL_leaves ts s σ]
end

/-- children paired with one chosen candidate each -/
abbrev Ch := List (GTree × Cand)

theorem disjoint_of_nodup (ch : Ch) (hnd : (ch.flatMap fun p => nodeNames p.1).Nodup)
    (p q : GTree × Cand) (hp : p ∈ ch) (hq : q ∈ ch) (k : Nat)
    (hkp : k ∈ nodeNames p.1) (hkq : k ∈ nodeNames q.1) : p = q := by
  induction ch with
  | nil => cases hp
  | cons x xs ih =>
    simp only [List.flatMap_cons] at hnd
    have hdis := (List.nodup_append.mp hnd)
    rcases List.mem_cons.mp hp with rfl | hp' <;> rcases List.mem_cons.mp hq with rfl | hq'
    · rfl
    · exact absurd rfl (hdis.2.2 k hkp k (List.mem_flatMap.mpr ⟨q, hq', hkq⟩))
    · exact absurd rfl (hdis.2.2 k hkq k (List.mem_flatMap.mpr ⟨p, hp', hkp⟩))
    · exact ih hdis.2.1 hp' hq'

end Verif.GL
