import Verif.Model.Align
set_option linter.unusedSimpArgs false
/-!
The traceback loops read over an *arbitrary* move table: whatever the table holds away
from the borders, the emitted columns are lossless.  (C01's own level of abstraction.)
-/
namespace Verif.Align
variable {α : Type}

def degapA (cols : List (Col α)) : List α := cols.filterMap (·.1)
def degapB (cols : List (Col α)) : List α := cols.filterMap (·.2)
def NoDoubleGap (cols : List (Col α)) : Prop := ∀ c ∈ cols, c ≠ (none, none)

@[simp] theorem degapA_nil : degapA ([] : List (Col α)) = [] := rfl
@[simp] theorem degapB_nil : degapB ([] : List (Col α)) = [] := rfl
@[simp] theorem degapA_append (x y : List (Col α)) : degapA (x ++ y) = degapA x ++ degapA y := by
  simp [degapA]
@[simp] theorem degapB_append (x y : List (Col α)) : degapB (x ++ y) = degapB x ++ degapB y := by
  simp [degapB]
@[simp] theorem degapA_single_none (y : Option α) : degapA [((none : Option α), y)] = [] := rfl
@[simp] theorem degapA_single_some (x : α) (y : Option α) : degapA [(some x, y)] = [x] := rfl
@[simp] theorem degapB_single_none (x : Option α) : degapB [(x, (none : Option α))] = [] := rfl
@[simp] theorem degapB_single_some (x : Option α) (y : α) : degapB [(x, some y)] = [y] := rfl
theorem noDoubleGap_append {x y : List (Col α)} (hx : NoDoubleGap x) (hy : NoDoubleGap y) :
    NoDoubleGap (x ++ y) := by
  intro c hc
  rcases List.mem_append.mp hc with h | h
  · exact hx c h
  · exact hy c h

/-- What the global-type fills establish on the first row and column (within bounds). -/
structure BordersG (tb : Nat → Nat → Nat) (N M : Nat) : Prop where
  row : ∀ j, 0 < j → j ≤ M → tb 0 j ≠ 3 ∧ tb 0 j ≠ 1
  col : ∀ i, 0 < i → i ≤ N → tb i 0 = 3

theorem take_succ_of_getElem? {l : List α} {n : Nat} {x : α} (h : l[n]? = some x) :
    l.take (n+1) = l.take n ++ [x] := by
  rw [List.take_add_one, h]; rfl

theorem tbGlobal_spec (tb : Nat → Nat → Nat) (a b : List α) (N M : Nat)
    (hN : N ≤ b.length) (hM : M ≤ a.length) (hb : BordersG tb N M) :
    ∀ (i j : Nat) (acc : List (Col α)), i ≤ N → j ≤ M →
      ∃ cols, tbGlobal tb a b i j acc = some (cols ++ acc) ∧
        degapA cols = a.take j ∧ degapB cols = b.take i ∧ NoDoubleGap cols ∧ cols.length ≤ i + j := by
  intro i j
  induction h : i + j using Nat.strongRecOn generalizing i j with
  | _ n ih =>
    intro acc hi hj
    match i, j with
    | 0, 0 =>
      refine ⟨[], by simp [tbGlobal], by simp, by simp, ?_, by simp⟩
      intro c hc; simp at hc
    | i+1, 0 =>
      have h3 := hb.col (i+1) (by omega) hi
      have hlt : i < b.length := by omega
      obtain ⟨cols, h1, h2, h3', h4, h5⟩ := ih (i + 0) (by omega) i 0 rfl ((none, some b[i]) :: acc) (by omega) hj
      refine ⟨cols ++ [(none, some b[i])], ?_, ?_, ?_, ?_, ?_⟩
      · rw [tbGlobal]; simp [h3, List.getElem?_eq_getElem hlt, h1]
      · simp [h2]
      · rw [take_succ_of_getElem? (List.getElem?_eq_getElem hlt)]; simp [h3']
      · exact noDoubleGap_append h4 (by intro c hc; simp at hc; simp [hc])
      · simp; omega
    | 0, j+1 =>
      obtain ⟨hn3, hn1⟩ := hb.row (j+1) (by omega) hj
      have hlt : j < a.length := by omega
      obtain ⟨cols, h1, h2, h3', h4, h5⟩ := ih (0 + j) (by omega) 0 j rfl ((some a[j], none) :: acc) hi (by omega)
      refine ⟨cols ++ [(some a[j], none)], ?_, ?_, ?_, ?_, ?_⟩
      · rw [tbGlobal]; simp [hn3, hn1, List.getElem?_eq_getElem hlt, h1]
      · rw [take_succ_of_getElem? (List.getElem?_eq_getElem hlt)]; simp [h2]
      · simp [h3']
      · exact noDoubleGap_append h4 (by intro c hc; simp at hc; simp [hc])
      · simp; omega
    | i+1, j+1 =>
      have hlti : i < b.length := by omega
      have hltj : j < a.length := by omega
      by_cases c3 : tb (i+1) (j+1) = 3
      · obtain ⟨cols, h1, h2, h3', h4, h5⟩ :=
          ih (i + (j+1)) (by omega) i (j+1) rfl ((none, some b[i]) :: acc) (by omega) hj
        refine ⟨cols ++ [(none, some b[i])], ?_, ?_, ?_, ?_, ?_⟩
        · rw [tbGlobal]; simp [c3, List.getElem?_eq_getElem hlti, h1]
        · simp [h2]
        · rw [take_succ_of_getElem? (List.getElem?_eq_getElem hlti)]; simp [h3']
        · exact noDoubleGap_append h4 (by intro c hc; simp at hc; simp [hc])
        · simp; omega
      · by_cases c1 : tb (i+1) (j+1) = 1
        · obtain ⟨cols, h1, h2, h3', h4, h5⟩ :=
            ih (i + j) (by omega) i j rfl ((some a[j], some b[i]) :: acc) (by omega) (by omega)
          refine ⟨cols ++ [(some a[j], some b[i])], ?_, ?_, ?_, ?_, ?_⟩
          · rw [tbGlobal]; simp [c1, List.getElem?_eq_getElem hlti, List.getElem?_eq_getElem hltj, h1]
          · rw [take_succ_of_getElem? (List.getElem?_eq_getElem hltj)]; simp [h2]
          · rw [take_succ_of_getElem? (List.getElem?_eq_getElem hlti)]; simp [h3']
          · exact noDoubleGap_append h4 (by intro c hc; simp at hc; simp [hc])
          · simp; omega
        · obtain ⟨cols, h1, h2, h3', h4, h5⟩ :=
            ih ((i+1) + j) (by omega) (i+1) j rfl ((some a[j], none) :: acc) hi (by omega)
          refine ⟨cols ++ [(some a[j], none)], ?_, ?_, ?_, ?_, ?_⟩
          · rw [tbGlobal]; simp [c3, c1, List.getElem?_eq_getElem hltj, h1]
          · rw [take_succ_of_getElem? (List.getElem?_eq_getElem hltj)]; simp [h2]
          · simp [h3']
          · exact noDoubleGap_append h4 (by intro c hc; simp at hc; simp [hc])
          · simp; omega


/-- What the local-type fills establish on the first row and column (within bounds). -/
structure BordersL (tb : Nat → Nat → Nat) (N M : Nat) : Prop where
  row : ∀ j, j ≤ M → tb 0 j ≠ 3 ∧ tb 0 j ≠ 1
  col : ∀ i, i ≤ N → tb i 0 ≠ 1 ∧ tb i 0 ≠ 2

theorem tbLocal_spec (tb : Nat → Nat → Nat) (a b : List α) (N M : Nat)
    (hN : N ≤ b.length) (hM : M ≤ a.length) (hb : BordersL tb N M) :
    ∀ (k l : Nat) (acc : List (Col α)), k ≤ N → l ≤ M →
      ∃ i0 j0 cols, tbLocal tb a b k l acc = some (i0, j0, cols ++ acc) ∧ i0 ≤ k ∧ j0 ≤ l ∧
        a.take j0 ++ degapA cols = a.take l ∧ b.take i0 ++ degapB cols = b.take k ∧
        NoDoubleGap cols ∧ (tb i0 j0 ≠ 1 ∧ tb i0 j0 ≠ 2 ∧ tb i0 j0 ≠ 3) := by
  intro k l
  induction h : k + l using Nat.strongRecOn generalizing k l with
  | _ n ih =>
    intro acc hk hl
    have stop : ∀ k l, tbLocal tb a b k l acc = some (k, l, acc) →
        tb k l ≠ 1 → tb k l ≠ 2 → tb k l ≠ 3 →
        ∃ i0 j0 cols, tbLocal tb a b k l acc = some (i0, j0, cols ++ acc) ∧ i0 ≤ k ∧ j0 ≤ l ∧
        a.take j0 ++ degapA cols = a.take l ∧ b.take i0 ++ degapB cols = b.take k ∧
        NoDoubleGap cols ∧ (tb i0 j0 ≠ 1 ∧ tb i0 j0 ≠ 2 ∧ tb i0 j0 ≠ 3) := by
      intro k l he c1 c2 c3
      exact ⟨k, l, [], by simpa using he, Nat.le_refl _, Nat.le_refl _, by simp, by simp,
        (by intro c hc; simp at hc), c1, c2, c3⟩
    match k, l with
    | 0, 0 =>
      have ⟨r3, r1⟩ := hb.row 0 hl
      have ⟨_, r2⟩ := hb.col 0 hk
      exact stop 0 0 (by rw [tbLocal]; simp [r3, r1, r2]) r1 r2 r3
    | i+1, 0 =>
      have ⟨r1, r2⟩ := hb.col (i+1) hk
      by_cases c3 : tb (i+1) 0 = 3
      · have hlt : i < b.length := by omega
        obtain ⟨i0, j0, cols, h1, hi0, hj0, h2, h3, h4, h5⟩ :=
          ih (i + 0) (by omega) i 0 rfl ((none, some b[i]) :: acc) (by omega) hl
        refine ⟨i0, j0, cols ++ [(none, some b[i])], ?_, by omega, hj0, ?_, ?_, ?_, h5⟩
        · rw [tbLocal]; simp [c3, List.getElem?_eq_getElem hlt, h1]
        · simp [← h2]
        · rw [take_succ_of_getElem? (List.getElem?_eq_getElem hlt), ← h3]; simp
        · exact noDoubleGap_append h4 (by intro c hc; simp at hc; simp [hc])
      · exact stop (i+1) 0 (by rw [tbLocal]; simp [c3, r1, r2]) r1 r2 c3
    | 0, j+1 =>
      have ⟨r3, r1⟩ := hb.row (j+1) hl
      by_cases c2 : tb 0 (j+1) = 2
      · have hltj : j < a.length := by omega
        obtain ⟨i0, j0, cols, h1, hi0, hj0, h2, h3, h4, h5⟩ :=
          ih (0 + j) (by omega) 0 j rfl ((some a[j], none) :: acc) hk (by omega)
        refine ⟨i0, j0, cols ++ [(some a[j], none)], ?_, hi0, by omega, ?_, ?_, ?_, h5⟩
        · rw [tbLocal]; simp [r3, r1, c2, List.getElem?_eq_getElem hltj, h1]
        · rw [take_succ_of_getElem? (List.getElem?_eq_getElem hltj), ← h2]; simp
        · simp [← h3]
        · exact noDoubleGap_append h4 (by intro c hc; simp at hc; simp [hc])
      · exact stop 0 (j+1) (by rw [tbLocal]; simp [r3, r1, c2]) r1 c2 r3
    | i+1, j+1 =>
      have hlti : i < b.length := by omega
      have hltj : j < a.length := by omega
      by_cases c3 : tb (i+1) (j+1) = 3
      · obtain ⟨i0, j0, cols, h1, hi0, hj0, h2, h3, h4, h5⟩ :=
          ih (i + (j+1)) (by omega) i (j+1) rfl ((none, some b[i]) :: acc) (by omega) hl
        refine ⟨i0, j0, cols ++ [(none, some b[i])], ?_, by omega, hj0, ?_, ?_, ?_, h5⟩
        · rw [tbLocal]; simp [c3, List.getElem?_eq_getElem hlti, h1]
        · simp [← h2]
        · rw [take_succ_of_getElem? (List.getElem?_eq_getElem hlti), ← h3]; simp
        · exact noDoubleGap_append h4 (by intro c hc; simp at hc; simp [hc])
      · by_cases c1 : tb (i+1) (j+1) = 1
        · obtain ⟨i0, j0, cols, h1, hi0, hj0, h2, h3, h4, h5⟩ :=
            ih (i + j) (by omega) i j rfl ((some a[j], some b[i]) :: acc) (by omega) (by omega)
          refine ⟨i0, j0, cols ++ [(some a[j], some b[i])], ?_, by omega, by omega, ?_, ?_, ?_, h5⟩
          · rw [tbLocal]; simp [c3, c1, List.getElem?_eq_getElem hlti, List.getElem?_eq_getElem hltj, h1]
          · rw [take_succ_of_getElem? (List.getElem?_eq_getElem hltj), ← h2]; simp
          · rw [take_succ_of_getElem? (List.getElem?_eq_getElem hlti), ← h3]; simp
          · exact noDoubleGap_append h4 (by intro c hc; simp at hc; simp [hc])
        · by_cases c2 : tb (i+1) (j+1) = 2
          · obtain ⟨i0, j0, cols, h1, hi0, hj0, h2, h3, h4, h5⟩ :=
              ih ((i+1) + j) (by omega) (i+1) j rfl ((some a[j], none) :: acc) hk (by omega)
            refine ⟨i0, j0, cols ++ [(some a[j], none)], ?_, hi0, by omega, ?_, ?_, ?_, h5⟩
            · rw [tbLocal]; simp [c3, c1, c2, List.getElem?_eq_getElem hltj, h1]
            · rw [take_succ_of_getElem? (List.getElem?_eq_getElem hltj), ← h2]; simp
            · simp [← h3]
            · exact noDoubleGap_append h4 (by intro c hc; simp at hc; simp [hc])
          · exact stop (i+1) (j+1) (by rw [tbLocal]; simp [c3, c1, c2]) c1 c2 c3

end Verif.Align
