import Mathlib.Algebra.Order.Field.Rat
import Mathlib.Data.Rat.Defs
import Mathlib.Tactic.Linarith
import Mathlib.Tactic.Ring
import Mathlib.Tactic.NormNum
import Verif.Lemmas.KernelMono
/-!
The rational numbers as a score carrier: exact arithmetic for the theorems that need a field
(Neighbor-Joining on tree metrics, self-distance).  `ScoreLaws ℚ` holds, so every order-dependent
theorem proved over `ScoreLaws` carriers applies.
-/
namespace Verif.Align
open ScoreOps ScoreLaws

instance : ScoreOps ℚ where
  add := (· + ·)
  sub := (· - ·)
  mul := (· * ·)
  div := (· / ·)
  sum := List.sum
  half := (· / 2)
  le a b := decide (a ≤ b)
  lt a b := decide (a < b)
  zero := 0
  one := 1
  big := 1000000
  ofNat := fun n => (n : ℚ)

instance : ScoreLaws ℚ where
  le_iff a b := by simp [ScoreOps.le]
  lt_iff a b := by simp [ScoreOps.lt]
  add_mono_l a b c h := by simp only [ScoreOps.add]; linarith
  add_mono_r a b c h := by simp only [ScoreOps.add]; linarith
  sub_mono_l a b c h := by simp only [ScoreOps.sub]; linarith

@[simp] theorem q_add (a b : ℚ) : ScoreOps.add a b = a + b := rfl
@[simp] theorem q_sub (a b : ℚ) : ScoreOps.sub a b = a - b := rfl
@[simp] theorem q_mul (a b : ℚ) : ScoreOps.mul a b = a * b := rfl
@[simp] theorem q_half (a : ℚ) : ScoreOps.half a = a / 2 := rfl
@[simp] theorem q_big : (ScoreOps.big : ℚ) = 1000000 := rfl
@[simp] theorem q_le (a b : ℚ) : (ScoreOps.le a b = true) ↔ a ≤ b := by simp [ScoreOps.le]
@[simp] theorem q_lt (a b : ℚ) : (ScoreOps.lt a b = true) ↔ a < b := by simp [ScoreOps.lt]
@[simp] theorem q_div (a b : ℚ) : ScoreOps.div a b = a / b := rfl
@[simp] theorem q_sum (l : List ℚ) : ScoreOps.sum l = l.sum := rfl
@[simp] theorem q_zero : (ScoreOps.zero : ℚ) = 0 := rfl
@[simp] theorem q_one : (ScoreOps.one : ℚ) = 1 := rfl
@[simp] theorem q_ofNat (n : Nat) : (ScoreOps.ofNat n : ℚ) = (n : ℚ) := rfl


end Verif.Align

