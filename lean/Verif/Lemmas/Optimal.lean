import Mathlib.Tactic.Order
import Mathlib.Order.Defs.LinearOrder
import Verif.Lemmas.Rescore
set_option linter.unusedSectionVars false
set_option linter.unusedSimpArgs false
/-!
C03 (optimality) at the level of an abstract affine kernel over a linearly ordered carrier:
if the candidates are monotone in the predecessor value and do not depend on the predecessor
move (the classical scheme, `scale = 1`), and the selection returns a value that dominates
all candidates, then every cell dominates the score of **every** path that reaches it.
Only monotonicity is used – no associativity, no distributivity.
-/
namespace Verif.Align
open ScoreOps
variable {S : Type} [Inhabited S] [LinearOrder S]

/-- `r` is the comparison ("is dominated by"): `≤` for similarity kernels, `≥` for the
edit-distance kernel.  Only transitivity of `r` is ever used. -/
structure MonoR (r : S → S → Prop) (K : AffKernel S) : Prop where
  up : ∀ i j (c c' : Cell S), r c.1 c'.1 → r (K.candUp i j c) (K.candUp i j c')
  left : ∀ i j (c c' : Cell S), r c.1 c'.1 → r (K.candLeft i j c) (K.candLeft i j c')
  diag : ∀ i j (v v' : S), r v v' → r (K.candDiag i j v) (K.candDiag i j v')
  row0 : ∀ j (c c' : Cell S), r c.1 c'.1 → r (K.row0 j c).1 (K.row0 j c').1
  col0 : ∀ i (c c' : Cell S), r c.1 c'.1 → r (K.col0 i c).1 (K.col0 i c').1
  choose : ∀ a m b, r a (K.choose a m b).1 ∧ r m (K.choose a m b).1 ∧ r b (K.choose a m b).1

abbrev MonoK (K : AffKernel S) : Prop := MonoR (· ≤ ·) K

omit [LinearOrder S] in
/-- one re-scoring step keeps the bound "state value is dominated by the table cell" -/
theorem rsStep_r (r : S → S → Prop) (rt : ∀ a b c, r a b → r b c → r a c)
    (K : AffKernel S) (hK : MonoR r K) (M : Nat) (st : RS S) (m : Mv)
    (hj : (rsStep K st m).j ≤ M)
    (h : r st.cur.1 (T K.toFill M st.i st.j).1) :
    r (rsStep K st m).cur.1 (T K.toFill M (rsStep K st m).i (rsStep K st m).j).1 := by
  obtain ⟨i, j, cur⟩ := st
  cases m with
  | up =>
    simp only [rsStep] at hj ⊢
    cases j with
    | zero =>
      simp only [if_true]
      rw [T_col0]
      exact hK.col0 _ _ _ h
    | succ j =>
      simp only [Nat.succ_ne_zero, if_false, Nat.add_one_ne_zero]
      rw [T_inner_aff K M i j (by omega)]
      exact rt _ _ _ (hK.up _ _ _ _ h) (hK.choose _ _ _).1
  | left =>
    simp only [rsStep] at hj ⊢
    cases i with
    | zero =>
      simp only [if_true]
      rw [T_row0 _ _ _ (by omega)]
      exact hK.row0 _ _ _ h
    | succ i =>
      simp only [Nat.add_one_ne_zero, if_false]
      rw [T_inner_aff K M i j (by omega)]
      exact rt _ _ _ (hK.left _ _ _ _ h) (hK.choose _ _ _).2.2
  | diag =>
    simp only [rsStep] at hj ⊢
    rw [T_inner_aff K M i j (by omega)]
    exact rt _ _ _ (hK.diag _ _ _ _ h) (hK.choose _ _ _).2.1

theorem rsStep_le (K : AffKernel S) (hK : MonoK K) (M : Nat) (st : RS S) (m : Mv)
    (hj : (rsStep K st m).j ≤ M)
    (h : st.cur.1 ≤ (T K.toFill M st.i st.j).1) :
    (rsStep K st m).cur.1 ≤ (T K.toFill M (rsStep K st m).i (rsStep K st m).j).1 :=
  rsStep_r (· ≤ ·) (fun _ _ _ => le_trans) K hK M st m hj h

omit [LinearOrder S] in
theorem rsStep_j_mono (K : AffKernel S) (st : RS S) (m : Mv) : st.j ≤ (rsStep K st m).j := by
  cases m <;> simp [rsStep]

omit [LinearOrder S] in
theorem rescore_j_mono (K : AffKernel S) (ms : List Mv) (st : RS S) : st.j ≤ (rescore K st ms).j := by
  induction ms generalizing st with
  | nil => simp [rescore]
  | cons m ms ih =>
    simp only [rescore, List.foldl_cons]
    exact Nat.le_trans (rsStep_j_mono K st m) (ih _)

omit [LinearOrder S] in
/-- every path scored from a state dominated by its cell ends in a state dominated by its cell -/
theorem rescore_r (r : S → S → Prop) (rt : ∀ a b c, r a b → r b c → r a c)
    (K : AffKernel S) (hK : MonoR r K) (M : Nat) (ms : List Mv) (st : RS S)
    (hj : (rescore K st ms).j ≤ M)
    (h : r st.cur.1 (T K.toFill M st.i st.j).1) :
    r (rescore K st ms).cur.1 (T K.toFill M (rescore K st ms).i (rescore K st ms).j).1 := by
  induction ms generalizing st with
  | nil => simpa [rescore] using h
  | cons m ms ih =>
    simp only [rescore, List.foldl_cons] at hj ⊢
    apply ih _ hj
    apply rsStep_r r rt K hK M st m _ h
    exact Nat.le_trans (rescore_j_mono K ms _) hj

/-- **Upper bound**: every path scored from a state that is dominated by its cell ends in a
state dominated by its cell. -/
theorem rescore_le (K : AffKernel S) (hK : MonoK K) (M : Nat) (ms : List Mv) (st : RS S)
    (hj : (rescore K st ms).j ≤ M)
    (h : st.cur.1 ≤ (T K.toFill M st.i st.j).1) :
    (rescore K st ms).cur.1 ≤ (T K.toFill M (rescore K st ms).i (rescore K st ms).j).1 := by
  induction ms generalizing st with
  | nil => simpa [rescore] using h
  | cons m ms ih =>
    simp only [rescore, List.foldl_cons] at hj ⊢
    apply ih _ hj
    apply rsStep_le K hK M st m _ h
    exact le_trans (rescore_j_mono K ms _) hj

omit [LinearOrder S] in
/-- positions reached by a move list -/
theorem rescore_pos (K : AffKernel S) (ms : List Mv) (st : RS S) :
    (rescore K st ms).i = st.i + (ms.filter (· ≠ .left)).length ∧
    (rescore K st ms).j = st.j + (ms.filter (· ≠ .up)).length := by
  induction ms generalizing st with
  | nil => simp [rescore]
  | cons m ms ih =>
    simp only [rescore, List.foldl_cons]
    have := ih (rsStep K st m)
    simp only [rescore] at this
    rw [this.1, this.2]
    cases m <;> simp [rsStep] <;> omega

end Verif.Align
