import Verif.Model.Align
/-!
Refinement lemmas for the row-by-row fill: the materialised table satisfies the four
cell equations (corner, first row, first column, inner cell from its three neighbours).
This is the only place where list indexing is reasoned about.
-/
namespace Verif.Align
variable {S : Type}

theorem firstRow_length (F : Fill S) (n j : Nat) (p : Cell S) : (firstRow F n j p).length = n := by
  induction n generalizing j p with
  | zero => simp [firstRow]
  | succ n ih => simp [firstRow, ih]

theorem firstRow_getD (F : Fill S) (d : Cell S) (n j : Nat) (p : Cell S) (k : Nat) (hk : k < n) :
    (p :: firstRow F n j p).getD (k+1) d = F.row0 (j+k) ((p :: firstRow F n j p).getD k d) := by
  induction n generalizing j p k with
  | zero => omega
  | succ n ih =>
    cases k with
    | zero => simp [firstRow]
    | succ k =>
      have := ih (j+1) (F.row0 j p) k (by omega)
      simp only [firstRow, List.getD_cons_succ] at this ⊢
      rw [this]
      congr 1
      omega

theorem rowFrom_length (F : Fill S) (i : Nat) (prev : List (List (Cell S))) (j : Nat) (l ul : Cell S)
    (ups : List (Cell S)) : (rowFrom F i prev j l ul ups).length = ups.length := by
  induction ups generalizing j l ul with
  | nil => simp [rowFrom]
  | cons u us ih => simp [rowFrom, ih]

theorem rowFrom_getD (F : Fill S) (d : Cell S) (i : Nat) (prev : List (List (Cell S))) (j : Nat) (l ul : Cell S)
    (ups : List (Cell S)) (k : Nat) (hk : k < ups.length) :
    (l :: rowFrom F i prev j l ul ups).getD (k+1) d =
      F.inner i (j+k) prev ((ul :: ups).getD (k+1) d) ((l :: rowFrom F i prev j l ul ups).getD k d)
        ((ul :: ups).getD k d) := by
  induction ups generalizing j l ul k with
  | nil => simp at hk
  | cons u us ih =>
    cases k with
    | zero => simp [rowFrom]
    | succ k =>
      have := ih (j+1) (F.inner i j prev u l ul) u k (by simpa using hk)
      simp only [rowFrom, List.getD_cons_succ] at this ⊢
      rw [this]
      congr 1
      omega

theorem rowsRev_ne_nil (F : Fill S) (M n : Nat) : rowsRev F M n ≠ [] := by
  cases n <;> simp [rowsRev]

theorem rowAt_zero (F : Fill S) (M : Nat) : rowAt F M 0 = F.corner :: firstRow F M 1 F.corner := by
  simp [rowAt, rowsRev]

theorem rowsRev_succ (F : Fill S) (M n : Nat) :
    rowsRev F M (n+1) = nextRow F (n+1) (rowsRev F M n) :: rowsRev F M n := by
  simp [rowsRev]

theorem rowsRev_eq_cons (F : Fill S) (M n : Nat) : ∃ tl, rowsRev F M n = rowAt F M n :: tl := by
  cases n with
  | zero => exact ⟨[], by simp [rowAt, rowsRev]⟩
  | succ n => exact ⟨rowsRev F M n, by simp [rowAt, rowsRev]⟩

theorem rowAt_length (F : Fill S) (M n : Nat) : (rowAt F M n).length = M + 1 := by
  induction n with
  | zero => simp [rowAt_zero, firstRow_length]
  | succ n ih =>
    obtain ⟨tl, htl⟩ := rowsRev_eq_cons F M n
    have hlen := ih
    simp only [rowAt, rowsRev_succ, List.headD_cons]
    rw [htl]
    cases hr : rowAt F M n with
    | nil => simp [hr] at hlen
    | cons u us =>
      simp only [nextRow, List.length_cons, rowFrom_length]
      simp [hr] at hlen
      omega

theorem rowAt_succ (F : Fill S) (M n : Nat) :
    ∃ u us, rowAt F M n = u :: us ∧
      rowAt F M (n+1) = F.col0 (n+1) u :: rowFrom F (n+1) (rowsRev F M n) 1 (F.col0 (n+1) u) u us := by
  obtain ⟨tl, htl⟩ := rowsRev_eq_cons F M n
  have hlen := rowAt_length F M n
  cases hr : rowAt F M n with
  | nil => simp [hr] at hlen
  | cons u us =>
    refine ⟨u, us, rfl, ?_⟩
    simp only [rowAt, rowsRev_succ, List.headD_cons]
    rw [htl, hr]
    simp [nextRow]

section T
variable [Inhabited S]

theorem T_corner (F : Fill S) (M : Nat) : T F M 0 0 = F.corner := by
  simp [T, rowAt_zero]

theorem T_row0 (F : Fill S) (M j : Nat) (hj : j < M) :
    T F M 0 (j+1) = F.row0 (j+1) (T F M 0 j) := by
  simp only [T, rowAt_zero]
  rw [firstRow_getD F _ M 1 F.corner j hj]
  congr 1
  omega

theorem T_col0 (F : Fill S) (M i : Nat) : T F M (i+1) 0 = F.col0 (i+1) (T F M i 0) := by
  obtain ⟨u, us, h1, h2⟩ := rowAt_succ F M i
  simp [T, h1, h2]

theorem T_inner (F : Fill S) (M i j : Nat) (hj : j < M) :
    T F M (i+1) (j+1) =
      F.inner (i+1) (j+1) (rowsRev F M i) (T F M i (j+1)) (T F M (i+1) j) (T F M i j) := by
  obtain ⟨u, us, h1, h2⟩ := rowAt_succ F M i
  have hlen := rowAt_length F M i
  rw [h1] at hlen
  simp only [T, h1, h2]
  rw [rowFrom_getD F _ (i+1) (rowsRev F M i) 1 (F.col0 (i+1) u) u us j (by simp at hlen; omega)]
  congr 1
  omega

omit [Inhabited S] in
/-- the rows stored in the materialised table are the specification rows -/
theorem rowsRev_getD (F : Fill S) (M N i : Nat) (hi : i ≤ N) :
    (rowsRev F M N).getD (N - i) [] = rowAt F M i := by
  induction N with
  | zero =>
    have : i = 0 := by omega
    subst this
    simp [rowAt, rowsRev]
  | succ n ih =>
    by_cases h : i = n+1
    · subst h
      simp [rowAt, rowsRev]
    · have hle : i ≤ n := by omega
      have : n + 1 - i = (n - i) + 1 := by omega
      rw [this, rowsRev_succ, List.getD_cons_succ]
      exact ih hle

theorem getCell_eq_T (F : Fill S) (M N i j : Nat) (hi : i ≤ N) :
    getCell (rowsRev F M N) N i j = T F M i j := by
  unfold getCell T
  rw [rowsRev_getD F M N i hi]

end T
end Verif.Align
