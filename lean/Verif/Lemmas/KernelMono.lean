import Verif.Lemmas.Optimal
set_option linter.unusedSectionVars false
set_option linter.unusedSimpArgs false
/-!
The concrete kernels of the family satisfy `MonoK` when the scheme is the classical one
(`scale = 1`, i.e. `g * scale = g`) over a carrier with a total order and monotone `+`/`-`.
-/
namespace Verif.Align
open ScoreOps

/-- Order laws used by the optimality theorems.  Proved for `Int` below; for IEEE doubles
restricted to finite values they are facts about round-to-nearest addition (trusted base). -/
class ScoreLaws (S : Type) [ScoreOps S] [LinearOrder S] : Prop where
  le_iff : ∀ a b : S, ScoreOps.le a b = true ↔ a ≤ b
  lt_iff : ∀ a b : S, ScoreOps.lt a b = true ↔ a < b
  add_mono_l : ∀ a b c : S, a ≤ b → add a c ≤ add b c
  add_mono_r : ∀ a b c : S, a ≤ b → add c a ≤ add c b
  sub_mono_l : ∀ a b c : S, a ≤ b → sub a c ≤ sub b c

instance : ScoreLaws Int where
  le_iff a b := by simp [ScoreOps.le]
  lt_iff a b := by simp [ScoreOps.lt]
  add_mono_l a b c h := by simp only [ScoreOps.add]; omega
  add_mono_r a b c h := by simp only [ScoreOps.add]; omega
  sub_mono_l a b c h := by simp only [ScoreOps.sub]; omega

variable {S : Type} [ScoreOps S] [Inhabited S] [LinearOrder S] [ScoreLaws S]
open ScoreLaws

theorem chooseGlobal_max (cfg : Cfg) (a m b : S) :
    a ≤ (chooseGlobal cfg a m b).1 ∧ m ≤ (chooseGlobal cfg a m b).1 ∧ b ≤ (chooseGlobal cfg a m b).1 := by
  unfold chooseGlobal
  cases cfg.strictA <;> cases cfg.geM <;>
    simp only [Bool.false_eq_true, if_false, if_true, Bool.and_eq_true, le_iff, lt_iff] <;>
    (split
     · rename_i h; refine ⟨le_refl _, ?_, ?_⟩ <;> order
     · split
       · rename_i h1 h2
         refine ⟨?_, le_refl _, ?_⟩
         · by_cases hc : b ≤ a
           · have : ¬ _ := fun x => h1 ⟨x, hc⟩
             order
           · order
         · order
       · rename_i h1 h2
         refine ⟨?_, ?_, le_refl _⟩
         · by_cases hc : b ≤ a
           · have : ¬ _ := fun x => h1 ⟨x, hc⟩
             order
           · order
         · order)

theorem chooseLocal_max (cfg : Cfg) (a m b : S) :
    a ≤ (chooseLocal cfg a m b).1 ∧ m ≤ (chooseLocal cfg a m b).1 ∧ b ≤ (chooseLocal cfg a m b).1 ∧
      zero ≤ (chooseLocal cfg a m b).1 := by
  unfold chooseLocal
  cases cfg.strictA <;> cases cfg.geM <;>
    simp only [Bool.false_eq_true, if_false, if_true, Bool.and_eq_true, le_iff, lt_iff] <;>
    (split
     · rename_i h; refine ⟨le_refl _, ?_, ?_, ?_⟩ <;> order
     · split
       · rename_i h1 h2
         refine ⟨?_, le_refl _, ?_, ?_⟩
         · by_cases hc : b ≤ a ∧ (zero : S) ≤ a
           · have : ¬ _ := fun x => h1 ⟨⟨x, hc.1⟩, hc.2⟩
             order
           · by_cases hb : b ≤ a
             · have : ¬ (zero : S) ≤ a := fun x => hc ⟨hb, x⟩
               order
             · order
         · order
         · order
       · rename_i h1 h2
         split
         · rename_i h3
           refine ⟨?_, ?_, le_refl _, h3⟩
           · by_cases hc : b ≤ a ∧ (zero : S) ≤ a
             · have : ¬ _ := fun x => h1 ⟨⟨x, hc.1⟩, hc.2⟩
               by_cases hm : (zero : S) ≤ m
               · have : ¬ _ := fun x => h2 ⟨x, hm⟩
                 order
               · order
             · by_cases hb : b ≤ a
               · have : ¬ (zero : S) ≤ a := fun x => hc ⟨hb, x⟩
                 order
               · order
           · by_cases hm : (zero : S) ≤ m
             · have : ¬ _ := fun x => h2 ⟨x, hm⟩
               order
             · order
         · rename_i h3
           refine ⟨?_, ?_, ?_, le_refl _⟩
           · by_cases hc : b ≤ a ∧ (zero : S) ≤ a
             · have : ¬ _ := fun x => h1 ⟨⟨x, hc.1⟩, hc.2⟩
               by_cases hm : (zero : S) ≤ m
               · have : ¬ _ := fun x => h2 ⟨x, hm⟩
                 order
               · order
             · by_cases hb : b ≤ a
               · have : ¬ (zero : S) ≤ a := fun x => hc ⟨hb, x⟩
                 order
               · order
           · by_cases hm : (zero : S) ≤ m
             · have : ¬ _ := fun x => h2 ⟨x, hm⟩
               order
             · order
           · order)


theorem candUp_mono (cfg : Cfg) (inp : Input S) (hs : ∀ g : S, mul g inp.scale = g) (i j : Nat)
    (c c' : Cell S) (h : c.1 ≤ c'.1) : candUp cfg inp i j c ≤ candUp cfg inp i j c' := by
  unfold candUp
  simp only [hs]
  repeat' split
  all_goals first | exact h | exact sub_mono_l _ _ _ h | exact add_mono_l _ _ _ h

theorem candLeft_mono (cfg : Cfg) (inp : Input S) (hs : ∀ g : S, mul g inp.scale = g) (i j : Nat)
    (c c' : Cell S) (h : c.1 ≤ c'.1) : candLeft cfg inp i j c ≤ candLeft cfg inp i j c' := by
  unfold candLeft
  simp only [hs]
  repeat' split
  all_goals first | exact h | exact sub_mono_l _ _ _ h | exact add_mono_l _ _ _ h

theorem candDiag_mono (cfg : Cfg) (inp : Input S) (i j : Nat)
    (v v' : S) (h : v ≤ v') : candDiag cfg inp i j v ≤ candDiag cfg inp i j v' := by
  unfold candDiag
  simp only
  split
  · exact add_mono_l _ _ _ h
  · split
    · exact add_mono_r _ _ _ (add_mono_l _ _ _ h)
    · split
      · exact add_mono_r _ _ _ (sub_mono_l _ _ _ h)
      · split
        · exact add_mono_r _ _ _ (add_mono_l _ _ _ h)
        · exact add_mono_r _ _ _ h

/-- The kernels of the family are monotone under the classical scheme (global / overlap). -/
theorem kernel_monoK (cfg : Cfg) (inp : Input S) (hm : cfg.mode ≠ .local)
    (hs : ∀ g : S, mul g inp.scale = g) : MonoK (kernelOf cfg inp) where
  up := candUp_mono cfg inp hs
  left := candLeft_mono cfg inp hs
  diag := candDiag_mono cfg inp
  row0 := by
    intro j c c' h
    simp only [kernelOf, hm, if_false]
    split
    · exact add_mono_l _ _ _ h
    · split
      · exact add_mono_l _ _ _ h
      · exact le_refl _
  col0 := by
    intro i c c' h
    simp only [kernelOf, hm, if_false]
    split
    · exact add_mono_l _ _ _ h
    · split
      · exact add_mono_l _ _ _ h
      · exact le_refl _
  choose := by
    intro a m b
    simp only [kernelOf, hm, if_false]
    exact chooseGlobal_max cfg a m b

/-- … and in local mode (zero borders, zero floor). -/
theorem kernel_monoK_local (cfg : Cfg) (inp : Input S) (hm : cfg.mode = .local)
    (hs : ∀ g : S, mul g inp.scale = g) : MonoK (kernelOf cfg inp) where
  up := candUp_mono cfg inp hs
  left := candLeft_mono cfg inp hs
  diag := candDiag_mono cfg inp
  row0 := by intro j c c' _; simp [kernelOf, hm]
  col0 := by intro i c c' _; simp [kernelOf, hm]
  choose := by
    intro a m b
    simp only [kernelOf, hm, if_true]
    have := chooseLocal_max cfg a m b
    exact ⟨this.1, this.2.1, this.2.2.1⟩

end Verif.Align
