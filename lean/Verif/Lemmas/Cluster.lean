import Verif.Model.Cluster
set_option linter.unusedSectionVars false
set_option linter.unusedSimpArgs false
/-!
Structural lemmas about the flat-clustering model: the merge step up to permutation,
validity of the scanned position pairs, membership of the selected pair.
-/
namespace Verif.Cluster
open Verif.Align ScoreOps

theorem getElem_cons_eraseIdx_perm {α : Type} (l : List α) (i : Nat) (h : i < l.length) :
    (l[i] :: l.eraseIdx i).Perm l := by
  induction l generalizing i with
  | nil => simp at h
  | cons x xs ih =>
    cases i with
    | zero => simp
    | succ i =>
      simp only [List.length_cons] at h
      simp only [List.getElem_cons_succ, List.eraseIdx_cons_succ]
      exact (List.Perm.swap _ _ _).trans (List.Perm.cons _ (ih i (by omega)))

theorem takeOut_some (cs : St) (q : Nat) (hq : q < cs.length) :
    ∃ r, takeOut cs q = some (cs[q], r) ∧ (cs[q] :: r).Perm cs ∧ r.length + 1 = cs.length ∧
      ∀ p (hp : p < cs.length), p ≠ q → r[if p < q then p else p - 1]? = some cs[p] := by
  induction cs generalizing q with
  | nil => simp at hq
  | cons c cs ih =>
    cases q with
    | zero =>
      refine ⟨cs, by simp [takeOut], List.Perm.refl _, by simp, ?_⟩
      intro p hp hne
      cases p with
      | zero => omega
      | succ p => simp at hp ⊢
    | succ q =>
      simp only [List.length_cons] at hq
      obtain ⟨r, h1, h2, h3, h4⟩ := ih q (by omega)
      refine ⟨c :: r, by simp [takeOut, h1], ?_, by simp; omega, ?_⟩
      · simp only [List.getElem_cons_succ]
        exact (List.Perm.swap _ _ _).trans (List.Perm.cons _ h2)
      · intro p hp hne
        cases p with
        | zero => simp
        | succ p =>
          simp only [List.length_cons] at hp
          have := h4 p (by omega) (by omega)
          by_cases hpq : p < q
          · simp only [hpq, if_true] at this
            simp [show p + 1 < q + 1 by omega, this]
          · simp only [hpq, if_false] at this
            have hp1 : 1 ≤ p := by omega
            simp only [show ¬ (p + 1 < q + 1) by omega, if_false, Nat.add_sub_cancel,
              List.getElem_cons_succ]
            obtain ⟨p', rfl⟩ : ∃ p', p = p' + 1 := ⟨p - 1, by omega⟩
            simpa using this

theorem addTo_perm (r : St) (p : Nat) (B : List Nat) (hp : p < r.length) :
    (addTo r p B).Perm ((r[p].1, r[p].2 ++ B) :: r.eraseIdx p) := by
  induction r generalizing p with
  | nil => simp at hp
  | cons c cs ih =>
    cases p with
    | zero => simp [addTo]
    | succ p =>
      simp only [List.length_cons] at hp
      have := ih p (by omega)
      simp only [addTo, List.getElem_cons_succ, List.eraseIdx_cons_succ]
      exact (List.Perm.cons _ this).trans (List.Perm.swap _ _ _)

theorem addTo_length (r : St) (p : Nat) (B : List Nat) : (addTo r p B).length = r.length := by
  induction r generalizing p with
  | nil => simp [addTo]
  | cons c cs ih => cases p <;> simp [addTo, ih]

/-- **The merge step up to permutation of the cluster list.** -/
theorem mergeAt_perm (cs : St) (p q : Nat) (hp : p < cs.length) (hq : q < cs.length) (hne : p ≠ q) :
    ∃ rest, (cs[p] :: cs[q] :: rest).Perm cs ∧
      (mergeAt cs p q).Perm ((cs[p].1, cs[p].2 ++ cs[q].2) :: rest) ∧
      (mergeAt cs p q).length + 1 = cs.length := by
  obtain ⟨r, h1, h2, h3, h4⟩ := takeOut_some cs q hq
  have h5 := h4 p hp hne
  generalize hp' : (if p < q then p else p - 1) = p' at h5
  have hp'lt : p' < r.length := by
    by_cases hc : p' < r.length
    · exact hc
    · rw [List.getElem?_eq_none (by omega)] at h5
      cases h5
  have h6 : r[p'] = cs[p] := by
    rw [List.getElem?_eq_getElem hp'lt] at h5
    exact Option.some.inj h5
  refine ⟨r.eraseIdx p', ?_, ?_, ?_⟩
  · have : (r[p'] :: r.eraseIdx p').Perm r := getElem_cons_eraseIdx_perm r p' hp'lt
    rw [h6] at this
    exact ((List.Perm.swap _ _ _).trans (List.Perm.cons _ this)).trans h2
  · simp only [mergeAt, h1, hp']
    have := addTo_perm r p' cs[q].2 hp'lt
    rw [h6] at this
    exact this
  · simp only [mergeAt, h1, hp', addTo_length]
    exact h3

variable {S : Type} [ScoreOps S]

/-- every scanned pair is a pair of distinct valid positions with its linkage value -/
theorem pairScores_valid (cfg : Cfg) (M : Nat → Nat → S) (cs : St) (x : (Nat × Nat) × S)
    (hx : x ∈ pairScores cfg M cs) :
    ∃ (hp : x.1.1 < cs.length) (hq : x.1.2 < cs.length), x.1.1 ≠ x.1.2 ∧
      x.2 = linkage cfg.link M cs[x.1.1].2 cs[x.1.2].2 := by
  simp only [pairScores, List.mem_flatMap, List.mem_filterMap] at hx
  obtain ⟨a, ha, b, hb, hab⟩ := hx
  obtain ⟨a1, ai⟩ := a
  obtain ⟨b1, bi⟩ := b
  rw [List.mem_zipIdx_iff_getElem?] at ha hb
  simp only [Nat.zero_add] at ha hb
  have hai : ai < cs.length := by
    by_cases h : ai < cs.length
    · exact h
    · rw [List.getElem?_eq_none (by omega)] at ha; cases ha
  have hbi : bi < cs.length := by
    by_cases h : bi < cs.length
    · exact h
    · rw [List.getElem?_eq_none (by omega)] at hb; cases hb
  rw [List.getElem?_eq_getElem hai] at ha
  rw [List.getElem?_eq_getElem hbi] at hb
  by_cases hc : (if cfg.unordered then decide (ai < bi) else ai != bi) = true
  · simp only [hc, if_true, Option.some.injEq] at hab
    subst hab
    refine ⟨hai, hbi, ?_, ?_⟩
    · simp only
      cases hu : cfg.unordered <;> simp [hu] at hc <;> omega
    · simp only [← Option.some.inj ha, ← Option.some.inj hb]
  · simp only [hc] at hab
    cases hab

theorem argMin_mem (lastMin : Bool) (l : List ((Nat × Nat) × S)) (x : (Nat × Nat) × S)
    (h : argMin lastMin l = some x) : x ∈ l := by
  cases l with
  | nil => simp [argMin] at h
  | cons y ys =>
    simp only [argMin, Option.some.injEq] at h
    subst h
    have : ∀ (ys : List ((Nat × Nat) × S)) (acc : (Nat × Nat) × S),
        (ys.foldl (fun acc y => if (if lastMin then le y.2 acc.2 else lt y.2 acc.2) then y else acc) acc) = acc ∨
        (ys.foldl (fun acc y => if (if lastMin then le y.2 acc.2 else lt y.2 acc.2) then y else acc) acc) ∈ ys := by
      intro ys
      induction ys with
      | nil => intro acc; simp
      | cons z zs ih =>
        intro acc
        simp only [List.foldl_cons]
        by_cases hc : (if lastMin then le z.2 acc.2 else lt z.2 acc.2) = true
        · simp only [hc, if_true]
          rcases ih z with h | h
          · right; rw [h]; simp
          · right; exact List.mem_cons_of_mem _ h
        · simp only [hc, if_false]
          rcases ih acc with h | h
          · left; exact h
          · right; exact List.mem_cons_of_mem _ h
    rcases this ys y with h | h
    · rw [h]; simp
    · exact List.mem_cons_of_mem _ h

/-- the offered merge joins two distinct valid positions -/
theorem next_spec (cfg : Cfg) (M : Nat → Nat → S) (cs : St) (m : S) (cs' : St)
    (h : next cfg M cs = some (m, cs')) :
    ∃ p q, ∃ (hp : p < cs.length) (hq : q < cs.length), p ≠ q ∧ cs' = mergeAt cs p q ∧
      m = linkage cfg.link M cs[p].2 cs[q].2 ∧ ((p, q), m) ∈ pairScores cfg M cs := by
  unfold next at h
  split at h
  · cases h
  · split at h
    · cases h
    · rename_i p q m' heq
      cases h
      have hmem := argMin_mem _ _ _ heq
      obtain ⟨hp, hq, hne, hl⟩ := pairScores_valid cfg M cs _ hmem
      exact ⟨p, q, hp, hq, hne, rfl, hl, hmem⟩

end Verif.Cluster
