import Verif.Lemmas.Rescore
set_option linter.unusedSimpArgs false
set_option linter.unusedSectionVars false
/-!
C02 over an **arbitrary observed table**: if every cell of a table holds *one of* the scheme's
candidates computed from its observed neighbours (and the borders are the scheme's borders),
re-scoring the traceback path reproduces the cell the traceback started from.  Maximality of the
choice is not needed, so tie rules and even sub-optimal choices cannot disturb this tie.
-/
namespace Verif.Align
open ScoreOps
variable {S : Type} [ScoreOps S] [Inhabited S] {α : Type}

/-- the observed table is a legal table of kernel `K` (global type) -/
structure TableOkG (K : AffKernel S) (T : Nat → Nat → Cell S) (N M : Nat) : Prop where
  corner : T 0 0 = K.corner
  row : ∀ j, j < M → T 0 (j+1) = K.row0 (j+1) (T 0 j)
  col : ∀ i, i < N → T (i+1) 0 = K.col0 (i+1) (T i 0)
  inner : ∀ i j, i < N → j < M →
    T (i+1) (j+1) = (K.candUp (i+1) (j+1) (T i (j+1)), 3) ∨
    T (i+1) (j+1) = (K.candDiag (i+1) (j+1) (T i j).1, 1) ∨
    T (i+1) (j+1) = (K.candLeft (i+1) (j+1) (T (i+1) j), 2)

omit [ScoreOps S] [Inhabited S] in
theorem rescore_tbGlobal_of_table (K : AffKernel S)
    (hrow : ∀ j c, (K.row0 j c).2 ≠ 3 ∧ (K.row0 j c).2 ≠ 1) (hcol : ∀ i c, (K.col0 i c).2 = 3)
    (a b : List α) (N M : Nat) (hN : N ≤ b.length) (hM : M ≤ a.length)
    (T : Nat → Nat → Cell S) (hT : TableOkG K T N M) :
    ∀ (i j : Nat) (acc : List (Col α)), i ≤ N → j ≤ M →
      ∃ cols, tbGlobal (fun i j => (T i j).2) a b i j acc = some (cols ++ acc) ∧
        rescore K ⟨0, 0, K.corner⟩ (movesOf cols) = ⟨i, j, T i j⟩ := by
  intro i j
  induction h : i + j using Nat.strongRecOn generalizing i j with
  | _ n ih =>
    intro acc hi hj
    match i, j with
    | 0, 0 =>
      exact ⟨[], by simp [tbGlobal], by simp [rescore, hT.corner]⟩
    | i+1, 0 =>
      have hlt : i < b.length := by omega
      have hc := hT.col i (by omega)
      have h3 : (T (i+1) 0).2 = 3 := by rw [hc]; exact hcol _ _
      obtain ⟨cols, h1, h2⟩ := ih (i + 0) (by omega) i 0 rfl ((none, some b[i]) :: acc) (by omega) hj
      refine ⟨cols ++ [(none, some b[i])], ?_, ?_⟩
      · rw [tbGlobal]; simp [h3, List.getElem?_eq_getElem hlt, h1]
      · rw [movesOf_append, movesOf_up, rescore_snoc, h2]
        simp [rsStep, hc]
    | 0, j+1 =>
      have hlt : j < a.length := by omega
      have hr := hT.row j (by omega)
      have hn : (T 0 (j+1)).2 ≠ 3 ∧ (T 0 (j+1)).2 ≠ 1 := by rw [hr]; exact hrow _ _
      obtain ⟨cols, h1, h2⟩ := ih (0 + j) (by omega) 0 j rfl ((some a[j], none) :: acc) hi (by omega)
      refine ⟨cols ++ [(some a[j], none)], ?_, ?_⟩
      · rw [tbGlobal]; simp [hn.1, hn.2, List.getElem?_eq_getElem hlt, h1]
      · rw [movesOf_append, movesOf_left, rescore_snoc, h2]
        simp [rsStep, hr]
    | i+1, j+1 =>
      have hlti : i < b.length := by omega
      have hltj : j < a.length := by omega
      have hin := hT.inner i j (by omega) (by omega)
      by_cases c3 : (T (i+1) (j+1)).2 = 3
      · obtain ⟨cols, h1, h2⟩ :=
          ih (i + (j+1)) (by omega) i (j+1) rfl ((none, some b[i]) :: acc) (by omega) hj
        refine ⟨cols ++ [(none, some b[i])], ?_, ?_⟩
        · rw [tbGlobal]; simp [c3, List.getElem?_eq_getElem hlti, h1]
        · rw [movesOf_append, movesOf_up, rescore_snoc, h2]
          rcases hin with e | e | e <;> rw [e] at c3 ⊢ <;> simp at c3
          simp [rsStep]
      · by_cases c1 : (T (i+1) (j+1)).2 = 1
        · obtain ⟨cols, h1, h2⟩ :=
            ih (i + j) (by omega) i j rfl ((some a[j], some b[i]) :: acc) (by omega) (by omega)
          refine ⟨cols ++ [(some a[j], some b[i])], ?_, ?_⟩
          · rw [tbGlobal]; simp [c1, List.getElem?_eq_getElem hlti, List.getElem?_eq_getElem hltj, h1]
          · rw [movesOf_append, movesOf_diag, rescore_snoc, h2]
            rcases hin with e | e | e <;> rw [e] at c1 ⊢ <;> simp at c1
            simp [rsStep]
        · obtain ⟨cols, h1, h2⟩ :=
            ih ((i+1) + j) (by omega) (i+1) j rfl ((some a[j], none) :: acc) hi (by omega)
          refine ⟨cols ++ [(some a[j], none)], ?_, ?_⟩
          · rw [tbGlobal]; simp [c3, c1, List.getElem?_eq_getElem hltj, h1]
          · rw [movesOf_append, movesOf_left, rescore_snoc, h2]
            rcases hin with e | e | e <;> rw [e] at c3 c1 ⊢ <;> simp at c3 c1
            simp [rsStep]

/-- the observed table is a legal table of a local kernel `K` -/
structure TableOkL (K : AffKernel S) (T : Nat → Nat → Cell S) (N M : Nat) : Prop where
  row : ∀ j, j ≤ M → T 0 j = (zero, 0)
  col : ∀ i, i ≤ N → T i 0 = (zero, 0)
  inner : ∀ i j, i < N → j < M →
    T (i+1) (j+1) = (K.candUp (i+1) (j+1) (T i (j+1)), 3) ∨
    T (i+1) (j+1) = (K.candDiag (i+1) (j+1) (T i j).1, 1) ∨
    T (i+1) (j+1) = (K.candLeft (i+1) (j+1) (T (i+1) j), 2) ∨
    T (i+1) (j+1) = (zero, 0)

omit [Inhabited S] in
theorem rescore_tbLocal_of_table (K : AffKernel S)
    (a b : List α) (N M : Nat) (hN : N ≤ b.length) (hM : M ≤ a.length)
    (T : Nat → Nat → Cell S) (hT : TableOkL K T N M) :
    ∀ (k l : Nat) (acc : List (Col α)), k ≤ N → l ≤ M →
      ∃ i0 j0 cols, tbLocal (fun i j => (T i j).2) a b k l acc = some (i0, j0, cols ++ acc) ∧
        rescore K ⟨i0, j0, (zero, 0)⟩ (movesOf cols) = ⟨k, l, T k l⟩ := by
  intro k l
  induction h : k + l using Nat.strongRecOn generalizing k l with
  | _ n ih =>
    intro acc hk hl
    match k, l with
    | 0, 0 =>
      have hT0 := hT.row 0 (by omega)
      exact ⟨0, 0, [], by rw [tbLocal]; simp [hT0], by simp [rescore, hT0]⟩
    | i+1, 0 =>
      have hT0 := hT.col (i+1) hk
      exact ⟨i+1, 0, [], by rw [tbLocal]; simp [hT0], by simp [rescore, hT0]⟩
    | 0, j+1 =>
      have hT0 := hT.row (j+1) hl
      exact ⟨0, j+1, [], by rw [tbLocal]; simp [hT0], by simp [rescore, hT0]⟩
    | i+1, j+1 =>
      have hlti : i < b.length := by omega
      have hltj : j < a.length := by omega
      have hin := hT.inner i j (by omega) (by omega)
      by_cases c3 : (T (i+1) (j+1)).2 = 3
      · obtain ⟨i0, j0, cols, h1, h2⟩ :=
          ih (i + (j+1)) (by omega) i (j+1) rfl ((none, some b[i]) :: acc) (by omega) hl
        refine ⟨i0, j0, cols ++ [(none, some b[i])], ?_, ?_⟩
        · rw [tbLocal]; simp [c3, List.getElem?_eq_getElem hlti, h1]
        · rw [movesOf_append, movesOf_up, rescore_snoc, h2]
          rcases hin with e | e | e | e <;> rw [e] at c3 ⊢ <;> simp at c3
          simp [rsStep]
      · by_cases c1 : (T (i+1) (j+1)).2 = 1
        · obtain ⟨i0, j0, cols, h1, h2⟩ :=
            ih (i + j) (by omega) i j rfl ((some a[j], some b[i]) :: acc) (by omega) (by omega)
          refine ⟨i0, j0, cols ++ [(some a[j], some b[i])], ?_, ?_⟩
          · rw [tbLocal]; simp [c3, c1, List.getElem?_eq_getElem hlti, List.getElem?_eq_getElem hltj, h1]
          · rw [movesOf_append, movesOf_diag, rescore_snoc, h2]
            rcases hin with e | e | e | e <;> rw [e] at c1 ⊢ <;> simp at c1
            simp [rsStep]
        · by_cases c2 : (T (i+1) (j+1)).2 = 2
          · obtain ⟨i0, j0, cols, h1, h2⟩ :=
              ih ((i+1) + j) (by omega) (i+1) j rfl ((some a[j], none) :: acc) hk (by omega)
            refine ⟨i0, j0, cols ++ [(some a[j], none)], ?_, ?_⟩
            · rw [tbLocal]; simp [c3, c1, c2, List.getElem?_eq_getElem hltj, h1]
            · rw [movesOf_append, movesOf_left, rescore_snoc, h2]
              rcases hin with e | e | e | e <;> rw [e] at c2 ⊢ <;> simp at c2
              simp [rsStep]
          · refine ⟨i+1, j+1, [], by rw [tbLocal]; simp [c3, c1, c2], ?_⟩
            rcases hin with e | e | e | e <;> rw [e] at c3 c1 c2 ⊢ <;> simp at c3 c1 c2
            simp [rescore]

end Verif.Align
