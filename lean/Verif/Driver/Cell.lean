import Verif.Model.Cell
import Verif.Driver.Util
namespace Verif.Driver
open Verif.Cell

/-- atoms travel as `w<k>` (word), `n<int>` (integer text), `f<bits>` (float text) -/
def atom! (s : String) : Atom :=
  match s.toList with
  | 'n' :: r => .num (String.ofList r).toInt!
  | 'f' :: r => .flt (String.ofList r).toNat!
  | _ :: r => .word (String.ofList r).toNat!
  | [] => .word 0

def atomOut : Atom → String
  | .word w => s!"w{w}"
  | .num n => s!"n{n}"
  | .flt b => s!"f{b}"

def tag! (s : String) : Tag :=
  match s with
  | "int" => .int | "ints" => .ints | "strs" => .strs | "floats" => .floats | _ => .str

def valOut : Val → String
  | .str t => "str " ++ " ".intercalate (t.map atomOut)
  | .int n => s!"int n{n}"
  | .strs l => "strs " ++ " ".intercalate (l.map atomOut)
  | .ints l => "ints " ++ " ".intercalate (l.map fun n => s!"n{n}")
  | .floats l => "floats " ++ " ".intercalate (l.map fun b => s!"f{b}")

def handleCell (fs : List (List String)) : Option String :=
  match fs with
  | [["cellrt"], [tag], [kind], atoms] =>
    -- value of kind `kind` built from the atoms, serialised, then parsed with the column's tag
    let as := atoms.map atom!
    let v : Val := match kind with
      | "int" => (match as with | [.num n] => .int n | _ => .str as)
      | "ints" => (match allNum as with | some l => .ints l | none => .str as)
      | "strs" => .strs as
      | "floats" => (match allFlt as with | some l => .floats l | none => .str as)
      | _ => .str as
    some ("V " ++ (valOut (parse (tag! tag) (ser v))).trimAsciiEnd.toString)
  | _ => none

end Verif.Driver
