import Std.Data.HashMap
import Verif.Model.MSA
import Verif.Model.Refine
import Verif.Driver.Util
namespace Verif.Driver
open Verif.MSA Verif.Refine

/-- sparse scorer table: tokens `a:b:bits` -/
def scorerTbl (toks : List String) : Std.HashMap (Nat × Nat) Float :=
  toks.foldl (fun m t =>
    match t.splitOn ":" with
    | [a, b, v] => m.insert (nat! a, nat! b) (flt! v)
    | _ => m) {}

/-- lookup in a table built once (a missing entry is a NaN: the comparison with the real score then fails) -/
def scorerOf (tbl : Std.HashMap (Nat × Nat) Float) (a b : Nat) : Float := (tbl.get? (a, b)).getD (0.0 / 0.0)

/-- matrices separated by "//" tokens -/
def cutMats (toks : List String) (cur : List String) (acc : List (List String)) : List (List String) :=
  match toks with
  | [] => (cur.reverse :: acc).reverse
  | "//" :: r => cutMats r [] (cur.reverse :: acc)
  | x :: r => cutMats r (x :: cur) acc

def kindOf (s : String) : Kind := if s == "t" then .t else .c

/-- rows separated by "/" tokens -/
def splitRows (toks : List String) : List (List Nat) :=
  let rec go (toks : List String) (cur : List Nat) (acc : List (List Nat)) : List (List Nat) :=
    match toks with
    | [] => (cur.reverse :: acc).reverse
    | "/" :: r => go r [] (cur.reverse :: acc)
    | x :: r => go r (nat! x :: cur) acc
  if toks.isEmpty then [] else go toks [] []

def rowsStr (rows : List (List Nat)) : String :=
  " / ".intercalate (rows.map fun r => " ".intercalate (r.map toString))

def handleMSA (fs : List (List String)) : Option String :=
  match fs with
  | [["merge"], [g], a, b, fa, fb] =>
    some ("M " ++ rowsStr (mergeBlocks (nat! g) (splitRows a) (splitRows b) (fa.map (· == "1")) (fb.map (· == "1"))))
  | [["reduce"], [g], a] =>
    some ("M " ++ rowsStr (reduceGapSites (nat! g) (splitRows a)))
  | [["iterfinal"], [s0, s1]] =>
    some (if (flt! s1) < (flt! s0) then "old" else "new")
  | [["sop"], [k], [gop, gw], tbl, msa] =>
    let t := scorerTbl tbl
    some ("S " ++ fltOut (sumOfPairs (kindOf k) (scorerOf t) (flt! gop) (flt! gw) (splitRows msa)))
  | [["iterpass"], [k], [gop, gw], tbl, before, cand, [nidx]] =>
    -- the whole `_iter(check='final')` pass on the observed candidate: score before, score of the candidate, decision
    let t := scorerTbl tbl
    let sp := sumOfPairs (kindOf k) (scorerOf t) (flt! gop) (flt! gw)
    let b := splitRows before
    let c := splitRows cand
    let steps : List Step := (List.replicate (nat! nidx) (fun x => x)).set 0 (fun _ => c)
    let out := iterPass sp steps b
    some ("P " ++ fltOut (sp b) ++ " " ++ fltOut (sp c) ++ " | " ++ rowsStr out)
  | [["iterimm"], [k], [gop, gw], tbl, before, cands] =>
    -- `_iter(check='immediate')` on the observed candidates (matrices separated by "//"): start scored with the call's gap
    -- weight, every step with the default one (0.0, gap cost -1)
    let t := scorerTbl tbl
    let sp := sumOfPairs (kindOf k) (scorerOf t) (flt! gop) (flt! gw)
    let sp0 := sumOfPairs (kindOf k) (scorerOf t) (-1.0) 0.0
    let cs : List (List (List Nat)) := (cutMats cands [] []).map splitRows
    let steps : List Step := cs.map fun c => (fun _ => c)
    some ("P " ++ rowsStr (iterImmediate sp sp0 steps (splitRows before)))
  | [["prog"], [g], seqs, steps] =>
    -- steps: tokens "m,n:fa:fb" with fa, fb strings of 0/1
    let st : List PStep := steps.map fun t =>
      match t.splitOn ":" with
      | [mn, fa, fb] =>
        (match mn.splitOn "," with
         | [m, n] => ((nat! m, nat! n), (fa.toList.map (· == '1'), fb.toList.map (· == '1')))
         | _ => ((0, 0), ([], [])))
      | _ => ((0, 0), ([], []))
    -- hypotheses of C04_progressive and of C04_progressive_nogap (the gap symbol is no symbol of the input)
    let okp := progOkb (nat! g) (splitRows seqs) st && (splitRows seqs).all (fun s => !s.contains (nat! g))
    some ((if okp then "M " else "M! ") ++ rowsStr (progressive (nat! g) (splitRows seqs) st))
  | [["refine"], [g], msa, idxA, fa, fb] =>
    let m := splitRows msa
    -- hypotheses of C04_refineSplit and of C04_refineSplit_nogap (distinct row indices)
    let ok := rectb m && splitOkb (nat! g) m (idxA.map nat!) (fa.map (· == "1")) (fb.map (· == "1")) && decide (idxA.map nat!).Nodup
    some ((if ok then "M " else "M! ") ++ rowsStr (refineSplit (nat! g) m (idxA.map nat!) (fa.map (· == "1")) (fb.map (· == "1"))))
  | [["update"], toks, internal, i2e] =>
    -- tokens as codes (0 = the gap '-'), internal entries 0 = 'X', k = position k-1
    let intl : List (List (Option Nat)) := (splitRows internal).map fun r => r.map fun x => if x == 0 then none else some (x - 1)
    some ((if updateOkb 0 (splitRows toks) intl (splitRows i2e) then "M " else "M! ") ++
      rowsStr (updateAlignments 0 (splitRows toks) intl (splitRows i2e)))
  | [["msa2col"], ids, toks, groups, rows] =>
    -- ids of the words; their segments (one row per id, codes, 0 = gap); member ids per set; the aligned rows of all sets in order
    let idl := ids.map nat!
    let tokRows := splitRows toks
    let tokensOf : Nat → List Nat := fun k => ((idl.zip tokRows).find? fun p => p.1 == k).map (·.2) |>.getD []
    let grp := splitRows groups
    let allRows := splitRows rows
    let rec cut (gs : List (List Nat)) (rs : List (List Nat)) : List (List Nat × List (List Nat)) :=
      match gs with
      | [] => []
      | g :: gs' => (g, rs.take g.length) :: cut gs' (rs.drop g.length)
    let out := msa2col idl tokensOf (cut grp allRows)
    some ("M " ++ rowsStr (out.map (·.2)))
  | _ => none

end Verif.Driver
