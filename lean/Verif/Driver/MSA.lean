import Verif.Model.MSA
import Verif.Driver.Util
namespace Verif.Driver
open Verif.MSA

/-- rows separated by "/" tokens -/
def splitRows (toks : List String) : List (List Nat) :=
  let rec go (toks : List String) (cur : List Nat) (acc : List (List Nat)) : List (List Nat) :=
    match toks with
    | [] => (cur.reverse :: acc).reverse
    | "/" :: r => go r [] (cur.reverse :: acc)
    | x :: r => go r (nat! x :: cur) acc
  if toks.isEmpty then [] else go toks [] []

def rowsStr (rows : List (List Nat)) : String :=
  " / ".intercalate (rows.map fun r => " ".intercalate (r.map toString))

def handleMSA (fs : List (List String)) : Option String :=
  match fs with
  | [["merge"], [g], a, b, fa, fb] =>
    some ("M " ++ rowsStr (mergeBlocks (nat! g) (splitRows a) (splitRows b) (fa.map (· == "1")) (fb.map (· == "1"))))
  | [["reduce"], [g], a] =>
    some ("M " ++ rowsStr (reduceGapSites (nat! g) (splitRows a)))
  | [["iterfinal"], [s0, s1]] =>
    some (if (flt! s1) < (flt! s0) then "old" else "new")
  | _ => none

end Verif.Driver
