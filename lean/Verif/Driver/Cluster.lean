import Verif.Model.Cluster
import Verif.Driver.Util
namespace Verif.Driver
open Verif.Cluster

def stOut (cs : St) : String :=
  " ".intercalate (cs.map fun c => s!"{c.1}:{",".intercalate (c.2.map toString)}")

def linkOf : Nat → Link
  | 0 => .single | 1 => .complete | _ => .average

def handleCluster (fs : List (List String)) : Option String :=
  match fs with
  | [["cluster"], [l, lm, un], [n], mat, [t]] =>
    let n := nat! n
    let m : Array Float := (flts mat).toArray
    let M := fun i j => m.getD (i * n + j) 0.0
    let cfg : Cfg := ⟨linkOf (nat! l), lm == "1", un == "1"⟩
    let tr := trace cfg M (flt! t) n (init n)
    some ("T " ++ " / ".intercalate (tr.map stOut))
  | [["chainok"], tr] =>
    -- states separated by "/" ; entries key:m1,m2
    let parseSt (toks : List String) : St := toks.map fun tok =>
      match tok.splitOn ":" with
      | [k, ms] => (nat! k, (ms.splitOn ",").map nat!)
      | _ => (0, [])
    let rec split (toks : List String) (cur : List String) (acc : List (List String)) : List (List String) :=
      match toks with
      | [] => (cur.reverse :: acc).reverse
      | "/" :: r => split r [] (cur.reverse :: acc)
      | x :: r => split r (x :: cur) acc
    let states := (split tr [] []).map parseSt
    some (if chainOkb states then "ok" else "no")
  | _ => none

end Verif.Driver
