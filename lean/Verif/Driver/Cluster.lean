import Verif.Model.Cluster
import Verif.Driver.Util
namespace Verif.Driver
open Verif.Cluster

def stOut (cs : St) : String :=
  " ".intercalate (cs.map fun c => s!"{c.1}:{",".intercalate (c.2.map toString)}")

def linkOf : Nat → Link
  | 0 => .single | 1 => .complete | _ => .average

def handleCluster (fs : List (List String)) : Option String :=
  match fs with
  | [["cluster"], [l, lm, un], [n], mat, [t]] =>
    let n := nat! n
    let m : Array Float := (flts mat).toArray
    let M := fun i j => m.getD (i * n + j) 0.0
    let cfg : Cfg := ⟨linkOf (nat! l), lm == "1", un == "1"⟩
    let tr := trace cfg M (flt! t) n (init n)
    some ("T " ++ " / ".intercalate (tr.map stOut))
  | _ => none

end Verif.Driver
