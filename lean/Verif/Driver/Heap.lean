import Verif.Model.Heap
import Verif.Driver.Util
namespace Verif.Driver
open Verif.Heap

def handleHeap (fs : List (List String)) : Option String :=
  match fs with
  | [["frame"], [cp], [n], ops] =>
    let n := nat! n + 1
    let h : Heap := (List.range n).map fun i => [Int.ofNat i, 1]
    let src : Obj := ⟨List.range n⟩
    let (o, h') := construct (cp == "1") src h
    let opl := ops.map fun s => if s == "a" then Op.addCol 9 else Op.assign 0 0 7
    let h'' := runOps o h' opl
    some (if view src h'' == view src h then "unchanged" else "changed")
  | _ => none

end Verif.Driver
