import Verif.Model.GainLoss
import Verif.Driver.Util
namespace Verif.Driver
open Verif.GL

/-- tokens: `id` (leaf) or `id ( children … )` -/
partial def parseG : List String → Option (GTree × List String)
  | x :: "(" :: rest =>
    let rec kids (toks : List String) (acc : List GTree) : Option (List GTree × List String) :=
      match toks with
      | ")" :: r => some (acc.reverse, r)
      | _ => match parseG toks with
        | some (t, r) => kids r (t :: acc)
        | none => none
    match kids rest [] with
    | some (cs, r) => some (.node (nat! x) cs, r)
    | none => none
  | x :: rest => if x == "(" || x == ")" then none else some (.leaf (nat! x), rest)
  | [] => none

def storyOut (s : Story) : String := ",".intercalate (s.map fun e => s!"{e.1}:{e.2}")

def handleGL (fs : List (List String)) : Option String :=
  match fs with
  | [["gls"], [w1, w2, gpl, push, fixed, md], tree, pat] =>
    match parseG tree with
    | some (t, []) =>
      let cfg : Cfg := ⟨(nat! w1, nat! w2), nat! gpl, push == "1", fixed == "1"⟩
      let p : List (Nat × Int) := pat.map fun e =>
        match e.splitOn ":" with
        | [a, b] => (nat! a, int! b)
        | _ => (0, 0)
      let cs := glsCandidates cfg (int! md) t p
      match getGls cfg (int! md) t p with
      | some s => some s!"S {storyOut s} | {";".intercalate (cs.map storyOut)}"
      | none => some "NONE"
    | _ => some "bad-request"
  | [["glsr"], [md], tree, pat] =>
    match parseG tree with
    | some (t, []) =>
      let p : List (Nat × Int) := pat.map fun e =>
        match e.splitOn ":" with
        | [a, b] => (nat! a, int! b)
        | _ => (0, 0)
      some ("R " ++ ";".intercalate ((glsRCandidates (int! md) t p).map storyOut))
    | _ => some "bad-request"
  | _ => none

end Verif.Driver
