import Verif.Model.SoundClass
import Verif.Driver.Util
namespace Verif.Driver
open Verif.SC

def handleSC (fs : List (List String)) : Option String :=
  match fs with
  | [["class2tokens"], [n], bits] =>
    let toks := List.range (nat! n)
    let out := class2tokens toks (bits.map (· == "1"))
    some ("C " ++ " ".intercalate (out.map fun o => match o with | some t => toString t | none => "-"))
  | [["class2tokensL"], [n, pre, suf], bits] =>
    let toks := List.range (nat! n)
    let out := class2tokensLocal toks (nat! pre) (bits.map (· == "1")) (nat! suf)
    some ("C " ++ " ".intercalate (out.map fun o => match o with | some t => toString t | none => "-"))
  | _ => none

end Verif.Driver
