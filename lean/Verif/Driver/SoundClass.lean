import Verif.Model.SoundClass
import Verif.Driver.Util
namespace Verif.Driver
open Verif.SC

def handleSC (fs : List (List String)) : Option String :=
  match fs with
  | [["class2tokens"], [n], bits] =>
    let toks := List.range (nat! n)
    let out := class2tokens toks (bits.map (· == "1"))
    some ("C " ++ " ".intercalate (out.map fun o => match o with | some t => toString t | none => "-"))
  | [["class2tokensL"], [n, pre, suf], bits] =>
    let toks := List.range (nat! n)
    let out := class2tokensLocal toks (nat! pre) (bits.map (· == "1")) (nat! suf)
    some ("C " ++ " ".intercalate (out.map fun o => match o with | some t => toString t | none => "-"))
  | [["tok"], [mv, mg], [nullg], nogo, table, chars] =>
    -- table entries code:mask ; mask bits: 1 break, 2 combiner, 4 stress, 8 diacritic, 16 vowel, 32 tone, 64 semi
    let tab : List (Nat × Nat) := table.map fun e =>
      match e.splitOn ":" with
      | [c, m] => (nat! c, nat! m)
      | _ => (0, 0)
    let maskOf := fun (c : Nat) => ((tab.find? fun p => p.1 == c).map (·.2)).getD 0
    let bit := fun (c k : Nat) => (maskOf c / k) % 2 == 1
    let ng := nats nogo
    let isInfix := fun (t : List Nat) => (List.range (ng.length + 1)).any fun i => (ng.drop i).take t.length == t
    let K : Cls := { isBreak := (bit · 1), isCombiner := (bit · 2), isStress := (bit · 4), isDiacritic := (bit · 8),
                     isVowel := (bit · 16), isTone := (bit · 32), isSemi := (bit · 64), isNogo := isInfix,
                     mergeVowels := mv == "1", mergeGeminates := mg == "1", nullGlyph := nat! nullg }
    match ipa2tokens K (nats chars) with
    | some toks => some ("T " ++ " ".intercalate (toks.map fun t => ",".intercalate (t.map toString)))
    | none => some "IndexError"
  | [["pro"], profile] =>
    match prosodic (nats profile) with
    | some ps => some ("P " ++ String.ofList (ps.map fun p => match p with
        | .A => 'A' | .B => 'B' | .C => 'C' | .L => 'L' | .M => 'M' | .N => 'N'
        | .X => 'X' | .Y => 'Y' | .Z => 'Z' | .T => 'T' | .brk => '_'))
    | none => some "ValueError"
  | [["t2c"], tok, pairs, [fs, fd]] =>
    -- pairs: k1,k2,..=v ; flags: first char is stress / diacritic
    let tab : List (List Nat × Nat) := pairs.map fun e =>
      match e.splitOn "=" with
      | [k, v] => ((k.splitOn ",").filter (· ≠ "") |>.map nat!, nat! v)
      | _ => ([], 0)
    let M : TokCls := { lookup := fun k => (tab.find? fun p => p.1 == k).map (·.2),
                        isStress := fun _ => fs == "1", isDiacritic := fun _ => fd == "1", unknown := 0 }
    some s!"C {token2class M (nats tok)}"
  | _ => none

end Verif.Driver
