import Verif.Model.TreeDist
import Verif.Model.Newick
import Verif.Driver.Util
import Verif.Model.NewickText
namespace Verif.Driver
open Verif.TreeDist

/-- tokens: "(" ")" and leaf numbers -/
partial def parseTree : List String → Option (Tree × List String)
  | "(" :: rest =>
    let rec kids (toks : List String) (acc : List Tree) : Option (List Tree × List String) :=
      match toks with
      | ")" :: r => some (acc.reverse, r)
      | _ => match parseTree toks with
        | some (t, r) => kids r (t :: acc)
        | none => none
    match kids rest [] with
    | some (cs, r) => some (.node cs, r)
    | none => none
  | ")" :: _ => none
  | x :: rest => some (.leaf (nat! x), rest)
  | [] => none

def elemOut (e : Elem) : String := s!"{e.opens}.{e.leaf}.{e.closes}"
def elemIn (s : String) : Elem :=
  match s.splitOn "." with
  | [o, l, c] => ⟨nat! o, nat! l, nat! c⟩
  | _ => ⟨0, 0, 0⟩

def setsOut (l : List (List Nat)) : String :=
  ";".intercalate (l.map fun s => ",".intercalate (s.map toString))

partial def treeOut : Tree → String
  | .leaf n => toString n
  | .node cs => "( " ++ " ".intercalate (cs.map treeOut) ++ " )"

def tokIn (s : String) : Verif.Newick.Tok :=
  match s with
  | "(" => .lpar | ")" => .rpar | "," => .comma | x => .name (nat! x)

def tokOut : Verif.Newick.Tok → String
  | .lpar => "(" | .rpar => ")" | .comma => "," | .name n => toString n

def handleTree (fs : List (List String)) : Option String :=
  match fs with
  | [["elems"], toks] =>
    match parseTree toks with
    | some (t, []) => some ("E " ++ " ".intercalate ((elems t).map elemOut) ++ " | " ++ setsOut (clades t)
        ++ " | " ++ (if Proper t then "1" else "0"))
    | _ => some "bad-request"
  | [["bipart"], es] =>
    match scan (es.map elemIn) with
    | some parts =>
      let (fin, ls) := bipartition parts
      some s!"B {setsOut parts} | {setsOut fin} | {",".intercalate (ls.map toString)}"
    | none => some "ERR"
  | [["grf"], ea, eb] =>
    match scan (ea.map elemIn), scan (eb.map elemIn) with
    | some pa, some pb =>
      let (fa, la) := bipartition pa
      let (fb, lb) := bipartition pb
      match grfParts fa la fb lb with
      | some ((gn, gd), (rn, rd)) => some s!"D {gn} {gd} {rn} {rd}"
      | none => some "ZERO"
    | _, _ => some "ERR"
  | [["treedist"], ta, tb] =>
    match parseTree ta, parseTree tb with
    | some (a, []), some (b, []) =>
      (match treeDist a b with
       | some ((gn, gd), (rn, rd)) => some s!"D {gn} {gd} {rn} {rd}"
       | none => some "ZERO")
    | _, _ => some "bad-request"
  | [["nwkparse"], toks] =>
    let ts := toks.map tokIn
    match Verif.Newick.parse (ts.length + 1) ts with
    | some (t, []) => some ("N " ++ treeOut t)
    | _ => some "ERR"
  | [["nwkprint"], toks] =>
    match parseTree toks with
    | some (t, []) => some ("N " ++ " ".intercalate ((Verif.Newick.print t).map tokOut))
    | _ => some "bad-request"
  | [["nwktext"], [um], cps] =>
    -- the text as code points; output: one item per token read - L<code points> for a label, S<code point> for a structural
    -- character, E for the end; ERR for a TreeParseError
    let text : List Char := cps.map fun x => Char.ofNat (nat! x)
    let shw := fun (l : List Char) => ",".intercalate (l.map fun c => toString c.toNat)
    (match Verif.NewickText.tokenise (um == "1") text with
     | none => some "ERR"
     | some outs => some ("T " ++ " ".intercalate (outs.map fun o =>
         match o with
         | .label l => "L" ++ shw l
         | .sym c => "S" ++ toString c.toNat
         | .eot => "E")))
  | [["nwkname"], cps] =>
    let name : List Char := cps.map fun x => Char.ofNat (nat! x)
    some ("N " ++ ",".intercalate ((Verif.NewickText.escapeName name).map fun c => toString c.toNat))
  | _ => none

end Verif.Driver
