import Verif.Model.Line
import Verif.Model.Dst
import Verif.Model.Num
import Verif.Driver.Util
namespace Verif.Driver
open Verif.Line

/-- lines separated by "/" tokens, code points inside a line separated by blanks -/
def splitLines (toks : List String) : List (List Nat) :=
  let rec go (toks : List String) (cur : List Nat) (acc : List (List Nat)) : List (List Nat) :=
    match toks with
    | [] => (cur.reverse :: acc).reverse
    | "/" :: r => go r [] (cur.reverse :: acc)
    | x :: r => go r (nat! x :: cur) acc
  go toks [] []

def handleLine (fs : List (List String)) : Option String :=
  match fs with
  | [["qlclines"], toks] =>
    let rows := parseLines (splitLines toks)
    some ("L " ++ " / ".intercalate (rows.map fun r => " , ".intercalate (r.map fun f => if f.isEmpty then "e" else " ".intercalate (f.map toString))))
  | [["qlclines"]] => some "L "
  | [["msaline"], toks] =>
    some ("L " ++ " , ".intercalate ((parseMsaLine (toks.map nat!)).map fun f => if f.isEmpty then "e" else " ".intercalate (f.map toString)))
  | [["metaline"], toks] =>
    -- one written line (code points): the kind of the line and, for a meta line, key and value as read
    let line := toks.map nat!
    let show_ := fun (f : List Nat) => if f.isEmpty then "e" else " ".intercalate (f.map toString)
    (match kind line, parseMeta line with
     | .metaL, some (k, v) => some ("K " ++ show_ k ++ " , " ++ show_ v)
     | .metaL, none => some "ERR"
     | _, _ => some "NOTMETA")
  | [["fixed4render"], [neg, k]] =>
    some ("L " ++ " ".intercalate ((Verif.Num.renderFixed4 (neg == "1") (nat! k)).map toString))
  | [["fixed4parse"], cps] =>
    some (match Verif.Num.parseFixed4 (cps.map nat!) with | some (ng, k) => s!"F {if ng then 1 else 0} {k}" | none => "none")
  | [["fixed2render"], [neg, k]] =>
    some ("L " ++ " ".intercalate ((Verif.Num.renderFixed2 (neg == "1") (nat! k)).map toString))
  | [["fixed2parse"], cps] =>
    some (match Verif.Num.parseFixed2 (cps.map nat!) with | some (ng, k) => s!"F {if ng then 1 else 0} {k}" | none => "none")
  | [["intrender"], [n]] =>
    some ("L " ++ " ".intercalate ((Verif.Num.renderInt (int! n)).map toString))
  | [["intparse"], cps] =>
    some (match Verif.Num.parseInt (cps.map nat!) with | some v => s!"I {v}" | none => "none")
  | [["intparse"]] => some (match Verif.Num.parseInt [] with | some v => s!"I {v}" | none => "none")
  | [["scorerwrite"], ch, vals] =>
    some ("L " ++ " ".intercalate ((scorerLine (ch.map nat!) (splitLines vals)).map toString))
  | [["scorerread"], line] =>
    let r := readScorerLine (line.map nat!)
    some ("R " ++ " ".intercalate (r.1.map toString) ++ " , " ++ " / ".intercalate (r.2.map fun v => " ".intercalate (v.map toString)))
  | [["dstrebuild"], toks] =>
    -- the matrix read_dst returned (cells as the bit patterns of the doubles; 0 is 0.0) -> what read_qlc keeps
    let m := splitLines toks
    some ("R " ++ " / ".intercalate ((Verif.Dst.rebuild 0 m).map fun r => " ".intercalate (r.map toString)))
  | [["dstwrite"], name, vals] =>
    some ("L " ++ " ".intercalate ((Verif.Dst.writeLine (name.map nat!) (splitLines vals)).map toString))
  | [["dstread"], line] =>
    let r := Verif.Dst.readLine (line.map nat!)
    some ("R " ++ " ".intercalate (r.1.map toString) ++ " , " ++ " / ".intercalate (r.2.map fun v => " ".intercalate (v.map toString)))
  | _ => none

end Verif.Driver
