import Verif.Model.Align
import Verif.Model.EditDist
import Verif.Model.FBits
import Verif.Props.C02Table
import Verif.Driver.Util
namespace Verif.Driver
open Verif.Align

def modeOf : Nat → Mode
  | 0 => .global | 1 => .overlap | 2 => .local | _ => .dialign

def cfgOf (f : List Nat) : Cfg :=
  match f with
  | [m, sec, fl, p, bc, sa, gm, lb, q] =>
    { mode := modeOf m, secondary := sec == 1, flavour := fl, proGE2 := p == 1, borderCum := bc == 1,
      strictA := sa == 1, geM := gm == 1, lastBest := lb == 1, quirkJN := q == 1 }
  | _ => default

def colOut (c : Col Nat) : String :=
  let s : Option Nat → String := fun o => match o with | some x => toString x | none => "-"
  s c.1 ++ ":" ++ s c.2

def alignInput (fs : List (List String)) : Option (Cfg × Input Float) :=
  match fs with
  | [_, cfg, a, b, gopA, gopB, proA, proB, sf, scorer, r] =>
    let k := nat! (scorer.headD "0")
    let mat : Array Float := (flts (scorer.drop 1)).toArray
    let sfs := flts sf
    some (cfgOf (nats cfg),
      { a := nats a, b := nats b, gopA := flts gopA, gopB := flts gopB, proA := nats proA, proB := nats proB,
        scale := sfs.getD 0 1.0, factor := sfs.getD 1 0.0,
        scorer := fun x y => mat.getD (x * k + y) 0.0, r := nats r })
  | _ => none

def alignInputFB (fs : List (List String)) : Option (Cfg × Input FB) :=
  match alignInput fs with
  | some (cfg, inp) =>
    some (cfg, { a := inp.a, b := inp.b, gopA := inp.gopA.map FB.ofFloat, gopB := inp.gopB.map FB.ofFloat,
                 proA := inp.proA, proB := inp.proB, scale := FB.ofFloat inp.scale, factor := FB.ofFloat inp.factor,
                 scorer := fun x y => FB.ofFloat (inp.scorer x y), r := inp.r })
  | none => none

def handleAlign (fs : List (List String)) : Option String :=
  match fs.headD [] with
  | ["align"] =>
    match alignInput fs with
    | some (cfg, inp) =>
      match run cfg inp with
      | .glob cols sim => some s!"G {fltOut sim} {" ".intercalate (cols.map colOut)}"
      | .loc i0 j0 k l cols sim => some s!"L {i0} {j0} {k} {l} {fltOut sim} {" ".intercalate (cols.map colOut)}"
      | .error => some "E"
    | none => some "bad-request"
  | ["tbobs"] =>
    -- tbobs | local? | a | b | flat move table ((N+1)×(M+1), row-major) | k l
    match fs with
    | [_, [loc], a, b, tab, kl] =>
      let a := nats a
      let b := nats b
      let M := a.length
      let N := b.length
      let t : Array Nat := (nats tab).toArray
      let tb := fun i j => if i ≤ N ∧ j ≤ M then t.getD (i * (M+1) + j) 99 else 99
      if loc == "1" then
        let k := (nats kl).getD 0 0
        let l := (nats kl).getD 1 0
        let ok := bordersLb tb N M && decide (k ≤ N) && decide (l ≤ M)
        match tbLocal tb a b k l [] with
        | some (i0, j0, cols) => some s!"L {if ok then 1 else 0} {i0} {j0} {" ".intercalate (cols.map colOut)}"
        | none => some s!"E {if ok then 1 else 0}"
      else
        let ok := bordersGb tb N M
        match tbGlobal tb a b N M [] with
        | some cols => some s!"G {if ok then 1 else 0} {" ".intercalate (cols.map colOut)}"
        | none => some s!"E {if ok then 1 else 0}"
    | _ => some "bad-request"
  | ["edit"] =>
    match fs with
    | [_, a, b] => some s!"D {editDist (nats a) (nats b)} {lev (nats a) (nats b)}"
    | _ => some "bad-request"
  | ["cellok"] =>
    -- same fields as `align`, plus three fields: matrix bits (flat), traceback (flat), `k l`
    match fs.reverse with
    | kl :: tbs :: mat :: restRev =>
      match alignInputFB restRev.reverse with
      | some (cfg, inp) =>
        let M := inp.M
        let N := inp.N
        let mv : Array FB := ((flts mat).map FB.ofFloat).toArray
        let tv : Array Nat := (nats tbs).toArray
        let T : Nat → Nat → Cell FB := fun i j =>
          if i ≤ N ∧ j ≤ M then (mv.getD (i * (M+1) + j) default, tv.getD (i * (M+1) + j) 99) else (default, 99)
        let K := kernelOf cfg inp
        if cfg.mode = .local then
          let k := (nats kl).getD 0 0
          let l := (nats kl).getD 1 0
          let ok := tableOkLb K T N M && decide (k ≤ N) && decide (l ≤ M)
          match tbLocal (fun i j => (T i j).2) inp.a inp.b k l [] with
          | some (i0, j0, cols) =>
            some s!"K {if ok then 1 else 0} {(T k l).1.bits.toNat} {(rescoreLocal cfg inp i0 j0 cols).bits.toNat}"
          | none => some s!"K {if ok then 1 else 0} 0 1"
        else
          let ok := tableOkGb K T N M
          match tbGlobal (fun i j => (T i j).2) inp.a inp.b N M [] with
          | some cols => some s!"K {if ok then 1 else 0} {(T N M).1.bits.toNat} {(rescoreCols cfg inp cols).bits.toNat}"
          | none => some s!"K {if ok then 1 else 0} 0 1"
      | none => some "bad-request"
    | _ => some "bad-request"
  | ["distof"] =>
    -- same fields as `align`, plus a last field: the similarity (bits); returns distance cfg inp sim
    match fs.getLast? with
    | some [sim] =>
      match alignInput fs.dropLast with
      | some (cfg, inp) => some s!"D {fltOut (distance cfg inp (flt! sim))}"
      | none => some "bad-request"
    | _ => some "bad-request"
  | ["dist"] =>
    match alignInput fs with
    | some (cfg, inp) =>
      match runDist cfg inp with
      | some (s, d) => some s!"D {fltOut s} {fltOut d}"
      | none => some "E"
    | none => some "bad-request"
  | ["rescore"] =>
    -- same fields as `align`, plus a last field: i0 j0 followed by the moves (0 up,1 diag,2 left)
    match fs.getLast? with
    | some (i0 :: j0 :: mv) =>
      match alignInput fs.dropLast with
      | some (cfg, inp) =>
        let K := kernelOf cfg inp
        let ms := mv.map fun s => match s with | "0" => Mv.up | "1" => Mv.diag | _ => Mv.left
        let st := rescore K ⟨nat! i0, nat! j0, K.corner⟩ ms
        some s!"R {st.i} {st.j} {fltOut st.cur.1}"
      | none => some "bad-request"
    | _ => some "bad-request"
  | _ => none

end Verif.Driver
