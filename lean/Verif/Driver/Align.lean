import Verif.Model.Align
import Verif.Driver.Util
namespace Verif.Driver
open Verif.Align

def modeOf : Nat → Mode
  | 0 => .global | 1 => .overlap | 2 => .local | _ => .dialign

def cfgOf (f : List Nat) : Cfg :=
  match f with
  | [m, sec, fl, p, bc, sa, gm, lb, q] =>
    { mode := modeOf m, secondary := sec == 1, flavour := fl, proGE2 := p == 1, borderCum := bc == 1,
      strictA := sa == 1, geM := gm == 1, lastBest := lb == 1, quirkJN := q == 1 }
  | _ => default

def colOut (c : Col Nat) : String :=
  let s : Option Nat → String := fun o => match o with | some x => toString x | none => "-"
  s c.1 ++ ":" ++ s c.2

def alignInput (fs : List (List String)) : Option (Cfg × Input Float) :=
  match fs with
  | [_, cfg, a, b, gopA, gopB, proA, proB, sf, scorer, r] =>
    let k := nat! (scorer.headD "0")
    let mat : Array Float := (flts (scorer.drop 1)).toArray
    let sfs := flts sf
    some (cfgOf (nats cfg),
      { a := nats a, b := nats b, gopA := flts gopA, gopB := flts gopB, proA := nats proA, proB := nats proB,
        scale := sfs.getD 0 1.0, factor := sfs.getD 1 0.0,
        scorer := fun x y => mat.getD (x * k + y) 0.0, r := nats r })
  | _ => none

def handleAlign (fs : List (List String)) : Option String :=
  match fs.headD [] with
  | ["align"] =>
    match alignInput fs with
    | some (cfg, inp) =>
      match run cfg inp with
      | .glob cols sim => some s!"G {fltOut sim} {" ".intercalate (cols.map colOut)}"
      | .loc i0 j0 k l cols sim => some s!"L {i0} {j0} {k} {l} {fltOut sim} {" ".intercalate (cols.map colOut)}"
      | .error => some "E"
    | none => some "bad-request"
  | ["rescore"] =>
    -- same fields as `align`, plus a last field: i0 j0 followed by the moves (0 up,1 diag,2 left)
    match fs.getLast? with
    | some (i0 :: j0 :: mv) =>
      match alignInput fs.dropLast with
      | some (cfg, inp) =>
        let K := kernelOf cfg inp
        let ms := mv.map fun s => match s with | "0" => Mv.up | "1" => Mv.diag | _ => Mv.left
        let st := rescore K ⟨nat! i0, nat! j0, K.corner⟩ ms
        some s!"R {st.i} {st.j} {fltOut st.cur.1}"
      | none => some "bad-request"
    | _ => some "bad-request"
  | _ => none

end Verif.Driver
