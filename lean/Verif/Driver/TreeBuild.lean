import Verif.Model.TreeBuild
import Verif.Driver.Util
namespace Verif.Driver
open Verif.TreeBuild

def rowsOut (rows : List (Row Float)) : String :=
  " ; ".intercalate (rows.map fun r => s!"{r.1} {r.2.1} {fltOut r.2.2.1} {fltOut r.2.2.2}")

def handleTB (fs : List (List String)) : Option String :=
  match fs with
  | [["upgma"], [lm], [n], mat] =>
    let n := nat! n
    let m : Array Float := (flts mat).toArray
    let M := fun i j => m.getD (i * n + j) 0.0
    some ("R " ++ rowsOut (upgma (lm == "1") M n).rows)
  | [["nj"], [n], mat] =>
    let n := nat! n
    let v := flts mat
    let M : List (List Float) := (List.range n).map fun i => (v.drop (i * n)).take n
    some ("R " ++ rowsOut (neighbor M n).rows)
  | [["dec"], [n], ids, brs] =>
    -- path lengths of the tree a tree matrix describes (rows given as ids `a b …` and branch lengths `fa fb …`)
    let n := nat! n
    let is := ids.map fun x => nat! x
    let bs := flts brs
    let rows : List (Row Float) := (List.range (is.length / 2)).map fun t =>
      (is.getD (2 * t) 0, is.getD (2 * t + 1) 0, bs.getD (2 * t) 0.0, bs.getD (2 * t + 1) 0.0)
    some ("D " ++ " ; ".intercalate ((decode n rows).dists.map fun e => s!"{e.1.1} {e.1.2} {fltOut e.2}"))
  | _ => none

end Verif.Driver
