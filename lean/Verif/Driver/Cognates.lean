import Verif.Model.Cognates
import Verif.Model.Turchin
import Verif.Model.Partial
import Verif.Model.Components
import Verif.Driver.Util
namespace Verif.Driver
open Verif.Cognates

def handleCog (fs : List (List String)) : Option String :=
  match fs with
  | [["turchin"], vowels, [h], a, b] =>
    -- class strings as code points; the vowel classes of the model; the code of 'H'
    let vs := vowels.map nat!
    let isV := fun (c : Nat) => vs.contains c
    let ka := Verif.Turchin.key isV (nat! h) (a.map nat!)
    let kb := Verif.Turchin.key isV (nat! h) (b.map nat!)
    some (s!"T {Verif.Turchin.dist isV (nat! h) (a.map nat!) (b.map nat!)} " ++ ",".intercalate (ka.map toString) ++ " " ++ ",".intercalate (kb.map toString))
  | [["glue"], [k], parts] =>
    -- parts: idx1,idx2,..:lab1,lab2,..
    let ps : List (List Nat × List Nat) := parts.map fun s =>
      match s.splitOn ":" with
      | [a, b] => ((a.splitOn ",").filter (· ≠ "") |>.map nat!, (b.splitOn ",").filter (· ≠ "") |>.map nat!)
      | _ => ([], [])
    let out := glue (nat! k) ps
    some ("G " ++ " ".intercalate (out.map fun c => ",".intercalate (c.map fun e => s!"{e.1}={e.2}")))
  | [["pglue"], [k], parts] =>
    let ps : List (List Nat × List Nat) := parts.map fun s =>
      match s.splitOn ":" with
      | [a, b] => ((a.splitOn ",").filter (· ≠ "") |>.map nat!, (b.splitOn ",").filter (· ≠ "") |>.map nat!)
      | _ => ([], [])
    let out := Verif.Partial.pglue (nat! k) ps
    some ("G " ++ " ".intercalate (out.map fun c => ",".intercalate (c.map fun e => s!"{e.1}={e.2}")))
  | [["strict"], rows] =>
    let rs : List (Nat × List Nat) := rows.map fun s =>
      match s.splitOn ":" with
      | [a, b] => (nat! a, (b.splitOn ",").filter (· ≠ "") |>.map nat!)
      | _ => (0, [])
    some ("S " ++ " ".intercalate ((Verif.Partial.strictIds rs).map fun e => s!"{e.1}={e.2}"))
  | [["looseok"], [k], ids, lab, par, rank] =>
    -- ids: one token per word "a,b,c"
    let idl : List (List Nat) := ids.map fun s => (s.splitOn ",").filter (· ≠ "") |>.map nat!
    some (if Verif.Comp.looseOkb (nat! k) idl (nats lab) (nats par) (nats rank) then "ok" else "bad")
  | [["ppok"], [k], word, old, new, edges, par, rank] =>
    -- edges: tokens "i,j"
    let es : List (Nat × Nat) := edges.filterMap fun s =>
      match s.splitOn "," with
      | [a, b] => some (nat! a, nat! b)
      | _ => none
    let edge := fun (a b : Nat) => es.contains (a, b)
    some (if Verif.Comp.ppOkb (nat! k) (nats word) (nats old) (nats new) edge (nats par) (nats rank) then "ok" else "bad")
  | [["slices"], toks, morphs, seps] =>
    -- toks: token codes; morphs: one field per morpheme "a,b,c"; seps: the codes of the written separators
    let ms : List (List Nat) := morphs.map fun s => (s.splitOn ",").filter (· ≠ "") |>.map nat!
    let sp := nats seps
    let isSep := fun (t : Nat) => sp.contains t
    let sl := Verif.Partial.slices isSep (nats toks) 0 ms
    some ((if Verif.Partial.decompOkb isSep (nats toks) ms then "D1 " else "D0 ") ++
      " ".intercalate (sl.map fun e => s!"{e.1}:{e.2}"))
  | [["morphs"], [sot], toks, seps, tones] =>
    -- the morphemes of a token list: written borders win, without them a tone ends a morpheme when asked for (sot = 1)
    let sp := nats seps
    let tn := nats tones
    let ms := Verif.Partial.morphemesOf (fun t => sp.contains t) (fun t => tn.contains t) (sot == "1") (nats toks)
    some ("M " ++ " ".intercalate (ms.map fun m => ",".intercalate (m.map toString)))
  | _ => none

end Verif.Driver
