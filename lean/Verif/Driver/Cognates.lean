import Verif.Model.Cognates
import Verif.Model.Partial
import Verif.Driver.Util
namespace Verif.Driver
open Verif.Cognates

def handleCog (fs : List (List String)) : Option String :=
  match fs with
  | [["glue"], [k], parts] =>
    -- parts: idx1,idx2,..:lab1,lab2,..
    let ps : List (List Nat × List Nat) := parts.map fun s =>
      match s.splitOn ":" with
      | [a, b] => ((a.splitOn ",").filter (· ≠ "") |>.map nat!, (b.splitOn ",").filter (· ≠ "") |>.map nat!)
      | _ => ([], [])
    let out := glue (nat! k) ps
    some ("G " ++ " ".intercalate (out.map fun c => ",".intercalate (c.map fun e => s!"{e.1}={e.2}")))
  | [["pglue"], [k], parts] =>
    let ps : List (List Nat × List Nat) := parts.map fun s =>
      match s.splitOn ":" with
      | [a, b] => ((a.splitOn ",").filter (· ≠ "") |>.map nat!, (b.splitOn ",").filter (· ≠ "") |>.map nat!)
      | _ => ([], [])
    let out := Verif.Partial.pglue (nat! k) ps
    some ("G " ++ " ".intercalate (out.map fun c => ",".intercalate (c.map fun e => s!"{e.1}={e.2}")))
  | [["strict"], rows] =>
    let rs : List (Nat × List Nat) := rows.map fun s =>
      match s.splitOn ":" with
      | [a, b] => (nat! a, (b.splitOn ",").filter (· ≠ "") |>.map nat!)
      | _ => (0, [])
    some ("S " ++ " ".intercalate ((Verif.Partial.strictIds rs).map fun e => s!"{e.1}={e.2}"))
  | _ => none

end Verif.Driver
