import Verif.Model.Cache
import Verif.Driver.Util
namespace Verif.Driver
open Verif.Cache

def fsOf : String → FState
  | "v" => .valid | "c" => .corrupt | _ => .absent
def fsOut : FState → String
  | .valid => "v" | .corrupt => "c" | .absent => "a"
def evOut : Ev → String
  | .loadOk f => s!"L{f}" | .loadFail f .missing => s!"M{f}" | .loadFail f .unpickle => s!"U{f}" | .dump f => s!"D{f}"

def handleCache (fs : List (List String)) : Option String :=
  match fs with
  | [["cachestart"], [e], units, states] =>
    let us : List CUnit := units.map fun s =>
      match s.splitOn ":" with
      | [m, ws] => ⟨nat! m, (ws.splitOn ",").map nat!⟩
      | _ => ⟨0, []⟩
    let E : Failure → Bool := if e == "1" then fun _ => true else fun x => x == .missing
    match start E us (states.map fsOf) with
    | .ok (c, ev) => some s!"OK {"".intercalate (c.map fsOut)} {" ".intercalate (ev.map evOut)}"
    | .error .missing => some "FAIL missing"
    | .error .unpickle => some "FAIL unpickle"
  | _ => none

end Verif.Driver
