import Verif.Model.Wordlist
import Verif.Model.WordlistViews
import Verif.Model.Names
import Verif.Driver.Util
namespace Verif.Driver
open Verif.WL

def rowIn (s : String) : Row :=
  match s.splitOn "." with
  | [i, c, l, g] => ⟨nat! i, nat! c, nat! l, if g == "" then [] else (g.splitOn ",").map nat!⟩
  | _ => default

def nl (l : List Nat) : String := ",".intercalate (l.map toString)
def il (l : List Int) : String := ",".intercalate (l.map toString)

def handleWL (fs : List (List String)) : Option String :=
  match fs with
  | [["wlviews"], rs, cs, [m]] =>
    let rows := rs.map rowIn
    let cols := nats cs
    let arr := ";".intercalate ((arrayBlocks rows cols).map fun b => s!"{b.1}=" ++ "/".intercalate (b.2.map nl))
    let ety := ";".intercalate ((etymdict rows cols).map fun e => s!"{e.1}=" ++ "/".intercalate (e.2.map nl))
    let paps := ";".intercalate ((etymdict rows cols).map fun e => s!"{e.1}=" ++ il (papOf rows cols (int! m) e.1))
    let dst := ";".intercalate (cols.flatMap fun a => cols.map fun b =>
      let x := dstCounts rows false a b
      let y := dstCounts rows true a b
      s!"{a}.{b}={x.1}.{x.2}.{y.1}.{y.2}")
    let lc := ";".intercalate (cols.map fun l => s!"{l}=" ++ nl (listOfCol rows cols l))
    let lr := ";".intercalate ((concepts rows).map fun c => s!"{c}=" ++ nl (listOfRow rows cols c))
    some s!"W {arr} # {ety} # {paps} # {dst} # {lc} # {lr}"
  | [["wldicts"], rs, cs] =>
    -- get_dict(col=l) for every language, get_dict(row=c) for every concept: ordered key=ids lists
    let rows := rs.map rowIn
    let cols := nats cs
    let showD := fun (d : List (Nat × List Nat)) => "/".intercalate (d.map fun p => s!"{p.1}:" ++ nl p.2)
    let dc := ";".intercalate (cols.map fun l => s!"{l}=" ++ showD (dictOfCol rows cols l))
    let dr := ";".intercalate ((concepts rows).map fun c => s!"{c}=" ++ showD (dictOfRow rows c))
    some s!"D {dc} # {dr}"
  | [["names"], items] =>
    -- item = lower-cased name ":" name, each a comma-separated list of code points
    let codes := fun (t : String) => if t == "" then ([] : List Nat) else (t.splitOn ",").map nat!
    let vals : List Verif.Names.Name := items.map fun it =>
      match it.splitOn ":" with
      | [lo, nm] => (codes lo, codes nm)
      | _ => ([], [])
    some ("S " ++ " ".intercalate ((Verif.Names.distinctSorted vals).map fun v => nl v.2))
  | [["renumber"], src, xs] =>
    some ("N " ++ nl ((nats xs).map (renumber (nats src))))
  | _ => none

end Verif.Driver
