/-
Line-protocol helpers for the model driver.  A request is one line:
fields separated by `|`, tokens inside a field separated by blanks.
Floats travel as the decimal value of their IEEE-754 bit pattern.
-/
namespace Verif.Driver

def fields (line : String) : List (List String) :=
  (line.splitOn "|").map fun f => (f.splitOn " ").filter (· ≠ "")

def nat! (s : String) : Nat := s.toNat!
def int! (s : String) : Int := s.toInt!
def flt! (s : String) : Float := Float.ofBits (UInt64.ofNat s.toNat!)
def bool! (s : String) : Bool := s == "1"

def nats (f : List String) : List Nat := f.map nat!
def ints (f : List String) : List Int := f.map int!
def flts (f : List String) : List Float := f.map flt!

def fltOut (x : Float) : String := toString x.toBits.toNat

def natsOut (l : List Nat) : String := " ".intercalate (l.map toString)
def intsOut (l : List Int) : String := " ".intercalate (l.map toString)

end Verif.Driver
