/-
Further views of a wordlist (`Wordlist.get_dict`): the dictionary of one language (concept ↦ row ids, read down the
column of `_array`) and the dictionary of one concept (`_dict[concept]`: language ↦ row ids in row order).
Import-free and executable; same conventions as `Model/Wordlist.lean`.
-/
import Verif.Model.Wordlist
namespace Verif.WL

/-- `self[i][self._rowIdx]`: the concept of the row with id `v` -/
def conceptOfId (rows : List Row) (v : Nat) : Nat := ((rows.find? fun r => r.id == v).map (·.concept)).getD 0

/-- `get_dict(col=l)`: the non-zero ids of the array column of `l`, grouped by the concept of their row;
keys in the order of first occurrence, ids in column order -/
def dictOfCol (rows : List Row) (cols : List Nat) (l : Nat) : List (Nat × List Nat) :=
  let ids := listOfCol rows cols l
  (keyOrder (ids.map (conceptOfId rows))).map fun c => (c, ids.filter fun v => conceptOfId rows v == c)

/-- `get_dict(row=c)` = `_dict[c]`: languages in the order in which the rows of the concept name them, ids in row order -/
def dictOfRow (rows : List Row) (c : Nat) : List (Nat × List Nat) :=
  (keyOrder ((rows.filter fun r => r.concept == c).map (·.lang))).map fun l => (l, idsOf rows c l)

/-- `get_dict(..., entry=e)`: every id replaced by the cell of its row -/
def withEntry {α : Type} (cell : Nat → α) (d : List (Nat × List Nat)) : List (Nat × List α) :=
  d.map fun p => (p.1, p.2.map cell)

end Verif.WL
