/-
Model of the consonant-class method (`lingpy.align.pairwise.turchin`): two words are judged cognate (0) when the first two
consonant classes of their sound-class strings agree, with an initial vowel counted as the class `H`; otherwise 1.
Classes are natural-number codes; import-free and executable.
-/
namespace Verif.Turchin

/-- `classA[0] = 'H'` if it is a vowel; then the classes that are no vowels, first two -/
def key (isVowel : Nat → Bool) (h : Nat) (cls : List Nat) : List Nat :=
  let cls' := match cls with
    | c :: r => (if isVowel c then h else c) :: r
    | [] => []
  (cls'.filter fun c => !isVowel c).take 2

/-- `int(keyA != keyB)` -/
def dist (isVowel : Nat → Bool) (h : Nat) (a b : List Nat) : Int :=
  if key isVowel h a != key isVowel h b then 1 else 0

end Verif.Turchin
