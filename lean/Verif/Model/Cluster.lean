import Verif.Model.Align
/-
Model of the flat (threshold) clusterers of `_cluster.py`
(`_flat_single_linkage`, `_flat_complete_linkage`, `_flat_upgma`, `flat_cluster`, `flat_upgma`).

State = the insertion-ordered `clusters` dictionary as an association list
`(key, members)`; one step = scan of all ordered pairs of distinct clusters in dictionary
order, minimum of the linkage values, merge `clusters[a] += clusters[b]; del clusters[b]`.
Generic in the score carrier; import-free and executable.
-/
namespace Verif.Cluster
open Verif.Align ScoreOps

inductive Link | single | complete | average
  deriving DecidableEq, Repr, Inhabited

/-- implementation choices the theorems do not depend on -/
structure Cfg where
  link : Link
  lastMin : Bool     -- `scores.index(min(scores))` picks the first minimum; `true` = last
  unordered : Bool   -- scan `i != j` (ordered pairs); `true` = only `i` before `j`
  deriving Repr, Inhabited

abbrev St := List (Nat × List Nat)

variable {S : Type} [ScoreOps S]

/-- Python `min(list)` : first minimal element -/
def listMin : List S → S
  | [] => zero
  | x :: xs => xs.foldl (fun acc y => if lt y acc then y else acc) x

/-- Python `max(list)` : first maximal element -/
def listMax : List S → S
  | [] => zero
  | x :: xs => xs.foldl (fun acc y => if lt acc y then y else acc) x

def cross (M : Nat → Nat → S) (A B : List Nat) : List S :=
  A.flatMap fun a => B.map fun b => M a b

def linkage (link : Link) (M : Nat → Nat → S) (A B : List Nat) : S :=
  let vals := cross M A B
  match link with
  | .single => listMin vals
  | .complete => listMax vals
  | .average => div (ScoreOps.sum vals) (ofNat vals.length)

/-- remove position `q`, returning the removed entry -/
def takeOut : St → Nat → Option ((Nat × List Nat) × St)
  | [], _ => none
  | c :: cs, 0 => some (c, cs)
  | c :: cs, q+1 => (takeOut cs q).map fun xr => (xr.1, c :: xr.2)

/-- append members `B` to the cluster at position `p` -/
def addTo : St → Nat → List Nat → St
  | [], _, _ => []
  | c :: cs, 0, B => (c.1, c.2 ++ B) :: cs
  | c :: cs, p+1, B => c :: addTo cs p B

/-- `clusters[a] += clusters[b]; del clusters[b]` for the entries at positions `p ≠ q` -/
def mergeAt (cs : St) (p q : Nat) : St :=
  match takeOut cs q with
  | none => cs
  | some (b, r) => addTo r (if p < q then p else p - 1) b.2

/-- all (position pair, linkage) in scan order -/
def pairScores (cfg : Cfg) (M : Nat → Nat → S) (cs : St) : List ((Nat × Nat) × S) :=
  let ics := cs.zipIdx
  ics.flatMap fun (a : (Nat × List Nat) × Nat) =>
    ics.filterMap fun (b : (Nat × List Nat) × Nat) =>
      if (if cfg.unordered then decide (a.2 < b.2) else a.2 != b.2)
      then some ((a.2, b.2), linkage cfg.link M a.1.2 b.1.2) else none

/-- position and value of the first (or last) minimum -/
def argMin (lastMin : Bool) : List ((Nat × Nat) × S) → Option ((Nat × Nat) × S)
  | [] => none
  | x :: xs => some (xs.foldl (fun acc y =>
      if (if lastMin then le y.2 acc.2 else lt y.2 acc.2) then y else acc) x)

/-- the merge offered in state `cs` (independent of the threshold) -/
def next (cfg : Cfg) (M : Nat → Nat → S) (cs : St) : Option (S × St) :=
  if cs.length ≤ 1 then none else
  match argMin cfg.lastMin (pairScores cfg M cs) with
  | none => none
  | some ((p, q), m) => some (m, mergeAt cs p q)

/-- iterate while the offered minimum is `<= threshold` -/
def run (cfg : Cfg) (M : Nat → Nat → S) (t : S) : Nat → St → St
  | 0, cs => cs
  | n+1, cs =>
    match next cfg M cs with
    | none => cs
    | some (m, cs') => if le m t then run cfg M t n cs' else cs

def init (n : Nat) : St := (List.range n).map fun i => (i, [i])

/-- `flat_cluster(method, threshold, matrix)` on an `n × n` matrix -/
def flatCluster (cfg : Cfg) (M : Nat → Nat → S) (t : S) (n : Nat) : St := run cfg M t n (init n)

/-- the sequence of states visited (for the prefix property, C10) -/
def trace (cfg : Cfg) (M : Nat → Nat → S) (t : S) : Nat → St → List St
  | 0, cs => [cs]
  | n+1, cs =>
    match next cfg M cs with
    | none => [cs]
    | some (m, cs') => if le m t then cs :: trace cfg M t n cs' else [cs]

/-- decidable: `cs'` is `cs` with two distinct entries merged (tie (a) of C10 on observed traces) -/
def isMergeb (cs cs' : St) : Bool :=
  (List.range cs.length).any fun p => (List.range cs.length).any fun q => p != q && mergeAt cs p q == cs'

def chainOkb : List St → Bool
  | [] => true
  | [_] => true
  | a :: b :: rest => isMergeb a b && chainOkb (b :: rest)

/-- `revert=True`: item ↦ key + 1 -/
def revert (cs : St) : List (Nat × Nat) :=
  cs.flatMap fun c => c.2.map fun i => (i, c.1 + 1)

end Verif.Cluster
