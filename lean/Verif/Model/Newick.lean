import Verif.Model.TreeDist
/-
Model of writing a tree as a Newick string and parsing it again (C15, last clause), at the level
of tokens: `(`, `)`, `,` and leaf names.  Branch lengths, quoting of names and internal node labels
are removed by the tokenizer of the harness before the tokens reach the model.
Import-free (besides the tree type) and executable.
-/
namespace Verif.Newick
open Verif.TreeDist

inductive Tok where
  | lpar | rpar | comma
  | name (n : Nat)
  deriving DecidableEq, Repr

mutual
/-- `getNewick()` without distances -/
def print : Tree → List Tok
  | .leaf n => [.name n]
  | .node cs => .lpar :: printL cs ++ [.rpar]
def printL : List Tree → List Tok
  | [] => []
  | [t] => print t
  | t :: t' :: ts => print t ++ .comma :: printL (t' :: ts)
end

mutual
/-- recursive-descent parser; `fuel` bounds the number of tokens consumed -/
def parse : Nat → List Tok → Option (Tree × List Tok)
  | 0, _ => none
  | _+1, .name n :: r => some (.leaf n, r)
  | f+1, .lpar :: r =>
    match parseL f r with
    | some (cs, r') => some (.node cs, r')
    | none => none
  | _+1, _ => none
/-- the children after `(`: trees separated by commas, closed by `)` -/
def parseL : Nat → List Tok → Option (List Tree × List Tok)
  | 0, _ => none
  | f+1, toks =>
    match parse f toks with
    | some (t, .comma :: r) =>
      (match parseL f r with
       | some (ts, r') => some (t :: ts, r')
       | none => none)
    | some (t, .rpar :: r) => some ([t], r)
    | _ => none
end

end Verif.Newick
