/-
Model of the Newick TEXT level of `lingpy.thirdparty.cogent`: how `getNewick` writes a node name
(quoting and escaping) and how `newick._Tokeniser.tokens` reads the text again – the regular-expression
split into pieces followed by the token state machine (quoted labels with doubled quotes, unquoted
labels with optional underscore conversion, comments, white space).  Characters are `Char`, strings
`List Char`.  Import-free and executable.
-/
namespace Verif.NewickText

def isWs (c : Char) : Bool := c == ' ' || c == '\t'

/-- the one-character alternatives of the split expression `[]['"(),:;]` -/
def isDelim (c : Char) : Bool :=
  c == '[' || c == ']' || c == '\'' || c == '"' || c == '(' || c == ')' || c == ',' || c == ':' || c == ';'

/-- the characters that make `getNewick` quote a name: `[]['"(),:;_]` -/
def isSpecial (c : Char) : Bool := isDelim c || c == '_'

/-! ### the writer -/

def doubleQuotes : List Char → List Char
  | [] => []
  | c :: cs => if c == '\'' then '\'' :: '\'' :: doubleQuotes cs else c :: doubleQuotes cs

def blanksToUnderscores (s : List Char) : List Char := s.map fun c => if c == ' ' then '_' else c

/-- `name` as written by `getNewick(escape_name=True)` -/
def escapeName (name : List Char) : List Char :=
  if name.head? == some '\'' && name.getLast? == some '\'' then name          -- taken as already quoted
  else if name.any isSpecial then '\'' :: doubleQuotes name ++ ['\'']
  else blanksToUnderscores name

/-! ### the reader, step 1: `re.split("([\t ]+|\n|''|\"\"|[]['\"(),:;])", text)` without the empty pieces -/

def flushP (cur : List Char) (l : List (List Char)) : List (List Char) := if cur.isEmpty then l else cur :: l

/-- `cur` is the piece being collected, `ws` says whether it is a run of blanks/tabs -/
def pieces (cur : List Char) (ws : Bool) (s : List Char) : List (List Char) :=
  match s with
  | [] => flushP cur []
  | c :: rest =>
    if isWs c then
      (if ws then pieces (cur ++ [c]) true rest else flushP cur (pieces [c] true rest))
    else if c == '\n' then flushP cur (['\n'] :: pieces [] false rest)
    else if c == '\'' || c == '"' then
      match hr : rest with
      | d :: rest' =>
        if d == c then flushP cur ([c, c] :: pieces [] false rest')
        else flushP cur ([c] :: pieces [] false (d :: rest'))
      | [] => flushP cur [[c]]
    else if isDelim c then flushP cur ([c] :: pieces [] false rest)
    else (if ws then flushP cur (pieces [c] false rest) else pieces (cur ++ [c]) false rest)
termination_by s.length
decreasing_by
  all_goals (try subst hr)
  all_goals simp only [List.length_cons]
  all_goals omega

/-! ### the reader, step 2: the token state machine -/

structure St where
  text : Option (List Char)      -- `text` (None / a string)
  quote : Option Char            -- `closing_quote_token`
  comment : Bool                 -- `in_comment`
  deriving Repr, DecidableEq

inductive Out where
  | label (s : List Char)
  | sym (c : Char)
  | eot
  deriving Repr, DecidableEq

def strip (s : List Char) : List Char :=
  let isSp := fun (c : Char) => c == ' ' || c == '\t' || c == '\n' || c == '\r'
  ((s.dropWhile isSp).reverse.dropWhile isSp).reverse

def munge (unmunge : Bool) (s : List Char) : List Char :=
  if unmunge then s.map fun c => if c == '_' then ' ' else c else s

/-- the characters of `'\n[():,;'` -/
def isBreak (c : Char) : Bool := c == '\n' || c == '[' || c == '(' || c == ')' || c == ':' || c == ',' || c == ';'

/-- what the `token is EOT or token in '\n[():,;'` branch does with a pending unquoted label -/
def closeText (unmunge : Bool) (st : St) : St × List Out :=
  match st.text with
  | some t => if t.isEmpty then (st, []) else ({ st with text := none }, [.label (munge unmunge (strip t))])
  | none => (st, [])

/-- one piece; `none` is a `TreeParseError` -/
def stepTok (unmunge : Bool) (st : St) (tok : List Char) : Option (St × List Out) :=
  if st.comment then
    some (if tok == [']'] then { st with comment := false } else st, [])
  else match st.quote with
    | some q =>
      if tok == ['\n'] then none
      else if tok == [q] then some ({ st with text := none, quote := none }, [.label (st.text.getD [])])
      else some ({ st with text := some (st.text.getD [] ++ (if tok == [q, q] then [q] else tok)) }, [])
    | none =>
      match tok with
      | [c] =>
        if isBreak c then
          let r := closeText unmunge st
          if c == '\n' then some r
          else if c == '[' then some ({ r.1 with comment := true }, r.2)
          else some (r.1, r.2 ++ [.sym c])
        else match st.text with
          | some t => some ({ st with text := some (t ++ tok) }, [])
          | none =>
            if c == '\'' || c == '"' then some ({ st with quote := some c, text := some [] }, [])
            else if (strip tok).isEmpty then some (st, []) else some ({ st with text := some tok }, [])
      | _ =>
        match st.text with
        | some t => some ({ st with text := some (t ++ tok) }, [])
        | none =>
          if tok == ['\'', '\''] || tok == ['"', '"'] then some (st, [.label []])
          else if (strip tok).isEmpty then some (st, []) else some ({ st with text := some tok }, [])

/-- the pieces, then the end of the text -/
def runToks (unmunge : Bool) : St → List (List Char) → Option (List Out)
  | st, [] =>
    if st.comment || st.quote.isSome then none
    else some ((closeText unmunge st).2 ++ [.eot])
  | st, tok :: toks =>
    match stepTok unmunge st tok with
    | none => none
    | some (st', outs) => (runToks unmunge st' toks).map (outs ++ ·)

def initSt : St := ⟨none, none, false⟩

/-- `_Tokeniser(text, underscore_unmunge=…).tokens()` -/
def tokenise (unmunge : Bool) (text : List Char) : Option (List Out) :=
  runToks unmunge initSt (pieces [] false text)

/-! ### whole trees (names at the leaves, no lengths) -/

inductive TTree where
  | leaf (name : List Char)
  | node (cs : List TTree)
  deriving Repr

mutual
def render : TTree → List Char
  | .leaf n => escapeName n
  | .node cs => '(' :: renderL cs ++ [')']
def renderL : List TTree → List Char
  | [] => []
  | [t] => render t
  | t :: t' :: ts => render t ++ ',' :: renderL (t' :: ts)
end

/-- what the reader returns for a name the writer has written (with `underscore_unmunge=False`, as lingpy reads trees) -/
def canonName (name : List Char) : List Char :=
  if name.any isSpecial then name else blanksToUnderscores name

mutual
def outs : TTree → List Out
  | .leaf n => [.label (canonName n)]
  | .node cs => .sym '(' :: outsL cs ++ [.sym ')']
def outsL : List TTree → List Out
  | [] => []
  | [t] => outs t
  | t :: t' :: ts => outs t ++ .sym ',' :: outsL (t' :: ts)
end

end Verif.NewickText
