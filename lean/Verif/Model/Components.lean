/-
Certificate checker for connected-component labellings (C16: 'loose' cognate ids and the
post-processing of partial ids are computed with `networkx.connected_components`).

The library's graph search is not modelled; instead every observed labelling is *checked*:
`compOkb` accepts a labelling of the nodes `0 … n-1` together with a spanning-forest certificate
(parent pointers and ranks, recomputed by the harness) only if the labelling is exactly the
partition into connected components (theorem `compOk_sound` in Props/C16Comp.lean).
Import-free and executable.
-/
namespace Verif.Comp

def sym (adj : Nat → Nat → Bool) (a b : Nat) : Bool := adj a b || adj b a

def compOkb (n : Nat) (adj : Nat → Nat → Bool) (lab par rank : List Nat) : Bool :=
  lab.length == n && par.length == n && rank.length == n &&
  -- every edge joins equal labels
  ((List.range n).all fun i => (List.range n).all fun j => !(sym adj i j) || lab.getD i 0 == lab.getD j 0) &&
  -- a root points to itself; any other node points to an adjacent node of the same label and smaller rank
  ((List.range n).all fun i =>
    let p := par.getD i 0
    p == i || (decide (p < n) && decide (rank.getD p 0 < rank.getD i 0) && sym adj p i && lab.getD p 0 == lab.getD i 0)) &&
  -- one root per label
  ((List.range n).all fun i => (List.range n).all fun j =>
    !(par.getD i 0 == i && par.getD j 0 == j && lab.getD i 0 == lab.getD j 0) || i == j)

/-- first-occurrence order of distinct values -/
def firsts (xs : List Nat) : List Nat :=
  xs.foldl (fun acc x => if acc.contains x then acc else acc ++ [x]) []

/-- the labels are `k+1, k+2, …` in the order in which the components are first met -/
def numberedb (k : Nat) (lab : List Nat) : Bool :=
  firsts lab == List.range' (k + 1) (firsts lab).length

/-- 'loose' ids of one concept: words share an edge when their partial-id lists intersect -/
def sharesb (ids : List (List Nat)) (i j : Nat) : Bool :=
  (ids.getD i []).any fun x => (ids.getD j []).contains x

def looseOkb (k : Nat) (ids : List (List Nat)) (lab par rank : List Nat) : Bool :=
  compOkb ids.length (sharesb ids) lab par rank && numberedb k lab

/-- post-processing of partial ids within one concept.  `word`, `old`, `new` per morpheme: the word it
belongs to, its cluster id, its id after post-processing; `edge i j`: the edge survived in the
graph the code keeps (`self.graphs[concept]`). -/
def ppOkb (k : Nat) (word old new : List Nat) (edge : Nat → Nat → Bool) (par rank : List Nat) : Bool :=
  let n := word.length
  old.length == n && new.length == n &&
  -- surviving edges join morphemes of one cluster
  ((List.range n).all fun i => (List.range n).all fun j => !(sym edge i j) || old.getD i 0 == old.getD j 0) &&
  -- of two morphemes of one word in one cluster, one has lost all its edges
  ((List.range n).all fun i => (List.range n).all fun j =>
    !(i != j && word.getD i 0 == word.getD j 0 && old.getD i 0 == old.getD j 0) ||
      ((List.range n).all fun x => !(sym edge i x)) || ((List.range n).all fun x => !(sym edge j x))) &&
  -- the new ids are the components of the surviving graph, numbered from k+1
  compOkb n edge new par rank && numberedb k new

end Verif.Comp
