/-
Model of the `<dst>` block of a saved word list as `read_qlc` takes it in: the matrix that is kept is rebuilt from the
upper triangle of what was read (`distances[i][j] = distances[j][i] = cell` for `i < j`), zero on the diagonal.
Import-free and executable; generic in the cell type.
-/
namespace Verif.Dst

def cellOf {α : Type} (zero : α) (m : List (List α)) (i j : Nat) : α := (m.getD i []).getD j zero

/-- `meta['distances']` from the matrix `read_dst` returned -/
def rebuild {α : Type} (zero : α) (m : List (List α)) : List (List α) :=
  (List.range m.length).map fun i => (List.range m.length).map fun j =>
    if i < j then cellOf zero m i j else if j < i then cellOf zero m j i else zero

/-- square, symmetric, zero diagonal: what a distance matrix is -/
def isDistb {α : Type} [BEq α] (zero : α) (m : List (List α)) : Bool :=
  m.all (fun r => r.length == m.length) &&
  (List.range m.length).all fun i => (List.range m.length).all fun j =>
    (cellOf zero m i j == cellOf zero m j i) && (i != j || cellOf zero m i i == zero)

end Verif.Dst

/-! ### one line of the block: `matrix2dst` writes it, `read_dst` reads it (characters as code points, blank = 32) -/
namespace Verif.Dst

def joinSp : List (List Nat) → List Nat
  | [] => []
  | [v] => v
  | v :: w :: vs => v ++ 32 :: joinSp (w :: vs)

/-- `'{0:10}'.format(taxon)[:11] + ' ' + ' '.join(values)` -/
def writeLine (name : List Nat) (vals : List (List Nat)) : List Nat :=
  (name ++ List.replicate (10 - name.length) 32).take 11 ++ 32 :: joinSp vals

/-- maximal runs of non-blank characters (`re.split(r'\s+', s.strip())` on a line that holds a value);
`cur` is the run being read, reversed -/
def splitWsGo : List Nat → List Nat → List (List Nat)
  | [], cur => if cur.isEmpty then [] else [cur.reverse]
  | c :: cs, cur =>
    if c == 32 then (if cur.isEmpty then splitWsGo cs [] else cur.reverse :: splitWsGo cs [])
    else splitWsGo cs (c :: cur)

def splitWs (s : List Nat) : List (List Nat) := splitWsGo s []

def stripSp (s : List Nat) : List Nat := ((s.dropWhile (· == 32)).reverse.dropWhile (· == 32)).reverse

/-- `taxa.append(line[:10].strip())`, `re.split(r'\s+', line[11:].strip())` -/
def readLine (line : List Nat) : List Nat × List (List Nat) := (stripSp (line.take 10), splitWs (line.drop 11))

end Verif.Dst
