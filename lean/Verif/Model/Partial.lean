/-
Model of the id bookkeeping of `Partial.partial_cluster` (C16) and of the 'strict' derivation
of word-level cognate ids in `add_cognate_ids`.
Per concept the morphemes (one `trace` entry each: the word it belongs to) get the cluster label
plus the running offset `k`; afterwards `k += len(matrix) + 1`.
-/
namespace Verif.Partial

/-- per concept: (word of each morpheme, 1-based label of each morpheme); returns per concept the
pairs (word, partial id) in trace order -/
def pglue : Nat → List (List Nat × List Nat) → List (List (Nat × Nat))
  | _, [] => []
  | k, (words, labs) :: rest => words.zip (labs.map (· + k)) :: pglue (k + labs.length + 1) rest

/-- the partial ids of one word: its morphemes' ids in order -/
def idsOfWord (entries : List (Nat × Nat)) (w : Nat) : List Nat :=
  (entries.filter fun e => e.1 == w).map (·.2)

/-- first-occurrence order of distinct values -/
def distinct {α : Type} [DecidableEq α] (xs : List α) : List α :=
  xs.foldl (fun acc x => if x ∈ acc then acc else acc ++ [x]) []

/-- 'strict' cognate ids: words in row order, id = 1 + position of the word's id sequence among
the distinct sequences (first occurrence order) -/
def strictIds (rows : List (Nat × List Nat)) : List (Nat × Nat) :=
  let seqs := distinct (rows.map (·.2))
  rows.map fun r => (r.1, seqs.idxOf r.2 + 1)

end Verif.Partial
