/-
Model of the id bookkeeping of `Partial.partial_cluster` (C16) and of the 'strict' derivation
of word-level cognate ids in `add_cognate_ids`.
Per concept the morphemes (one `trace` entry each: the word it belongs to) get the cluster label
plus the running offset `k`; afterwards `k += len(matrix) + 1`.
-/
namespace Verif.Partial

/-- per concept: (word of each morpheme, 1-based label of each morpheme); returns per concept the
pairs (word, partial id) in trace order -/
def pglue : Nat → List (List Nat × List Nat) → List (List (Nat × Nat))
  | _, [] => []
  | k, (words, labs) :: rest => words.zip (labs.map (· + k)) :: pglue (k + labs.length + 1) rest

/-- the partial ids of one word: its morphemes' ids in order -/
def idsOfWord (entries : List (Nat × Nat)) (w : Nat) : List Nat :=
  (entries.filter fun e => e.1 == w).map (·.2)

/-- first-occurrence order of distinct values -/
def distinct {α : Type} [DecidableEq α] (xs : List α) : List α :=
  xs.foldl (fun acc x => if x ∈ acc then acc else acc ++ [x]) []

/-- 'strict' cognate ids: words in row order, id = 1 + position of the word's id sequence among
the distinct sequences (first occurrence order) -/
def strictIds (rows : List (Nat × List Nat)) : List (Nat × Nat) :=
  let seqs := distinct (rows.map (·.2))
  rows.map fun r => (r.1, seqs.idxOf r.2 + 1)

/-! ### slices of the morphemes of a word (`_get_slices`)

The segments of a word are a list of tokens, some of which are written separators (`+`, `_`, …).  The morphemes are given
(computed by `tokens2morphemes` / `lists.n`); the slices are the positions of the morphemes in the token list. -/

/-- position of the first token at or after `cur` that is not a separator -/
def skipSeps (isSep : Nat → Bool) (toks : List Nat) : Nat → Nat → Nat
  | 0, cur => cur
  | fuel + 1, cur => match toks[cur]? with
    | some t => if isSep t then skipSeps isSep toks fuel (cur + 1) else cur
    | none => cur

/-- `_get_slices` as repaired: written separators are skipped before every morpheme -/
def slices (isSep : Nat → Bool) (toks : List Nat) : Nat → List (List Nat) → List (Nat × Nat)
  | _, [] => []
  | cur, m :: ms =>
    let c := skipSeps isSep toks toks.length cur
    (c, c + m.length) :: slices isSep toks (c + m.length) ms

/-- `_get_slices(split_on_tones=True)` as it was: the separators are not stepped over -/
def slicesOld (toks : List Nat) : Nat → List (List Nat) → List (Nat × Nat)
  | _, [] => []
  | cur, m :: ms => (cur, cur + m.length) :: slicesOld toks (cur + m.length) ms

/-- the morphemes are a decomposition of the tokens: separators, a morpheme without separators, separators, … -/
def decompOkb (isSep : Nat → Bool) : List Nat → List (List Nat) → Bool
  | toks, [] => toks.all isSep
  | toks, m :: ms =>
    let rest := toks.dropWhile isSep
    !m.isEmpty && m.all (fun t => !isSep t) && rest.take m.length == m && decompOkb isSep (rest.drop m.length) ms

/-- the maximal runs of tokens between written separators (empty runs are dropped): the morphemes when borders are written -/
def splitSepsF (isSep : Nat → Bool) : Nat → List Nat → List (List Nat)
  | 0, _ => []
  | f + 1, toks =>
    let rest := toks.dropWhile isSep
    if rest.isEmpty then []
    else
      let m := rest.takeWhile fun t => !isSep t
      m :: splitSepsF isSep f (rest.drop m.length)

def splitSeps (isSep : Nat → Bool) (toks : List Nat) : List (List Nat) := splitSepsF isSep (toks.length + 1) toks

/-- a morpheme ends after a tone that is not the last token (words without written borders, `split_on_tones`) -/
def splitTonesF (isTone : Nat → Bool) : Nat → List Nat → List (List Nat)
  | 0, _ => []
  | f + 1, toks =>
    if toks.isEmpty then []
    else
      let k := (toks.takeWhile fun t => !isTone t).length + 1       -- up to and including the first tone
      if (toks.drop k).isEmpty then [toks] else toks.take k :: splitTonesF isTone f (toks.drop k)

def splitTones (isTone : Nat → Bool) (toks : List Nat) : List (List Nat) := splitTonesF isTone (toks.length + 1) toks

/-- `tokens2morphemes(tokens, split_on_tones=sot)`: written borders win; without them a tone ends a morpheme when asked for -/
def morphemesOf (isSep isTone : Nat → Bool) (sot : Bool) (toks : List Nat) : List (List Nat) :=
  if toks.any isSep then splitSeps isSep toks
  else if sot && toks.any isTone then splitTones isTone toks
  else if toks.isEmpty then [] else [toks]

end Verif.Partial
