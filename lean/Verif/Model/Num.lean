/-
Decimal text of an integer, as `str(n)` writes it and `int(text)` reads it back (the canonical form only: an optional
minus sign and ASCII digits).  Characters are code points.  Import-free and executable.
-/
namespace Verif.Num

/-- digits of `n`, least significant first; `0` has none -/
def digitsRev : Nat → List Nat
  | 0 => []
  | n + 1 => ((n + 1) % 10) :: digitsRev ((n + 1) / 10)
decreasing_by omega

/-- `str(n)` for a natural number -/
def renderNat (n : Nat) : List Nat := if n = 0 then [48] else (digitsRev n).reverse.map (· + 48)

/-- `str(n)` -/
def renderInt : Int → List Nat
  | .ofNat n => renderNat n
  | .negSucc n => 45 :: renderNat (n + 1)

def isDigit (c : Nat) : Bool := decide (48 ≤ c) && decide (c ≤ 57)

/-- value of a digit string read from the left; `none` on any other character or on the empty string -/
def parseNat (s : List Nat) : Option Nat :=
  if s.isEmpty then none
  else s.foldl (fun acc c => acc.bind fun a => if isDigit c then some (a * 10 + (c - 48)) else none) (some 0)

/-- `int(text)` on the canonical form -/
def parseInt : List Nat → Option Int
  | 45 :: r => (parseNat r).map fun n => -(n : Int)
  | s => (parseNat s).map fun n => (n : Int)

end Verif.Num

/-! ### fixed-point text: `'{0:.4f}'.format(x)` as (sign, x·10⁴ rounded) and back -/
namespace Verif.Num

/-- the four digits after the point -/
def frac4 (r : Nat) : List Nat := [r / 1000 % 10 + 48, r / 100 % 10 + 48, r / 10 % 10 + 48, r % 10 + 48]

/-- text of the number `± k / 10⁴` with four decimals (`-0.0000` exists: a negative number that rounds to zero) -/
def renderFixed4 (neg : Bool) (k : Nat) : List Nat :=
  (if neg then [45] else []) ++ renderNat (k / 10000) ++ 46 :: frac4 (k % 10000)

/-- an optional minus sign in front -/
def signBody : List Nat → Bool × List Nat
  | 45 :: r => (true, r)
  | r => (false, r)

/-- sign, digits up to the point, exactly four digits after it -/
def parseFixed4 (s : List Nat) : Option (Bool × Nat) :=
  let p := signBody s
  match p.2.dropWhile (· != 46) with
  | 46 :: fr =>
    if fr.length == 4 then
      match parseNat (p.2.takeWhile (· != 46)), parseNat fr with
      | some a, some b => some (p.1, a * 10000 + b)
      | _, _ => none
    else none
  | _ => none

/-! ### two decimals (`'{0:.2f}'.format(x)`, the scorer block) -/

def frac2 (r : Nat) : List Nat := [r / 10 % 10 + 48, r % 10 + 48]

def renderFixed2 (neg : Bool) (k : Nat) : List Nat :=
  (if neg then [45] else []) ++ renderNat (k / 100) ++ 46 :: frac2 (k % 100)

def parseFixed2 (s : List Nat) : Option (Bool × Nat) :=
  let p := signBody s
  match p.2.dropWhile (· != 46) with
  | 46 :: fr =>
    if fr.length == 2 then
      match parseNat (p.2.takeWhile (· != 46)), parseNat fr with
      | some a, some b => some (p.1, a * 100 + b)
      | _, _ => none
    else none
  | _ => none

end Verif.Num
