/-
Model of `lingpy.compare.phylogeny.get_gls` (weighted-parsimony gain–loss mapping).

Trees are rose trees with named nodes; a pattern maps leaf names to 1 (present), 0 (absent),
-1 (missing).  A scenario ("story") is an association list node ↦ event (1 gain, 0 loss).
The bottom-up pass keeps, per node and per state, the minimum-weight partial scenarios built
from the Cartesian product of the children's candidates.  `allMissingFirst = false` is the
code as shipped (the test `s1 + sM == sL` precedes `sM == sL`, which is therefore dead);
`true` is the repaired order.  Import-free and executable.
-/
namespace Verif.GL

inductive GTree where
  | leaf (name : Nat)
  | node (name : Nat) (cs : List GTree)
  deriving Repr, Inhabited

def GTree.name : GTree → Nat
  | .leaf n => n
  | .node n _ => n

abbrev Story := List (Nat × Int)
abbrev Cand := Int × Story

mutual
def leafNames : GTree → List Nat
  | .leaf n => [n]
  | .node _ cs => leafNamesL cs
def leafNamesL : List GTree → List Nat
  | [] => []
  | t :: ts => leafNames t ++ leafNamesL ts
end

mutual
def nodeNames : GTree → List Nat
  | .leaf n => [n]
  | .node n cs => n :: nodeNamesL cs
def nodeNamesL : List GTree → List Nat
  | [] => []
  | t :: ts => nodeNames t ++ nodeNamesL ts
end

/-- Cartesian product in the order of `itertools.product` -/
def product {α : Type} : List (List α) → List (List α)
  | [] => [[]]
  | l :: ls => l.flatMap fun x => (product ls).map fun r => x :: r

def count {α : Type} [BEq α] (x : α) (l : List α) : Nat := (l.filter (· == x)).length

def weightOf (w : Nat × Nat) (s : Story) : Nat :=
  count 1 (s.map (·.2)) * w.1 + count 0 (s.map (·.2)) * w.2

structure Cfg where
  w : Nat × Nat            -- (gain weight, loss weight)
  gpl : Nat                -- gains per lineage limit (as compared in the code: count(1) > gpl)
  pushGains : Bool
  allMissingFirst : Bool   -- repaired order of the case split
  deriving Repr

/-- combine one choice of child candidates into the parent's new candidates -/
def combine (cfg : Cfg) (names : List Nat) (combo : List Cand) : List Cand :=
  let states := combo.map (·.1)
  let stories : Story := combo.flatMap (·.2)
  let s1 := count (1 : Int) states
  let s0 := count (0 : Int) states
  let sM := count (-1 : Int) states
  let sL := states.length
  if cfg.allMissingFirst && sM == sL then [(-1, stories)]
  else if s1 + sM == sL then [(1, stories)]
  else if s0 + sM == sL then [(0, stories)]
  else if sM == sL then [(-1, stories)]
  else
    let zs := names.zip states
    let storiesA := stories ++ (zs.filter (·.2 == 1)).map fun p => (p.1, (1 : Int))
    let storiesB := stories ++ (zs.filter (·.2 == 0)).map fun p => (p.1, (0 : Int))
    [(1, storiesB), (0, storiesA)]

/-- the minimum-weight candidates of one state -/
def pick (cfg : Cfg) (ok : List Cand) (st : Int) : List Cand :=
  let cs := ok.filter fun c => c.1 == st
  match (cs.map fun c => weightOf cfg.w c.2) with
  | [] => []
  | x :: xs => cs.filter fun c => weightOf cfg.w c.2 == xs.foldl min x

/-- keep per state only the minimum-weight candidates (state 0 first, then 1, then – in the
repaired version – the undetermined ones) -/
def prune (cfg : Cfg) (cands : List Cand) : List Cand :=
  let ok := cands.filter fun c => !(c.1 == 1 && count (1 : Int) (c.2.map (·.2)) > cfg.gpl)
  pick cfg ok 0 ++ pick cfg ok 1 ++ (if cfg.allMissingFirst then pick cfg ok (-1) else [])

mutual
def cands (cfg : Cfg) (pat : Nat → Int) : GTree → List Cand
  | .leaf n => [(pat n, [])]
  | .node _ cs =>
    prune cfg ((product (candsL cfg pat cs)).flatMap (combine cfg (cs.map GTree.name)))
def candsL (cfg : Cfg) (pat : Nat → Int) : List GTree → List (List Cand)
  | [] => []
  | t :: ts => cands cfg pat t :: candsL cfg pat ts
end

def containsAll (ps : List Nat) (t : GTree) : Bool := ps.all fun p => (leafNames t).contains p

/-- `tree.lowestCommonAncestor(presents)`; `fuel` ≥ depth of the tree -/
def lcaSub (ps : List Nat) : Nat → GTree → GTree
  | 0, t => t
  | _+1, .leaf n => .leaf n
  | f+1, .node n cs =>
    match cs.find? (containsAll ps) with
    | some c => lcaSub ps f c
    | none => .node n cs

/-- root candidates with the root gain added; grouped later by weight -/
def rootCands (cfg : Cfg) (pat : Nat → Int) (t : GTree) : List Story :=
  (cands cfg pat t).map fun c => if c.1 == 1 then c.2 ++ [(t.name, (1 : Int))] else c.2

def minWeightStories (cfg : Cfg) (ss : List Story) : List Story :=
  match ss.map (weightOf cfg.w) with
  | [] => []
  | x :: xs => let m := xs.foldl min x; ss.filter fun s => weightOf cfg.w s == m

/-- the returned scenario: among the minimum-weight ones, the first with the fewest gains
(`push_gains`) resp. fewest losses – Python's stable `sorted(...)[0]` -/
def pickFinal (cfg : Cfg) (ss : List Story) : Option Story :=
  let key := fun (s : Story) => count (if cfg.pushGains then (1 : Int) else 0) (s.map (·.2))
  match ss with
  | [] => none
  | x :: xs => some (xs.foldl (fun best s => if key s < key best then s else best) x)

/-- the event a scenario puts on a node (scenarios are dictionaries: one event per node) -/
def lookupM (story : Story) (k : Nat) : Option Int :=
  if story.contains (k, 1) then some 1 else if story.contains (k, 0) then some 0 else none

-- replay of a scenario: `below story σ t` = the states of the leaves of `t` given that `t` itself is in
-- state `σ`; on the way down a node with an event takes the event's state, any other node inherits
mutual
def below (story : Story) (σ : Int) : GTree → List (Nat × Int)
  | .leaf n => [(n, σ)]
  | .node _ cs => belowL story σ cs
def belowL (story : Story) (σ : Int) : List GTree → List (Nat × Int)
  | [] => []
  | t :: ts => below story ((lookupM story t.name).getD σ) t ++ belowL story σ ts
end

/-- replay from above the root: absent until a gain -/
def replay (story : Story) (t : GTree) : List (Nat × Int) :=
  below story ((lookupM story t.name).getD 0) t

mutual
def size : GTree → Nat
  | .leaf _ => 1
  | .node _ cs => 1 + sizeL cs
def sizeL : List GTree → Nat
  | [] => 0
  | t :: ts => size t + sizeL ts
end

def patOf (md : Int) (pat : List (Nat × Int)) (n : Nat) : Int :=
  match pat.lookup n with
  | some v => if v == -1 then md else v
  | none => 0

/-- all minimum-weight root scenarios (the membership tie of C07/C08 is against this list) -/
def glsCandidates (cfg : Cfg) (md : Int) (t : GTree) (pat : List (Nat × Int)) : List Story :=
  let pf := patOf md pat
  let presents := (leafNames t).filter fun n => pf n == 1
  let sub := lcaSub presents (size t) t
  if (leafNames sub).all fun n => pf n == 1 then [[(sub.name, (1 : Int))]]
  else minWeightStories cfg (rootCands cfg pf sub)

/-- `get_gls(paps, taxa, tree, gpl, weights, push_gains, missing_data)` -/
def getGls (cfg : Cfg) (md : Int) (t : GTree) (pat : List (Nat × Int)) : Option Story :=
  pickFinal cfg (glsCandidates cfg md t pat)

/-! ### the candidate generation of `PhyBo._get_GLS` (restriction and internal weighted mode)

Same bottom-up scheme; differences to `get_gls`: in the mixed case a child in state -1 receives an
event as well (a gain in the scenario with an absent parent, a loss in the one with a present
parent), the case split has the shipped order, and instead of per-state minimum-weight pruning the
candidates are filtered by a restriction value.  Filters only remove candidates, so the model keeps
them all: the real scenario must be *one of* these root scenarios. -/

def relabel (v : Int) (combo : List Cand) : List Cand :=
  combo.map fun c => if c.1 == -1 then (v, c.2) else c

def combineR (names : List Nat) (combo : List Cand) : List Cand :=
  let states := combo.map (·.1)
  let stories : Story := combo.flatMap (·.2)
  let s1 := count (1 : Int) states
  let s0 := count (0 : Int) states
  let sM := count (-1 : Int) states
  let sL := states.length
  if s1 + sM == sL then [(1, stories)]
  else if s0 + sM == sL then [(0, stories)]
  else if sM == sL then [(-1, stories)]
  else
    let zsA := names.zip ((relabel 1 combo).map (·.1))
    let zsB := names.zip ((relabel 0 combo).map (·.1))
    [(0, stories ++ (zsA.filter (·.2 == 1)).map fun p => (p.1, (1 : Int))),
     (1, stories ++ (zsB.filter (·.2 == 0)).map fun p => (p.1, (0 : Int)))]

mutual
def candsR (pat : Nat → Int) : GTree → List Cand
  | .leaf n => [(pat n, [])]
  | .node _ cs => (product (candsRL pat cs)).flatMap (combineR (cs.map GTree.name))
def candsRL (pat : Nat → Int) : List GTree → List (List Cand)
  | [] => []
  | t :: ts => candsR pat t :: candsRL pat ts
end

/-- root scenarios: `[(tree.Name, 1)] + story` for a present root -/
def rootCandsR (pat : Nat → Int) (t : GTree) : List Story :=
  (candsR pat t).map fun c => if c.1 == 1 then (t.name, (1 : Int)) :: c.2 else c.2

/-- everything `_get_GLS` may return for a pattern: the early single-origin return, or one of the root
scenarios of the common ancestor of the presences -/
def glsRCandidates (md : Int) (t : GTree) (pat : List (Nat × Int)) : List Story :=
  let pf := patOf md pat
  let presents := (leafNames t).filter fun n => pf n == 1
  let sub := lcaSub presents (size t) t
  if (leafNames sub).all fun n => pf n == 1 then [[(sub.name, (1 : Int))]]
  else rootCandsR pf sub

end Verif.GL
