/-
Model of `lingpy.algorithm._tree._TreeDist` (`get_bipartition`, `grf`).

A Newick string is abstracted to its comma-separated *elements*: every element carries
exactly one leaf name, preceded by `opens` opening brackets or followed by `closes`
closing brackets (branch lengths and the final `;` are stripped by the code's own
`split(":")[0]` / `replace`).  The scanner below is the bracket-counting loop of
`get_bipartition` as written (index stack `ind_list`, leaf stack `temp_stack`).
Import-free and executable.
-/
namespace Verif.TreeDist

inductive Tree where
  | leaf (n : Nat)
  | node (cs : List Tree)
  deriving Repr, Inhabited

mutual
def leaves : Tree → List Nat
  | .leaf n => [n]
  | .node cs => leavesL cs
def leavesL : List Tree → List Nat
  | [] => []
  | t :: ts => leaves t ++ leavesL ts
end

mutual
/-- clades (leaf lists of the internal nodes) in post-order -/
def clades : Tree → List (List Nat)
  | .leaf _ => []
  | .node cs => cladesL cs ++ [leavesL cs]
def cladesL : List Tree → List (List Nat)
  | [] => []
  | t :: ts => clades t ++ cladesL ts
end

structure Elem where
  opens : Nat
  leaf : Nat
  closes : Nat
  deriving Repr, DecidableEq

mutual
/-- elements of the printed tree, with `o` extra opening brackets before the first leaf and
`c` extra closing brackets after the last leaf -/
def elemsWith : Nat → Nat → Tree → List Elem
  | o, c, .leaf n => [⟨o, n, c⟩]
  | o, c, .node cs => elemsL (o+1) (c+1) cs
/-- children: the first gets the opens, the last gets the closes -/
def elemsL : Nat → Nat → List Tree → List Elem
  | _, _, [] => []
  | o, c, [t] => elemsWith o c t
  | o, c, t :: t' :: ts => elemsWith o 0 t ++ elemsL 0 c (t' :: ts)
end

def elems (t : Tree) : List Elem := elemsWith 0 0 t

-- every internal node has at least two children
mutual
def Proper : Tree → Bool
  | .leaf _ => true
  | .node cs => decide (2 ≤ cs.length) && ProperL cs
def ProperL : List Tree → Bool
  | [] => true
  | t :: ts => Proper t && ProperL ts
end

structure ScanSt where
  stack : List Nat          -- `temp_stack`
  ind : List Nat            -- `ind_list` (head = top)
  parts : List (List Nat)   -- `partition_list`
  deriving Repr, DecidableEq

/-- `for k in …RBRA…: partition = temp_stack[ind_list.pop():]; partition_list.append(partition)` -/
def closeLoop : Nat → ScanSt → Option ScanSt
  | 0, st => some st
  | k+1, st =>
    match st.ind with
    | [] => none                                   -- IndexError: pop from empty list
    | s :: ind => closeLoop k { st with ind := ind, parts := st.parts ++ [st.stack.drop s] }

/-- one iteration of `for i, elem in enumerate(tree_list)` -/
def scanElem (st : ScanSt) (i : Nat) (e : Elem) : Option ScanSt :=
  if 0 < e.opens then
    some { st with ind := List.replicate e.opens i ++ st.ind, stack := st.stack ++ [e.leaf] }
  else if 0 < e.closes then
    closeLoop e.closes { st with stack := st.stack ++ [e.leaf] }
  else some { st with stack := st.stack ++ [e.leaf] }

def scanFrom : List Elem → Nat → ScanSt → Option ScanSt
  | [], _, st => some st
  | e :: es, i, st => (scanElem st i e).bind (scanFrom es (i+1))

/-- `partition_list` of `get_bipartition`; `none` where the code raises -/
def scan (es : List Elem) : Option (List (List Nat)) :=
  match scanFrom es 0 ⟨[], [], []⟩ with
  | some st => if st.ind.isEmpty && !st.parts.isEmpty then some st.parts else none
  | none => none

/-! ### sets as sorted duplicate-free lists -/

def insertSorted (x : Nat) : List Nat → List Nat
  | [] => [x]
  | y :: ys => if x < y then x :: y :: ys else if x = y then y :: ys else y :: insertSorted x ys

def toSet (l : List Nat) : List Nat := l.foldr insertSorted []

def setDiff (a b : List Nat) : List Nat := a.filter (fun x => !b.contains x)

def subsetB (a b : List Nat) : Bool := a.all b.contains

/-- `final_parts` (as a list of sets in insertion order) and `lang_set` -/
def bipartition (parts : List (List Nat)) : List (List Nat) × List Nat :=
  let langSet := toSet (parts.getLast?.getD [])
  let final := parts.foldl (fun (acc : List (List Nat)) x =>
    let sx := toSet x
    let sx1 := setDiff langSet sx
    if sx1.length == 1 || sx.length == 1 then acc
    else if 0 < sx.length && 0 < sx1.length && !acc.contains sx && !acc.contains sx1 then acc ++ [sx]
    else acc) []
  (final, langSet)

/-- numerators / denominators of the two distances: `(i_A - e_mod, i_A)` and
`(i_A + i_B - 2e, i_A + i_B)`; `none` where Python divides by zero -/
def grfParts (pa : List (List Nat)) (la : List Nat) (pb : List (List Nat)) (lb : List Nat) :
    Option ((Nat × Nat) × (Int × Nat)) :=
  let iA := pa.length
  let iB := pb.length
  let e := (pa.filter fun u => pb.contains u || pb.contains (setDiff la u)).length
  let emod := (pa.filter fun u =>
      let u1 := setDiff la u
      !pb.isEmpty && pb.all fun ep =>
        subsetB u ep || subsetB u1 ep ||
          (let ep1 := setDiff lb ep
           subsetB u ep1 || subsetB u1 ep1)).length
  if iA = 0 then none else
  some ((iA - emod, iA), ((iA + iB : Int) - 2 * e, iA + iB))

/-- `get_bipartition` on both trees, then the two formulas; `none` where the code raises -/
def treeDist (t x : Tree) : Option ((Nat × Nat) × (Int × Nat)) :=
  match scan (elems t), scan (elems x) with
  | some pa, some pb => grfParts (bipartition pa).1 (bipartition pa).2 (bipartition pb).1 (bipartition pb).2
  | _, _ => none

end Verif.TreeDist
