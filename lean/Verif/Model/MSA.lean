import Verif.Model.SoundClass
/-
Row-level model of profile merging and iterative refinement in `lingpy.align.multiple` (C04, C11).

`_align_profile` transposes the two blocks to profiles (lists of columns), inserts an all-gap
column into profile A wherever the profile alignment has a gap in A (else into B where it has a
gap in B) with `list.insert`, and transposes back.  Row-wise this inserts the gap symbol into
every row of the block at the gap positions of the block's aligned index row – the `class2tokens`
mechanism of C01/C14.  Symbols are natural numbers; `gapSym` is the internal gap `'X'`.
-/
namespace Verif.MSA
open Verif.SC

/-- insert the gap symbol into `row` at the positions where `flags` is `false` -/
def insertGaps (gapSym : Nat) (row : List Nat) (flags : List Bool) : List Nat :=
  (class2tokens row flags).map fun o => o.getD gapSym

/-- `_align_profile(almsA, almsB)` given the two aligned index rows of the profile aligner,
as gap flags (`true` = a column index, `false` = `'-'`).  The `elif` of the source means: where
both rows have a gap only block A receives a column. -/
def mergeBlocks (gapSym : Nat) (almsA almsB : List (List Nat)) (flagsA flagsB : List Bool) : List (List Nat) :=
  let fB := (flagsA.zip flagsB).map fun p => p.2 || !p.1     -- B gets a gap only if A has none
  almsA.map (insertGaps gapSym · flagsA) ++ almsB.map (insertGaps gapSym · fB)

def degap (gapSym : Nat) (row : List Nat) : List Nat := row.filter (· != gapSym)

/-- `_reduce_gap_sites`: drop the columns in which every row has the gap symbol -/
def keepCol (gapSym : Nat) (msa : List (List Nat)) (i : Nat) : Bool :=
  !(msa.all fun line => line.getD i gapSym == gapSym)

def reduceGapSites (gapSym : Nat) (msa : List (List Nat)) : List (List Nat) :=
  match msa with
  | [] => []
  | first :: _ =>
    let keep := (List.range first.length).filter (keepCol gapSym msa)
    msa.map fun line => keep.map fun i => line.getD i gapSym

/-- `_join`: put the rows of the two parts back to their indices -/
def joinRows (height width : Nat) (parts : List (Nat × List Nat)) : List (List Nat) :=
  (List.range height).map fun i => ((parts.find? fun p => p.1 == i).map (·.2)).getD (List.replicate width 0)

/-- the end-of-pass check of `_iter(check='final')`: keep the new matrix unless its score is lower -/
def iterFinal {S : Type} (lt : S → S → Bool) (sop0 sop1 : S) (old new : List (List Nat)) : List (List Nat) :=
  if lt sop1 sop0 then old else new

/-! ### the progressive pass along the guide tree (`_merge_alignments`) -/

/-- `alm_lst` (one block per node of the guide tree built so far) and `seq_ord` (which input
sequence each row of the block belongs to) -/
structure PState where
  blocks : List (List (List Nat))
  ords : List (List Nat)
  deriving Repr

def progInit (seqs : List (List Nat)) : PState :=
  ⟨seqs.map ([·]), (List.range seqs.length).map ([·])⟩

/-- one row `(m, n)` of the tree matrix, together with the two aligned index rows (as gap flags)
that the profile aligner returned for the blocks `m` and `n` -/
abbrev PStep := (Nat × Nat) × (List Bool × List Bool)

def progStep (gapSym : Nat) (st : PState) (step : PStep) : PState :=
  let A := st.blocks.getD step.1.1 []
  let B := st.blocks.getD step.1.2 []
  { blocks := st.blocks ++ [mergeBlocks gapSym A B step.2.1 step.2.2],
    ords := st.ords ++ [st.ords.getD step.1.1 [] ++ st.ords.getD step.1.2 []] }

def progRun (gapSym : Nat) (seqs : List (List Nat)) (steps : List PStep) : PState :=
  steps.foldl (progStep gapSym) (progInit seqs)

/-- `sorted(alm_lst, key=…seq_ord[-1]…)`: stable sort of the rows by the index of their sequence -/
def reorder (ord : List Nat) (block : List (List Nat)) : List (List Nat) :=
  ((ord.zip block).mergeSort fun a b => decide (a.1 ≤ b.1)).map (·.2)

/-- `_alm_matrix` after `_merge_alignments` -/
def progressive (gapSym : Nat) (seqs : List (List Nat)) (steps : List PStep) : List (List Nat) :=
  let st := progRun gapSym seqs steps
  reorder (st.ords.getLast?.getD []) (st.blocks.getLast?.getD [])

/-! ### one refinement split (`_split`, `_align_profile(iterate=True)`, `_join`) -/

/-- rows `idxA` against the rest: reduce the gap sites of both parts, merge them along the profile
alignment, put every row back to its index -/
def refineSplit (gapSym : Nat) (msa : List (List Nat)) (idxA : List Nat) (flagsA flagsB : List Bool) : List (List Nat) :=
  let idxB := (List.range msa.length).filter fun i => !idxA.contains i
  let partA := reduceGapSites gapSym (idxA.map fun i => msa.getD i [])
  let partB := reduceGapSites gapSym (idxB.map fun i => msa.getD i [])
  let merged := mergeBlocks gapSym partA partB flagsA flagsB
  let width := (merged.headD []).length
  joinRows msa.length width ((idxA ++ idxB).zip merged)

/-! ### decidable hypotheses of the C04 theorems (evaluated on the observed runs by the driver) -/

def width (block : List (List Nat)) : Nat := (block.headD []).length

/-- what C01 guarantees about the two index rows returned by a profile aligner -/
def flagsOkb (A B : List (List Nat)) (fa fb : List Bool) : Bool :=
  fa.length == fb.length && (fa.filter id).length == width A &&
    (((fa.zip fb).map fun p => p.2 || !p.1).filter id).length == width B

def stepOkb (st : PState) (step : PStep) : Bool :=
  decide (step.1.1 < st.blocks.length) && decide (step.1.2 < st.blocks.length) &&
    flagsOkb (st.blocks.getD step.1.1 []) (st.blocks.getD step.1.2 []) step.2.1 step.2.2

def stepsOkb (g : Nat) : PState → List PStep → Bool
  | _, [] => true
  | st, s :: r => stepOkb st s && stepsOkb g (progStep g st s) r

/-- what the profile aligner must return for one refinement split (C01 for the profile aligner) -/
def splitOkb (g : Nat) (msa : List (List Nat)) (idxA : List Nat) (fa fb : List Bool) : Bool :=
  let idxB := (List.range msa.length).filter fun i => !idxA.contains i
  !idxA.isEmpty && idxA.all (fun i => decide (i < msa.length)) &&
  flagsOkb (reduceGapSites g (idxA.map fun i => msa.getD i [])) (reduceGapSites g (idxB.map fun i => msa.getD i [])) fa fb

/-- a history of refinement splits, each with its own index set and profile alignment -/
abbrev Split := List Nat × (List Bool × List Bool)

def histOkb (g : Nat) : List (List Nat) → List Split → Bool
  | _, [] => true
  | msa, s :: r => splitOkb g msa s.1 s.2.1 s.2.2 && histOkb g (refineSplit g msa s.1 s.2.1 s.2.2) r


/-- everything `C04_progressive` assumes about an observed run -/
def progOkb (gapSym : Nat) (seqs : List (List Nat)) (steps : List PStep) : Bool :=
  !steps.isEmpty && stepsOkb gapSym (progInit seqs) steps &&
    ((progRun gapSym seqs steps).ords.getLast?.getD []).isPerm (List.range seqs.length)

def rectb (msa : List (List Nat)) : Bool := msa.all fun r => r.length == width msa

/-! ### `_update_alignments`: from the internal matrix (unique sequences, position numbers) to the rows of all inputs

An entry of the internal matrix is `none` (the gap `'X'`) or `some p`: the number `i.p` of position `p`
(0-based here) of the unique sequence `i`.  For every input `j` that is represented by the unique
sequence `i` (`int2ext[i]`), the row of `j` is the internal row with position `p` replaced by token `p`
of input `j` and the gap by `'-'`. -/

def extRow {T : Type} (gap : T) (toks : List T) (row : List (Option Nat)) : List T :=
  row.map fun c => match c with
    | none => gap
    | some p => toks.getD p gap

/-- `alm_matrix = [0] * n; for i, line in enumerate(_alm_matrix): for j in int2ext[i]: alm_matrix[j] = …`
(a later assignment overwrites an earlier one; an index that is never assigned keeps the empty row) -/
def updateAlignments {T : Type} (gap : T) (tokens : List (List T)) (internal : List (List (Option Nat)))
    (int2ext : List (List Nat)) : List (List T) :=
  let assigns : List (Nat × List T) :=
    (internal.zip int2ext).flatMap fun p => p.2.map fun j => (j, extRow gap (tokens.getD j []) p.1)
  (List.range tokens.length).map fun j => ((assigns.reverse.find? fun a => a.1 == j).map (·.2)).getD []

/-- the representative an input is listed under (first match) -/
def clsOf (int2ext : List (List Nat)) (j : Nat) : Nat :=
  ((List.range int2ext.length).find? fun i => (int2ext.getD i []).contains j).getD 0

/-- decidable hypotheses of `C04_update` on observed data: every input is listed under exactly one
representative (which has an internal row), the internal rows have one length, the non-gap entries of
the representative's row are the positions of the input in order, no token is the gap symbol -/
def updateOkb {T : Type} [BEq T] (gap : T) (tokens : List (List T)) (internal : List (List (Option Nat)))
    (int2ext : List (List Nat)) : Bool :=
  (List.range tokens.length).all (fun j =>
    ((List.range int2ext.length).filter fun i => (int2ext.getD i []).contains j).length == 1 &&
    decide (clsOf int2ext j < internal.length) &&
    (internal.getD (clsOf int2ext j) []).filterMap id == List.range (tokens.getD j []).length &&
    !(tokens.getD j []).contains gap) &&
  internal.all fun r => r.length == (internal.headD []).length

/-! ### `Alignments._msa2col` (plain mode): the aligned rows of every cognate set written into one column

`msas` are the multiple alignments per cognate set, each with the row ids of its members (`msa['ID']`)
and one aligned row per member (`msa['alignment']`), in dictionary order; a word that is in no such set
keeps its segments. -/

def msa2col {T : Type} (ids : List Nat) (tokens : Nat → List T) (msas : List (List Nat × List (List T))) :
    List (Nat × List T) :=
  let assigns : List (Nat × List T) := msas.flatMap fun m => m.1.zip m.2     -- `tmp[idx] = msa['alignment'][i]`
  ids.map fun k => (k, ((assigns.reverse.find? fun a => a.1 == k).map (·.2)).getD (tokens k))

end Verif.MSA
