import Verif.Model.SoundClass
/-
Row-level model of profile merging and iterative refinement in `lingpy.align.multiple` (C04, C11).

`_align_profile` transposes the two blocks to profiles (lists of columns), inserts an all-gap
column into profile A wherever the profile alignment has a gap in A (else into B where it has a
gap in B) with `list.insert`, and transposes back.  Row-wise this inserts the gap symbol into
every row of the block at the gap positions of the block's aligned index row – the `class2tokens`
mechanism of C01/C14.  Symbols are natural numbers; `gapSym` is the internal gap `'X'`.
-/
namespace Verif.MSA
open Verif.SC

/-- insert the gap symbol into `row` at the positions where `flags` is `false` -/
def insertGaps (gapSym : Nat) (row : List Nat) (flags : List Bool) : List Nat :=
  (class2tokens row flags).map fun o => o.getD gapSym

/-- `_align_profile(almsA, almsB)` given the two aligned index rows of the profile aligner,
as gap flags (`true` = a column index, `false` = `'-'`).  The `elif` of the source means: where
both rows have a gap only block A receives a column. -/
def mergeBlocks (gapSym : Nat) (almsA almsB : List (List Nat)) (flagsA flagsB : List Bool) : List (List Nat) :=
  let fB := (flagsA.zip flagsB).map fun p => p.2 || !p.1     -- B gets a gap only if A has none
  almsA.map (insertGaps gapSym · flagsA) ++ almsB.map (insertGaps gapSym · fB)

def degap (gapSym : Nat) (row : List Nat) : List Nat := row.filter (· != gapSym)

/-- `_reduce_gap_sites`: drop the columns in which every row has the gap symbol -/
def keepCol (gapSym : Nat) (msa : List (List Nat)) (i : Nat) : Bool :=
  !(msa.all fun line => line.getD i gapSym == gapSym)

def reduceGapSites (gapSym : Nat) (msa : List (List Nat)) : List (List Nat) :=
  match msa with
  | [] => []
  | first :: _ =>
    let keep := (List.range first.length).filter (keepCol gapSym msa)
    msa.map fun line => keep.map fun i => line.getD i gapSym

/-- `_join`: put the rows of the two parts back to their indices -/
def joinRows (height width : Nat) (parts : List (Nat × List Nat)) : List (List Nat) :=
  (List.range height).map fun i => ((parts.find? fun p => p.1 == i).map (·.2)).getD (List.replicate width 0)

/-- the end-of-pass check of `_iter(check='final')`: keep the new matrix unless its score is lower -/
def iterFinal {S : Type} (lt : S → S → Bool) (sop0 sop1 : S) (old new : List (List Nat)) : List (List Nat) :=
  if lt sop1 sop0 then old else new

end Verif.MSA
