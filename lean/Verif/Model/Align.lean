/-
Model of lingpy's pairwise aligners (`_calign.py`, `_talign.py`, `_malign.py`).

Import-free and executable.  Everything is generic in the score carrier `S`
(class `ScoreOps`, operations only, no laws), so that the driver can run the
model on IEEE doubles (`Float`) bit-for-bit like the Python code while the
theorems in `Verif/Props` hold for *every* carrier.

Indices follow the Python source: `i` runs over `seqB` (rows, `0..N`), `j`
over `seqA` (columns, `0..M`).  Move codes are the integers of the Python
`traceback` table: `0` stop, `1` match, `2` gap in B (consumes A), `3` gap in A
(consumes B).
-/
namespace Verif.Align

/-- Operations on scores; no laws are assumed anywhere in the model. -/
class ScoreOps (S : Type) where
  add  : S → S → S
  sub  : S → S → S
  mul  : S → S → S
  div  : S → S → S
  half : S → S
  sum  : List S → S
  le   : S → S → Bool
  lt   : S → S → Bool
  zero : S
  one  : S
  big  : S
  ofNat : Nat → S

/-- CPython 3.12 `sum()` on floats: start `0 + x₀`, then Neumaier-compensated accumulation. -/
def pySumFloat : List Float → Float
  | [] => 0.0
  | x0 :: xs =>
    let (f, c) := xs.foldl (fun (st : Float × Float) y =>
      let x := st.1
      let t := x + y
      let c := if x.abs >= y.abs then st.2 + ((x - t) + y) else st.2 + ((y - t) + x)
      (t, c)) (0.0 + x0, 0.0)
    if c != 0.0 && c.isFinite then f + c else f

instance : ScoreOps Float where
  add := (· + ·)
  sub := (· - ·)
  mul := (· * ·)
  div := (· / ·)
  sum := pySumFloat
  half := (· / 2.0)
  le a b := decide (a ≤ b)
  lt a b := decide (a < b)
  zero := 0.0
  one := 1.0
  big := 1000000.0
  ofNat := Float.ofNat

instance : ScoreOps Int where
  add := (· + ·)
  sub := (· - ·)
  mul := (· * ·)
  div := (· / ·)
  sum := fun l => l.foldl (· + ·) 0
  half := (· / 2)
  le a b := decide (a ≤ b)
  lt a b := decide (a < b)
  zero := 0
  one := 1
  big := 1000000
  ofNat := Int.ofNat

/-- A cell of the two Python tables `matrix`/`traceback`. -/
abbrev Cell (S : Type) := S × Nat

/-- One alignment column; `none` is the gap. -/
abbrev Col (α : Type) := Option α × Option α

/-! ### Generic row-by-row fill -/

/-- The four ways a cell is produced.  `inner` also receives the rows filled so
far (newest first) – only the `dialign` kernels look at them. -/
structure Fill (S : Type) where
  corner : Cell S
  row0 : Nat → Cell S → Cell S
  col0 : Nat → Cell S → Cell S
  inner : Nat → Nat → List (List (Cell S)) → Cell S → Cell S → Cell S → Cell S

variable {S : Type}

def firstRow (F : Fill S) : Nat → Nat → Cell S → List (Cell S)
  | 0, _, _ => []
  | n+1, j, prev => let c := F.row0 j prev; c :: firstRow F n (j+1) c

def rowFrom (F : Fill S) (i : Nat) (prev : List (List (Cell S))) :
    Nat → Cell S → Cell S → List (Cell S) → List (Cell S)
  | _, _, _, [] => []
  | j, left, upleft, up :: ups =>
      let c := F.inner i j prev up left upleft
      c :: rowFrom F i prev (j+1) c up ups

def nextRow (F : Fill S) (i : Nat) (prev : List (List (Cell S))) : List (Cell S) :=
  match prev with
  | (up0 :: ups) :: _ => let c0 := F.col0 i up0; c0 :: rowFrom F i prev 1 c0 up0 ups
  | _ => []

/-- Rows `n, n-1, …, 0` of the table for a first sequence of length `M`. -/
def rowsRev (F : Fill S) (M : Nat) : Nat → List (List (Cell S))
  | 0 => [F.corner :: firstRow F M 1 F.corner]
  | n+1 => let p := rowsRev F M n; nextRow F (n+1) p :: p

/-- Row `i` of the table (specification-level accessor). -/
def rowAt (F : Fill S) (M i : Nat) : List (Cell S) := (rowsRev F M i).headD []

/-- Cell `(i,j)` of the table (specification-level accessor). -/
def T [Inhabited S] (F : Fill S) (M i j : Nat) : Cell S := (rowAt F M i).getD j (default, 0)

/-- Cell `(i,j)` read from a materialised table with rows `N … 0`. -/
def getCell [Inhabited S] (tab : List (List (Cell S))) (N i j : Nat) : Cell S :=
  (tab.getD (N - i) []).getD j (default, 0)

/-! ### Tracebacks over an arbitrary move table -/

variable {α : Type}

/-- Global/overlap/dialign traceback (`while i > 0 or j > 0`).  Returns `none`
where the Python loop would index position `-1`. Columns are accumulated in
front of `acc`, i.e. the result is already in left-to-right order. -/
def tbGlobal (tb : Nat → Nat → Nat) (a b : List α) : Nat → Nat → List (Col α) → Option (List (Col α))
  | 0, 0, acc => some acc
  | i+1, 0, acc =>
      if tb (i+1) 0 = 3 then
        match b[i]? with
        | some y => tbGlobal tb a b i 0 ((none, some y) :: acc)
        | none => none
      else none
  | 0, j+1, acc =>
      if tb 0 (j+1) = 3 then none
      else if tb 0 (j+1) = 1 then none
      else match a[j]? with
        | some x => tbGlobal tb a b 0 j ((some x, none) :: acc)
        | none => none
  | i+1, j+1, acc =>
      if tb (i+1) (j+1) = 3 then
        match b[i]? with
        | some y => tbGlobal tb a b i (j+1) ((none, some y) :: acc)
        | none => none
      else if tb (i+1) (j+1) = 1 then
        match a[j]?, b[i]? with
        | some x, some y => tbGlobal tb a b i j ((some x, some y) :: acc)
        | _, _ => none
      else match a[j]? with
        | some x => tbGlobal tb a b (i+1) j ((some x, none) :: acc)
        | none => none
termination_by i j => i + j

/-- Local traceback (`while traceback[i][j] != 0`, `else: break`).  Returns the
end point reached and the aligned columns. -/
def tbLocal (tb : Nat → Nat → Nat) (a b : List α) : Nat → Nat → List (Col α) → Option (Nat × Nat × List (Col α))
  | 0, 0, acc =>
      if tb 0 0 = 3 then none else if tb 0 0 = 1 then none else if tb 0 0 = 2 then none
      else some (0, 0, acc)
  | i+1, 0, acc =>
      if tb (i+1) 0 = 3 then
        match b[i]? with
        | some y => tbLocal tb a b i 0 ((none, some y) :: acc)
        | none => none
      else if tb (i+1) 0 = 1 then none else if tb (i+1) 0 = 2 then none
      else some (i+1, 0, acc)
  | 0, j+1, acc =>
      if tb 0 (j+1) = 3 then none else if tb 0 (j+1) = 1 then none
      else if tb 0 (j+1) = 2 then
        match a[j]? with
        | some x => tbLocal tb a b 0 j ((some x, none) :: acc)
        | none => none
      else some (0, j+1, acc)
  | i+1, j+1, acc =>
      if tb (i+1) (j+1) = 3 then
        match b[i]? with
        | some y => tbLocal tb a b i (j+1) ((none, some y) :: acc)
        | none => none
      else if tb (i+1) (j+1) = 1 then
        match a[j]?, b[i]? with
        | some x, some y => tbLocal tb a b i j ((some x, some y) :: acc)
        | _, _ => none
      else if tb (i+1) (j+1) = 2 then
        match a[j]? with
        | some x => tbLocal tb a b (i+1) j ((some x, none) :: acc)
        | none => none
      else some (i+1, j+1, acc)
termination_by i j => i + j


/-! ### Decidable border checks for an observed move table (tie (a) of C01) -/

def bordersGb (tb : Nat → Nat → Nat) (N M : Nat) : Bool :=
  (List.range M).all (fun j => tb 0 (j+1) != 3 && tb 0 (j+1) != 1) &&
  (List.range N).all (fun i => tb (i+1) 0 == 3)

def bordersLb (tb : Nat → Nat → Nat) (N M : Nat) : Bool :=
  (List.range (M+1)).all (fun j => tb 0 j != 3 && tb 0 j != 1) &&
  (List.range (N+1)).all (fun i => tb i 0 != 1 && tb i 0 != 2)

/-! ### The scoring schemes of the Python kernels as a parametric family -/

inductive Mode | global | overlap | «local» | dialign
  deriving DecidableEq, Repr, Inhabited

/-- Implementation choices.  The theorems in `Verif/Props` are proved for every
value of this record; the harness identifies which value today's code is. -/
structure Cfg where
  mode      : Mode
  secondary : Bool    -- restricted (boundary) characters active
  flavour   : Nat     -- 0 = `_calign`, 1 = `_talign`, 2 = `_malign` (nw / sw)
  proGE2    : Bool    -- half prosodic bonus when |ord a − ord b| ≥ 2 (else: ≤ 2)
  borderCum : Bool    -- first row/column: cumulative scaled gop (else zeros)
  strictA   : Bool    -- first test of the maximum: `gapA > match` (else `>=`)
  geM       : Bool    -- second test: `match >= gapB` (else `>`)
  lastBest  : Bool    -- local mode: last (else first) maximal cell
  quirkJN   : Bool    -- `secondary_localign` tests `j != N` in the gapB boundary rule
  deriving Repr, Inhabited

structure Input (S : Type) where
  a : List Nat
  b : List Nat
  gopA : List S
  gopB : List S
  proA : List Nat
  proB : List Nat
  scale : S
  factor : S
  scorer : Nat → Nat → S
  r : List Nat

open ScoreOps

section kernels
variable [ScoreOps S]

def Input.M (inp : Input S) : Nat := inp.a.length
def Input.N (inp : Input S) : Nat := inp.b.length

def absDiff (x y : Nat) : Nat := if x ≤ y then y - x else x - y

def proRule (cfg : Cfg) (pa pb : Nat) : Bool :=
  if cfg.proGE2 then decide (2 ≤ absDiff pa pb) else decide (absDiff pa pb ≤ 2)

/-- The three candidate functions + borders + selection of one kernel. -/
structure AffKernel (S : Type) where
  corner : Cell S
  row0 : Nat → Cell S → Cell S
  col0 : Nat → Cell S → Cell S
  candUp : Nat → Nat → Cell S → S
  candLeft : Nat → Nat → Cell S → S
  candDiag : Nat → Nat → S → S
  choose : S → S → S → Cell S

def AffKernel.toFill (K : AffKernel S) : Fill S where
  corner := K.corner
  row0 := K.row0
  col0 := K.col0
  inner := fun i j _ up left ul => K.choose (K.candUp i j up) (K.candDiag i j ul.1) (K.candLeft i j left)

/-- Selection among the candidates in the global-type kernels. -/
def chooseGlobal (cfg : Cfg) (gapA m gapB : S) : Cell S :=
  if (if cfg.strictA then lt m gapA else le m gapA) && le gapB gapA then (gapA, 3)
  else if (if cfg.geM then le gapB m else lt gapB m) then (m, 1)
  else (gapB, 2)

/-- Selection among the candidates in the local-type kernels (zero floor). -/
def chooseLocal (cfg : Cfg) (gapA m gapB : S) : Cell S :=
  if (if cfg.strictA then lt m gapA else le m gapA) && le gapB gapA && le zero gapA then (gapA, 3)
  else if (if cfg.geM then le gapB m else lt gapB m) && le zero m then (m, 1)
  else if le zero gapB then (gapB, 2)
  else (zero, 0)

def inR (inp : Input S) (p : Nat) : Bool := inp.r.contains p

def gA (inp : Input S) (j : Nat) : S := inp.gopA.getD (j-1) zero
def gB (inp : Input S) (i : Nat) : S := inp.gopB.getD (i-1) zero
def pA (inp : Input S) (j : Nat) : Nat := inp.proA.getD (j-1) 0
def pB (inp : Input S) (i : Nat) : Nat := inp.proB.getD (i-1) 0
def sc (inp : Input S) (i j : Nat) : S := inp.scorer (inp.a.getD (j-1) 0) (inp.b.getD (i-1) 0)

/-- `gapA` candidate: cell `(i-1,j)` ↦ value at `(i,j)`. -/
def candUp (cfg : Cfg) (inp : Input S) (i j : Nat) (c : Cell S) : S :=
  if cfg.mode = .overlap && j == inp.M then c.1
  else if cfg.secondary && inR inp (pB inp i) && !inR inp (pA inp j) && j != inp.M then sub c.1 big
  else if cfg.flavour = 2 then add c.1 (gB inp i)
  else if c.2 = 3 then add c.1 (mul (gB inp i) inp.scale)
  else add c.1 (gB inp i)

/-- `gapB` candidate: cell `(i,j-1)` ↦ value at `(i,j)`. -/
def candLeft (cfg : Cfg) (inp : Input S) (i j : Nat) (c : Cell S) : S :=
  if cfg.mode = .overlap && i == inp.N then c.1
  else if cfg.secondary && inR inp (pA inp j) && !inR inp (pB inp i)
          && (if cfg.quirkJN then j != inp.N else i != inp.N) then sub c.1 big
  else if cfg.flavour = 2 then add c.1 (gA inp j)
  else if c.2 = 2 then add c.1 (mul (gA inp j) inp.scale)
  else add c.1 (gA inp j)

/-- match candidate: value of cell `(i-1,j-1)` ↦ value at `(i,j)`; the
operation order is the one of the Python source. -/
def candDiag (cfg : Cfg) (inp : Input S) (i j : Nat) (v : S) : S :=
  let s := sc inp i j
  if cfg.flavour ≠ 0 then add v s
  else
    let pa := pA inp j
    let pb := pB inp i
    if pa = pb then add s (add v (mul s inp.factor))
    else if cfg.secondary && (inR inp pa != inR inp pb) then add s (sub v big)
    else if proRule cfg pa pb then add s (add v (half (mul s inp.factor)))
    else add s v

def kernelOf (cfg : Cfg) (inp : Input S) : AffKernel S where
  corner := if cfg.mode = .local then (zero, 0) else (zero, if cfg.flavour = 2 then 0 else 1)
  row0 := fun j c =>
    if cfg.mode = .local then (zero, 0)
    else if cfg.flavour = 2 then (add c.1 (gA inp j), 2)
    else if cfg.borderCum then (add c.1 (mul (gA inp j) inp.scale), 2) else (zero, 2)
  col0 := fun i c =>
    if cfg.mode = .local then (zero, 0)
    else if cfg.flavour = 2 then (add c.1 (gB inp i), 3)
    else if cfg.borderCum then (add c.1 (mul (gB inp i) inp.scale), 3) else (zero, 3)
  candUp := candUp cfg inp
  candLeft := candLeft cfg inp
  candDiag := candDiag cfg inp
  choose := if cfg.mode = .local then chooseLocal cfg else chooseGlobal cfg

/-! ### dialign -/

/-- Score of one diagonal pair inside a dialign run. -/
def diaPair (cfg : Cfg) (inp : Input S) (i j : Nat) : S :=
  let s := sc inp i j
  if cfg.flavour ≠ 0 then s
  else
    let pa := pA inp j
    let pb := pB inp i
    if cfg.secondary then
      if pa = pb then add s (mul s inp.factor)
      else if inR inp pa != inR inp pb then sub s big
      else if decide (absDiff pa pb ≤ 2) then add s (half (mul s inp.factor))
      else s
    else
      if pa = pb then mul s (add one inp.factor)
      else if decide (absDiff pa pb ≤ 2) then mul s (add one (half inp.factor))
      else s

/-- `match += tmp` for `l = k, k-1, …, 0` (farthest pair first). -/
def diaRun (cfg : Cfg) (inp : Input S) (i j : Nat) : Nat → S → S
  | 0, acc => add acc (diaPair cfg inp i j)
  | l+1, acc => diaRun cfg inp i j l (add acc (diaPair cfg inp (i-(l+1)) (j-(l+1))))

def dialignFill (cfg : Cfg) (inp : Input S) : Fill S where
  corner := (zero, 1)
  row0 := fun _ _ => (zero, 2)
  col0 := fun _ _ => (zero, 3)
  inner := fun i j prev up left _ =>
    let gapA := if cfg.secondary && inR inp (pB inp i) && !inR inp (pA inp j) && j != inp.M
                then sub up.1 big else up.1
    let gapB := if cfg.secondary && inR inp (pA inp j) && !inR inp (pB inp i) && i != inp.N
                then sub left.1 big else left.1
    let k := min i j - 1
    let start : S := ((prev.getD k []).getD (j-k-1) (zero, 0)).1
    let m := diaRun cfg inp i j k start
    chooseGlobal cfg gapA m gapB

def fillOf (cfg : Cfg) (inp : Input S) : Fill S :=
  if cfg.mode = .dialign then dialignFill cfg inp else (kernelOf cfg inp).toFill

/-! ### Running a kernel -/

/-- Row-major scan for the best cell in local mode (`if matrix[i][j] >= sim`). -/
def bestScanRow (cfg : Cfg) (i : Nat) : Nat → List (Cell S) → (S × Nat × Nat) → (S × Nat × Nat)
  | _, [], st => st
  | j, c :: cs, st =>
      let st' := if (if cfg.lastBest then le st.1 c.1 else lt st.1 c.1) then (c.1, i, j) else st
      bestScanRow cfg i (j+1) cs st'

/-- rows are given oldest first, starting with row 1; column 0 is skipped. -/
def bestScan (cfg : Cfg) : Nat → List (List (Cell S)) → (S × Nat × Nat) → (S × Nat × Nat)
  | _, [], st => st
  | i, row :: rows, st => bestScan cfg (i+1) rows (bestScanRow cfg i 1 (row.drop 1) st)

inductive Result (S : Type) where
  | glob (cols : List (Col Nat)) (sim : S)
  | loc (i0 j0 k l : Nat) (cols : List (Col Nat)) (sim : S)
  | error
  deriving DecidableEq, Repr

def run [Inhabited S] (cfg : Cfg) (inp : Input S) : Result S :=
  let M := inp.M
  let N := inp.N
  let tab := rowsRev (fillOf cfg inp) M N
  let tb := fun i j => (getCell tab N i j).2
  if M = 0 ∨ N = 0 then .error    -- the Python kernels raise NameError on an empty sequence
  else if cfg.mode = .local then
    let (_, k, l) := bestScan cfg 1 (tab.reverse.drop 1) (zero, 0, 0)
    if k = 0 ∨ N < k ∨ M < l then .error else
    match tbLocal tb inp.a inp.b k l [] with
    | some (i0, j0, cols) => .loc i0 j0 k l cols (getCell tab N k l).1
    | none => .error
  else
    match tbGlobal tb inp.a inp.b N M [] with
    | some cols => .glob cols (getCell tab N N M).1
    | none => .error

/-! ### Normalised distance (Downey et al. 2008) as computed by `align_pair(s)` -/

def selfScore (cfg : Cfg) (inp : Input S) (xs : List Nat) : S :=
  ScoreOps.sum (xs.map fun x =>
    if cfg.flavour = 0 then mul (add one inp.factor) (inp.scorer x x) else inp.scorer x x)

/-- `1 - 2 * sim / (simA + simB)` in the operation order of the source. -/
def distance (cfg : Cfg) (inp : Input S) (sim : S) : S :=
  sub one (div (mul (add one one) sim) (add (selfScore cfg inp inp.a) (selfScore cfg inp inp.b)))

def Result.sim? : Result S → Option S
  | .glob _ s => some s
  | .loc _ _ _ _ _ s => some s
  | .error => none

/-- what `align_pair(..., distance=2)` returns in addition to the alignment -/
def runDist [Inhabited S] (cfg : Cfg) (inp : Input S) : Option (S × S) :=
  (run cfg inp).sim?.map fun s => (s, distance cfg inp s)

/-! ### Independent re-scoring of returned columns -/

inductive Mv | up | diag | left
  deriving DecidableEq, Repr

def colMove : Col α → Option Mv
  | (none, some _) => some .up
  | (some _, some _) => some .diag
  | (some _, none) => some .left
  | (none, none) => none

structure RS (S : Type) where
  i : Nat
  j : Nat
  cur : Cell S

def rsStep (K : AffKernel S) (st : RS S) (m : Mv) : RS S :=
  match m with
  | .up => ⟨st.i+1, st.j,
      if st.j = 0 then K.col0 (st.i+1) st.cur else (K.candUp (st.i+1) st.j st.cur, 3)⟩
  | .left => ⟨st.i, st.j+1,
      if st.i = 0 then K.row0 (st.j+1) st.cur else (K.candLeft st.i (st.j+1) st.cur, 2)⟩
  | .diag => ⟨st.i+1, st.j+1, (K.candDiag (st.i+1) (st.j+1) st.cur.1, 1)⟩

/-- Re-score a list of moves read left to right, starting in state `st`.
Never looks at a matrix. -/
def rescore (K : AffKernel S) (st : RS S) (ms : List Mv) : RS S := ms.foldl (rsStep K) st

end kernels

end Verif.Align
