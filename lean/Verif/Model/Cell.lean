/-
Cell-level model of the TSV round trip (C13): `wl2qlc` serialises a cell by its value type,
`read_qlc` + the namespace (`wordlist.rc`) convert the text back by the column's type tag.
A cell text is a list of blank-separated atoms; rendering and parsing of a single number are
abstract and exact (`int(str(n)) = n`, `float(repr(x)) = x` are assumed Python guarantees),
so what the model decides is *which* conversion a column gets and whether it undoes the
serialisation of the kind of value stored there.
-/
namespace Verif.Cell

inductive Atom where
  | word (w : Nat)          -- a non-numeric token
  | num (n : Int)           -- text that reads as an integer
  | flt (bits : Nat)        -- text that reads as a float (but not as an integer)
  deriving DecidableEq, Repr

inductive Val where
  | str (t : List Atom)     -- a string cell (text kept as it is)
  | int (n : Int)
  | strs (l : List Atom)    -- list of strings (tokens, alignment, numbers …)
  | ints (l : List Int)
  | floats (l : List Nat)
  deriving DecidableEq, Repr

/-- column type tags of the namespace file -/
inductive Tag where
  | str | int | ints | strs | floats
  deriving DecidableEq, Repr

/-- `wl2qlc`: cell ↦ text -/
def ser : Val → List Atom
  | .str t => t
  | .int n => [.num n]
  | .strs l => l
  | .ints l => l.map .num
  | .floats l => l.map .flt

def allNum : List Atom → Option (List Int)
  | [] => some []
  | .num n :: r => (allNum r).map (n :: ·)
  | _ :: _ => none

def allFlt : List Atom → Option (List Nat)
  | [] => some []
  | .flt b :: r => (allFlt r).map (b :: ·)
  | _ :: _ => none

/-- the per-column conversion applied after reading; on a failed conversion the loader logs a
warning and keeps the text -/
def parse : Tag → List Atom → Val
  | .str, t => .str t
  | .int, t => match t with | [.num n] => .int n | _ => .str t
  | .ints, t => match allNum t with | some l => .ints l | none => .str t
  | .strs, t => .strs t
  | .floats, t => match allFlt t with | some l => .floats l | none => .str t

/-- does the tag undo the serialisation of this kind of value? -/
def kindOk : Tag → Val → Bool
  | .str, .str _ => true
  | .int, .int _ => true
  | .ints, .ints _ => true
  | .strs, .strs _ => true
  | .floats, .floats _ => true
  | _, _ => false

end Verif.Cell
