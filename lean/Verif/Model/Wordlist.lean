/-
Model of the wordlist index (`QLCParserWithRowsAndCols.__init__`) and of the views built on
it (`get_list`, `get_dict`, `get_etymdict`, `get_paps`, `wl2dst`/`get_score('swadesh')`,
`renumber`).  Names (languages, concepts, cognate ids, cell values) are natural-number codes;
`cols` – the sorted, duplicate-free list of languages – is a parameter: the theorems hold for
every enumeration order.  Import-free and executable.
-/
namespace Verif.WL

structure Row where
  id : Nat
  concept : Nat
  lang : Nat
  cogs : List Nat        -- the cognate id(s) carried by the row
  deriving Repr, DecidableEq, Inhabited

/-- first-occurrence order of the keys of a dict filled in row order -/
def keyOrder (xs : List Nat) : List Nat :=
  xs.foldl (fun acc x => if acc.contains x then acc else acc ++ [x]) []

/-- `_dict[concept][language]` : row ids in row order -/
def idsOf (rows : List Row) (c l : Nat) : List Nat :=
  (rows.filter fun r => r.concept == c && r.lang == l).map (·.id)

def concepts (rows : List Row) : List Nat := keyOrder (rows.map (·.concept))

def maxLen (rows : List Row) (cols : List Nat) (c : Nat) : Nat :=
  (cols.map fun l => (idsOf rows c l).length).foldl max 0

/-- the block of `_array` rows of one concept -/
def block (rows : List Row) (cols : List Nat) (c : Nat) : List (List Nat) :=
  (List.range (maxLen rows cols c)).map fun i => cols.map fun l => (idsOf rows c l)[i]?.getD 0

/-- `_array` with the concept of every block kept explicit; `_idx[c]` are the positions of block `c` -/
def arrayBlocks (rows : List Row) (cols : List Nat) : List (Nat × List (List Nat)) :=
  (concepts rows).map fun c => (c, block rows cols c)

def array (rows : List Row) (cols : List Nat) : List (List Nat) :=
  (arrayBlocks rows cols).flatMap (·.2)

/-- `get_list(col=l, flat=True)` -/
def listOfCol (rows : List Row) (cols : List Nat) (l : Nat) : List Nat :=
  match cols.idxOf? l with
  | some j => ((array rows cols).map fun r => r.getD j 0).filter (· != 0)
  | none => []

/-- `get_list(row=c, flat=True)` -/
def listOfRow (rows : List Row) (cols : List Nat) (c : Nat) : List Nat :=
  ((block rows cols c).flatMap id).filter (· != 0)

/-- `get_etymdict(ref)` : cognate id ↦ per language slot the list of row ids (`[]` stands for 0) -/
def etymdict (rows : List Row) (cols : List Nat) : List (Nat × List (List Nat)) :=
  (keyOrder (rows.flatMap (·.cogs))).map fun g =>
    (g, cols.map fun l => (rows.filter fun r => r.cogs.contains g && r.lang == l).map (·.id))

/-- languages that have no word for concept `c` -/
def missedLangs (rows : List Row) (cols : List Nat) (c : Nat) : List Nat :=
  cols.filter fun l => (idsOf rows c l).isEmpty

/-- `get_paps(ref, missing=m)` for one cognate set: 1 present, 0 absent, `m` missing -/
def papOf (rows : List Row) (cols : List Nat) (m : Int) (g : Nat) : List Int :=
  let members := rows.filter fun r => r.cogs.contains g
  let meanings := keyOrder (members.map (·.concept))
  cols.map fun l =>
    if members.any (·.lang == l) then 1
    else match meanings with
      | [c] => if (idsOf rows c l).isEmpty then m else 0
      | _ => 1

/-- `get_score(mode='swadesh')` as counts: (shared, height − missing) -/
def dstCounts (rows : List Row) (ignoreMissing : Bool) (a b : Nat) : Nat × Nat :=
  let cs := concepts rows
  let cogsOf := fun (l c : Nat) => (rows.filter fun r => r.lang == l && r.concept == c).flatMap (·.cogs)
  let attested := fun (l c : Nat) => (rows.any fun r => r.lang == l && r.concept == c)
  let both := cs.filter fun c => attested a c && attested b c
  let shared := both.filter fun c => (cogsOf a c).any fun k => (cogsOf b c).contains k
  (shared.length, if ignoreMissing then cs.length else both.length)

/-- `renumber`: position in the sorted list of distinct values + 1; the empty value (code 0) ↦ 0 -/
def renumber (sources : List Nat) (x : Nat) : Nat :=
  if x = 0 then 0 else sources.idxOf x + 1

end Verif.WL
