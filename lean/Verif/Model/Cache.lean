/-
State-machine model of the start-up of lingpy's per-user cache (C20):
`load_dvt`, `Model.__init__` (`try: cache.load … except <E>: compile …; cache.load …`),
`compile_model` (dumps the converter and – when the model ships a matrix – the scorer pickle),
in the import-time order of `settings.py`.  Scoring matrices of the shipped models are read
from the shipped `matrix` text files, never from the cache.
-/
namespace Verif.Cache

inductive FState | absent | valid | corrupt
  deriving DecidableEq, Repr, Inhabited

inductive Failure | missing | unpickle
  deriving DecidableEq, Repr

inductive Ev where
  | loadOk (f : Nat)
  | loadFail (f : Nat) (e : Failure)
  | dump (f : Nat)
  deriving DecidableEq, Repr

/-- one cached unit: the file tried first, and the files its compile step writes -/
structure CUnit where
  main : Nat
  writes : List Nat
  deriving Repr, DecidableEq

abbrev Cache := List FState

def stateOf (c : Cache) (f : Nat) : FState := c.getD f .absent

def setValid (c : Cache) (f : Nat) : Cache := c.mapIdx fun i s => if i = f then .valid else s

def tryLoad (c : Cache) (f : Nat) : Except Failure Unit :=
  match stateOf c f with
  | .valid => .ok ()
  | .absent => .error .missing
  | .corrupt => .error .unpickle

/-- `try: load(main) except <E>: compile (dump all `writes`); load(main)` -/
def startUnit (E : Failure → Bool) (c : Cache) (u : CUnit) : Except Failure (Cache × List Ev) :=
  match tryLoad c u.main with
  | .ok _ => .ok (c, [.loadOk u.main])
  | .error e =>
    if E e then
      let c' := u.writes.foldl setValid c
      match tryLoad c' u.main with
      | .ok _ => .ok (c', [.loadFail u.main e] ++ u.writes.map .dump ++ [.loadOk u.main])
      | .error e' => .error e'
    else .error e

def start (E : Failure → Bool) : List CUnit → Cache → Except Failure (Cache × List Ev)
  | [], c => .ok (c, [])
  | u :: us, c =>
    match startUnit E c u with
    | .ok (c', ev) =>
      match start E us c' with
      | .ok (c'', ev') => .ok (c'', ev ++ ev')
      | .error e => .error e
    | .error e => .error e

/-- a fault: any file deleted, or left empty / truncated -/
def damage (c : Cache) (f : Nat) (s : FState) : Cache := c.mapIdx fun i x => if i = f then s else x

end Verif.Cache
