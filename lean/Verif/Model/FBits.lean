import Verif.Model.Align
/-
IEEE doubles as bit patterns: a score carrier with decidable equality.  Operations decode,
compute in `Float` and encode again, so the driver can *compare* observed matrix cells with the
candidates of the scoring scheme exactly (tie (a) of C02), while all law-free theorems apply to
this carrier like to any other.
-/
namespace Verif.Align

structure FB where
  bits : UInt64
  deriving DecidableEq, Repr

instance : Inhabited FB := ⟨⟨0⟩⟩

def FB.ofFloat (x : Float) : FB := ⟨(if x == 0.0 then 0.0 else x).toBits⟩   -- −0.0 canonicalised
def FB.toFloat (x : FB) : Float := Float.ofBits x.bits

instance : ScoreOps FB where
  add a b := FB.ofFloat (a.toFloat + b.toFloat)
  sub a b := FB.ofFloat (a.toFloat - b.toFloat)
  mul a b := FB.ofFloat (a.toFloat * b.toFloat)
  div a b := FB.ofFloat (a.toFloat / b.toFloat)
  sum l := FB.ofFloat (pySumFloat (l.map FB.toFloat))
  half a := FB.ofFloat (a.toFloat / 2.0)
  le a b := decide (a.toFloat ≤ b.toFloat)
  lt a b := decide (a.toFloat < b.toFloat)
  zero := FB.ofFloat 0.0
  one := FB.ofFloat 1.0
  big := FB.ofFloat 1000000.0
  ofNat n := FB.ofFloat (Float.ofNat n)

end Verif.Align
