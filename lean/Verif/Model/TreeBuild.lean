import Verif.Model.Cluster
/-
Models of the tree builders `_upgma` and `_neighbor` of `_cluster.py` (C09), generic in the
score carrier.  Both return the *tree matrix*: one row `(idA, idB, branchA, branchB)` per join.
-/
namespace Verif.TreeBuild
open Verif.Align Verif.Cluster ScoreOps

variable {S : Type} [ScoreOps S]

abbrev Row (S : Type) := Nat × Nat × S × S

/-! ### UPGMA -/

structure UState (S : Type) where
  clusters : St                 -- insertion-ordered dict key ↦ members
  heights : List (Nat × S)      -- `branches`
  rows : List (Row S)           -- `tree_matrix`

def heightOf (h : List (Nat × S)) (k : Nat) : S := ((h.find? fun p => p.1 == k).map (·.2)).getD zero

def two : S := add (one : S) one

/-- one recursive call of `_upgma`; `none` when a single cluster is left -/
def upgmaStep (lastMin : Bool) (M : Nat → Nat → S) (st : UState S) : Option (UState S) :=
  if st.clusters.length ≤ 1 then none else
  match argMin lastMin (pairScores ⟨.average, lastMin, false⟩ M st.clusters) with
  | none => none
  | some ((p, q), m) =>
    let a := st.clusters.getD p (0, [])
    let b := st.clusters.getD q (0, [])
    let idxNew := (st.clusters.map (·.1)).foldl max 0 + 1
    let h := div m two
    let bA := sub h (heightOf st.heights a.1)
    let bB := sub h (heightOf st.heights b.1)
    let rest := (st.clusters.eraseIdx (max p q)).eraseIdx (min p q)   -- `del clusters[idxA]; del clusters[idxB]`
    some { clusters := rest ++ [(idxNew, a.2 ++ b.2)],
           heights := st.heights ++ [(idxNew, h)],
           rows := st.rows ++ [(a.1, b.1, bA, bB)] }

def upgmaRun (lastMin : Bool) (M : Nat → Nat → S) : Nat → UState S → UState S
  | 0, st => st
  | n+1, st => match upgmaStep lastMin M st with
    | none => st
    | some st' => upgmaRun lastMin M n st'

/-- `_upgma(clusters, matrix, tree_matrix)` for `n` taxa -/
def upgma (lastMin : Bool) (M : Nat → Nat → S) (n : Nat) : UState S :=
  upgmaRun lastMin M n ⟨init n, (List.range n).map fun i => (i, zero), []⟩

/-! ### Neighbor-Joining -/

structure NState (S : Type) where
  clusters : List (List Nat)           -- renumbered `0 … k-1` after every join
  matrix : List (List S)               -- current `k × k` matrix
  tracer : List (List Nat × Nat)       -- members ↦ node id
  rows : List (Row S)

def mget (m : List (List S)) (i j : Nat) : S := (m.getD i []).getD j zero

def traceId (tr : List (List Nat × Nat)) (ms : List Nat) : Nat :=
  ((tr.find? fun p => p.1 == ms).map (·.2)).getD 0

/-- `squareform` of a condensed vector for a `k × k` matrix -/
def squareform (k : Nat) (x : List S) : List (List S) :=
  (List.range k).map fun i => (List.range k).map fun j =>
    if i < j then x.getD (i * k - i * (i + 1) / 2 + (j - i - 1)) zero
    else if j < i then x.getD (j * k - j * (j + 1) / 2 + (i - j - 1)) zero
    else zero

def njStep (st : NState S) : Option (NState S) :=
  let k := st.clusters.length
  if k ≤ 1 then none
  else if k = 2 then
    let a := st.clusters.getD 0 []
    let b := st.clusters.getD 1 []
    let idNew := (st.tracer.map (·.2)).foldl max 0 + 1
    let s := div (mget st.matrix 0 1) two
    some { clusters := [a ++ b], matrix := [[zero]], tracer := st.tracer ++ [(a ++ b, idNew)],
           rows := st.rows ++ [(traceId st.tracer a, traceId st.tracer b, s, s)] }
  else
    let n2 : S := sub (ofNat k) two
    let averages := st.matrix.map fun line => div (ScoreOps.sum line) n2
    let av := fun i => averages.getD i zero
    -- new_matrix[i][j] for i < j is computed from the lower-triangle entry matrix[j][i]
    let q := fun (i j : Nat) => sub (sub (mget st.matrix j i) (av j)) (av i)
    let pairs : List ((Nat × Nat) × S) :=
      (List.range k).flatMap fun i => ((List.range k).filter fun j => i < j).map fun j => ((i, j), q i j)
    match argMin false pairs with
    | none => none
    | some ((ia, ib), _) =>
      let dab := mget st.matrix ia ib
      let sAX := add (div dab two) (div (sub (av ia) (av ib)) two)
      let sBX := sub dab sAX
      let a := st.clusters.getD ia []
      let b := st.clusters.getD ib []
      let idNew := (st.tracer.map (·.2)).foldl max 0 + 1
      let keys := (List.range k).filter (· != ib)
      let newClusters := keys.map fun key => if key = ia then a ++ b else st.clusters.getD key []
      let cond : List S := (keys.zipIdx).flatMap fun (x : Nat × Nat) =>
        ((keys.zipIdx).filter fun (y : Nat × Nat) => x.2 < y.2).map fun (y : Nat × Nat) =>
          if x.1 != ia && y.1 != ia then mget st.matrix x.1 y.1
          else if x.1 == ia then div (sub (add (mget st.matrix ia y.1) (mget st.matrix ib y.1)) dab) two
          else div (sub (add (mget st.matrix ia x.1) (mget st.matrix ib x.1)) dab) two
      some { clusters := newClusters, matrix := squareform (k - 1) cond,
             tracer := st.tracer ++ [(a ++ b, idNew)],
             rows := st.rows ++ [(traceId st.tracer a, traceId st.tracer b, sAX, sBX)] }

def njRun : Nat → NState S → NState S
  | 0, st => st
  | n+1, st => match njStep st with
    | none => st
    | some st' => njRun n st'

/-- `_neighbor(clusters, matrix, tree_matrix)` for `n` taxa -/
def neighbor (M : List (List S)) (n : Nat) : NState S :=
  njRun n ⟨(List.range n).map fun i => [i], M, (List.range n).map fun i => ([i], i), []⟩

/-! ### reading a tree matrix: leaves below every node and the path length between two leaves -/

/-- decoding state: node id ↦ the leaves below it with their depth; the path lengths recorded so far; the next node id -/
structure Dec (S : Type) where
  nodes : List (Nat × List (Nat × S))
  dists : List ((Nat × Nat) × S)
  next : Nat

def nodeLeaves (nodes : List (Nat × List (Nat × S))) (id : Nat) : List (Nat × S) :=
  ((nodes.find? fun p => p.1 == id).map (·.2)).getD []

/-- one row `(idA, idB, branchA, branchB)`: the new node gets the next id (lingpy: `n + row index`), two leaves that meet
in it are `depth + branch` away from it on either side -/
def decStep (d : Dec S) (r : Row S) : Dec S :=
  let A := (nodeLeaves d.nodes r.1).map fun p => (p.1, add p.2 r.2.2.1)
  let B := (nodeLeaves d.nodes r.2.1).map fun p => (p.1, add p.2 r.2.2.2)
  { nodes := d.nodes ++ [(d.next, A ++ B)],
    dists := d.dists ++ A.flatMap fun p => B.map fun q => ((p.1, q.1), add p.2 q.2),
    next := d.next + 1 }

def decInit (n : Nat) : Dec S := ⟨(List.range n).map fun i => (i, [(i, zero)]), [], n⟩

/-- all leaf-to-leaf path lengths of the tree a tree matrix over `n` taxa describes -/
def decode (n : Nat) (rows : List (Row S)) : Dec S := rows.foldl decStep (decInit n)

end Verif.TreeBuild
