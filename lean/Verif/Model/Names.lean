/-
Model of how a wordlist orders its languages and concepts: `sorted(set(values), key=lambda x: (x.lower(), x))`
(the case-insensitive alphabetical order, ties between names that coincide after lower-casing broken
by the name itself).  A name is the list of its code points; its lower-cased form is supplied with it
(Python's `str.lower()` is not modelled).  Python compares strings by code points, lexicographically.
Import-free and executable.
-/
namespace Verif.Names

abbrev Name := List Nat × List Nat     -- (lower-cased name, name)

/-- `a < b` for Python strings: lexicographic on code points, a proper prefix is smaller -/
def lexLt : List Nat → List Nat → Bool
  | [], [] => false
  | [], _ :: _ => true
  | _ :: _, [] => false
  | a :: as, b :: bs => decide (a < b) || (a == b && lexLt as bs)

/-- tuple comparison `(lower, name) < (lower', name')` -/
def pairLt (x y : Name) : Bool := lexLt x.1 y.1 || (x.1 == y.1 && lexLt x.2 y.2)

def pairLe (x y : Name) : Bool := !pairLt y x

/-- the distinct values, first occurrences kept (any order will do: see `C12_names_order_free`) -/
def nub : List Name → List Name
  | [] => []
  | x :: xs => x :: (nub xs).filter (· != x)

/-- `rows` / `cols` of a wordlist from the column of values -/
def distinctSorted (values : List Name) : List Name := (nub values).mergeSort pairLe

end Verif.Names
