/-
Model of the score that iterative refinement compares (`Multiple.sum_of_pairs`, `calign.score_profile`,
`talign.score_profile`) and of one `_iter(check='final')` pass as a whole (`align/multiple.py`).

Import-free apart from the carrier class; executable on IEEE doubles through the driver (`sop`, `iterpass`).
Symbols of the internal alignment matrix are natural numbers, `0` is the gap `'X'`.
-/
import Verif.Model.Align
import Verif.Model.MSA
namespace Verif.Refine
open Verif.Align Verif.MSA

variable {S : Type} [ScoreOps S]

/-- which `score_profile`: `c` = `calign` (a pair with a gap only adds `gap_weight` to the counter),
`t` = `talign` (a symbol against a gap costs `gop` and counts 1, two gaps add `gap_weight`) -/
inductive Kind where
  | c | t
  deriving DecidableEq, Repr

/-- body of the double loop of `score_profile`: state = (`score`, `counter`) -/
def pairStep (k : Kind) (sc : Nat → Nat → S) (gop gw : S) (a b : Nat) (st : S × S) : S × S :=
  if a != 0 && b != 0 then (ScoreOps.add st.1 (sc a b), ScoreOps.add st.2 ScoreOps.one)
  else match k with
    | .c => (st.1, ScoreOps.add st.2 gw)
    | .t => if a == 0 && b == 0 then (st.1, ScoreOps.add st.2 gw)
            else (ScoreOps.add st.1 gop, ScoreOps.add st.2 ScoreOps.one)

/-- `for charA in colA: for charB in colB: ...` -/
def profileAcc (k : Kind) (sc : Nat → Nat → S) (gop gw : S) (colA colB : List Nat) : S × S :=
  colA.foldl (fun st a => colB.foldl (fun st b => pairStep k sc gop gw a b st) st) (ScoreOps.zero, ScoreOps.zero)

/-- `score_profile(colA, colB, scorer, ...)` = `score / counter` -/
def scoreProfile (k : Kind) (sc : Nat → Nat → S) (gop gw : S) (colA colB : List Nat) : S :=
  let p := profileAcc k sc gop gw colA colB
  ScoreOps.div p.1 p.2

/-- `[line[i] for line in alm_matrix]` -/
def column (msa : List (List Nat)) (i : Nat) : List Nat := msa.map fun line => line.getD i 0

/-- `Multiple.sum_of_pairs`: the mean over the columns of the profile score of the column with itself -/
def sumOfPairs (k : Kind) (sc : Nat → Nat → S) (gop gw : S) (msa : List (List Nat)) : S :=
  let lenM := width msa
  ScoreOps.div
    ((List.range lenM).foldl (fun s i => ScoreOps.add s (scoreProfile k sc gop gw (column msa i) (column msa i))) ScoreOps.zero)
    (ScoreOps.ofNat lenM)

/-- what the loop of `_iter` does to the matrix for one index set (`_split`, `_align_profile`, `_join`) is a
function of the current matrix; nothing about it is assumed -/
abbrev Step := List (List Nat) → List (List Nat)

/-- the matrix the loop of `_iter` leaves: the steps applied one after the other -/
def candidate (steps : List Step) (m : List (List Nat)) : List (List Nat) := steps.foldl (fun cur f => f cur) m

/-- one `_iter(idx_list, check='final')` pass with score function `sp` (the `sum_of_pairs` of the call's gap weight):
a single index set returns at once; otherwise the candidate is kept unless it scores lower than the saved matrix -/
def iterPass (sp : List (List Nat) → S) (steps : List Step) (m : List (List Nat)) : List (List Nat) :=
  if steps.length == 1 then m
  else iterFinal ScoreOps.lt (sp m) (sp (candidate steps m)) m (candidate steps m)

/-- `check='immediate'`: after every index set the matrix is scored with `sp0` (`sum_of_pairs()` with its DEFAULT gap
weight, not the call's); a lower score puts the matrix saved at the start of the pass back, otherwise the score to beat
is raised.  State = (current matrix, `sop`). -/
def immStep (sp0 : List (List Nat) → S) (saved : List (List Nat)) (st : List (List Nat) × S) (f : Step) :
    List (List Nat) × S :=
  let new := f st.1
  if ScoreOps.lt (sp0 new) st.2 then (saved, st.2) else (new, sp0 new)

/-- one `_iter(idx_list, check='immediate')` pass: `sp` scores the matrix at the start (the call's gap weight) -/
def iterImmediate (sp sp0 : List (List Nat) → S) (steps : List Step) (m : List (List Nat)) : List (List Nat) :=
  if steps.length == 1 then m else (steps.foldl (immStep sp0 m) (m, sp m)).1

/-- a refinement call = at most one pass (`none`: the call returned before `_iter`) with the score function of its gap weight -/
structure Call (S : Type) where
  sp : List (List Nat) → S
  steps : Option (List Step)

def runCall (c : Call S) (m : List (List Nat)) : List (List Nat) :=
  match c.steps with
  | none => m
  | some st => iterPass c.sp st m

/-- any sequence of refinement calls on one object -/
def session (calls : List (Call S)) (m : List (List Nat)) : List (List Nat) := calls.foldl (fun cur c => runCall c cur) m

end Verif.Refine
