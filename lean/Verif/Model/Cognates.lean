import Verif.Model.Cluster
/-
Model of the id bookkeeping of `LexStat.cluster` (C06): concepts are processed in sorted
order; for each concept the words `indices` are clustered, the (reverted, 1-based) cluster
labels are shifted by the running offset `k`, and `k` becomes the maximum id handed out.
-/
namespace Verif.Cognates

/-- per concept: row ids paired with their cognate ids; `parts` = (indices, 1-based labels) -/
def glue : Nat → List (List Nat × List Nat) → List (List (Nat × Nat))
  | _, [] => []
  | k, (idx, labs) :: rest =>
    let cl := labs.map (· + k)
    idx.zip cl :: glue (cl.foldl max 0) rest

/-- labels of the items `0 … n-1` read off a reverted flat clustering: `c[i]` -/
def labelsOf (rev : List (Nat × Nat)) (n : Nat) : List Nat :=
  (List.range n).map fun i => ((rev.find? fun p => p.1 == i).map (·.2)).getD 0

end Verif.Cognates
