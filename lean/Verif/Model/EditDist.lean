import Verif.Model.Align
/-
Model of `_malign.edit_dist` (plain and normalised): the DP over prefixes with the
selection `gapA < match and gapA < gapB` / `match <= gapB` / else, as an affine kernel over `Nat`.
The Python function keeps no traceback table; the move component here is model-only
(it records which branch was taken) and is used to exhibit an optimal edit script.
-/
namespace Verif.Align

variable {α : Type} [DecidableEq α]

def subCost (a b : List α) (i j : Nat) : Nat := if a[j-1]? = b[i-1]? then 0 else 1

def editKernel (a b : List α) : AffKernel Nat where
  corner := (0, 1)
  row0 := fun _ c => (c.1 + 1, 2)
  col0 := fun _ c => (c.1 + 1, 3)
  candUp := fun _ _ c => c.1 + 1
  candLeft := fun _ _ c => c.1 + 1
  candDiag := fun i j v => v + subCost a b i j
  choose := fun gapA m gapB =>
    if gapA < m ∧ gapA < gapB then (gapA, 3) else if m ≤ gapB then (m, 1) else (gapB, 2)

/-- `edit_dist(seqA, seqB, normalized=False)` -/
def editDist (a b : List α) : Nat :=
  (getCell (rowsRev (editKernel a b).toFill a.length b.length) b.length b.length a.length).1

/-- cost of an edit script (alignment) read left to right from position `(i,j)`:
one per gap column, one per mismatching match column. -/
def editCost (a b : List α) : List Mv → Nat → Nat → Nat
  | [], _, _ => 0
  | .up :: ms, i, j => 1 + editCost a b ms (i+1) j
  | .left :: ms, i, j => 1 + editCost a b ms i (j+1)
  | .diag :: ms, i, j => (if a[j]? = b[i]? then 0 else 1) + editCost a b ms (i+1) (j+1)

/-- textbook recursive Levenshtein distance (used as an executable cross-check) -/
def lev : List α → List α → Nat
  | [], b => b.length
  | a, [] => a.length
  | x :: xs, y :: ys =>
    min (min (lev xs (y :: ys) + 1) (lev (x :: xs) ys + 1)) (lev xs ys + if x = y then 0 else 1)
termination_by a b => a.length + b.length

end Verif.Align
