/-
Models for `lingpy.sequence.sound_classes` (C01 gap re-insertion, C14 tokeniser etc.).
Import-free and executable.
-/
namespace Verif.SC

variable {α : Type}

/-- Python `list.insert(i, x)` for `i ≥ 0` (appends when `i` exceeds the length). -/
def pyInsert (l : List α) (i : Nat) (x : α) : List α := l.take i ++ x :: l.drop i

/-- `class2tokens(tokens, classes)` (global branch): `classes` is given as booleans,
`false` = the class character is a gap (`'-'` or `'X'`).  `none` is the gap symbol. -/
def class2tokensGo : List Bool → Nat → List (Option α) → List (Option α)
  | [], _, out => out
  | c :: cs, i, out => class2tokensGo cs (i+1) (if c then out else pyInsert out i none)

def class2tokens (tokens : List α) (classes : List Bool) : List (Option α) :=
  class2tokensGo classes 0 (tokens.map some)

/-- `class2tokens(tokens, [pre, mid, suf], local=True)`; only the lengths of prefix and
suffix are used. -/
def class2tokensLocal (tokens : List α) (pre : Nat) (mid : List Bool) (suf : Nat) : List (Option α) :=
  class2tokens ((tokens.take (tokens.length - suf)).drop pre) mid


/-! ### `ipa2tokens` (without `expand_nasals`) as a fold over the characters -/

/-- character classes and options; arbitrary predicates – the theorems hold for every choice -/
structure Cls where
  isBreak : Nat → Bool
  isCombiner : Nat → Bool
  isStress : Nat → Bool
  isDiacritic : Nat → Bool
  isVowel : Nat → Bool
  isTone : Nat → Bool
  isSemi : Nat → Bool                 -- `semi_diacritics`
  isNogo : List Nat → Bool            -- `out[-1] in nogos`
  mergeVowels : Bool
  mergeGeminates : Bool
  nullGlyph : Nat                     -- U+2205

/-- `out` is kept reversed: head = last token -/
structure TokSt where
  out : List (List Nat)
  vowel : Bool
  tone : Bool
  merge : Bool
  start : Bool
  deriving Repr, DecidableEq

def TokSt.init : TokSt := ⟨[], false, false, false, true⟩

/-- `out[-1] += char`; `none` = IndexError on an empty list -/
def appendLast (out : List (List Nat)) (c : Nat) : Option (List (List Nat)) :=
  match out with
  | [] => none
  | t :: r => some ((t ++ [c]) :: r)

/-- guard of the weak-diacritic branch (`out[-1]` is only reached when `not start`, i.e. when a
token exists – see `TokInv`) -/
def semiCond (K : Cls) (st : TokSt) (c : Nat) : Bool :=
  K.isSemi c && !st.start && !st.vowel && !st.tone
    && (match st.out with | [] => false | t :: _ => !K.isNogo t)

/-- one iteration of `for char in sequence` -/
def tokStep (K : Cls) (st : TokSt) (c : Nat) : Option TokSt :=
  if K.isBreak c then some { st with start := true, vowel := false, tone := false, merge := false }
  else if K.isCombiner c then
    match st.out with
    | [] => some { st with out := [[K.nullGlyph, c]], merge := false }
    | _ => (appendLast st.out c).map fun o => { st with out := o, merge := true }
  else if K.isStress c then
    some { st with out := [c] :: st.out, merge := true, tone := false, vowel := false, start := false }
  else if st.merge then
    (appendLast st.out c).map fun o =>
      { st with out := o, vowel := if K.isVowel c then true else st.vowel, merge := false }
  else if semiCond K st c then
    (appendLast st.out c).map fun o => { st with out := o }
  else if K.isDiacritic c then
    if !st.start then (appendLast st.out c).map fun o => { st with out := o }
    else some { st with out := [c] :: st.out, start := false, merge := true }
  else if K.isVowel c then
    if st.vowel && K.mergeVowels then
      (appendLast st.out c).map fun o => { st with out := o, start := false, tone := false }
    else some { st with out := [c] :: st.out, vowel := true, start := false, tone := false }
  else if K.isTone c then
    if st.tone then (appendLast st.out c).map fun o => { st with out := o, vowel := false, start := false }
    else some { st with out := [c] :: st.out, vowel := false, tone := true, start := false }
  else some { st with out := [c] :: st.out, vowel := false, start := false, tone := false }

def tokFold (K : Cls) : List Nat → TokSt → Option TokSt
  | [], st => some st
  | c :: cs, st => (tokStep K st c).bind (tokFold K cs)

/-- the geminate pass: `new_out = [out[0]]; for …: if outA == outB: new_out[-1] += outB else new_out += [outB]`
(on the forward list) -/
def mergeGem : List (List Nat) → List (List Nat) → List Nat → List (List Nat)
  -- accR: reversed accumulator, prev: the previous *original* token
  | accR, [], _ => accR.reverse
  | accR, t :: ts, prev =>
    if prev == t then
      match accR with
      | a :: r => mergeGem ((a ++ t) :: r) ts t
      | [] => mergeGem [t] ts t
    else mergeGem (t :: accR) ts t

def geminates (out : List (List Nat)) : Option (List (List Nat)) :=
  match out with
  | [] => none                                  -- `out[0]` raises IndexError
  | t :: ts => some (mergeGem [t] ts t)

/-- `ipa2tokens(sequence, expand_nasals=False)`; `none` where the code raises IndexError -/
def ipa2tokens (K : Cls) (s : List Nat) : Option (List (List Nat)) :=
  match tokFold K s TokSt.init with
  | none => none
  | some st => if K.mergeGeminates then geminates st.out.reverse else some st.out.reverse


/-! ### `prosodic_string` on a sonority profile -/

/-- prosodic symbols -/
inductive Pro | A | B | C | L | M | N | X | Y | Z | T | brk
  deriving DecidableEq, Repr, Inhabited

/-- one iteration of the loop over `sstring[1:-1]`: neighbours `a b c`, the `first` flag and the
string built so far (reversed: head = last symbol).  `none` = the `else: raise ValueError`. -/
def proStep (a b c : Nat) (first : Bool) (ps : List Pro) : Option (Bool × List Pro) :=
  if b = 7 then
    if first then some (false, .X :: ps)
    else if c = 9 then some (first, .Z :: ps)
    else some (first, .Y :: ps)
  else if b = 8 then some (first, .T :: ps)
  else if (b ≤ a ∧ c ≤ b) ∨ c = 8 then
    if c = 9 ∧ b ≠ 7 then some (first, .N :: ps)
    else if c = 9 ∧ b = 7 then some (first, .Z :: ps)
    else if first then some (false, .A :: ps)
    else some (first, .L :: ps)
  else if b < c ∨ (b < a ∧ b ≤ c) ∨ (a < b ∧ b ≤ c) then
    if a = 9 then some (first, .A :: ps)
    else if b ≤ a then
      if c = 9 then some (first, .N :: ps)
      else match ps with
        | .A :: _ => some (first, .C :: ps)
        | .L :: r => some (first, .B :: .M :: r)          -- rewrite the previous `L` to `M`
        | p :: r => some (first, .B :: p :: r)
        | [] => none                                       -- `pstring[-1]` on an empty string
    else some (first, .C :: ps)
  else if a < b ∧ c < b then
    if first then some (false, .X :: ps) else some (first, .Y :: ps)
  else none

/-- loop over a profile that contains no word break: `prev` is the left neighbour -/
def proLoop : Nat → List Nat → Bool → List Pro → Option (List Pro)
  | _, [], _, ps => some ps.reverse
  | a, [b], first, ps => (proStep a b 9 first ps).map fun r => r.2.reverse
  | a, b :: c :: rest, first, ps =>
    (proStep a b c first ps).bind fun r => proLoop b (c :: rest) r.1 r.2

/-- split a profile at the word breaks `9` -/
def splitNine : List Nat → List Nat → List (List Nat)
  | cur, [] => [cur.reverse]
  | cur, x :: xs => if x = 9 then cur.reverse :: splitNine [] xs else splitNine (x :: cur) xs

/-- `prosodic_string(profile)` for an integer profile -/
def prosodic (profile : List Nat) : Option (List Pro) :=
  let parts := (splitNine [] profile).map fun p => proLoop 9 p true []
  if parts.all Option.isSome then
    some (List.intercalate [Pro.brk] (parts.map fun o => o.getD []))
  else none

/-! ### `token2class` fallback chain over an arbitrary finite converter -/

structure TokCls where
  lookup : List Nat → Option Nat       -- `model[token]`
  isStress : Nat → Bool
  isDiacritic : Nat → Bool
  unknown : Nat                         -- the class "0"

def token2class (M : TokCls) (tok : List Nat) : Nat :=
  match M.lookup tok with
  | some c => c
  | none =>
    match tok with
    | [] => M.unknown
    | h :: t =>
      match M.lookup [h] with
      | some c => c
      | none =>
        if (M.isStress h && !t.isEmpty) || (M.isDiacritic h && !t.isEmpty) then
          match M.lookup t with
          | some c => c
          | none =>
            match t with
            | h2 :: _ => (M.lookup [h2]).getD M.unknown
            | [] => M.unknown
        else M.unknown

def tokens2class (M : TokCls) (toks : List (List Nat)) : List Nat := toks.map (token2class M)

end Verif.SC
