/-
Models for `lingpy.sequence.sound_classes` (C01 gap re-insertion, C14 tokeniser etc.).
Import-free and executable.
-/
namespace Verif.SC

variable {α : Type}

/-- Python `list.insert(i, x)` for `i ≥ 0` (appends when `i` exceeds the length). -/
def pyInsert (l : List α) (i : Nat) (x : α) : List α := l.take i ++ x :: l.drop i

/-- `class2tokens(tokens, classes)` (global branch): `classes` is given as booleans,
`false` = the class character is a gap (`'-'` or `'X'`).  `none` is the gap symbol. -/
def class2tokensGo : List Bool → Nat → List (Option α) → List (Option α)
  | [], _, out => out
  | c :: cs, i, out => class2tokensGo cs (i+1) (if c then out else pyInsert out i none)

def class2tokens (tokens : List α) (classes : List Bool) : List (Option α) :=
  class2tokensGo classes 0 (tokens.map some)

/-- `class2tokens(tokens, [pre, mid, suf], local=True)`; only the lengths of prefix and
suffix are used. -/
def class2tokensLocal (tokens : List α) (pre : Nat) (mid : List Bool) (suf : Nat) : List (Option α) :=
  class2tokens ((tokens.take (tokens.length - suf)).drop pre) mid

end Verif.SC
