/-
Line-level model of the TSV format of wordlists (C13): `wl2qlc` writes the header and one line
per row – the row id and the cell texts joined by a tab –, optionally interleaved with comment
lines; `read_qlc` skips empty lines and comment lines, sends `@` and `<` lines elsewhere, splits
every other line at the tabs and strips each field.  Characters are code points (`Nat`).
Import-free and executable.
-/
namespace Verif.Line

def tab : Nat := 9
def hash : Nat := 35       -- '#'
def at_ : Nat := 64        -- '@'
def lt_ : Nat := 60        -- '<'

/-- `'\t'.join(fields)` -/
def join : List (List Nat) → List Nat
  | [] => []
  | [f] => f
  | f :: g :: r => f ++ tab :: join (g :: r)

/-- `line.split('\t')` -/
def split : List Nat → List (List Nat)
  | [] => [[]]
  | c :: r =>
    if c = tab then [] :: split r
    else match split r with
      | h :: t => (c :: h) :: t
      | [] => [[c]]

/-- code points removed by `str.strip()` -/
def isSpace (c : Nat) : Bool :=
  (9 ≤ c && c ≤ 13) || (28 ≤ c && c ≤ 32) || c == 133 || c == 160 || c == 5760 ||
  (8192 ≤ c && c ≤ 8202) || c == 8232 || c == 8233 || c == 8239 || c == 8287 || c == 12288

def stripL : List Nat → List Nat
  | [] => []
  | c :: r => if isSpace c then stripL r else c :: r

def strip (f : List Nat) : List Nat := (stripL (stripL f).reverse).reverse

inductive Kind | skipL | metaL | blockL | dataL
  deriving DecidableEq, Repr

/-- the dispatch of `read_qlc` on the first character -/
def kind (line : List Nat) : Kind :=
  match line with
  | [] => .skipL
  | c :: _ => if c = hash then .skipL else if c = at_ then .metaL else if c = lt_ then .blockL else .dataL

/-- the data part of `read_qlc` on a file without `@`/`<` lines: one list of stripped fields per data line -/
def parseLines (lines : List (List Nat)) : List (List (List Nat)) :=
  (lines.filter fun l => kind l == .dataL).map fun l => (split l).map strip

/-- what `wl2qlc` writes for the table: for the header and then each row (id text first) the comment
lines that precede it in prettified output, then the fields joined by tabs -/
def serialize (items : List (List (List Nat) × List (List Nat))) : List (List Nat) :=
  items.flatMap fun it => it.1 ++ [join it.2]

/-! ### lines of an `<msa>` block: `id`, the taxon name padded with dots, the alignment cells -/

def dot : Nat := 46

/-- `x.rstrip('.')` -/
def rstripDots (f : List Nat) : List Nat := (f.reverse.dropWhile (· == dot)).reverse

/-- `name.ljust(width, '.')` -/
def padDots (w : Nat) (f : List Nat) : List Nat := f ++ List.replicate (w - f.length) dot

/-- `'{0}\t{1}'.format(id, taxon.ljust(w, '.')) + '\t' + '\t'.join(cells)` -/
def msaLine (id : List Nat) (w : Nat) (taxon : List Nat) (cells : List (List Nat)) : List Nat :=
  join (id :: padDots w taxon :: cells)

/-- `[x.strip().rstrip('.') for x in l.split('\t')]` -/
def parseMsaLine (l : List Nat) : List (List Nat) := (split l).map fun f => rstripDots (strip f)

/-! ### `@key:value` lines (simple meta data) -/

def colon : Nat := 58

/-- `'@{0}:{1}'.format(k, v)` -/
def metaLine (k v : List Nat) : List Nat := at_ :: k ++ colon :: v

/-- `line[1:].split(':', 1)`: the part before the first colon and the rest (`none` without a colon: the unpacking fails) -/
def splitColon : List Nat → Option (List Nat × List Nat)
  | [] => none
  | c :: r => if c = colon then some ([], r) else (splitColon r).map fun p => (c :: p.1, p.2)

/-- `key, value = [s.strip() for s in line[1:].split(':', 1)]` -/
def parseMeta (line : List Nat) : Option (List Nat × List Nat) :=
  match line with
  | [] => none
  | _ :: rest => (splitColon rest).map fun p => (strip p.1, strip p.2)

/-! ### the `<scorer>` block: one line per symbol (`scorer2str` writes it, `read_scorer` reads it) -/

/-- `charA + ''.join('\t{0:.2f}'.format(v) for v in row)` -/
def scorerLine (ch : List Nat) (vals : List (List Nat)) : List Nat := join (ch :: vals)

/-- `x.split('\t')`: the symbol is field 0, the values are the rest -/
def readScorerLine (l : List Nat) : List Nat × List (List Nat) :=
  match split l with
  | [] => ([], [])
  | c :: vs => (c, vs)

end Verif.Line
