/-
A small heap model for C19: wordlist rows are *references* to mutable lists.
`construct copies src` builds a new object from a source: it either copies every row
into a fresh cell (what `QLCParser` does for another wordlist) or stores the caller's own
row references (what it did for dictionaries).  Operations on an object write only through
that object's references.
-/
namespace Verif.Heap

abbrev Heap := List (List Int)          -- address ↦ row

structure Obj where
  rows : List Nat                        -- addresses of the rows (row ids are irrelevant here)
  deriving Repr, DecidableEq

inductive Op where
  | addCol (v : Int)                     -- add_entries / cluster / align / renumber: append a cell to every row
  | assign (r col : Nat) (v : Int)       -- wl[id][col] = v on the r-th row
  deriving Repr

def update (h : Heap) (a : Nat) (f : List Int → List Int) : Heap :=
  h.mapIdx fun i row => if i = a then f row else row

def applyOp (o : Obj) (h : Heap) : Op → Heap
  | .addCol v => o.rows.foldl (fun h a => update h a (· ++ [v])) h
  | .assign r col v =>
    match o.rows[r]? with
    | some a => update h a (fun row => row.set col v)
    | none => h

/-- build a new object; returns it with the new heap -/
def construct (copies : Bool) (src : Obj) (h : Heap) : Obj × Heap :=
  if copies then
    (⟨(List.range src.rows.length).map (· + h.length)⟩, h ++ src.rows.map fun a => h.getD a [])
  else (src, h)

/-- what the caller sees when looking at its own data -/
def view (o : Obj) (h : Heap) : List (List Int) := o.rows.map fun a => h.getD a []

/-- `[line[:] for line in matrix]`: for a list of lists every slice is a fresh row; the rows of a two-dimensional numpy array are
views of the array's buffer, a slice of a view is the same memory -/
def rowSlices (isArray : Bool) (src : Obj) (h : Heap) : Obj × Heap := construct (!isArray) src h

def runOps (o : Obj) (h : Heap) (ops : List Op) : Heap := ops.foldl (applyOp o) h

end Verif.Heap
