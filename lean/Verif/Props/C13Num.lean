/-
# C13 — an integer cell: `int(str(n)) = n` for every integer (the assumption of `Model/Cell.lean`, proved for the model
of the two conversions and tied to Python's on generated integers of any size)
-/
import Verif.Model.Num
namespace Verif.Num

def valueRev : List Nat → Nat
  | [] => 0
  | d :: ds => d + 10 * valueRev ds

theorem valueRev_digitsRev : ∀ n, valueRev (digitsRev n) = n := by
  intro n
  induction n using Nat.strongRecOn with
  | _ n ih =>
    cases n with
    | zero => simp [digitsRev, valueRev]
    | succ m =>
      rw [digitsRev]
      simp only [valueRev]
      rw [ih ((m + 1) / 10) (by omega)]
      omega

theorem digitsRev_lt : ∀ n, ∀ d ∈ digitsRev n, d < 10 := by
  intro n
  induction n using Nat.strongRecOn with
  | _ n ih =>
    cases n with
    | zero => simp [digitsRev]
    | succ m =>
      rw [digitsRev]
      intro d hd
      rcases List.mem_cons.mp hd with h | h
      · omega
      · exact ih ((m + 1) / 10) (by omega) d h

theorem digitsRev_ne_nil (n : Nat) (h : n ≠ 0) : digitsRev n ≠ [] := by
  cases n with
  | zero => exact absurd rfl h
  | succ m => rw [digitsRev]; simp

/-- reading the digits from the most significant one -/
theorem fold_digits : ∀ (ds : List Nat), (∀ d ∈ ds, d < 10) → ∀ (a : Nat),
    (ds.map (· + 48)).foldl (fun acc c => acc.bind fun a => if isDigit c then some (a * 10 + (c - 48)) else none) (some a)
      = some (ds.foldl (fun a d => a * 10 + d) a) := by
  intro ds
  induction ds with
  | nil => intro _ a; rfl
  | cons d ds ih =>
    intro h a
    have hd : d < 10 := h d (by simp)
    have hdig : isDigit (d + 48) = true := by simp [isDigit]; omega
    simp only [List.map_cons, List.foldl_cons, Option.bind_some, hdig, if_true, Nat.add_sub_cancel]
    exact ih (fun x hx => h x (List.mem_cons_of_mem _ hx)) _

theorem foldl_reverse_value : ∀ (ds : List Nat), ds.reverse.foldl (fun a d => a * 10 + d) 0 = valueRev ds := by
  intro ds
  induction ds with
  | nil => rfl
  | cons d ds ih =>
    simp only [List.reverse_cons, List.foldl_append, List.foldl_cons, List.foldl_nil, ih, valueRev]
    omega

/-- **`int(str(n)) = n`**, natural numbers -/
theorem parse_render_nat (n : Nat) : parseNat (renderNat n) = some n := by
  unfold renderNat
  by_cases h0 : n = 0
  · subst h0; simp [parseNat, isDigit]
  · simp only [h0, if_false]
    have hne : ((digitsRev n).reverse.map (· + 48)).isEmpty = false := by
      simpa using digitsRev_ne_nil n h0
    unfold parseNat
    simp only [hne, Bool.false_eq_true, if_false]
    rw [fold_digits _ (by intro d hd; exact digitsRev_lt n d (List.mem_reverse.mp hd)) 0,
      foldl_reverse_value, valueRev_digitsRev]

/-- the first character of a rendered natural number is a digit, never the minus sign -/
theorem renderNat_head (n : Nat) : ∃ c r, renderNat n = c :: r ∧ c ≠ 45 := by
  unfold renderNat
  by_cases h0 : n = 0
  · exact ⟨48, [], by simp [h0], by decide⟩
  · simp only [h0, if_false]
    have hne := digitsRev_ne_nil n h0
    cases hr : (digitsRev n).reverse with
    | nil => simp at hr; exact absurd hr hne
    | cons d ds =>
      refine ⟨d + 48, ds.map (· + 48), by simp, ?_⟩
      have : d ∈ digitsRev n := List.mem_reverse.mp (by rw [hr]; simp)
      have := digitsRev_lt n d this
      omega

/-- **C13, integer cells: `int(str(n)) = n` for every integer** -/
theorem C13_int_roundtrip (n : Int) : parseInt (renderInt n) = some n := by
  cases n with
  | ofNat k =>
    obtain ⟨c, r, hcr, hc⟩ := renderNat_head k
    have h := parse_render_nat k
    simp only [renderInt]
    rw [hcr] at h ⊢
    unfold parseInt
    split
    · rename_i heq; simp at heq; exact absurd heq.1 hc
    · rw [h]; rfl
  | negSucc k =>
    simp only [renderInt, parseInt, parse_render_nat]
    congr 1

example : parseInt [45, 49, 50, 48] = some (-120) ∧ parseInt [49, 120] = none ∧ parseInt [] = none ∧ parseInt [45] = none := by decide
/-- the written form of a concrete number (the recursion on `n / 10` is unfolded step by step) -/
example : renderInt (-120) = [45, 49, 50, 48] := by
  have h : digitsRev 120 = [0, 2, 1] := by
    rw [show (120 : Nat) = 119 + 1 from rfl, digitsRev]
    rw [show ((119 + 1) / 10 : Nat) = 11 + 1 from rfl, digitsRev]
    rw [show ((11 + 1) / 10 : Nat) = 0 + 1 from rfl, digitsRev]
    rw [show ((0 + 1) / 10 : Nat) = 0 from rfl, digitsRev]
  show 45 :: renderNat 120 = _
  simp [renderNat, h]

end Verif.Num

/-! ### four decimals -/
namespace Verif.Num

theorem renderNat_digits (n : Nat) : ∀ c ∈ renderNat n, 48 ≤ c ∧ c ≤ 57 := by
  intro c hc
  unfold renderNat at hc
  by_cases h0 : n = 0
  · simp [h0] at hc; omega
  · simp only [h0, if_false, List.mem_map, List.mem_reverse] at hc
    obtain ⟨d, hd, rfl⟩ := hc
    have := digitsRev_lt n d hd
    omega

theorem parse_frac4 (r : Nat) (hr : r < 10000) : parseNat (frac4 r) = some r := by
  simp only [parseNat, frac4, List.isEmpty_cons, Bool.false_eq_true, if_false, List.foldl_cons, List.foldl_nil, Option.bind_some]
  have d1 : isDigit (r / 1000 % 10 + 48) = true := by simp [isDigit]; omega
  have d2 : isDigit (r / 100 % 10 + 48) = true := by simp [isDigit]; omega
  have d3 : isDigit (r / 10 % 10 + 48) = true := by simp [isDigit]; omega
  have d4 : isDigit (r % 10 + 48) = true := by simp [isDigit]; omega
  simp only [d1, d2, d3, d4, if_true, Option.bind_some, Nat.add_sub_cancel]
  congr 1
  omega

theorem takeWhile_digits (ds rest : List Nat) (h : ∀ c ∈ ds, 48 ≤ c ∧ c ≤ 57) :
    (ds ++ 46 :: rest).takeWhile (· != 46) = ds ∧ (ds ++ 46 :: rest).dropWhile (· != 46) = 46 :: rest := by
  induction ds with
  | nil => simp
  | cons d ds ih =>
    have hd := h d (by simp)
    have hne : (d != 46) = true := by simp; omega
    obtain ⟨i1, i2⟩ := ih (fun c hc => h c (List.mem_cons_of_mem _ hc))
    simp [List.takeWhile_cons, List.dropWhile_cons, hne, i1, i2]

/-- **C13, a number written with four decimals reads back** (sign and the rounded magnitude `k = |x|·10⁴`) -/
theorem C13_fixed4_roundtrip (neg : Bool) (k : Nat) : parseFixed4 (renderFixed4 neg k) = some (neg, k) := by
  obtain ⟨c, r, hcr, hc⟩ := renderNat_head (k / 10000)
  have hdig := renderNat_digits (k / 10000)
  obtain ⟨t1, t2⟩ := takeWhile_digits (renderNat (k / 10000)) (frac4 (k % 10000)) hdig
  have hp1 := parse_render_nat (k / 10000)
  have hp2 := parse_frac4 (k % 10000) (Nat.mod_lt _ (by decide))
  have hlen : (frac4 (k % 10000)).length = 4 := rfl
  cases neg with
  | true =>
    have hs : signBody (45 :: (renderNat (k / 10000) ++ 46 :: frac4 (k % 10000))) = (true, renderNat (k / 10000) ++ 46 :: frac4 (k % 10000)) := rfl
    simp only [renderFixed4, if_true, List.cons_append, List.nil_append, parseFixed4, hs, t1, t2, hlen, beq_self_eq_true, hp1, hp2]
    congr 2
    omega
  | false =>
    have hs : signBody (renderNat (k / 10000) ++ 46 :: frac4 (k % 10000)) = (false, renderNat (k / 10000) ++ 46 :: frac4 (k % 10000)) := by
      rw [hcr]
      simp only [List.cons_append]
      unfold signBody
      split
      · rename_i heq; simp at heq; exact absurd heq.1 hc
      · rfl
    simp only [renderFixed4, Bool.false_eq_true, if_false, List.nil_append, parseFixed4, hs, t1, t2, hlen, beq_self_eq_true, if_true, hp1, hp2]
    congr 2
    omega

example : renderFixed4 true 0 = [45, 48, 46, 48, 48, 48, 48] ∧ parseFixed4 [45, 48, 46, 48, 48, 48, 48] = some (true, 0) ∧
    parseFixed4 [49, 46, 53] = none := by decide

/-! ### two decimals -/

theorem parse_frac2 (r : Nat) (hr : r < 100) : parseNat (frac2 r) = some r := by
  simp only [parseNat, frac2, List.isEmpty_cons, Bool.false_eq_true, if_false, List.foldl_cons, List.foldl_nil, Option.bind_some]
  have d3 : isDigit (r / 10 % 10 + 48) = true := by simp [isDigit]; omega
  have d4 : isDigit (r % 10 + 48) = true := by simp [isDigit]; omega
  simp only [d3, d4, if_true, Option.bind_some, Nat.add_sub_cancel]
  congr 1
  omega

/-- **C13, a number written with two decimals reads back** (the values of the scorer block) -/
theorem C13_fixed2_roundtrip (neg : Bool) (k : Nat) : parseFixed2 (renderFixed2 neg k) = some (neg, k) := by
  obtain ⟨c, r, hcr, hc⟩ := renderNat_head (k / 100)
  have hdig := renderNat_digits (k / 100)
  obtain ⟨t1, t2⟩ := takeWhile_digits (renderNat (k / 100)) (frac2 (k % 100)) hdig
  have hp1 := parse_render_nat (k / 100)
  have hp2 := parse_frac2 (k % 100) (Nat.mod_lt _ (by decide))
  have hlen : (frac2 (k % 100)).length = 2 := rfl
  cases neg with
  | true =>
    have hs : signBody (45 :: (renderNat (k / 100) ++ 46 :: frac2 (k % 100))) = (true, renderNat (k / 100) ++ 46 :: frac2 (k % 100)) := rfl
    simp only [renderFixed2, if_true, List.cons_append, List.nil_append, parseFixed2, hs, t1, t2, hlen, beq_self_eq_true, hp1, hp2]
    congr 2
    omega
  | false =>
    have hs : signBody (renderNat (k / 100) ++ 46 :: frac2 (k % 100)) = (false, renderNat (k / 100) ++ 46 :: frac2 (k % 100)) := by
      rw [hcr]
      simp only [List.cons_append]
      unfold signBody
      split
      · rename_i heq; simp at heq; exact absurd heq.1 hc
      · rfl
    simp only [renderFixed2, Bool.false_eq_true, if_false, List.nil_append, parseFixed2, hs, t1, t2, hlen, beq_self_eq_true, if_true, hp1, hp2]
    congr 2
    omega

example : renderFixed2 true 35 = [45, 48, 46, 51, 53] ∧ parseFixed2 [45, 48, 46, 51, 53] = some (true, 35) := by decide

end Verif.Num
