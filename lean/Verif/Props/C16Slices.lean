import Verif.Model.Partial
set_option linter.unusedVariables false
/-!
# C16 — the slices of a word select exactly its morphemes

`_get_slices` turns the morphemes of a word into index ranges of its token list; the partial scorer and the
clustering compare `tokens[a:b]` for these ranges.  `C16_slices`: whenever the morphemes are a decomposition of
the tokens (separators, a morpheme, separators, …: `decompOkb`, evaluated on the observed morphemes by the
correspondence), every slice cuts exactly its morpheme out of the tokens and there are as many slices as
morphemes.  For the code as it was before `65599fb` (`slicesOld`) the statement is false: a counterexample is
proved below.
-/
namespace Verif.Partial

theorem skipSeps_spec (isSep : Nat → Bool) (rest : List Nat)
    (hr : ∀ t, rest.head? = some t → isSep t = false) :
    ∀ (seps pre : List Nat), (∀ t ∈ seps, isSep t = true) → ∀ fuel, seps.length ≤ fuel →
      skipSeps isSep (pre ++ (seps ++ rest)) fuel pre.length = pre.length + seps.length := by
  intro seps
  induction seps with
  | nil =>
    intro pre _ fuel _
    cases fuel with
    | zero => simp [skipSeps]
    | succ f =>
      simp only [skipSeps, List.nil_append, List.length_nil, Nat.add_zero]
      cases hrest : rest with
      | nil => simp
      | cons t ts =>
        have := hr t (by simp [hrest])
        simp [this]
  | cons s ss ih =>
    intro pre hs fuel hf
    cases fuel with
    | zero => simp at hf
    | succ f =>
      have hs0 : isSep s = true := hs s (by simp)
      simp only [skipSeps]
      have hget : (pre ++ (s :: ss ++ rest))[pre.length]? = some s := by simp
      rw [hget]
      simp only [hs0, if_true]
      have h2 := ih (pre ++ [s]) (fun t ht => hs t (by simp [ht])) f (by simp at hf; omega)
      have e1 : pre ++ [s] ++ (ss ++ rest) = pre ++ (s :: ss ++ rest) := by simp
      have e2 : (pre ++ [s]).length = pre.length + 1 := by simp
      rw [e1, e2] at h2
      rw [h2]
      simp; omega

/-- splitting off the leading separators -/
theorem dropWhile_split (isSep : Nat → Bool) : ∀ (toks : List Nat),
    ∃ seps, toks = seps ++ toks.dropWhile isSep ∧ (∀ t ∈ seps, isSep t = true) ∧
      ∀ t, (toks.dropWhile isSep).head? = some t → isSep t = false
  | [] => ⟨[], by simp, by simp, by simp⟩
  | x :: xs => by
    by_cases hx : isSep x = true
    · obtain ⟨seps, h1, h2, h3⟩ := dropWhile_split isSep xs
      refine ⟨x :: seps, ?_, ?_, ?_⟩
      · simp only [List.dropWhile_cons, hx, if_true, List.cons_append]
        rw [← h1]
      · intro t ht
        rcases List.mem_cons.mp ht with rfl | ht
        · exact hx
        · exact h2 t ht
      · intro t ht
        simp only [List.dropWhile_cons, hx, if_true] at ht
        exact h3 t ht
    · refine ⟨[], ?_, by simp, ?_⟩
      · simp [List.dropWhile_cons, hx]
      · intro t ht
        simp only [List.dropWhile_cons, hx, Bool.false_eq_true, if_false, List.head?_cons, Option.some.injEq] at ht
        subst ht
        simpa using hx

/-- **C16, slices**: for every decomposition, the slices are as many as the morphemes and each cuts its morpheme out -/
theorem C16_slices (isSep : Nat → Bool) :
    ∀ (ms : List (List Nat)) (pre toks : List Nat), decompOkb isSep toks ms = true →
      (slices isSep (pre ++ toks) pre.length ms).length = ms.length ∧
      ∀ i (hi : i < ms.length), ∀ ab, (slices isSep (pre ++ toks) pre.length ms)[i]? = some ab →
        ((pre ++ toks).drop ab.1).take (ab.2 - ab.1) = ms[i] := by
  intro ms
  induction ms with
  | nil => intro pre toks _; simp [slices]
  | cons m ms ih =>
    intro pre toks h
    simp only [decompOkb, Bool.and_eq_true, Bool.not_eq_true', List.all_eq_true, beq_iff_eq] at h
    obtain ⟨⟨⟨hne, hm⟩, htake⟩, hrest⟩ := h
    obtain ⟨seps, hsplit, hseps, hhead⟩ := dropWhile_split isSep toks
    generalize hrdef : toks.dropWhile isSep = rest at hsplit hhead htake hrest
    -- rest = m ++ rest'
    have hrm : rest = m ++ rest.drop m.length := by
      conv => lhs; rw [← List.take_append_drop m.length rest, htake]
    have hskip : skipSeps isSep (pre ++ toks) (pre ++ toks).length pre.length = pre.length + seps.length := by
      subst hsplit
      exact skipSeps_spec isSep rest hhead seps pre hseps (pre ++ (seps ++ rest)).length (by simp; omega)
    have hshape : pre ++ toks = (pre ++ seps ++ m) ++ rest.drop m.length := by
      rw [hsplit]; conv => lhs; rw [hrm]
      simp [List.append_assoc]
    simp only [slices, hskip]
    have ih' := ih (pre ++ seps ++ m) (rest.drop m.length) hrest
    rw [← hshape] at ih'
    have hlen : (pre ++ seps ++ m).length = pre.length + seps.length + m.length := by simp; omega
    rw [hlen] at ih'
    refine ⟨by rw [List.length_cons, ih'.1, List.length_cons], ?_⟩
    intro i hi ab hab
    cases i with
    | zero =>
      simp only [List.getElem?_cons_zero, Option.some.injEq] at hab
      subst hab
      simp only [List.getElem_cons_zero, Nat.add_sub_cancel_left]
      rw [hshape]
      have e : (pre ++ seps ++ m ++ List.drop m.length rest) = (pre ++ seps) ++ (m ++ List.drop m.length rest) := by
        simp [List.append_assoc]
      have hl : (pre ++ seps).length = pre.length + seps.length := by simp
      rw [e, ← hl, List.drop_left]
      simp
    | succ j =>
      simp only [List.getElem?_cons_succ] at hab
      simp only [List.getElem_cons_succ]
      exact ih'.2 j (by simpa using hi) ab hab

/-! ### the morphemes of the model are a decomposition, for every token list -/

theorem length_dropWhile_le' (p : Nat → Bool) : ∀ l : List Nat, (l.dropWhile p).length ≤ l.length
  | [] => by simp
  | x :: xs => by
    simp only [List.dropWhile_cons]
    split
    · have := length_dropWhile_le' p xs; simp; omega
    · simp

theorem takeWhile_prefix (p : Nat → Bool) : ∀ l : List Nat, l.take (l.takeWhile p).length = l.takeWhile p
  | [] => by simp
  | x :: xs => by
    simp only [List.takeWhile_cons]
    split
    · simp [takeWhile_prefix p xs]
    · simp

theorem takeWhile_all (p : Nat → Bool) : ∀ l : List Nat, ∀ t ∈ l.takeWhile p, p t = true
  | [], t, h => by simp at h
  | x :: xs, t, h => by
    simp only [List.takeWhile_cons] at h
    split at h
    · rcases List.mem_cons.mp h with rfl | h'
      · assumption
      · exact takeWhile_all p xs t h'
    · simp at h

theorem dropWhile_nil_all (p : Nat → Bool) : ∀ l : List Nat, l.dropWhile p = [] → l.all p = true
  | [], _ => by simp
  | x :: xs, h => by
    simp only [List.dropWhile_cons] at h
    split at h
    · rename_i hx
      simp [hx, dropWhile_nil_all p xs h]
    · simp at h

/-- **written borders**: the runs between separators are a decomposition -/
theorem decomp_splitSepsF (isSep : Nat → Bool) :
    ∀ (fuel : Nat) (toks : List Nat), toks.length < fuel → decompOkb isSep toks (splitSepsF isSep fuel toks) = true := by
  intro fuel
  induction fuel with
  | zero => intro toks h; omega
  | succ f ih =>
    intro toks hlen
    simp only [splitSepsF]
    obtain ⟨seps, hsplit, hseps, hhead⟩ := dropWhile_split isSep toks
    generalize hr : toks.dropWhile isSep = rest at hsplit hhead
    cases hrest : rest with
    | nil =>
      simp only [List.isEmpty_nil, if_true, decompOkb]
      rw [hrest] at hr
      exact dropWhile_nil_all isSep toks hr
    | cons x xs =>
      simp only [List.isEmpty_cons, Bool.false_eq_true, if_false, decompOkb, hr, hrest]
      have hx : isSep x = false := hhead x (by simp [hrest])
      have hmne : ((x :: xs).takeWhile fun t => !isSep t) ≠ [] := by
        simp [List.takeWhile_cons, hx]
      have hmlen : 1 ≤ ((x :: xs).takeWhile fun t => !isSep t).length := by
        cases hh : (x :: xs).takeWhile fun t => !isSep t with
        | nil => exact absurd hh hmne
        | cons _ _ => simp
      have hdl := length_dropWhile_le' isSep toks
      rw [hr, hrest] at hdl
      simp only [Bool.and_eq_true, Bool.not_eq_true', List.all_eq_true, beq_iff_eq]
      refine ⟨⟨⟨?_, ?_⟩, takeWhile_prefix _ (x :: xs)⟩, ?_⟩
      · cases hh : (x :: xs).takeWhile fun t => !isSep t with
        | nil => exact absurd hh hmne
        | cons _ _ => simp
      · intro t ht
        have := takeWhile_all (fun t => !isSep t) (x :: xs) t ht
        simpa using this
      · apply ih
        simp only [List.length_drop, List.length_cons] at hdl ⊢
        omega

theorem decomp_splitSeps (isSep : Nat → Bool) (toks : List Nat) :
    decompOkb isSep toks (splitSeps isSep toks) = true :=
  decomp_splitSepsF isSep _ toks (by omega)

/-- without separators in the tokens, any cutting into non-empty consecutive pieces is a decomposition -/
theorem decomp_pieces (isSep : Nat → Bool) :
    ∀ (ms : List (List Nat)), (∀ m ∈ ms, m ≠ [] ∧ ∀ t ∈ m, isSep t = false) →
      decompOkb isSep ms.flatten ms = true := by
  intro ms
  induction ms with
  | nil => intro _; simp [decompOkb]
  | cons m ms ih =>
    intro h
    obtain ⟨hne, hm⟩ := h m (by simp)
    have hdw : (m ++ ms.flatten).dropWhile isSep = m ++ ms.flatten := by
      cases hm' : m with
      | nil => exact absurd hm' hne
      | cons x xs =>
        have := hm x (by simp [hm'])
        simp [List.dropWhile_cons, this]
    simp only [List.flatten_cons, decompOkb, hdw, Bool.and_eq_true, Bool.not_eq_true', List.all_eq_true, beq_iff_eq]
    refine ⟨⟨⟨?_, ?_⟩, by simp⟩, ?_⟩
    · cases m with
      | nil => exact absurd rfl hne
      | cons _ _ => simp
    · intro t ht; simp [hm t ht]
    · have e : List.drop m.length (m ++ ms.flatten) = ms.flatten := by simp
      rw [e]
      exact ih (fun m' hm' => h m' (by simp [hm']))

/-- the tone splitting cuts the tokens into non-empty consecutive pieces -/
theorem splitTonesF_pieces (isTone : Nat → Bool) :
    ∀ (fuel : Nat) (toks : List Nat), toks.length < fuel →
      (splitTonesF isTone fuel toks).flatten = toks ∧ ∀ m ∈ splitTonesF isTone fuel toks, m ≠ [] ∧ ∀ t ∈ m, t ∈ toks := by
  intro fuel
  induction fuel with
  | zero => intro toks h; omega
  | succ f ih =>
    intro toks hlen
    simp only [splitTonesF]
    cases htoks : toks with
    | nil => simp
    | cons x xs =>
      simp only [List.isEmpty_cons, Bool.false_eq_true, if_false]
      generalize hk : ((x :: xs).takeWhile fun t => !isTone t).length + 1 = k
      have hk1 : 1 ≤ k := by omega
      split
      · refine ⟨by simp, ?_⟩
        intro m' hm'
        simp only [List.mem_singleton] at hm'
        subst hm'
        exact ⟨by simp, fun t ht => ht⟩
      · rename_i hrest
        have hih := ih ((x :: xs).drop k) (by
          rw [htoks] at hlen
          simp only [List.length_drop, List.length_cons] at hlen ⊢
          omega)
        refine ⟨?_, ?_⟩
        · simp only [List.flatten_cons, hih.1]
          exact List.take_append_drop _ _
        · intro m' hm'
          rcases List.mem_cons.mp hm' with rfl | hm''
          · refine ⟨?_, fun t ht => List.mem_of_mem_take ht⟩
            cases k with
            | zero => omega
            | succ k' => simp
          · obtain ⟨h1, h2⟩ := hih.2 m' hm''
            exact ⟨h1, fun t ht => List.mem_of_mem_drop (h2 t ht)⟩

/-- **the morphemes of the model are a decomposition of the tokens** (separators are never tones) -/
theorem decomp_morphemesOf (isSep isTone : Nat → Bool) (sot : Bool) (toks : List Nat) :
    decompOkb isSep toks (morphemesOf isSep isTone sot toks) = true := by
  unfold morphemesOf
  split
  · exact decomp_splitSeps isSep toks
  · rename_i hns
    have hnosep : ∀ t ∈ toks, isSep t = false := by
      intro t ht
      cases hc : isSep t with
      | false => rfl
      | true =>
        exfalso
        apply hns
        simp only [List.any_eq_true]
        exact ⟨t, ht, hc⟩
    split
    · obtain ⟨h1, h2⟩ := splitTonesF_pieces isTone (toks.length + 1) toks (by omega)
      have := decomp_pieces isSep (splitTones isTone toks) (fun m hm => ⟨(h2 m hm).1, fun t ht => hnosep t ((h2 m hm).2 t ht)⟩)
      unfold splitTones at this ⊢
      rwa [h1] at this
    · split
      · rename_i he
        have : toks = [] := by simpa using he
        subst this
        simp [decompOkb]
      · rename_i he
        have hne : toks ≠ [] := by simpa using he
        have := decomp_pieces isSep [toks] (by
          intro m hm
          simp only [List.mem_singleton] at hm
          subst hm
          exact ⟨hne, hnosep⟩)
        simpa using this

/-- **C16, slices, unconditional**: the slices of the model's morphemes cut exactly these morphemes out of the tokens -/
theorem C16_slices_total (isSep isTone : Nat → Bool) (sot : Bool) (toks : List Nat) :
    (slices isSep toks 0 (morphemesOf isSep isTone sot toks)).length = (morphemesOf isSep isTone sot toks).length ∧
    ∀ i (hi : i < (morphemesOf isSep isTone sot toks).length), ∀ ab,
      (slices isSep toks 0 (morphemesOf isSep isTone sot toks))[i]? = some ab →
        (toks.drop ab.1).take (ab.2 - ab.1) = (morphemesOf isSep isTone sot toks)[i] := by
  have := C16_slices isSep (morphemesOf isSep isTone sot toks) [] toks (decomp_morphemesOf isSep isTone sot toks)
  simpa using this

/-- the code as it was: `b i w + i + t` (with `+` = 0) – the second slice is the separator -/
example : slicesOld [2, 3, 4, 0, 3, 0, 5] 0 [[2, 3, 4], [3], [5]] = [(0, 3), (3, 4), (4, 5)] ∧
    ([2, 3, 4, 0, 3, 0, 5].drop 3).take 1 = [0] ∧
    decompOkb (· == 0) [2, 3, 4, 0, 3, 0, 5] [[2, 3, 4], [3], [5]] = true ∧
    slices (· == 0) [2, 3, 4, 0, 3, 0, 5] 0 [[2, 3, 4], [3], [5]] = [(0, 3), (4, 5), (6, 7)] := by decide

end Verif.Partial
