import Mathlib.Logic.Relation
import Verif.Model.Components
set_option linter.unusedSimpArgs false
set_option linter.unusedVariables false
/-!
# C16 — 'loose' cognate ids and post-processed partial ids are component labellings

`compOk_sound`: a labelling accepted by the certificate checker gives two nodes the same label
**iff** they are connected in the graph – so an accepted labelling is exactly the partition into
connected components.

`C16_loose_of_observed`: for an accepted run of the 'loose' derivation, two words of a concept get the
same id iff they are connected through the relation "share a partial id", and the ids of the concept
lie in `(k, k + number of components]` (so concepts never share an id when `k` advances by that number).

`C16_pp_unique`: for an accepted run of the post-processing, two different morphemes of one word never
get the same identifier, and new ids only refine the clusters.
-/
namespace Verif.Comp

def Conn (n : Nat) (adj : Nat → Nat → Bool) : Nat → Nat → Prop :=
  Relation.ReflTransGen (fun a b => a < n ∧ b < n ∧ sym adj a b = true)

theorem sym_comm (adj : Nat → Nat → Bool) (a b : Nat) : sym adj a b = sym adj b a := by
  simp [sym, Bool.or_comm]

theorem conn_symm (n : Nat) (adj : Nat → Nat → Bool) {x y : Nat} (h : Conn n adj x y) : Conn n adj y x := by
  induction h with
  | refl => exact Relation.ReflTransGen.refl
  | tail _ hbc ih =>
    exact Relation.ReflTransGen.head ⟨hbc.2.1, hbc.1, by rw [sym_comm]; exact hbc.2.2⟩ ih

structure CompOk (n : Nat) (adj : Nat → Nat → Bool) (lab par rank : List Nat) : Prop where
  edges : ∀ i j, i < n → j < n → sym adj i j = true → lab.getD i 0 = lab.getD j 0
  parent : ∀ i, i < n → par.getD i 0 = i ∨
    (par.getD i 0 < n ∧ rank.getD (par.getD i 0) 0 < rank.getD i 0 ∧ sym adj (par.getD i 0) i = true ∧
      lab.getD (par.getD i 0) 0 = lab.getD i 0)
  roots : ∀ i j, i < n → j < n → par.getD i 0 = i → par.getD j 0 = j → lab.getD i 0 = lab.getD j 0 → i = j

theorem compOk_of_b (n : Nat) (adj : Nat → Nat → Bool) (lab par rank : List Nat)
    (h : compOkb n adj lab par rank = true) : CompOk n adj lab par rank := by
  simp only [compOkb, Bool.and_eq_true, List.all_eq_true, List.mem_range, Bool.or_eq_true, Bool.not_eq_true',
    beq_iff_eq, decide_eq_true_eq] at h
  obtain ⟨⟨⟨_, h2⟩, h3⟩, h4⟩ := h
  refine ⟨?_, ?_, ?_⟩
  · intro i j hi hj hs
    rcases h2 i hi j hj with h | h
    · rw [h] at hs; cases hs
    · exact h
  · intro i hi
    rcases h3 i hi with h | h
    · exact Or.inl h
    · exact Or.inr ⟨h.1.1.1, h.1.1.2, h.1.2, h.2⟩
  · intro i j hi hj pi pj hl
    rcases h4 i hi j hj with h | h
    · simp only [Bool.and_eq_false_iff, beq_eq_false_iff_ne] at h
      rcases h with (h | h) | h
      · exact absurd pi h
      · exact absurd pj h
      · exact absurd hl h
    · exact h

theorem to_root (n : Nat) (adj : Nat → Nat → Bool) (lab par rank : List Nat) (h : CompOk n adj lab par rank) :
    ∀ (r i : Nat), rank.getD i 0 = r → i < n →
      ∃ root, root < n ∧ par.getD root 0 = root ∧ lab.getD root 0 = lab.getD i 0 ∧ Conn n adj i root := by
  intro r
  induction r using Nat.strongRecOn with
  | _ r ih =>
    intro i hr hi
    rcases h.parent i hi with hp | ⟨hpn, hrk, hadj, hlab⟩
    · exact ⟨i, hi, hp, rfl, Relation.ReflTransGen.refl⟩
    · obtain ⟨root, h1, h2, h3, h4⟩ := ih (rank.getD (par.getD i 0) 0) (by omega) (par.getD i 0) rfl hpn
      refine ⟨root, h1, h2, h3.trans hlab, ?_⟩
      exact Relation.ReflTransGen.head ⟨hi, hpn, by rw [sym_comm]; exact hadj⟩ h4

/-- **an accepted labelling is the partition into connected components** -/
theorem compOk_sound (n : Nat) (adj : Nat → Nat → Bool) (lab par rank : List Nat)
    (hb : compOkb n adj lab par rank = true) (i j : Nat) (hi : i < n) (hj : j < n) :
    lab.getD i 0 = lab.getD j 0 ↔ Conn n adj i j := by
  have h := compOk_of_b n adj lab par rank hb
  constructor
  · intro hl
    obtain ⟨ri, a1, a2, a3, a4⟩ := to_root n adj lab par rank h _ i rfl hi
    obtain ⟨rj, b1, b2, b3, b4⟩ := to_root n adj lab par rank h _ j rfl hj
    have : ri = rj := h.roots ri rj a1 b1 a2 b2 (by rw [a3, b3, hl])
    subst this
    exact a4.trans (conn_symm n adj b4)
  · intro hc
    clear hj
    induction hc with
    | refl => rfl
    | tail _ hbc ih => exact ih.trans (h.edges _ _ hbc.1 hbc.2.1 hbc.2.2)

/-! ### numbering -/

theorem mem_firsts (xs : List Nat) (x : Nat) : x ∈ firsts xs ↔ x ∈ xs := by
  unfold firsts
  have key : ∀ (ys acc : List Nat), x ∈ ys.foldl (fun acc x => if acc.contains x then acc else acc ++ [x]) acc ↔
      x ∈ acc ∨ x ∈ ys := by
    intro ys
    induction ys with
    | nil => intro acc; simp
    | cons y ys ih =>
      intro acc
      simp only [List.foldl_cons]
      rw [ih]
      by_cases hy : acc.contains y = true
      · simp only [hy, if_true, List.mem_cons]
        constructor
        · rintro (h | h)
          · exact Or.inl h
          · exact Or.inr (Or.inr h)
        · rintro (h | h | h)
          · exact Or.inl h
          · subst h; exact Or.inl (by simpa using hy)
          · exact Or.inr h
      · simp only [hy, Bool.false_eq_true, if_false, List.mem_append, List.mem_singleton, List.mem_cons, or_assoc, List.not_mem_nil, false_or]
  simpa using key xs []

theorem numbered_range (k : Nat) (lab : List Nat) (h : numberedb k lab = true) :
    ∀ x ∈ lab, k < x ∧ x ≤ k + (firsts lab).length := by
  intro x hx
  have hm := (mem_firsts lab x).mpr hx
  simp only [numberedb, beq_iff_eq] at h
  rw [h] at hm
  simp only [List.mem_range'_1, List.length_range'] at hm
  rw [h, List.length_range']
  omega

/-- **C16, 'loose' ids of one concept** -/
theorem C16_loose_of_observed (k : Nat) (ids : List (List Nat)) (lab par rank : List Nat)
    (h : looseOkb k ids lab par rank = true) :
    (∀ i j, i < ids.length → j < ids.length →
      (lab.getD i 0 = lab.getD j 0 ↔ Conn ids.length (sharesb ids) i j)) ∧
    ∀ x ∈ lab, k < x ∧ x ≤ k + (firsts lab).length := by
  simp only [looseOkb, Bool.and_eq_true] at h
  exact ⟨fun i j hi hj => compOk_sound _ _ _ _ _ h.1 i j hi hj, numbered_range k lab h.2⟩

/-- **C16, post-processing**: different morphemes of one word never share an identifier, and morphemes
that share a new identifier were in one cluster. -/
theorem C16_pp_unique (k : Nat) (word old new : List Nat) (edge : Nat → Nat → Bool) (par rank : List Nat)
    (h : ppOkb k word old new edge par rank = true) :
    (∀ i j, i < word.length → j < word.length → i ≠ j → word.getD i 0 = word.getD j 0 →
      new.getD i 0 ≠ new.getD j 0) ∧
    (∀ i j, i < word.length → j < word.length → new.getD i 0 = new.getD j 0 → old.getD i 0 = old.getD j 0) ∧
    ∀ x ∈ new, k < x ∧ x ≤ k + (firsts new).length := by
  simp only [ppOkb, Bool.and_eq_true, List.all_eq_true, List.mem_range, Bool.or_eq_true, Bool.not_eq_true',
    beq_iff_eq] at h
  obtain ⟨⟨⟨⟨_, hold⟩, hiso⟩, hcomp⟩, hnum⟩ := h
  have sameOld : ∀ i j, Conn word.length edge i j → old.getD i 0 = old.getD j 0 := by
    intro i j hc
    induction hc with
    | refl => rfl
    | tail _ hbc ih =>
      rcases hold _ hbc.1 _ hbc.2.1 with h | h
      · rw [h] at hbc; exact absurd hbc.2.2 (by simp)
      · exact ih.trans h
  have isolated : ∀ i j, (∀ x, x < word.length → sym edge i x = false) → Conn word.length edge i j → i = j := by
    intro i j hi hc
    rcases Relation.ReflTransGen.cases_head hc with h | ⟨b, hb, _⟩
    · exact h
    · rw [hi b hb.2.1] at hb; exact absurd hb.2.2 (by simp)
  refine ⟨?_, ?_, numbered_range k new hnum⟩
  · intro i j hi hj hne hw hnew
    have hc := (compOk_sound _ _ _ _ _ hcomp i j hi hj).mp hnew
    have ho := sameOld i j hc
    rcases hiso i hi j hj with h | h
    · rcases h with h | h
      · simp only [Bool.and_eq_false_iff, bne_eq_false_iff_eq, beq_eq_false_iff_ne] at h
        rcases h with (h | h) | h
        · exact hne h
        · exact h hw
        · exact h ho
      · exact hne (isolated i j (fun x hx => h x hx) hc)
    · exact hne (isolated j i (fun x hx => h x hx) (conn_symm _ _ hc)).symm
  · intro i j hi hj hnew
    exact sameOld i j ((compOk_sound _ _ _ _ _ hcomp i j hi hj).mp hnew)

/-- not vacuous: a path 0 – 1 – 2 and an isolated node 3 -/
example : compOkb 4 (fun a b => (a, b) == (0, 1) || (a, b) == (1, 2)) [5, 5, 5, 6] [0, 0, 1, 3] [0, 1, 2, 0] = true := by
  decide
example : compOkb 4 (fun a b => (a, b) == (0, 1) || (a, b) == (1, 2)) [5, 5, 6, 6] [0, 0, 2, 2] [0, 1, 0, 1] = false := by
  decide

end Verif.Comp
