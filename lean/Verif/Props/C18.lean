/-!
# C18 — independence from the enumeration order of hash-ordered containers

* writing scores symmetrically keeps a symmetric matrix symmetric, for any write order and values;
* sorting the elements of a set by a key gives the same list for every enumeration order of the
  set **iff-direction proved here: if the key is injective on the set**; with two elements of equal
  key (names that coincide after lower-casing) the stable sort keeps the enumeration order – the
  witness below is the shipped behaviour of `sorted(set(...), key=str.lower)`.
-/
namespace Verif.Repro

/-! ### symmetric writes -/

/-- `matrix[a][b] = matrix[b][a] = v` -/
def write {S : Type} (M : Nat → Nat → S) (w : Nat × Nat × S) : Nat → Nat → S :=
  fun i j => if (i = w.1 ∧ j = w.2.1) ∨ (i = w.2.1 ∧ j = w.1) then w.2.2 else M i j

/-- **C18, the language-specific scorer is symmetric**: any sequence of symmetric writes on a
symmetric matrix leaves it symmetric. -/
theorem C18_scorer_symmetric {S : Type} (M : Nat → Nat → S) (hM : ∀ i j, M i j = M j i)
    (ws : List (Nat × Nat × S)) : ∀ i j, (ws.foldl write M) i j = (ws.foldl write M) j i := by
  induction ws generalizing M with
  | nil => exact hM
  | cons w ws ih =>
    apply ih
    intro i j
    simp only [write]
    by_cases h : (i = w.1 ∧ j = w.2.1) ∨ (i = w.2.1 ∧ j = w.1)
    · have h' : (j = w.1 ∧ i = w.2.1) ∨ (j = w.2.1 ∧ i = w.1) := by
        rcases h with ⟨a, b⟩ | ⟨a, b⟩
        · exact Or.inr ⟨b, a⟩
        · exact Or.inl ⟨b, a⟩
      simp [h, h']
    · have h' : ¬ ((j = w.1 ∧ i = w.2.1) ∨ (j = w.2.1 ∧ i = w.1)) := by
        intro hc
        apply h
        rcases hc with ⟨a, b⟩ | ⟨a, b⟩
        · exact Or.inr ⟨b, a⟩
        · exact Or.inl ⟨b, a⟩
      simp [h, h', hM]

/-! ### sorting a set by a key -/

def leKey {α : Type} (key : α → Nat) (a b : α) : Bool := decide (key a ≤ key b)

/-- **`sorted(set, key=…)` does not depend on the enumeration order of the set when the key is
injective on it.** -/
theorem C18_sorted_order_free {α : Type} (key : α → Nat) (l₁ l₂ : List α) (hp : l₁.Perm l₂)
    (hinj : ∀ a ∈ l₁, ∀ b ∈ l₁, key a = key b → a = b) :
    l₁.mergeSort (leKey key) = l₂.mergeSort (leKey key) := by
  have htrans : ∀ a b c : α, leKey key a b = true → leKey key b c = true → leKey key a c = true := by
    intro a b c h1 h2
    simp only [leKey, decide_eq_true_eq] at *
    omega
  have htotal : ∀ a b : α, (leKey key a b || leKey key b a) = true := by
    intro a b
    simp only [leKey, Bool.or_eq_true, decide_eq_true_eq]
    omega
  have s1 := List.pairwise_mergeSort htrans htotal l₁
  have s2 := List.pairwise_mergeSort htrans htotal l₂
  have p1 := List.mergeSort_perm l₁ (leKey key)
  have p2 := List.mergeSort_perm l₂ (leKey key)
  apply List.Perm.eq_of_pairwise _ s1 s2 (p1.trans (hp.trans p2.symm))
  intro a b ha hb hab hba
  simp only [leKey, decide_eq_true_eq] at hab hba
  have ha' : a ∈ l₁ := p1.mem_iff.mp ha
  have hb' : b ∈ l₁ := hp.mem_iff.mpr (p2.mem_iff.mp hb)
  exact hinj a ha' b hb' (by omega)

/-- **Without injectivity the result is the enumeration order** (the defect class of
`sorted(set(names), key=str.lower)` for names such as `abc` / `ABC`): two enumerations of the
same two-element set, equal keys, different results. -/
theorem C18_sorted_needs_injective :
    [(1 : Nat), 2].mergeSort (leKey fun _ => 0) ≠ [2, 1].mergeSort (leKey fun _ => 0) := by
  rw [List.mergeSort_of_pairwise (by simp [leKey]), List.mergeSort_of_pairwise (by simp [leKey])]
  decide

/-- with the repaired key `(lower(x), x)` – here: any injective refinement – the order is fixed -/
example : [(1 : Nat), 2].mergeSort (leKey id) = [2, 1].mergeSort (leKey id) :=
  C18_sorted_order_free id _ _ (List.Perm.swap _ _ _) (by intro a _ b _ h; exact h)

end Verif.Repro
