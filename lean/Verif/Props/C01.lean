import Verif.Lemmas.Fill
import Verif.Lemmas.Traceback
/-!
# C01 — pairwise alignment never alters, drops or reorders the input segments

Property theorems only.  They hold for **every** configuration `cfg` of the kernel family
(all modes, primary/secondary, all tie rules, all three flavours `_calign`/`_talign`/`_malign`)
and every score carrier `S` (no laws: IEEE doubles with NaN included).
-/
namespace Verif.Align
open ScoreOps
variable {S : Type} [ScoreOps S] [Inhabited S]

/-- The rows the Python kernel returns: `none` is printed as the gap symbol. -/
def rowA (cols : List (Col Nat)) : List (Option Nat) := cols.map (·.1)
def rowB (cols : List (Col Nat)) : List (Option Nat) := cols.map (·.2)

omit [Inhabited S] in
theorem fill_row0_move (cfg : Cfg) (inp : Input S) (h : cfg.mode ≠ .local) (j : Nat) (c : Cell S) :
    ((fillOf cfg inp).row0 j c).2 = 2 := by
  unfold fillOf
  split
  · simp [dialignFill]
  · simp only [AffKernel.toFill, kernelOf, h, if_false]
    split
    · rfl
    · split <;> rfl

omit [Inhabited S] in
theorem fill_col0_move (cfg : Cfg) (inp : Input S) (h : cfg.mode ≠ .local) (i : Nat) (c : Cell S) :
    ((fillOf cfg inp).col0 i c).2 = 3 := by
  unfold fillOf
  split
  · simp [dialignFill]
  · simp only [AffKernel.toFill, kernelOf, h, if_false]
    split
    · rfl
    · split <;> rfl

omit [Inhabited S] in
theorem fill_local_row0 (cfg : Cfg) (inp : Input S) (h : cfg.mode = .local) (j : Nat) (c : Cell S) :
    (fillOf cfg inp).row0 j c = (zero, 0) := by
  simp [fillOf, h, AffKernel.toFill, kernelOf]

omit [Inhabited S] in
theorem fill_local_col0 (cfg : Cfg) (inp : Input S) (h : cfg.mode = .local) (i : Nat) (c : Cell S) :
    (fillOf cfg inp).col0 i c = (zero, 0) := by
  simp [fillOf, h, AffKernel.toFill, kernelOf]

omit [Inhabited S] in
theorem fill_local_corner (cfg : Cfg) (inp : Input S) (h : cfg.mode = .local) :
    (fillOf cfg inp).corner = (zero, 0) := by
  simp [fillOf, h, AffKernel.toFill, kernelOf]

/-- Borders of every global-type table (global, overlap, dialign; any flavour). -/
theorem bordersG_of_fill (cfg : Cfg) (inp : Input S) (h : cfg.mode ≠ .local) (N : Nat) :
    BordersG (fun i j => (getCell (rowsRev (fillOf cfg inp) inp.M N) N i j).2) N inp.M := by
  constructor
  · intro j hj hjM
    obtain ⟨j', rfl⟩ : ∃ j', j = j' + 1 := ⟨j - 1, by omega⟩
    simp only [getCell_eq_T _ _ _ 0 _ (Nat.zero_le _)]
    rw [T_row0 _ _ _ (by omega), fill_row0_move cfg inp h]
    simp
  · intro i hi hiN
    obtain ⟨i', rfl⟩ : ∃ i', i = i' + 1 := ⟨i - 1, by omega⟩
    simp only [getCell_eq_T _ _ _ _ _ hiN]
    rw [T_col0, fill_col0_move cfg inp h]

/-- Borders of every local-type table. -/
theorem bordersL_of_fill (cfg : Cfg) (inp : Input S) (h : cfg.mode = .local) (N : Nat) :
    BordersL (fun i j => (getCell (rowsRev (fillOf cfg inp) inp.M N) N i j).2) N inp.M := by
  constructor
  · intro j hjM
    simp only [getCell_eq_T _ _ _ 0 _ (Nat.zero_le _)]
    cases j with
    | zero => rw [T_corner, fill_local_corner cfg inp h]; simp
    | succ j => rw [T_row0 _ _ _ (by omega), fill_local_row0 cfg inp h]; simp
  · intro i hiN
    simp only [getCell_eq_T _ _ _ _ _ hiN]
    cases i with
    | zero => rw [T_corner, fill_local_corner cfg inp h]; simp
    | succ i => rw [T_col0, fill_local_col0 cfg inp h]; simp

/-- **C01 over an observed table (global type).**  Whatever move table a kernel filled –
by whatever scoring – if its first row and column pass the decidable border check, the
traceback loop returns lossless rows. -/
theorem C01_of_table_global {α : Type} (tb : Nat → Nat → Nat) (a b : List α)
    (hb : bordersGb tb b.length a.length = true) :
    ∃ cols, tbGlobal tb a b b.length a.length [] = some cols ∧
      degapA cols = a ∧ degapB cols = b ∧ NoDoubleGap cols := by
  have hB : BordersG tb b.length a.length := by
    simp only [bordersGb, Bool.and_eq_true, List.all_eq_true, List.mem_range, bne_iff_ne, ne_eq,
      beq_iff_eq] at hb
    constructor
    · intro j hj hjM
      obtain ⟨j', rfl⟩ : ∃ j', j = j' + 1 := ⟨j - 1, by omega⟩
      exact hb.1 j' (by omega)
    · intro i hi hiN
      obtain ⟨i', rfl⟩ : ∃ i', i = i' + 1 := ⟨i - 1, by omega⟩
      exact hb.2 i' (by omega)
  obtain ⟨cols, h1, h2, h3, h4, _⟩ :=
    tbGlobal_spec tb a b b.length a.length (Nat.le_refl _) (Nat.le_refl _) hB
      b.length a.length [] (Nat.le_refl _) (Nat.le_refl _)
  exact ⟨cols, by simpa using h1, by simpa using h2, by simpa using h3, h4⟩

/-- **C01 over an observed table (local type)**, for any start cell `(k,l)` inside the table. -/
theorem C01_of_table_local {α : Type} (tb : Nat → Nat → Nat) (a b : List α) (k l : Nat)
    (hk : k ≤ b.length) (hl : l ≤ a.length)
    (hb : bordersLb tb b.length a.length = true) :
    ∃ i0 j0 cols, tbLocal tb a b k l [] = some (i0, j0, cols) ∧
      a.take j0 ++ degapA cols ++ a.drop l = a ∧ b.take i0 ++ degapB cols ++ b.drop k = b ∧
      NoDoubleGap cols := by
  have hB : BordersL tb b.length a.length := by
    simp only [bordersLb, Bool.and_eq_true, List.all_eq_true, List.mem_range, bne_iff_ne, ne_eq] at hb
    constructor
    · intro j hj; exact hb.1 j (by omega)
    · intro i hi; exact hb.2 i (by omega)
  obtain ⟨i0, j0, cols, h1, _, _, h2, h3, h4, _⟩ :=
    tbLocal_spec tb a b b.length a.length (Nat.le_refl _) (Nat.le_refl _) hB k l [] hk hl
  refine ⟨i0, j0, cols, by simpa using h1, ?_, ?_, h4⟩
  · rw [h2, List.take_append_drop]
  · rw [h3, List.take_append_drop]

/-- **C01, global / overlap / dialign.**  For every non-empty pair the kernel succeeds and the
returned columns de-gap to the two inputs, with no column of two gaps (rows have equal
length by construction: they are the two projections of one column list). -/
theorem C01_rows (cfg : Cfg) (inp : Input S) (h : cfg.mode ≠ .local)
    (ha : inp.a ≠ []) (hb : inp.b ≠ []) :
    ∃ cols sim, run cfg inp = .glob cols sim ∧
      degapA cols = inp.a ∧ degapB cols = inp.b ∧ NoDoubleGap cols ∧
      (rowA cols).length = (rowB cols).length := by
  have hM : inp.M ≠ 0 := by simpa [Input.M] using ha
  have hN : inp.N ≠ 0 := by simpa [Input.N] using hb
  obtain ⟨cols, h1, h2, h3, h4, _⟩ :=
    tbGlobal_spec _ inp.a inp.b inp.N inp.M (Nat.le_refl _) (Nat.le_refl _)
      (bordersG_of_fill cfg inp h inp.N) inp.N inp.M [] (Nat.le_refl _) (Nat.le_refl _)
  refine ⟨cols, (getCell (rowsRev (fillOf cfg inp) inp.M inp.N) inp.N inp.N inp.M).1, ?_, ?_, ?_, h4,
    by simp [rowA, rowB]⟩
  · simp only [List.append_nil] at h1
    simp only [run, hM, hN, h, false_or, if_false, h1]
  · simpa [Input.M] using h2
  · simpa [Input.N] using h3

/-- **C01, local mode.**  Whenever the kernel returns, prefix + aligned part + suffix of
each row concatenate to the input, the aligned parts have no double gap and equal length. -/
theorem C01_local (cfg : Cfg) (inp : Input S) (h : cfg.mode = .local)
    (i0 j0 k l : Nat) (cols : List (Col Nat)) (sim : S)
    (hr : run cfg inp = .loc i0 j0 k l cols sim) :
    inp.a.take j0 ++ degapA cols ++ inp.a.drop l = inp.a ∧
    inp.b.take i0 ++ degapB cols ++ inp.b.drop k = inp.b ∧
    NoDoubleGap cols ∧ (rowA cols).length = (rowB cols).length := by
  simp only [run, h] at hr
  split at hr
  · cases hr
  · simp only [if_true] at hr
    generalize bestScan cfg 1 (List.drop 1 (rowsRev (fillOf cfg inp) inp.M inp.N).reverse) (zero, 0, 0) = bs at hr
    obtain ⟨s, k', l'⟩ := bs
    simp only at hr
    split at hr
    · cases hr
    · rename_i hkl
      have hk : k' ≤ inp.N := by omega
      have hl : l' ≤ inp.M := by omega
      obtain ⟨i1, j1, cs, h1, _, _, h2, h3, h4, _⟩ :=
        tbLocal_spec _ inp.a inp.b inp.N inp.M (Nat.le_refl _) (Nat.le_refl _)
          (bordersL_of_fill cfg inp h inp.N) k' l' [] hk hl
      simp only [List.append_nil] at h1
      rw [h1] at hr
      cases hr
      refine ⟨?_, ?_, h4, by simp [rowA, rowB]⟩
      · rw [h2, List.take_append_drop]
      · rw [h3, List.take_append_drop]

end Verif.Align
