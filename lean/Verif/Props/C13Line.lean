import Verif.Model.Line
set_option linter.unusedSimpArgs false
set_option linter.unusedVariables false
/-!
# C13 — line level: what is written as a table is read back as the same table

`C13_lines`: if every field is free of tabs and of leading/trailing white space, every line has
at least one field and its first field (the row id, or `ID` in the header) starts with a character
other than `#`, `@`, `<`, and the interleaved lines are comment lines, then splitting and stripping the
written lines returns exactly the fields – for any number of rows, fields and comment lines.
(Line breaks inside fields are excluded with the tab: the harness checks that the property's domain
has neither.)
-/
namespace Verif.Line

theorem split_notab : ∀ (f : List Nat), tab ∉ f → split f = [f]
  | [], _ => rfl
  | c :: r, h => by
    have hc : c ≠ tab := fun e => h (e ▸ List.mem_cons_self)
    have hr : tab ∉ r := fun m => h (List.mem_cons_of_mem _ m)
    simp [split, hc, split_notab r hr]

theorem split_append_tab : ∀ (f rest : List Nat), tab ∉ f → split (f ++ tab :: rest) = f :: split rest
  | [], rest, _ => by simp [split]
  | c :: r, rest, h => by
    have hc : c ≠ tab := fun e => h (e ▸ List.mem_cons_self)
    have hr : tab ∉ r := fun m => h (List.mem_cons_of_mem _ m)
    simp [split, hc, split_append_tab r rest hr]

/-- **split undoes join** -/
theorem split_join : ∀ (fields : List (List Nat)), fields ≠ [] → (∀ f ∈ fields, tab ∉ f) →
    split (join fields) = fields
  | [], h, _ => absurd rfl h
  | [f], _, h => by simpa [join] using split_notab f (h f List.mem_cons_self)
  | f :: g :: r, _, h => by
    simp only [join]
    rw [split_append_tab f _ (h f List.mem_cons_self),
      split_join (g :: r) (by simp) (fun x hx => h x (List.mem_cons_of_mem _ hx))]

/-- a field without outer white space -/
def Trim (f : List Nat) : Prop := (∀ c, f.head? = some c → isSpace c = false) ∧ (∀ c, f.getLast? = some c → isSpace c = false)

theorem stripL_id (f : List Nat) (h : ∀ c, f.head? = some c → isSpace c = false) : stripL f = f := by
  cases f with
  | nil => rfl
  | cons c r => simp [stripL, h c rfl]

theorem strip_id (f : List Nat) (h : Trim f) : strip f = f := by
  unfold strip
  rw [stripL_id f h.1, stripL_id f.reverse (by simpa [List.head?_reverse] using h.2), List.reverse_reverse]

def isSpecial (c : Nat) : Bool := c == hash || c == at_ || c == lt_

/-- a written table line: at least one field, the first one starts with an ordinary character -/
def RowOk (r : List (List Nat)) : Prop :=
  (∃ c f rest, r = (c :: f) :: rest ∧ isSpecial c = false) ∧ (∀ f ∈ r, tab ∉ f ∧ Trim f)

theorem kind_join (r : List (List Nat)) (h : RowOk r) : kind (join r) = .dataL := by
  obtain ⟨⟨c, f, rest, rfl, hc⟩, _⟩ := h
  simp only [isSpecial, Bool.or_eq_false_iff, beq_eq_false_iff_ne] at hc
  have : ∃ tl, join ((c :: f) :: rest) = c :: tl := by
    cases rest with
    | nil => exact ⟨f, rfl⟩
    | cons g r => exact ⟨f ++ tab :: join (g :: r), rfl⟩
  obtain ⟨tl, e⟩ := this
  simp [e, kind, hc.1.1, hc.1.2, hc.2]

theorem parse_join (r : List (List Nat)) (h : RowOk r) : (split (join r)).map strip = r := by
  have hne : r ≠ [] := by obtain ⟨⟨c, f, rest, rfl, _⟩, _⟩ := h; simp
  rw [split_join r hne (fun f hf => (h.2 f hf).1)]
  conv => rhs; rw [← List.map_id r]
  apply List.map_congr_left
  intro f hf
  exact strip_id f (h.2 f hf).2

/-- **C13, line level** -/
theorem C13_lines : ∀ (items : List (List (List Nat) × List (List Nat))),
    (∀ it ∈ items, RowOk it.2 ∧ ∀ l ∈ it.1, kind l = .skipL) →
    parseLines (serialize items) = items.map (·.2)
  | [], _ => rfl
  | it :: rest, h => by
    obtain ⟨hrow, hcom⟩ := h it List.mem_cons_self
    have ih := C13_lines rest (fun x hx => h x (List.mem_cons_of_mem _ hx))
    have hfil : (it.1.filter fun l => kind l == .dataL) = [] := by
      rw [List.filter_eq_nil_iff]
      intro l hl
      simp [hcom l hl]
    simp only [parseLines, serialize, List.flatMap_cons, List.filter_append, List.map_append, hfil,
      List.map_nil, List.nil_append, List.map_cons] at ih ⊢
    simp only [List.filter_cons, kind_join it.2 hrow, beq_self_eq_true, if_true, List.filter_nil,
      List.map_cons, List.map_nil, parse_join it.2 hrow, List.singleton_append]
    rw [ih]

/-! ### `<msa>` blocks -/

theorem rstripDots_id (f : List Nat) (h : ∀ c, f.getLast? = some c → c ≠ dot) : rstripDots f = f := by
  unfold rstripDots
  cases hr : f.reverse with
  | nil =>
    have : f = [] := List.reverse_eq_nil_iff.mp hr
    subst this; rfl
  | cons c r =>
    have hc : c ≠ dot := h c (by rw [List.getLast?_eq_head?_reverse, hr]; rfl)
    have : (c == dot) = false := by simpa using hc
    simp only [List.dropWhile_cons, this, Bool.false_eq_true, if_false]
    rw [← hr, List.reverse_reverse]

theorem rstripDots_pad (w : Nat) (f : List Nat) (h : ∀ c, f.getLast? = some c → c ≠ dot) :
    rstripDots (padDots w f) = f := by
  unfold rstripDots padDots
  rw [List.reverse_append, List.reverse_replicate]
  have key : ∀ (k : Nat) (r : List Nat), (∀ c, r.head? = some c → c ≠ dot) →
      (List.replicate k dot ++ r).dropWhile (· == dot) = r := by
    intro k r hr
    induction k with
    | zero =>
      cases r with
      | nil => rfl
      | cons c r' =>
        have : (c == dot) = false := by simpa using hr c rfl
        simp [List.dropWhile_cons, this]
    | succ k ih => simpa [List.replicate_succ, List.dropWhile_cons] using ih
  rw [key _ _ (by intro c hc; exact h c (by rw [List.getLast?_eq_head?_reverse]; exact hc)), List.reverse_reverse]

theorem trim_pad (w : Nat) (f : List Nat) (h : Trim f) : Trim (padDots w f) := by
  unfold padDots
  have hd : isSpace dot = false := by decide
  constructor
  · intro c hc
    cases f with
    | nil =>
      simp only [List.nil_append, List.head?_replicate] at hc
      split at hc
      · cases hc
      · simp only [Option.some.injEq] at hc; rw [← hc]; exact hd
    | cons x xs => simp at hc; exact h.1 c (by simp [hc])
  · intro c hc
    simp only [List.getLast?_append, List.getLast?_replicate] at hc
    split at hc
    · simp only [Option.none_or] at hc; exact h.2 c hc
    · simp only [Option.some_or, Option.some.injEq] at hc; rw [← hc]; exact hd

/-- **C13, a line of an `<msa>` block** is read back as the fields that were written, provided no field
contains a tab, has outer white space or ends in a dot. -/
theorem C13_msa_line (id taxon : List Nat) (w : Nat) (cells : List (List Nat))
    (h : ∀ f ∈ id :: taxon :: cells, tab ∉ f ∧ Trim f ∧ ∀ c, f.getLast? = some c → c ≠ dot) :
    parseMsaLine (msaLine id w taxon cells) = id :: taxon :: cells := by
  unfold parseMsaLine msaLine
  have hid := h id (by simp)
  have htx := h taxon (by simp)
  have htab : tab ∉ padDots w taxon := by
    unfold padDots
    intro hm
    rcases List.mem_append.mp hm with hm | hm
    · exact htx.1 hm
    · have := List.eq_of_mem_replicate hm; exact absurd this (by decide)
  rw [split_join _ (by simp) (by
    intro f hf
    rcases List.mem_cons.mp hf with rfl | hf
    · exact hid.1
    · rcases List.mem_cons.mp hf with rfl | hf
      · exact htab
      · exact (h f (by simp [hf])).1)]
  simp only [List.map_cons]
  rw [strip_id id hid.2.1, rstripDots_id id hid.2.2, strip_id _ (trim_pad w taxon htx.2.1), rstripDots_pad w taxon htx.2.2]
  congr 2
  conv => rhs; rw [← List.map_id cells]
  apply List.map_congr_left
  intro f hf
  have := h f (by simp [hf])
  rw [strip_id f this.2.1, rstripDots_id f this.2.2]; rfl

/-- the finding recorded as `msa-taxon-trailing-dot`: a taxon name that ends in a dot (`Gr.`) is NOT
read back – padding and a real trailing dot cannot be told apart -/
example : parseMsaLine (msaLine [49] 5 [71, 114, 46] [[104], [97]]) = [[49], [71, 114], [104], [97]] := by decide

/-- not vacuous: `ID<TAB>DOCULECT` / comment / `1<TAB>ab c` -/
example : parseLines (serialize [([], [[73, 68], [68, 79, 67]]), ([[35]], [[49], [97, 98, 32, 99]])]) =
    [[[73, 68], [68, 79, 67]], [[49], [97, 98, 32, 99]]] := by decide

/-- a tab inside a field is what breaks it -/
example : split (join [[49], [97, 9, 98]]) ≠ [[49], [97, 9, 98]] := by decide

/-! ### `@key:value` lines -/

theorem splitColon_append : ∀ (k v : List Nat), colon ∉ k → splitColon (k ++ colon :: v) = some (k, v)
  | [], v, _ => by simp [splitColon]
  | c :: r, v, h => by
    have hc : c ≠ colon := fun e => h (by rw [e]; exact List.mem_cons_self)
    have hr : colon ∉ r := fun e => h (List.mem_cons_of_mem _ e)
    simp [splitColon, hc, splitColon_append r v hr]

/-- **C13, simple meta data**: a key without a colon and without outer white space and a value without outer
white space, written as `@key:value`, are read back exactly (the line is dispatched to the meta branch) -/
theorem C13_meta_line (k v : List Nat) (hk : colon ∉ k) (htk : Trim k) (htv : Trim v) :
    kind (metaLine k v) = .metaL ∧ parseMeta (metaLine k v) = some (k, v) := by
  constructor
  · simp [kind, metaLine, at_, hash]
  · have e : metaLine k v = at_ :: (k ++ colon :: v) := by simp [metaLine]
    rw [e]
    simp only [parseMeta, splitColon_append k v hk, Option.map_some, strip_id k htk, strip_id v htv]

/-- the hypothesis on the key is needed: a key containing a colon is cut at it -/
example : parseMeta (metaLine [97, 58, 98] [99]) = some ([97], [98, 58, 99]) := by decide

/-- **C13, one line of the `<scorer>` block**: symbol and values come back as written (no tab inside them) -/
theorem C13_scorer_line (ch : List Nat) (vals : List (List Nat)) (hc : tab ∉ ch) (hv : ∀ v ∈ vals, tab ∉ v) :
    readScorerLine (scorerLine ch vals) = (ch, vals) := by
  unfold readScorerLine scorerLine
  rw [split_join (ch :: vals) (by simp) (by
    intro f hf
    rcases List.mem_cons.mp hf with h | h
    · rw [h]; exact hc
    · exact hv f h)]

example : readScorerLine (scorerLine [65] [[49, 46, 48], [45, 50]]) = ([65], [[49, 46, 48], [45, 50]]) := by decide

end Verif.Line
