import Verif.Model.Line
set_option linter.unusedSimpArgs false
set_option linter.unusedVariables false
/-!
# C13 — line level: what is written as a table is read back as the same table

`C13_lines`: if every field is free of tabs and of leading/trailing white space, every line has
at least one field and its first field (the row id, or `ID` in the header) starts with a character
other than `#`, `@`, `<`, and the interleaved lines are comment lines, then splitting and stripping the
written lines returns exactly the fields – for any number of rows, fields and comment lines.
(Line breaks inside fields are excluded with the tab: the harness checks that the property's domain
has neither.)
-/
namespace Verif.Line

theorem split_notab : ∀ (f : List Nat), tab ∉ f → split f = [f]
  | [], _ => rfl
  | c :: r, h => by
    have hc : c ≠ tab := fun e => h (e ▸ List.mem_cons_self)
    have hr : tab ∉ r := fun m => h (List.mem_cons_of_mem _ m)
    simp [split, hc, split_notab r hr]

theorem split_append_tab : ∀ (f rest : List Nat), tab ∉ f → split (f ++ tab :: rest) = f :: split rest
  | [], rest, _ => by simp [split]
  | c :: r, rest, h => by
    have hc : c ≠ tab := fun e => h (e ▸ List.mem_cons_self)
    have hr : tab ∉ r := fun m => h (List.mem_cons_of_mem _ m)
    simp [split, hc, split_append_tab r rest hr]

/-- **split undoes join** -/
theorem split_join : ∀ (fields : List (List Nat)), fields ≠ [] → (∀ f ∈ fields, tab ∉ f) →
    split (join fields) = fields
  | [], h, _ => absurd rfl h
  | [f], _, h => by simpa [join] using split_notab f (h f List.mem_cons_self)
  | f :: g :: r, _, h => by
    simp only [join]
    rw [split_append_tab f _ (h f List.mem_cons_self),
      split_join (g :: r) (by simp) (fun x hx => h x (List.mem_cons_of_mem _ hx))]

/-- a field without outer white space -/
def Trim (f : List Nat) : Prop := (∀ c, f.head? = some c → isSpace c = false) ∧ (∀ c, f.getLast? = some c → isSpace c = false)

theorem stripL_id (f : List Nat) (h : ∀ c, f.head? = some c → isSpace c = false) : stripL f = f := by
  cases f with
  | nil => rfl
  | cons c r => simp [stripL, h c rfl]

theorem strip_id (f : List Nat) (h : Trim f) : strip f = f := by
  unfold strip
  rw [stripL_id f h.1, stripL_id f.reverse (by simpa [List.head?_reverse] using h.2), List.reverse_reverse]

def isSpecial (c : Nat) : Bool := c == hash || c == at_ || c == lt_

/-- a written table line: at least one field, the first one starts with an ordinary character -/
def RowOk (r : List (List Nat)) : Prop :=
  (∃ c f rest, r = (c :: f) :: rest ∧ isSpecial c = false) ∧ (∀ f ∈ r, tab ∉ f ∧ Trim f)

theorem kind_join (r : List (List Nat)) (h : RowOk r) : kind (join r) = .dataL := by
  obtain ⟨⟨c, f, rest, rfl, hc⟩, _⟩ := h
  simp only [isSpecial, Bool.or_eq_false_iff, beq_eq_false_iff_ne] at hc
  have : ∃ tl, join ((c :: f) :: rest) = c :: tl := by
    cases rest with
    | nil => exact ⟨f, rfl⟩
    | cons g r => exact ⟨f ++ tab :: join (g :: r), rfl⟩
  obtain ⟨tl, e⟩ := this
  simp [e, kind, hc.1.1, hc.1.2, hc.2]

theorem parse_join (r : List (List Nat)) (h : RowOk r) : (split (join r)).map strip = r := by
  have hne : r ≠ [] := by obtain ⟨⟨c, f, rest, rfl, _⟩, _⟩ := h; simp
  rw [split_join r hne (fun f hf => (h.2 f hf).1)]
  conv => rhs; rw [← List.map_id r]
  apply List.map_congr_left
  intro f hf
  exact strip_id f (h.2 f hf).2

/-- **C13, line level** -/
theorem C13_lines : ∀ (items : List (List (List Nat) × List (List Nat))),
    (∀ it ∈ items, RowOk it.2 ∧ ∀ l ∈ it.1, kind l = .skipL) →
    parseLines (serialize items) = items.map (·.2)
  | [], _ => rfl
  | it :: rest, h => by
    obtain ⟨hrow, hcom⟩ := h it List.mem_cons_self
    have ih := C13_lines rest (fun x hx => h x (List.mem_cons_of_mem _ hx))
    have hfil : (it.1.filter fun l => kind l == .dataL) = [] := by
      rw [List.filter_eq_nil_iff]
      intro l hl
      simp [hcom l hl]
    simp only [parseLines, serialize, List.flatMap_cons, List.filter_append, List.map_append, hfil,
      List.map_nil, List.nil_append, List.map_cons] at ih ⊢
    simp only [List.filter_cons, kind_join it.2 hrow, beq_self_eq_true, if_true, List.filter_nil,
      List.map_cons, List.map_nil, parse_join it.2 hrow, List.singleton_append]
    rw [ih]

/-- not vacuous: `ID<TAB>DOCULECT` / comment / `1<TAB>ab c` -/
example : parseLines (serialize [([], [[73, 68], [68, 79, 67]]), ([[35]], [[49], [97, 98, 32, 99]])]) =
    [[[73, 68], [68, 79, 67]], [[49], [97, 98, 32, 99]]] := by decide

/-- a tab inside a field is what breaks it -/
example : split (join [[49], [97, 9, 98]]) ≠ [[49], [97, 9, 98]] := by decide

end Verif.Line
