import Verif.Props.C04Prog
set_option linter.unusedSimpArgs false
set_option linter.unusedVariables false
set_option linter.unusedSectionVars false
/-!
# C04 — from the internal matrix to the rows of all inputs (`_update_alignments`)

`Multiple` aligns one representative per set of inputs with the same class string and keeps, for
every representative `i`, the list `int2ext[i]` of the inputs it stands for.  `_update_alignments`
writes the row of input `j` by replacing, in the internal row of its representative, the number of
position `p` by token `p` of input `j` and the internal gap by `'-'`.

`C04_update`: if every input is listed under exactly one representative, the internal rows have one
common length, the non-gap entries of internal row `i` are the positions `0 … len-1` in order (that is
what `C04_progressive` / `C04_history` say about the internal matrix, whose sequences are the position
numbers) and every input listed under `i` has `len` tokens, none of them the gap symbol, then the
public matrix has one row per input, in input order, all of the common length, row `j` de-gaps to
exactly the tokens of input `j`, gaps stand exactly where the internal row has gaps, and two inputs
with the same tokens under the same representative receive identical rows.
-/
namespace Verif.MSA

variable {T : Type} [DecidableEq T]

omit [DecidableEq T] in
theorem extRow_length (gap : T) (toks : List T) (row : List (Option Nat)) :
    (extRow gap toks row).length = row.length := by simp [extRow]

theorem extRow_filter (gap : T) (toks : List T) :
    ∀ (row : List (Option Nat)), (∀ p ∈ row.filterMap id, toks.getD p gap ≠ gap) →
      (extRow gap toks row).filter (· ≠ gap) = (row.filterMap id).map fun p => toks.getD p gap
  | [], _ => by simp [extRow]
  | none :: xs, h => by
    have ih := extRow_filter gap toks xs (by intro p hp; exact h p (by simpa using hp))
    simp only [extRow, List.map_cons, List.filterMap_cons, id] at ih ⊢
    simp only [ne_eq, not_true_eq_false, decide_false, Bool.false_eq_true, not_false_eq_true, List.filter_cons_of_neg]
    exact ih
  | some q :: xs, h => by
    have hq : toks.getD q gap ≠ gap := h q (by simp)
    have ih := extRow_filter gap toks xs (by intro p hp; exact h p (by simp [hp]))
    simp only [extRow, List.map_cons, List.filterMap_cons, id] at ih ⊢
    rw [List.filter_cons_of_pos (by simpa using hq)]
    rw [ih]

omit [DecidableEq T] in
theorem map_getD_range (gap : T) (toks : List T) : (List.range toks.length).map (fun p => toks.getD p gap) = toks := by
  apply List.ext_getElem
  · simp
  · intro i h1 h2
    simp only [List.length_map, List.length_range] at h1
    simp [List.getD_eq_getElem?_getD, List.getElem?_eq_getElem h1]

/-- **row level**: the public row de-gaps to the tokens -/
theorem extRow_degap (gap : T) (toks : List T) (row : List (Option Nat)) (hg : gap ∉ toks)
    (hrow : row.filterMap id = List.range toks.length) :
    (extRow gap toks row).filter (· ≠ gap) = toks := by
  rw [extRow_filter gap toks row, hrow, map_getD_range]
  intro p hp
  rw [hrow, List.mem_range] at hp
  intro h
  apply hg
  rw [← h, List.getD_eq_getElem?_getD, List.getElem?_eq_getElem hp]
  simp

/-- gaps stand exactly where the internal row has gaps -/
theorem extRow_gap_iff (gap : T) (toks : List T) (row : List (Option Nat)) (hg : gap ∉ toks)
    (hrow : row.filterMap id = List.range toks.length) (k : Nat) (hk : k < row.length) :
    (extRow gap toks row)[k]'(by rw [extRow_length]; exact hk) = gap ↔ row[k] = none := by
  simp only [extRow, List.getElem_map]
  cases hrk : row[k] with
  | none => simp
  | some p =>
    simp only [reduceCtorEq, iff_false]
    have hp : p ∈ row.filterMap id := by
      rw [List.mem_filterMap]; exact ⟨some p, hrk ▸ List.getElem_mem hk, rfl⟩
    rw [hrow, List.mem_range] at hp
    intro h
    apply hg
    rw [← h, List.getD_eq_getElem?_getD, List.getElem?_eq_getElem hp]
    simp

/-! ### the matrix -/

omit [DecidableEq T] in
theorem mem_assigns (gap : T) (tokens : List (List T)) (internal : List (List (Option Nat))) (int2ext : List (List Nat))
    (a : Nat × List T) :
    a ∈ ((internal.zip int2ext).flatMap fun p => p.2.map fun j => (j, extRow gap (tokens.getD j []) p.1)) ↔
    ∃ (i : Nat) (h1 : i < internal.length) (h2 : i < int2ext.length), a.1 ∈ int2ext[i] ∧
      a.2 = extRow gap (tokens.getD a.1 []) internal[i] := by
  simp only [List.mem_flatMap, List.mem_map]
  constructor
  · rintro ⟨p, hp, j, hj, rfl⟩
    obtain ⟨i, hi, hpi⟩ := List.mem_iff_getElem.mp hp
    simp only [List.length_zip, Nat.lt_min] at hi
    rw [List.getElem_zip] at hpi
    refine ⟨i, hi.1, hi.2, ?_, ?_⟩
    · simp only; rw [← hpi] at hj; exact hj
    · simp only; rw [← hpi]
  · rintro ⟨i, h1, h2, hj, ha⟩
    refine ⟨(internal[i], int2ext[i]), ?_, a.1, hj, ?_⟩
    · rw [List.mem_iff_getElem]
      exact ⟨i, by simp only [List.length_zip, Nat.lt_min]; exact ⟨h1, h2⟩, by rw [List.getElem_zip]⟩
    · simp only; rw [← ha]

/-- every input is listed under exactly one representative -/
def Partitioned (n : Nat) (internal : List (List (Option Nat))) (int2ext : List (List Nat)) (cls : Nat → Nat) : Prop :=
  ∀ j, j < n → ∃ (h1 : cls j < internal.length) (h2 : cls j < int2ext.length), j ∈ int2ext[cls j] ∧
    ∀ (i : Nat) (h3 : i < int2ext.length), j ∈ int2ext[i] → i = cls j

omit [DecidableEq T] in
theorem update_getElem (gap : T) (tokens : List (List T)) (internal : List (List (Option Nat))) (int2ext : List (List Nat))
    (cls : Nat → Nat) (hpart : Partitioned tokens.length internal int2ext cls) (j : Nat) (hj : j < tokens.length) :
    ∃ (h1 : cls j < internal.length),
      (updateAlignments gap tokens internal int2ext)[j]'(by simp [updateAlignments]; exact hj) =
        extRow gap tokens[j] internal[cls j] := by
  obtain ⟨h1, h2, hmem, huniq⟩ := hpart j hj
  refine ⟨h1, ?_⟩
  simp only [updateAlignments, List.getElem_map, List.getElem_range]
  generalize hA : ((internal.zip int2ext).flatMap fun p => p.2.map fun j => (j, extRow gap (tokens.getD j []) p.1)) = assigns
  have hex : (j, extRow gap (tokens.getD j []) internal[cls j]) ∈ assigns := by
    rw [← hA, mem_assigns]; exact ⟨cls j, h1, h2, hmem, rfl⟩
  cases hf : assigns.reverse.find? (fun a => a.1 == j) with
  | none =>
    exfalso
    have := List.find?_eq_none.mp hf _ (List.mem_reverse.mpr hex)
    simp at this
  | some a =>
    have ha1 : a.1 = j := by
      have := List.find?_some hf
      simpa using this
    have hain : a ∈ assigns := List.mem_reverse.mp (List.mem_of_find?_eq_some hf)
    rw [← hA, mem_assigns] at hain
    obtain ⟨i, hi1, hi2, hji, hrow⟩ := hain
    rw [ha1] at hji hrow
    have hi : i = cls j := huniq i hi2 hji
    subst hi
    simp only [Option.map_some, Option.getD_some]
    rw [hrow, List.getD_eq_getElem?_getD, List.getElem?_eq_getElem hj]
    rfl

/-- **C04, `_update_alignments`** – see the header -/
theorem C04_update (gap : T) (tokens : List (List T)) (internal : List (List (Option Nat))) (int2ext : List (List Nat))
    (cls : Nat → Nat) (w : Nat) (hpart : Partitioned tokens.length internal int2ext cls)
    (hrect : ∀ r ∈ internal, r.length = w)
    (hrows : ∀ j (hj : j < tokens.length) (h1 : cls j < internal.length),
      internal[cls j].filterMap id = List.range tokens[j].length)
    (hgap : ∀ t ∈ tokens, gap ∉ t) :
    (updateAlignments gap tokens internal int2ext).length = tokens.length ∧
    ∀ j (hj : j < tokens.length),
      let row := (updateAlignments gap tokens internal int2ext)[j]'(by simp [updateAlignments]; exact hj)
      row.length = w ∧ row.filter (· ≠ gap) = tokens[j] ∧
      (∀ j' (hj' : j' < tokens.length), cls j' = cls j → tokens[j'] = tokens[j] →
        (updateAlignments gap tokens internal int2ext)[j']'(by simp [updateAlignments]; exact hj') = row) := by
  refine ⟨by simp [updateAlignments], ?_⟩
  intro j hj
  obtain ⟨h1, hrow⟩ := update_getElem gap tokens internal int2ext cls hpart j hj
  simp only
  rw [hrow]
  refine ⟨?_, ?_, ?_⟩
  · rw [extRow_length]; exact hrect _ (List.getElem_mem h1)
  · exact extRow_degap gap tokens[j] _ (hgap _ (List.getElem_mem hj)) (hrows j hj h1)
  · intro j' hj' hc ht
    obtain ⟨h1', hrow'⟩ := update_getElem gap tokens internal int2ext cls hpart j' hj'
    rw [hrow']
    simp only [hc, ht]

/-- **no all-gap column**: a column of the public matrix in which every row has the gap is a column of
the internal matrix in which every representative that stands for some input has the gap -/
theorem C04_update_allgap (gap : T) (tokens : List (List T)) (internal : List (List (Option Nat))) (int2ext : List (List Nat))
    (cls : Nat → Nat) (w : Nat) (hpart : Partitioned tokens.length internal int2ext cls)
    (hrect : ∀ r ∈ internal, r.length = w)
    (hrows : ∀ j (hj : j < tokens.length) (h1 : cls j < internal.length),
      internal[cls j].filterMap id = List.range tokens[j].length)
    (hgap : ∀ t ∈ tokens, gap ∉ t) (k : Nat) (hk : k < w)
    (hall : ∀ j (hj : j < tokens.length),
      ((updateAlignments gap tokens internal int2ext)[j]'(by simp [updateAlignments]; exact hj)).getD k gap = gap) :
    ∀ j (hj : j < tokens.length) (h1 : cls j < internal.length), (internal[cls j])[k]? = some none := by
  intro j hj h1
  obtain ⟨_, hrow⟩ := update_getElem gap tokens internal int2ext cls hpart j hj
  have hlen : internal[cls j].length = w := hrect _ (List.getElem_mem h1)
  have hk' : k < internal[cls j].length := by omega
  have := hall j hj
  rw [hrow, List.getD_eq_getElem?_getD, List.getElem?_eq_getElem (by rw [extRow_length]; exact hk')] at this
  simp only [Option.getD_some] at this
  have := (extRow_gap_iff gap tokens[j] internal[cls j] (hgap _ (List.getElem_mem hj)) (hrows j hj h1) k hk').mp this
  rw [List.getElem?_eq_getElem hk', this]

/-! ### the hypotheses are decidable and are evaluated on every observed run -/

theorem partitioned_of_ok (n : Nat) (internal : List (List (Option Nat))) (int2ext : List (List Nat))
    (h : ∀ j, j < n → ((List.range int2ext.length).filter fun i => (int2ext.getD i []).contains j).length = 1 ∧
      clsOf int2ext j < internal.length) :
    Partitioned n internal int2ext (clsOf int2ext) := by
  intro j hj
  obtain ⟨hlen, hc⟩ := h j hj
  generalize hF : ((List.range int2ext.length).filter fun i => (int2ext.getD i []).contains j) = F at hlen
  match F, hlen with
  | [i0], _ =>
    have hcls : clsOf int2ext j = i0 := by
      unfold clsOf
      rw [← List.head?_filter, hF]; rfl
    have hi0 : i0 ∈ (List.range int2ext.length).filter fun i => (int2ext.getD i []).contains j := by rw [hF]; simp
    rw [List.mem_filter, List.mem_range] at hi0
    have hmem : j ∈ int2ext[i0] := by
      have := hi0.2
      rw [List.getD_eq_getElem?_getD, List.getElem?_eq_getElem hi0.1] at this
      simpa using this
    rw [hcls] at hc ⊢
    refine ⟨hc, hi0.1, hmem, ?_⟩
    intro i h3 hji
    have : i ∈ (List.range int2ext.length).filter fun i => (int2ext.getD i []).contains j := by
      rw [List.mem_filter, List.mem_range]
      refine ⟨h3, ?_⟩
      rw [List.getD_eq_getElem?_getD, List.getElem?_eq_getElem h3]
      simpa using hji
    rw [hF] at this
    simpa using this

/-- **C04, `_update_alignments`, on observed data**: whenever the decidable check accepts the observed
tokens, internal matrix and `int2ext`, the conclusions of `C04_update` hold for the model's result (which
the correspondence compares with the real `alm_matrix`) -/
theorem C04_update_observed (gap : T) (tokens : List (List T)) (internal : List (List (Option Nat))) (int2ext : List (List Nat))
    (hok : updateOkb gap tokens internal int2ext = true) :
    (updateAlignments gap tokens internal int2ext).length = tokens.length ∧
    ∀ j (hj : j < tokens.length),
      let row := (updateAlignments gap tokens internal int2ext)[j]'(by simp [updateAlignments]; exact hj)
      row.length = (internal.headD []).length ∧ row.filter (· ≠ gap) = tokens[j] ∧
      (∀ j' (hj' : j' < tokens.length), clsOf int2ext j' = clsOf int2ext j → tokens[j'] = tokens[j] →
        (updateAlignments gap tokens internal int2ext)[j']'(by simp [updateAlignments]; exact hj') = row) := by
  simp only [updateOkb, Bool.and_eq_true, List.all_eq_true, List.mem_range, beq_iff_eq, decide_eq_true_eq,
    Bool.not_eq_true'] at hok
  obtain ⟨hper, hrect⟩ := hok
  apply C04_update gap tokens internal int2ext (clsOf int2ext) (internal.headD []).length
  · exact partitioned_of_ok _ _ _ (fun j hj => ⟨(hper j hj).1.1.1, (hper j hj).1.1.2⟩)
  · intro r hr; exact hrect r hr
  · intro j hj h1
    have := (hper j hj).1.2
    rw [List.getD_eq_getElem?_getD, List.getElem?_eq_getElem h1, List.getD_eq_getElem?_getD,
      List.getElem?_eq_getElem hj] at this
    simpa using this
  · intro t ht
    obtain ⟨j, hj, rfl⟩ := List.mem_iff_getElem.mp ht
    have := (hper j hj).2
    rw [List.getD_eq_getElem?_getD, List.getElem?_eq_getElem hj] at this
    simpa using this

/-! not vacuous: `hant`, `hand`, `hant` with the first and the third input under one representative -/
example : updateAlignments '-' [['h', 'a', 'n', 't'], ['h', 'a', 'n', 'd'], ['h', 'a', 'n', 't']]
    [[some 0, some 1, none, some 2, some 3], [some 0, none, some 1, some 2, some 3]] [[0, 2], [1]] =
    [['h', 'a', '-', 'n', 't'], ['h', '-', 'a', 'n', 'd'], ['h', 'a', '-', 'n', 't']] := by decide

end Verif.MSA
