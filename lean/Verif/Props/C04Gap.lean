/-
# C04 — no column of the internal alignment matrix consists only of gaps

Mechanism: `_align_profile` inserts a gap column into block A where the profile alignment has a gap in A, and into
block B only where A has none.  Hence every column of the merged block carries a column of A or a column of B; if
neither block had an all-gap column, the merged block has none (`merge_noGapCol`).  `_reduce_gap_sites` leaves no
all-gap column whatever it is given (`reduce_noGapCol`), so every refinement split merges two such blocks.
-/
import Verif.Props.C04Prog
set_option linter.unusedSimpArgs false
namespace Verif.SC
variable {α : Type}

/-- number of `true` flags before position `i`: the index of the token that position `i` carries -/
def rank (cs : List Bool) (i : Nat) : Nat := ((cs.take i).filter id).length

theorem mergeSpec_get_true : ∀ (cs : List Bool) (ts : List α) (i : Nat), cs[i]? = some true →
    (mergeSpec cs ts)[i]? = some (ts[rank cs i]?) ∨ ts.length < (cs.filter id).length := by
  intro cs
  induction cs with
  | nil => intro ts i h; simp at h
  | cons c cs ih =>
    intro ts i h
    cases c with
    | false =>
      cases i with
      | zero => simp at h
      | succ j =>
        rcases ih ts j (by simpa using h) with h' | h'
        · left; simpa [mergeSpec, rank] using h'
        · right; simpa using h'
    | true =>
      cases ts with
      | nil => right; simp
      | cons t ts =>
        cases i with
        | zero => left; simp [mergeSpec, rank]
        | succ j =>
          rcases ih ts j (by simpa using h) with h' | h'
          · left; simpa [mergeSpec, rank] using h'
          · right; simpa using h'

theorem rank_lt : ∀ (cs : List Bool) (i : Nat), cs[i]? = some true → rank cs i < (cs.filter id).length := by
  intro cs
  induction cs with
  | nil => intro i h; simp at h
  | cons c cs ih =>
    intro i h
    cases i with
    | zero =>
      have : c = true := by simpa using h
      subst this; simp [rank]
    | succ j =>
      have := ih j (by simpa using h)
      cases c <;> simp [rank] at this ⊢ <;> omega

theorem class2tokens_eq_mergeSpec (tokens : List α) (classes : List Bool)
    (h : (classes.filter id).length = tokens.length) : class2tokens tokens classes = mergeSpec classes tokens := by
  have := go_eq_mergeSpec classes ([] : List (Option α)) tokens h
  simpa [class2tokens] using this

end Verif.SC

namespace Verif.MSA
open Verif.SC

/-- position `i` of a row spread along `flags` holds the row's entry number `rank flags i` when the flag is set … -/
theorem insertGaps_get_true (g : Nat) (row : List Nat) (flags : List Bool) (i : Nat)
    (h : (flags.filter id).length = row.length) (hi : flags[i]? = some true) :
    (insertGaps g row flags).getD i g = row.getD (rank flags i) g := by
  unfold insertGaps
  rw [class2tokens_eq_mergeSpec row flags h]
  rcases mergeSpec_get_true flags row i hi with h' | h'
  · have hr := rank_lt flags i hi
    rw [h] at hr
    simp only [List.getD_eq_getElem?_getD, List.getElem?_map, h', Option.map_some, Option.getD_some,
      List.getElem?_eq_getElem hr]
  · omega

/-- no column of the block consists only of the gap symbol -/
def NoGapCol (g : Nat) (block : List (List Nat)) : Prop :=
  ∀ i, i < width block → ∃ r ∈ block, r.getD i g ≠ g

/-- **the mechanism**: merging two blocks without all-gap columns along any profile alignment whose index rows fit
the blocks gives a block without all-gap columns – B receives a gap column only where A has a real one. -/
theorem merge_noGapCol (g : Nat) (A B : List (List Nat)) (fa fb : List Bool) (hA : Rect A) (hB : Rect B)
    (hAne : A ≠ []) (hf : flagsOkb A B fa fb = true)
    (gA : NoGapCol g A) (gB : NoGapCol g B) : NoGapCol g (mergeBlocks g A B fa fb) := by
  simp only [flagsOkb, Bool.and_eq_true, beq_iff_eq] at hf
  obtain ⟨⟨hlen, hca⟩, hcb⟩ := hf
  obtain ⟨a0, As, rfl⟩ := List.exists_cons_of_ne_nil hAne
  have hwidth : width (mergeBlocks g (a0 :: As) B fa fb) = fa.length := by
    simp only [width, mergeBlocks, List.map_cons, List.cons_append, List.headD_cons]
    exact (insertGaps_spec g a0 fa (by rw [hca]; exact (hA a0 (by simp)).symm)).1
  intro i hi
  rw [hwidth] at hi
  cases hfa : fa[i] with
  | true =>
    have hfa' : fa[i]? = some true := by rw [List.getElem?_eq_getElem hi, hfa]
    have hr := rank_lt fa i hfa'
    rw [hca] at hr
    obtain ⟨r, hrA, hne⟩ := gA (rank fa i) hr
    refine ⟨insertGaps g r fa, ?_, ?_⟩
    · simp only [mergeBlocks, List.mem_append, List.mem_map]; exact Or.inl ⟨r, hrA, rfl⟩
    · rw [insertGaps_get_true g r fa i (by rw [hca]; exact (hA r hrA).symm) hfa']; exact hne
  | false =>
    -- block B gets a real column here whatever its own index row says
    generalize hfB : ((fa.zip fb).map fun p => p.2 || !p.1) = fB at hcb
    have hfBi : fB[i]? = some true := by
      rw [← hfB]
      have hib : i < fb.length := by omega
      simp [List.getElem?_map, List.getElem?_zip_eq_some, List.getElem?_eq_getElem hi, List.getElem?_eq_getElem hib, hfa]
    have hr := rank_lt fB i hfBi
    rw [hcb] at hr
    obtain ⟨r, hrB, hne⟩ := gB (rank fB i) hr
    refine ⟨insertGaps g r fB, ?_, ?_⟩
    · simp only [mergeBlocks, List.mem_append, List.mem_map, hfB]; exact Or.inr ⟨r, hrB, rfl⟩
    · rw [insertGaps_get_true g r fB i (by rw [hcb]; exact (hB r hrB).symm) hfBi]; exact hne

/-- **`_reduce_gap_sites`** leaves no all-gap column, whatever the block -/
theorem reduce_noGapCol (g : Nat) (msa : List (List Nat)) : NoGapCol g (reduceGapSites g msa) := by
  cases msa with
  | nil => intro i hi; simp [reduceGapSites, width] at hi
  | cons first rest =>
    intro i hi
    simp only [reduceGapSites, width, List.map_cons, List.headD_cons, List.length_map] at hi
    generalize hk : (List.range first.length).filter (keepCol g (first :: rest)) = keep at hi
    have hmem : keep[i] ∈ (List.range first.length).filter (keepCol g (first :: rest)) := by
      rw [hk]; exact List.getElem_mem hi
    have hkc := (List.mem_filter.mp hmem).2
    simp only [keepCol, Bool.not_eq_true', List.all_eq_false, beq_iff_eq] at hkc
    obtain ⟨line, hline, hne⟩ := hkc
    refine ⟨keep.map fun j => line.getD j g, ?_, ?_⟩
    · simp only [reduceGapSites, hk, List.mem_map]; exact ⟨line, hline, rfl⟩
    · simp only [List.getD_eq_getElem?_getD, List.getElem?_map, List.getElem?_eq_getElem hi, Option.map_some,
        Option.getD_some]
      simpa [List.getD_eq_getElem?_getD] using hne

/-! ### the progressive pass -/

/-- every block built so far is free of all-gap columns -/
def GInv (g : Nat) (st : PState) : Prop := ∀ k (hk : k < st.blocks.length), NoGapCol g st.blocks[k]

theorem progInit_gap (g : Nat) (seqs : List (List Nat)) (hg : ∀ s ∈ seqs, g ∉ s) : GInv g (progInit seqs) := by
  intro k hk
  simp only [progInit, List.length_map] at hk
  simp only [progInit, List.getElem_map]
  intro i hi
  simp only [width, List.headD_cons] at hi
  refine ⟨seqs[k], by simp, ?_⟩
  rw [List.getD_eq_getElem?_getD, List.getElem?_eq_getElem hi, Option.getD_some]
  intro he
  exact hg seqs[k] (List.getElem_mem hk) (he ▸ List.getElem_mem hi)

theorem progStep_gap (g : Nat) (seqs : List (List Nat)) (st : PState) (step : PStep) (hinv : PInv g seqs st)
    (hgap : GInv g st) (hok : stepOkb st step = true) : GInv g (progStep g st step) := by
  simp only [stepOkb, Bool.and_eq_true, decide_eq_true_eq] at hok
  obtain ⟨⟨hm, hn⟩, hf⟩ := hok
  intro k hk
  simp only [progStep, List.length_append, List.length_cons, List.length_nil] at hk
  by_cases hlt : k < st.blocks.length
  · simp only [progStep, List.getElem_append_left hlt]
    exact hgap k hlt
  · have hk' : k = st.blocks.length := by omega
    subst hk'
    simp only [progStep, List.getElem_append_right (Nat.le_refl _), Nat.sub_self, List.getElem_cons_zero]
    have eA : st.blocks.getD step.1.1 [] = st.blocks[step.1.1] := by
      rw [List.getD_eq_getElem?_getD, List.getElem?_eq_getElem hm]; rfl
    have eB : st.blocks.getD step.1.2 [] = st.blocks[step.1.2] := by
      rw [List.getD_eq_getElem?_getD, List.getElem?_eq_getElem hn]; rfl
    rw [eA, eB] at hf ⊢
    obtain ⟨rA, neA, _⟩ := hinv.ok step.1.1 hm
    obtain ⟨rB, _, _⟩ := hinv.ok step.1.2 hn
    exact merge_noGapCol g _ _ _ _ rA rB neA hf (hgap _ hm) (hgap _ hn)

theorem progRun_gap (g : Nat) (seqs : List (List Nat)) : ∀ (steps : List PStep) (st : PState), PInv g seqs st → GInv g st →
    stepsOkb g st steps = true → GInv g (steps.foldl (progStep g) st)
  | [], st, _, hg, _ => hg
  | s :: r, st, hi, hg, hok => by
    simp only [stepsOkb, Bool.and_eq_true] at hok
    simp only [List.foldl_cons]
    exact progRun_gap g seqs r _ (progStep_inv g seqs st s hi hok.1) (progStep_gap g seqs st s hi hg hok.1) hok.2

/-- rows of the same width that include every row of a block without all-gap columns -/
theorem noGapCol_of_rows (g : Nat) (old new : List (List Nat)) (hw : width new = width old) (hsub : ∀ r ∈ old, r ∈ new)
    (h : NoGapCol g old) : NoGapCol g new := by
  intro i hi
  obtain ⟨r, hr, hne⟩ := h i (hw ▸ hi)
  exact ⟨r, hsub r hr, hne⟩

theorem reorder_perm (ord : List Nat) (block : List (List Nat)) (hlen : block.length = ord.length) :
    (reorder ord block).Perm block := by
  unfold reorder
  have hp := List.mergeSort_perm (ord.zip block) (fun a b => decide (a.1 ≤ b.1))
  have := hp.map (·.2)
  rwa [List.map_snd_zip (by omega)] at this

/-- **C04, progressive pass, no all-gap column**: under the hypotheses of `C04_progressive`, when the gap symbol does
not occur in the input sequences, the matrix after the pass has no column that consists only of gaps. -/
theorem C04_progressive_nogap (g : Nat) (seqs : List (List Nat)) (steps : List PStep)
    (hok : stepsOkb g (progInit seqs) steps = true) (hg : ∀ s ∈ seqs, g ∉ s) :
    NoGapCol g (progressive g seqs steps) := by
  have hinv := progRun_inv g seqs steps _ (progInit_inv g seqs) hok
  have hgap := progRun_gap g seqs steps _ (progInit_inv g seqs) (progInit_gap g seqs hg) hok
  change PInv g seqs (progRun g seqs steps) at hinv
  change GInv g (progRun g seqs steps) at hgap
  unfold progressive
  simp only
  generalize progRun g seqs steps = st at hinv hgap
  cases hb : st.blocks.getLast? with
  | none =>
    intro i hi
    simp [reorder, width] at hi
  | some last =>
    have hpos : 0 < st.blocks.length := by
      cases hbl : st.blocks with
      | nil => simp [hbl] at hb
      | cons _ _ => simp
    have hlast : last = st.blocks[st.blocks.length - 1] := by
      rw [List.getLast?_eq_getElem?, List.getElem?_eq_getElem (by omega)] at hb
      exact (Option.some.inj hb).symm
    have hlasto : st.ords.getLast?.getD [] = st.ords.getD (st.blocks.length - 1) [] := by
      rw [List.getLast?_eq_getElem?, hinv.len, List.getD_eq_getElem?_getD]
    obtain ⟨r1, r2, r3⟩ := hinv.ok (st.blocks.length - 1) (by omega)
    simp only [Option.getD_some]
    rw [hlasto, hlast]
    have hperm := reorder_perm (st.ords.getD (st.blocks.length - 1) []) st.blocks[st.blocks.length - 1] r3.1
    refine noGapCol_of_rows g _ _ ?_ (fun r hr => hperm.mem_iff.mpr hr) (hgap _ (by omega))
    -- same width: the first row of the reordered block is a row of the block
    obtain ⟨b0, bs, hbs⟩ := List.exists_cons_of_ne_nil r2
    have hne : reorder (st.ords.getD (st.blocks.length - 1) []) st.blocks[st.blocks.length - 1] ≠ [] := by
      intro h0; rw [h0] at hperm; have := hperm.length_eq; rw [hbs] at this; simp at this
    obtain ⟨c0, cs, hcs⟩ := List.exists_cons_of_ne_nil hne
    have hc0 : c0 ∈ st.blocks[st.blocks.length - 1] := hperm.mem_iff.mp (by rw [hcs]; simp)
    rw [hcs]
    simp only [width, List.headD_cons]
    exact r1 c0 hc0

/-! ### refinement splits -/

/-- **C04, refinement, no all-gap column**: the block that one refinement split merges from the two reduced parts has
no all-gap column – for ANY matrix before the split (the reduction removes what was there, the merge adds none). -/
theorem C04_refine_merged_nogap (g : Nat) (partA partB : List (List Nat)) (fa fb : List Bool)
    (hA : Rect partA) (hB : Rect partB)
    (hne : reduceGapSites g partA ≠ [])
    (hf : flagsOkb (reduceGapSites g partA) (reduceGapSites g partB) fa fb = true) :
    NoGapCol g (mergeBlocks g (reduceGapSites g partA) (reduceGapSites g partB) fa fb) :=
  merge_noGapCol g _ _ fa fb (reduce_rect g partA hA).1 (reduce_rect g partB hB).1 hne hf
    (reduce_noGapCol g partA) (reduce_noGapCol g partB)

/-- `_join` with distinct row indices loses no row of the merged block -/
theorem joinRows_mem (height w : Nat) (keys : List Nat) (vals : List (List Nat)) (hlen : keys.length = vals.length)
    (hnd : keys.Nodup) (hlt : ∀ k ∈ keys, k < height) : ∀ v ∈ vals, v ∈ joinRows height w (keys.zip vals) := by
  intro v hv
  obtain ⟨p, hp, rfl⟩ := List.getElem_of_mem hv
  have hpk : p < keys.length := by omega
  obtain ⟨p', hp', hk', e1, e2⟩ := find_zip keys vals hlen keys[p] (List.getElem_mem hpk)
  have : p' = p := (List.getElem_inj hnd).mp e1
  subst this
  have hkh := hlt keys[p'] (List.getElem_mem hpk)
  simp only [joinRows, List.mem_map, List.mem_range]
  exact ⟨keys[p'], hkh, by rw [e2]; rfl⟩

/-- **C04, one refinement split, no all-gap column**: for ANY rectangular matrix before the split (distinct row
indices in the index set), the matrix after `_split` / `_align_profile` / `_join` has no column of gaps only. -/
theorem C04_refineSplit_nogap (g : Nat) (msa : List (List Nat)) (hr : Rect msa) (idxA : List Nat) (fa fb : List Bool)
    (hnd : idxA.Nodup) (hok : splitOkb g msa idxA fa fb = true) : NoGapCol g (refineSplit g msa idxA fa fb) := by
  obtain ⟨_, hrect, _⟩ := C04_refineSplit g msa hr idxA fa fb hok
  simp only [splitOkb, Bool.and_eq_true, Bool.not_eq_true', List.all_eq_true, decide_eq_true_eq] at hok
  obtain ⟨⟨hne, hlt⟩, hf⟩ := hok
  generalize hB : (List.range msa.length).filter (fun i => !idxA.contains i) = idxB at hf
  have hltB : ∀ i ∈ idxB, i < msa.length := by
    intro i hi; rw [← hB] at hi
    exact List.mem_range.mp (List.mem_filter.mp hi).1
  have rA := rect_pick msa hr idxA hlt
  have rB := rect_pick msa hr idxB hltB
  obtain ⟨ra1, _, ra3⟩ := reduce_rect g _ rA
  obtain ⟨rb1, _, rb3⟩ := reduce_rect g _ rB
  have hAne : reduceGapSites g (idxA.map fun i => msa.getD i []) ≠ [] := by
    intro h
    have : (reduceGapSites g (idxA.map fun i => msa.getD i [])).length = 0 := by rw [h]; rfl
    rw [ra3] at this
    simp only [List.length_map] at this
    have : idxA = [] := List.length_eq_zero_iff.mp this
    simp [this] at hne
  have hgap := C04_refine_merged_nogap g _ _ fa fb rA rB hAne hf
  obtain ⟨mr, mne, _, mlen⟩ := merge_rect g _ _ fa fb ra1 rb1 hAne hf
  generalize hm : mergeBlocks g (reduceGapSites g (idxA.map fun i => msa.getD i []))
      (reduceGapSites g (idxB.map fun i => msa.getD i [])) fa fb = merged at mr mne mlen hgap
  have hlen : (idxA ++ idxB).length = merged.length := by
    rw [mlen, ra3, rb3]; simp
  have hndAB : (idxA ++ idxB).Nodup := by
    rw [List.nodup_append]
    refine ⟨hnd, ?_, ?_⟩
    · rw [← hB]; exact (List.nodup_range).filter _
    · intro a ha b hb hab
      subst hab
      rw [← hB] at hb
      have := (List.mem_filter.mp hb).2
      simp [ha] at this
  have hres : refineSplit g msa idxA fa fb = joinRows msa.length (merged.headD []).length ((idxA ++ idxB).zip merged) := by
    simp only [refineSplit, hB, hm]
  have hmem := joinRows_mem msa.length (merged.headD []).length (idxA ++ idxB) merged hlen hndAB
    (by intro k hk; rcases List.mem_append.mp hk with h | h; exact hlt k h; exact hltB k h)
  rw [← hres] at hmem
  refine noGapCol_of_rows g merged _ ?_ hmem hgap
  -- same width: the result is rectangular and holds the first row of the merged block
  obtain ⟨m0, ms, rfl⟩ := List.exists_cons_of_ne_nil mne
  have hm0 := hmem m0 (by simp)
  rw [← hrect m0 hm0]
  simp [width]

/-- **C04, any non-empty sequence of refinement splits** ends without an all-gap column, whatever the matrix was at the start -/
theorem C04_history_nogap (g : Nat) : ∀ (hist : List Split) (msa : List (List Nat)), hist ≠ [] → Rect msa →
    histOkb g msa hist = true → (∀ s ∈ hist, s.1.Nodup) →
    NoGapCol g (hist.foldl (fun m s => refineSplit g m s.1 s.2.1 s.2.2) msa)
  | [], _, hne, _, _, _ => absurd rfl hne
  | s :: r, msa, _, hr, hok, hnd => by
    simp only [histOkb, Bool.and_eq_true] at hok
    simp only [List.foldl_cons]
    cases r with
    | nil => exact C04_refineSplit_nogap g msa hr s.1 s.2.1 s.2.2 (hnd s (by simp)) hok.1
    | cons s' r' =>
      obtain ⟨_, h2, _⟩ := C04_refineSplit g msa hr s.1 s.2.1 s.2.2 hok.1
      exact C04_history_nogap g (s' :: r') _ (by simp) h2 hok.2 (fun x hx => hnd x (List.mem_cons_of_mem _ hx))

/-- the premises are satisfiable and the conclusion is not trivial: a merge that needs the rule "B gets a gap only where A
has none" (both index rows have a gap in the middle column) -/
example : mergeBlocks 0 [[1, 2]] [[3, 4, 5]] [true, false, true] [true, false, true] = [[1, 0, 2], [3, 4, 5]] ∧
    flagsOkb [[1, 2]] [[3, 4, 5]] [true, false, true] [true, false, true] = true := by decide

end Verif.MSA
