import Verif.Props.C14
import Verif.Generated.SoundClasses
/-!
# C14 — "classes never equal the gap class", closed over the shipped tables

`C14_class_range` says that the class of a token is a value of the converter or the unknown marker.
`Verif/Generated/SoundClasses.lean` is rewritten on every run from the converter files of the checked
repository and proves, by `decide` over the table, that no value of any shipped converter is the gap
class (`GapClassFree`) and that the `art` model emits digits only (`ArtDigits`).  Together: for every
model whose converter takes its values from one of the shipped tables (that is C20: the loaded converter
is the one of the data file; the correspondence also compares the value sets), no token is ever given
the gap class.
-/
namespace Verif.SC
open Verif.Generated

theorem C14_never_gap (M : TokCls) (name : String) (cls : List Nat) (hm : (name, cls) ∈ classTable)
    (hrange : ∀ k c, M.lookup k = some c → c ∈ cls) (hunk : M.unknown ≠ 88 ∧ M.unknown ≠ 45) (tok : List Nat) :
    token2class M tok ≠ 88 ∧ token2class M tok ≠ 45 := by
  rcases C14_class_range M tok with h | ⟨k, hk⟩
  · rw [h]; exact hunk
  · exact GapClassFree (name, cls) hm _ (hrange k _ hk)

/-- the sonority classes are digits, so the integer conversion of `prosodic_string`'s input never fails on them -/
theorem C14_art_digits (M : TokCls) (cls : List Nat) (hm : ("art", cls) ∈ classTable)
    (hrange : ∀ k c, M.lookup k = some c → c ∈ cls) (k : List Nat) (c : Nat) (h : M.lookup k = some c) :
    49 ≤ c ∧ c ≤ 57 :=
  ArtDigits ("art", cls) hm rfl c (hrange k c h)

end Verif.SC
