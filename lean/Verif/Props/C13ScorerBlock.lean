/-
# C13 — the `<scorer>` block as a whole: one line per symbol with two-decimal values, read back
(composition of `C13_scorer_line` and `C13_fixed2_roundtrip`)
-/
import Verif.Props.C13Line
import Verif.Props.C13Num
namespace Verif.Line
open Verif.Num

abbrev SCell := Bool × Nat      -- sign, magnitude · 10²

def scText (c : SCell) : List Nat := renderFixed2 c.1 c.2
def scRead (v : List Nat) : SCell := (parseFixed2 v).getD (false, 0)

/-- `scorer2str`: one line per symbol -/
def writeScorer (chars : List (List Nat)) (M : List (List SCell)) : List (List Nat) :=
  (chars.zip M).map fun p => scorerLine p.1 (p.2.map scText)

/-- `read_scorer`: symbol and values of every line -/
def readScorer (lines : List (List Nat)) : List (List Nat × List SCell) :=
  lines.map fun l => ((readScorerLine l).1, (readScorerLine l).2.map scRead)

theorem scText_notab (c : SCell) : tab ∉ scText c := by
  unfold scText renderFixed2 tab
  intro h
  simp only [List.mem_append, List.mem_cons] at h
  rcases h with (h | h) | h | h
  · cases hc : c.1 <;> simp [hc] at h
  · have := renderNat_digits _ 9 h; omega
  · omega
  · simp only [frac2, List.mem_cons, List.mem_nil_iff, or_false] at h; omega

theorem scRead_scText (c : SCell) : scRead (scText c) = c := by
  simp [scRead, scText, C13_fixed2_roundtrip]

/-- **C13, the `<scorer>` block**: symbols (without a tab) and two-decimal values come back line by line. -/
theorem C13_scorer_block (chars : List (List Nat)) (M : List (List SCell)) (hc : ∀ ch ∈ chars, tab ∉ ch) :
    readScorer (writeScorer chars M) = chars.zip M := by
  unfold readScorer writeScorer
  rw [List.map_map]
  have : ∀ p ∈ chars.zip M,
      ((fun l => ((readScorerLine l).1, (readScorerLine l).2.map scRead)) ∘ fun p => scorerLine p.1 (p.2.map scText)) p = p := by
    intro p hp
    have hch : tab ∉ p.1 := hc p.1 (List.of_mem_zip hp).1
    simp only [Function.comp]
    rw [C13_scorer_line p.1 (p.2.map scText) hch (by
      intro v hv
      obtain ⟨c, _, rfl⟩ := List.mem_map.mp hv
      exact scText_notab c)]
    simp [List.map_map, Function.comp_def, scRead_scText]
  rw [List.map_congr_left this]
  simp

end Verif.Line
