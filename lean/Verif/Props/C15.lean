import Verif.Model.TreeDist
set_option linter.unusedSimpArgs false
/-!
# C15 — the bipartition scanner reads exactly the clades of the printed tree

`scan (elems t) = clades t`: the bracket-counting loop of `get_bipartition`, run on the
comma-separated elements of the printed tree, returns the leaf lists of the internal nodes
(post-order), for every tree whose internal nodes have at least two children.  Since the
distances are functions of these clade *sets* only, they cannot depend on the order in
which children are written.
-/
namespace Verif.TreeDist

theorem scanFrom_append (es1 es2 : List Elem) (i : Nat) (st : ScanSt) :
    scanFrom (es1 ++ es2) i st = (scanFrom es1 i st).bind (scanFrom es2 (i + es1.length)) := by
  induction es1 generalizing i st with
  | nil => simp [scanFrom]
  | cons e es ih =>
    simp only [List.cons_append, scanFrom, List.length_cons]
    cases h : scanElem st i e with
    | none => simp
    | some st' =>
      simp only [Option.bind_some]
      rw [ih]
      congr 2
      omega

mutual
theorem elemsWith_length : ∀ (o c : Nat) (t : Tree), (elemsWith o c t).length = (leaves t).length
  | o, c, .leaf n => by simp [elemsWith, leaves]
  | o, c, .node cs => by simp only [elemsWith, leaves]; exact elemsL_length (o+1) (c+1) cs
theorem elemsL_length : ∀ (o c : Nat) (ts : List Tree), (elemsL o c ts).length = (leavesL ts).length
  | _, _, [] => by simp [elemsL, leavesL]
  | o, c, [t] => by simp only [elemsL, leavesL, List.append_nil]; exact elemsWith_length o c t
  | o, c, t :: t' :: ts => by
    simp only [elemsL, leavesL, List.length_append]
    rw [elemsWith_length o 0 t, elemsL_length 0 c (t' :: ts)]
    simp [leavesL]
end

/-- closing `c` brackets does not touch the leaf stack: it pops `c` start indices -/
theorem closeLoop_succ (c : Nat) (stack : List Nat) (s : Nat) (ind : List Nat) (parts : List (List Nat)) :
    closeLoop (c+1) ⟨stack, s :: ind, parts⟩ = closeLoop c ⟨stack, ind, parts ++ [stack.drop s]⟩ := by
  simp [closeLoop]

mutual
theorem scan_tree : ∀ (t : Tree), Proper t = true → ∀ (o c : Nat),
    (o = 0 ∨ c = 0 ∨ ∃ cs, t = .node cs) →
    ∀ (s0 I : List Nat) (P : List (List Nat)),
      scanFrom (elemsWith o c t) s0.length ⟨s0, I, P⟩ =
        closeLoop c ⟨s0 ++ leaves t, List.replicate o s0.length ++ I, P ++ clades t⟩
  | .leaf n, _, o, c, h, s0, I, P => by
    have hoc : o = 0 ∨ c = 0 := by
      rcases h with h | h | ⟨cs, h⟩
      · exact Or.inl h
      · exact Or.inr h
      · cases h
    simp only [elemsWith, scanFrom, leaves, clades, List.append_nil, scanElem]
    rcases hoc with rfl | rfl
    · cases c with
      | zero => simp [closeLoop, scanFrom]
      | succ c => simp [scanFrom]
    · cases o with
      | zero => simp [closeLoop, scanFrom]
      | succ o => simp [closeLoop, scanFrom]
  | .node cs, hp, o, c, _, s0, I, P => by
    simp only [Proper, Bool.and_eq_true, decide_eq_true_eq] at hp
    simp only [elemsWith, leaves, clades]
    rw [scan_list cs hp.2 (by intro h; rw [h] at hp; simp at hp) (o+1) (c+1) (Or.inr (Or.inr hp.1)) s0 I P]
    rw [List.replicate_succ, List.cons_append, closeLoop_succ]
    simp [List.append_assoc]
theorem scan_list : ∀ (ts : List Tree), ProperL ts = true → ts ≠ [] → ∀ (o c : Nat),
    (o = 0 ∨ c = 0 ∨ 2 ≤ ts.length) →
    ∀ (s0 I : List Nat) (P : List (List Nat)),
      scanFrom (elemsL o c ts) s0.length ⟨s0, I, P⟩ =
        closeLoop c ⟨s0 ++ leavesL ts, List.replicate o s0.length ++ I, P ++ cladesL ts⟩
  | [], _, hne, _, _, _, _, _, _ => absurd rfl hne
  | [t], hp, _, o, c, h, s0, I, P => by
    simp only [ProperL, Bool.and_true] at hp
    simp only [elemsL, leavesL, cladesL, List.append_nil]
    apply scan_tree t hp o c
    rcases h with h | h | h
    · exact Or.inl h
    · exact Or.inr (Or.inl h)
    · simp at h
  | t :: t' :: ts, hp, _, o, c, _, s0, I, P => by
    simp only [ProperL, Bool.and_eq_true] at hp
    simp only [elemsL, leavesL, cladesL]
    rw [scanFrom_append, scan_tree t hp.1 o 0 (Or.inr (Or.inl rfl)) s0 I P]
    simp only [closeLoop, Option.bind_some]
    have hlen : s0.length + (elemsWith o 0 t).length = (s0 ++ leaves t).length := by
      rw [elemsWith_length]; simp
    rw [hlen]
    have := scan_list (t' :: ts) (by simp [ProperL, hp.2]) (by simp) 0 c (Or.inl rfl) (s0 ++ leaves t)
      (List.replicate o s0.length ++ I) (P ++ clades t)
    simp only [List.replicate_zero, List.nil_append] at this
    rw [this]
    simp [leavesL, cladesL, List.append_assoc]
end


/-- **C15, scanner correctness**: for a tree with at least one internal node, all of whose
internal nodes have at least two children, `get_bipartition`'s loop returns exactly the
clades of the tree (leaf lists of the internal nodes in post-order) and does not raise. -/
theorem C15_bipart_correct (cs : List Tree) (hp : Proper (.node cs) = true) :
    scan (elems (.node cs)) = some (clades (.node cs)) := by
  have h := scan_tree (.node cs) hp 0 0 (Or.inl rfl) [] [] []
  simp only [List.length_nil, List.replicate_zero, List.nil_append, closeLoop] at h
  simp only [scan, elems, h]
  simp [clades]

/-- the partition list of a printed tree depends only on the tree's clades – in particular
two writings of trees with the same clade lists are scanned identically -/
theorem C15_scan_congr (cs cs' : List Tree) (hp : Proper (.node cs) = true) (hp' : Proper (.node cs') = true)
    (h : clades (.node cs) = clades (.node cs')) :
    scan (elems (.node cs)) = scan (elems (.node cs')) := by
  rw [C15_bipart_correct cs hp, C15_bipart_correct cs' hp', h]

/-- **rf of a split list with itself is 0** (formula level: every split of A is found in A) -/
theorem C15_rf_self (pa : List (List Nat)) (la : List Nat) (hne : pa ≠ []) :
    ∃ g, grfParts pa la pa la = some (g, ((0 : Int), pa.length + pa.length)) := by
  have he : (pa.filter fun u => pa.contains u || pa.contains (setDiff la u)).length = pa.length := by
    congr 1
    apply List.filter_eq_self.mpr
    intro u hu
    simp [List.contains_iff_mem, hu]
  have hlen : pa.length ≠ 0 := by simpa using hne
  have hz : ((pa.length : Int) + pa.length - 2 * pa.length) = 0 := by omega
  simp only [grfParts, hlen, if_false, he, hz]
  exact ⟨_, rfl⟩

/-- **range, upper half**: both numerators are at most their denominators (distance ≤ 1),
and the grf numerator is a natural number (distance ≥ 0). -/
theorem C15_range_upper (pa : List (List Nat)) (la : List Nat) (pb : List (List Nat)) (lb : List Nat)
    (g : Nat × Nat) (r : Int × Nat) (h : grfParts pa la pb lb = some (g, r)) :
    g.1 ≤ g.2 ∧ r.1 ≤ r.2 := by
  simp only [grfParts] at h
  split at h
  · cases h
  · simp only [Option.some.injEq, Prod.mk.injEq] at h
    obtain ⟨rfl, rfl⟩ := h
    constructor
    · simp
    · simp only; omega

example : scan (elems (.node [.node [.leaf 0, .leaf 1], .node [.leaf 2, .leaf 3]])) =
    some [[0, 1], [2, 3], [0, 1, 2, 3]] := by decide

end Verif.TreeDist
