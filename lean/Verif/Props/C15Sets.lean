import Mathlib.Data.Finset.Card
import Mathlib.Data.Finset.SymmDiff
import Verif.Props.C15
set_option linter.unusedSimpArgs false
set_option linter.unusedVariables false
set_option linter.unusedSectionVars false
/-!
# C15 — distances are functions of the sets of splits

Sets of taxa are strictly sorted lists (`toSet`).  A split `{u, L \ u}` has a canonical side
`canon L u` (the one holding the smallest taxon).  For lists of splits that are *well formed*
(`WFS`: subsets of `L`, pairwise different as splits) – which is what `bipartition` returns –
* the number of shared splits counted by `grf` is `|A* ∩ B*|` for the sets `A*`, `B*` of canonical
  sides, hence `rf` is symmetric, equals `|A* Δ B*| / (|A*| + |B*|)` and is never negative;
* the compatibility count of the generalised distance is a function of `A*` and `B*` as well;
* `A*` only depends on the *sets* of leaves below the internal nodes, which do not change when the
  children of any node are listed in another order.
-/
namespace Verif.TreeDist

abbrev SSorted (u : List Nat) : Prop := u.Pairwise (· < ·)

/-! ### sorted lists as sets -/

theorem mem_insertSorted (x y : Nat) : ∀ (l : List Nat), y ∈ insertSorted x l ↔ y = x ∨ y ∈ l
  | [] => by simp [insertSorted]
  | z :: zs => by
    simp only [insertSorted]
    split
    · simp
    · split
      · rename_i h; subst h; simp
      · simp [mem_insertSorted x y zs]; tauto

theorem sorted_insertSorted (x : Nat) : ∀ (l : List Nat), SSorted l → SSorted (insertSorted x l)
  | [], _ => by simp [insertSorted]
  | z :: zs, h => by
    simp only [insertSorted]
    have hz := List.pairwise_cons.mp h
    split
    · rename_i hlt
      exact List.pairwise_cons.mpr ⟨fun a ha => by
        rcases List.mem_cons.mp ha with rfl | ha
        · exact hlt
        · exact Nat.lt_trans hlt (hz.1 a ha), h⟩
    · split
      · exact h
      · rename_i h1 h2
        refine List.pairwise_cons.mpr ⟨?_, sorted_insertSorted x zs hz.2⟩
        intro a ha
        rcases (mem_insertSorted x a zs).mp ha with rfl | ha
        · omega
        · exact hz.1 a ha

theorem mem_toSet (y : Nat) : ∀ (l : List Nat), y ∈ toSet l ↔ y ∈ l
  | [] => by simp [toSet]
  | x :: xs => by
    have ih := mem_toSet y xs
    simp only [toSet, List.foldr_cons] at ih ⊢
    rw [mem_insertSorted, ih]; simp

theorem sorted_toSet : ∀ (l : List Nat), SSorted (toSet l)
  | [] => by simp [toSet]
  | x :: xs => by
    have ih := sorted_toSet xs
    simp only [toSet, List.foldr_cons] at ih ⊢
    exact sorted_insertSorted x _ ih

theorem mem_setDiff (a b : List Nat) (y : Nat) : y ∈ setDiff a b ↔ y ∈ a ∧ y ∉ b := by
  simp [setDiff, List.mem_filter]

theorem sorted_setDiff (a b : List Nat) (h : SSorted a) : SSorted (setDiff a b) :=
  List.Pairwise.sublist List.filter_sublist h

/-- extensionality for strictly sorted lists -/
theorem sorted_ext (u v : List Nat) (hu : SSorted u) (hv : SSorted v) (h : ∀ x, x ∈ u ↔ x ∈ v) : u = v := by
  have hnu : u.Nodup := hu.imp (fun h => Nat.ne_of_lt h)
  have hnv : v.Nodup := hv.imp (fun h => Nat.ne_of_lt h)
  have hp := (List.perm_ext_iff_of_nodup hnu hnv).mpr h
  exact List.Perm.eq_of_pairwise (le := fun a b : Nat => a < b) (fun a b _ _ h1 h2 => by omega) hu hv hp

theorem toSet_congr (l l' : List Nat) (h : ∀ x, x ∈ l ↔ x ∈ l') : toSet l = toSet l' :=
  sorted_ext _ _ (sorted_toSet l) (sorted_toSet l') (fun x => by rw [mem_toSet, mem_toSet, h])

theorem toSet_of_sorted (u : List Nat) (h : SSorted u) : toSet u = u :=
  sorted_ext _ _ (sorted_toSet u) h (fun x => mem_toSet x u)

def Sub (u L : List Nat) : Prop := ∀ x ∈ u, x ∈ L

/-- complement is an involution on sorted subsets -/
theorem compl_compl (L u : List Nat) (hL : SSorted L) (hu : SSorted u) (hs : Sub u L) :
    setDiff L (setDiff L u) = u := by
  apply sorted_ext _ _ (sorted_setDiff _ _ hL) hu
  intro x
  simp only [mem_setDiff]
  constructor
  · rintro ⟨h1, h2⟩
    by_cases hx : x ∈ u
    · exact hx
    · exact absurd ⟨h1, hx⟩ h2
  · intro hx; exact ⟨hs x hx, fun h => h.2 hx⟩

theorem sub_compl (L u : List Nat) : Sub (setDiff L u) L := fun x hx => ((mem_setDiff L u x).mp hx).1

theorem contains_iff (u : List Nat) (x : Nat) : u.contains x = true ↔ x ∈ u := by simp

/-! ### the canonical side of a split -/

/-- the side that holds the smallest taxon -/
def canon (L u : List Nat) : List Nat := if u.contains (L.headD 0) then u else setDiff L u

theorem canon_compl (L u : List Nat) (hL : SSorted L) (hne : L ≠ []) (hu : SSorted u) (hs : Sub u L) :
    canon L (setDiff L u) = canon L u := by
  have hm : L.headD 0 ∈ L := by cases L with | nil => exact absurd rfl hne | cons a _ => simp
  unfold canon
  by_cases h : L.headD 0 ∈ u
  · have h' : L.headD 0 ∉ setDiff L u := fun hh => ((mem_setDiff L u _).mp hh).2 h
    simp only [contains_iff, h, h', if_true, if_false]
    exact compl_compl L u hL hu hs
  · have h' : L.headD 0 ∈ setDiff L u := (mem_setDiff L u _).mpr ⟨hm, h⟩
    simp only [contains_iff, h, h', if_true, if_false]

theorem canon_cases (L u : List Nat) : canon L u = u ∨ canon L u = setDiff L u := by
  unfold canon; split <;> simp

theorem canon_eq_iff (L u v : List Nat) (hL : SSorted L) (hne : L ≠ []) (hu : SSorted u) (hsu : Sub u L)
    (hv : SSorted v) (hsv : Sub v L) :
    canon L u = canon L v ↔ (u = v ∨ u = setDiff L v) := by
  constructor
  · intro h
    rcases canon_cases L u with h1 | h1 <;> rcases canon_cases L v with h2 | h2
    · left; rw [← h1, ← h2, h]
    · right; rw [← h1, ← h2, h]
    · right
      have : setDiff L u = v := by rw [← h1, ← h2, h]
      rw [← this, compl_compl L u hL hu hsu]
    · left
      have : setDiff L u = setDiff L v := by rw [← h1, ← h2, h]
      have := congrArg (setDiff L) this
      rwa [compl_compl L u hL hu hsu, compl_compl L v hL hv hsv] at this
  · rintro (rfl | rfl)
    · rfl
    · exact canon_compl L v hL hne hv hsv

theorem canon_sorted (L u : List Nat) (hL : SSorted L) (hu : SSorted u) : SSorted (canon L u) := by
  rcases canon_cases L u with h | h <;> rw [h]
  · exact hu
  · exact sorted_setDiff _ _ hL

theorem canon_sub (L u : List Nat) (hs : Sub u L) : Sub (canon L u) L := by
  rcases canon_cases L u with h | h <;> rw [h]
  · exact hs
  · exact sub_compl L u

/-! ### well-formed lists of splits and the set of their canonical sides -/

structure WFS (L : List Nat) (pa : List (List Nat)) : Prop where
  sortedL : SSorted L
  ne : L ≠ []
  elems : ∀ u ∈ pa, SSorted u ∧ Sub u L
  inj : (pa.map (canon L)).Nodup

/-- the set of splits, each given by its canonical side -/
def cs (L : List Nat) (pa : List (List Nat)) : Finset (List Nat) := (pa.map (canon L)).toFinset

theorem cs_card {L : List Nat} {pa : List (List Nat)} (h : WFS L pa) : (cs L pa).card = pa.length := by
  unfold cs
  rw [List.toFinset_card_of_nodup h.inj, List.length_map]

theorem mem_cs (L : List Nat) (pa : List (List Nat)) (a : List Nat) : a ∈ cs L pa ↔ ∃ u ∈ pa, canon L u = a := by
  simp [cs]

/-- counting the elements of `pa` that satisfy a predicate which only looks at the canonical side -/
theorem count_via_cs {L : List Nat} {pa : List (List Nat)} (h : WFS L pa) (Q : List Nat → Bool) (Q' : List Nat → Prop)
    [DecidablePred Q'] (hQ : ∀ u ∈ pa, Q u = true ↔ Q' (canon L u)) :
    (pa.filter Q).length = ((cs L pa).filter Q').card := by
  have h1 : ((pa.filter Q).map (canon L)) = (pa.map (canon L)).filter (fun a => decide (Q' a)) := by
    rw [List.filter_map]
    congr 1
    apply List.filter_congr
    intro u hu
    simp only [Function.comp]
    by_cases hq : Q u = true
    · simp [hq, (hQ u hu).mp hq]
    · have : ¬ Q' (canon L u) := fun hh => hq ((hQ u hu).mpr hh)
      simp [hq, this]
  have h2 : ((pa.filter Q).map (canon L)).Nodup := by
    rw [h1]; exact h.inj.filter _
  calc (pa.filter Q).length = ((pa.filter Q).map (canon L)).length := by simp
    _ = ((pa.filter Q).map (canon L)).toFinset.card := (List.toFinset_card_of_nodup h2).symm
    _ = ((cs L pa).filter Q').card := by
      rw [h1, List.toFinset_filter]
      unfold cs
      congr 1
      ext a
      simp

/-! ### shared splits: `rf` -/

/-- the count `e` of `grf` -/
def sharedCount (pa : List (List Nat)) (la : List Nat) (pb : List (List Nat)) : Nat :=
  (pa.filter fun u => pb.contains u || pb.contains (setDiff la u)).length

def rfNum (pa : List (List Nat)) (la : List Nat) (pb : List (List Nat)) : Int :=
  ((pa.length + pb.length : Nat) : Int) - 2 * (sharedCount pa la pb : Nat)

theorem grfParts_rf (pa : List (List Nat)) (la : List Nat) (pb : List (List Nat)) (lb : List Nat)
    (r : (Nat × Nat) × (Int × Nat)) (h : grfParts pa la pb lb = some r) :
    r.2 = (rfNum pa la pb, pa.length + pb.length) := by
  unfold grfParts at h
  simp only at h
  split at h
  · cases h
  · simp only [Option.some.injEq] at h
    subst h
    simp [rfNum, sharedCount]

theorem shared_iff {L : List Nat} {pa pb : List (List Nat)} (hA : WFS L pa) (hB : WFS L pb) (u : List Nat)
    (hu : u ∈ pa) : (pb.contains u || pb.contains (setDiff L u)) = true ↔ canon L u ∈ cs L pb := by
  obtain ⟨su, subu⟩ := hA.elems u hu
  simp only [Bool.or_eq_true, List.contains_iff_mem, mem_cs]
  constructor
  · rintro (h | h)
    · exact ⟨u, h, rfl⟩
    · exact ⟨_, h, canon_compl L u hA.sortedL hA.ne su subu⟩
  · rintro ⟨v, hv, hcv⟩
    obtain ⟨sv, subv⟩ := hB.elems v hv
    rcases (canon_eq_iff L u v hA.sortedL hA.ne su subu sv subv).mp hcv.symm with rfl | h
    · exact Or.inl hv
    · right
      rw [h, compl_compl L v hA.sortedL sv subv]; exact hv

theorem shared_eq_inter {L : List Nat} {pa pb : List (List Nat)} (hA : WFS L pa) (hB : WFS L pb) :
    sharedCount pa L pb = (cs L pa ∩ cs L pb).card := by
  unfold sharedCount
  rw [count_via_cs hA _ (fun a => a ∈ cs L pb) (fun u hu => shared_iff hA hB u hu), Finset.filter_mem_eq_inter]

/-- **rf is symmetric** -/
theorem C15_rf_symm {L : List Nat} {pa pb : List (List Nat)} (hA : WFS L pa) (hB : WFS L pb) :
    rfNum pa L pb = rfNum pb L pa := by
  unfold rfNum
  rw [shared_eq_inter hA hB, shared_eq_inter hB hA, Finset.inter_comm, Nat.add_comm]

theorem card_symmDiff_add (A B : Finset (List Nat)) :
    (symmDiff A B).card + 2 * (A ∩ B).card = A.card + B.card := by
  have h1 := Finset.card_sdiff_add_card_inter A B
  have h2 := Finset.card_sdiff_add_card_inter B A
  rw [Finset.inter_comm B A] at h2
  have hd : Disjoint (A \ B) (B \ A) := disjoint_sdiff_sdiff
  have : (symmDiff A B).card = (A \ B).card + (B \ A).card := by
    rw [symmDiff_def, ← Finset.card_union_of_disjoint hd]; rfl
  omega

/-- **rf is the normalised symmetric difference** of the two sets of splits: its numerator is
`|A* Δ B*|`, its denominator `|A*| + |B*|` … -/
theorem C15_rf_symmDiff {L : List Nat} {pa pb : List (List Nat)} (hA : WFS L pa) (hB : WFS L pb) :
    rfNum pa L pb = ((symmDiff (cs L pa) (cs L pb)).card : Int) ∧
    pa.length + pb.length = (cs L pa).card + (cs L pb).card := by
  have h := card_symmDiff_add (cs L pa) (cs L pb)
  rw [cs_card hA, cs_card hB] at h
  refine ⟨?_, by rw [cs_card hA, cs_card hB]⟩
  unfold rfNum
  rw [shared_eq_inter hA hB]
  omega

/-- … and therefore never negative -/
theorem C15_rf_nonneg {L : List Nat} {pa pb : List (List Nat)} (hA : WFS L pa) (hB : WFS L pb) :
    0 ≤ rfNum pa L pb := by
  rw [(C15_rf_symmDiff hA hB).1]; exact Int.natCast_nonneg _

/-! ### the compatibility count of the generalised distance -/

def compat (la lb u ep : List Nat) : Bool :=
  subsetB u ep || subsetB (setDiff la u) ep ||
    (subsetB u (setDiff lb ep) || subsetB (setDiff la u) (setDiff lb ep))

theorem compat_canon_left (L u ep : List Nat) (hL : SSorted L) (hu : SSorted u) (hs : Sub u L) :
    compat L L (canon L u) ep = compat L L u ep := by
  rcases canon_cases L u with h | h <;> rw [h]
  unfold compat
  rw [compl_compl L u hL hu hs]
  generalize subsetB u ep = a
  generalize subsetB (setDiff L u) ep = b
  generalize subsetB u (setDiff L ep) = c
  generalize subsetB (setDiff L u) (setDiff L ep) = d
  cases a <;> cases b <;> cases c <;> cases d <;> rfl

theorem compat_canon_right (L u ep : List Nat) (hL : SSorted L) (he : SSorted ep) (hs : Sub ep L) :
    compat L L u (canon L ep) = compat L L u ep := by
  rcases canon_cases L ep with h | h <;> rw [h]
  unfold compat
  rw [compl_compl L ep hL he hs]
  generalize subsetB u ep = a
  generalize subsetB (setDiff L u) ep = b
  generalize subsetB u (setDiff L ep) = c
  generalize subsetB (setDiff L u) (setDiff L ep) = d
  cases a <;> cases b <;> cases c <;> cases d <;> rfl

/-- the count `e_mod` of `grf` -/
def modCount (pa : List (List Nat)) (la : List Nat) (pb : List (List Nat)) (lb : List Nat) : Nat :=
  (pa.filter fun u => !pb.isEmpty && pb.all (compat la lb u)).length

/-- compatible with every split of `B` -/
def CompatAll (L : List Nat) (B : Finset (List Nat)) (a : List Nat) : Prop :=
  B.Nonempty ∧ ∀ b ∈ B, compat L L a b = true

instance (L : List Nat) (B : Finset (List Nat)) : DecidablePred (CompatAll L B) := fun a => by
  unfold CompatAll; exact inferInstance

theorem mod_eq_sets {L : List Nat} {pa pb : List (List Nat)} (hA : WFS L pa) (hB : WFS L pb) :
    modCount pa L pb L = ((cs L pa).filter (CompatAll L (cs L pb))).card := by
  unfold modCount
  apply count_via_cs hA
  intro u hu
  obtain ⟨su, subu⟩ := hA.elems u hu
  simp only [Bool.and_eq_true, Bool.not_eq_true', List.isEmpty_eq_false_iff, List.all_eq_true, CompatAll]
  constructor
  · rintro ⟨hne, hall⟩
    constructor
    · obtain ⟨v, hv⟩ := List.exists_mem_of_ne_nil _ hne
      exact ⟨canon L v, (mem_cs L pb _).mpr ⟨v, hv, rfl⟩⟩
    · intro b hb
      obtain ⟨v, hv, rfl⟩ := (mem_cs L pb b).mp hb
      obtain ⟨sv, subv⟩ := hB.elems v hv
      rw [compat_canon_left L u _ hA.sortedL su subu, compat_canon_right L u v hA.sortedL sv subv]
      exact hall v hv
  · rintro ⟨⟨b, hb⟩, hall⟩
    obtain ⟨v, hv, _⟩ := (mem_cs L pb b).mp hb
    refine ⟨List.ne_nil_of_mem hv, ?_⟩
    intro ep hep
    obtain ⟨se, sube⟩ := hB.elems ep hep
    have := hall (canon L ep) ((mem_cs L pb _).mpr ⟨ep, hep, rfl⟩)
    rwa [compat_canon_left L u _ hA.sortedL su subu, compat_canon_right L u ep hA.sortedL se sube] at this

/-- both distances as functions of the two sets of splits -/
def grfSets (L : List Nat) (A B : Finset (List Nat)) : Option ((Nat × Nat) × (Int × Nat)) :=
  if A.card = 0 then none else
  some ((A.card - (A.filter (CompatAll L B)).card, A.card),
        (((A.card + B.card : Nat) : Int) - 2 * ((A ∩ B).card : Nat), A.card + B.card))

/-- **both distances depend on the two trees only through their sets of splits** -/
theorem grfParts_eq_sets {L : List Nat} {pa pb : List (List Nat)} (hA : WFS L pa) (hB : WFS L pb) :
    grfParts pa L pb L = grfSets L (cs L pa) (cs L pb) := by
  have h1 := shared_eq_inter hA hB
  have h2 := mod_eq_sets hA hB
  unfold sharedCount at h1
  unfold modCount compat at h2
  unfold grfParts grfSets
  simp only [cs_card hA, cs_card hB, h1, h2]
  split <;> simp

/-! ### what `get_bipartition` keeps -/

/-- the test of the source for a split worth keeping -/
def NTb (L s : List Nat) : Bool :=
  !((setDiff L s).length == 1 || s.length == 1) && (decide (0 < s.length) && decide (0 < (setDiff L s).length))

def bipStep (L : List Nat) (acc : List (List Nat)) (x : List Nat) : List (List Nat) :=
  if (setDiff L (toSet x)).length == 1 || (toSet x).length == 1 then acc
  else if decide (0 < (toSet x).length) && decide (0 < (setDiff L (toSet x)).length) &&
      !acc.contains (toSet x) && !acc.contains (setDiff L (toSet x)) then acc ++ [toSet x]
  else acc

theorem bipartition_eq (parts : List (List Nat)) :
    bipartition parts = (parts.foldl (bipStep (toSet (parts.getLast?.getD []))) [],
      toSet (parts.getLast?.getD [])) := by
  unfold bipartition bipStep
  rfl

/-- the canonical non-trivial splits of a list of leaf lists -/
def csOf (L : List Nat) (parts : List (List Nat)) : Finset (List Nat) :=
  (((parts.map toSet).filter (NTb L)).map (canon L)).toFinset

theorem mem_csOf (L : List Nat) (parts : List (List Nat)) (a : List Nat) :
    a ∈ csOf L parts ↔ ∃ x ∈ parts, NTb L (toSet x) = true ∧ canon L (toSet x) = a := by
  simp only [csOf, List.mem_toFinset, List.mem_map, List.mem_filter]
  constructor
  · rintro ⟨s, ⟨⟨x, hx, rfl⟩, hnt⟩, rfl⟩; exact ⟨x, hx, hnt, rfl⟩
  · rintro ⟨x, hx, hnt, rfl⟩; exact ⟨toSet x, ⟨⟨x, hx, rfl⟩, hnt⟩, rfl⟩

theorem wfs_snoc {L : List Nat} {acc : List (List Nat)} (h : WFS L acc) (s : List Nat) (hs : SSorted s) (hsub : Sub s L)
    (hnew : canon L s ∉ cs L acc) : WFS L (acc ++ [s]) := by
  refine ⟨h.sortedL, h.ne, ?_, ?_⟩
  · intro u hu
    rcases List.mem_append.mp hu with hu | hu
    · exact h.elems u hu
    · simp only [List.mem_singleton] at hu; subst hu; exact ⟨hs, hsub⟩
  · rw [List.map_append, List.map_cons, List.map_nil, List.nodup_append]
    refine ⟨h.inj, by simp, ?_⟩
    intro a ha b hb
    simp only [List.mem_singleton] at hb
    subst hb
    intro e
    exact hnew (by rw [← e]; simpa [cs] using ha)

theorem bip_fold (L : List Nat) (hL : SSorted L) (hne : L ≠ []) :
    ∀ (parts : List (List Nat)) (acc : List (List Nat)) (done : List (List Nat)),
      (∀ x ∈ parts, Sub (toSet x) L) → WFS L acc → cs L acc = csOf L done →
      WFS L (parts.foldl (bipStep L) acc) ∧ cs L (parts.foldl (bipStep L) acc) = csOf L (done ++ parts)
  | [], acc, done, _, h, hc => by simpa using ⟨h, hc⟩
  | x :: rest, acc, done, hsub, h, hc => by
    have hx := hsub x List.mem_cons_self
    have hsx := sorted_toSet x
    have hrest : ∀ y ∈ rest, Sub (toSet y) L := fun y hy => hsub y (List.mem_cons_of_mem _ hy)
    -- is the split of `x` already represented?
    have hin : (acc.contains (toSet x) || acc.contains (setDiff L (toSet x))) = true ↔ canon L (toSet x) ∈ cs L acc := by
      have hone : WFS L [toSet x] := ⟨hL, hne, by
        intro u hu; simp only [List.mem_singleton] at hu; subst hu; exact ⟨hsx, hx⟩, by simp⟩
      exact shared_iff hone h (toSet x) (List.mem_singleton.mpr rfl)
    simp only [List.foldl_cons]
    have hdone : done ++ x :: rest = (done ++ [x]) ++ rest := by simp
    rw [hdone]
    -- three outcomes of the step
    by_cases hnt : NTb L (toSet x) = true
    · by_cases hold : canon L (toSet x) ∈ cs L acc
      · -- already there: nothing is added
        have hstep : bipStep L acc x = acc := by
          unfold bipStep
          have hc1 : (acc.contains (toSet x) || acc.contains (setDiff L (toSet x))) = true := hin.mpr hold
          simp only [NTb, Bool.and_eq_true, Bool.not_eq_true'] at hnt
          simp only [hnt.1, Bool.false_eq_true, if_false]
          have : (!acc.contains (toSet x) && !acc.contains (setDiff L (toSet x))) = false := by
            revert hc1
            generalize acc.contains (toSet x) = a
            generalize acc.contains (setDiff L (toSet x)) = b
            cases a <;> cases b <;> simp
          rw [Bool.and_assoc, this]
          simp
        rw [hstep]
        apply bip_fold L hL hne rest acc (done ++ [x]) hrest h
        rw [hc]
        ext a
        simp only [mem_csOf, List.mem_append, List.mem_singleton]
        constructor
        · rintro ⟨y, hy, h1, h2⟩; exact ⟨y, Or.inl hy, h1, h2⟩
        · rintro ⟨y, hy | rfl, h1, h2⟩
          · exact ⟨y, hy, h1, h2⟩
          · obtain ⟨z, hz, g1, g2⟩ := (mem_csOf L done _).mp (hc ▸ hold)
            exact ⟨z, hz, g1, g2.trans h2⟩
      · -- new: appended
        have hstep : bipStep L acc x = acc ++ [toSet x] := by
          unfold bipStep
          have hc1 : (acc.contains (toSet x) || acc.contains (setDiff L (toSet x))) = false := by
            cases hb : (acc.contains (toSet x) || acc.contains (setDiff L (toSet x))) with
            | false => rfl
            | true => exact absurd (hin.mp hb) hold
          simp only [NTb, Bool.and_eq_true, Bool.not_eq_true'] at hnt
          simp only [Bool.or_eq_false_iff] at hc1
          simp only [hnt.1, hnt.2.1, hnt.2.2, hc1.1, hc1.2, Bool.false_eq_true, if_false, Bool.not_false, Bool.and_self, if_true]
        rw [hstep]
        apply bip_fold L hL hne rest (acc ++ [toSet x]) (done ++ [x]) hrest (wfs_snoc h _ hsx hx hold)
        ext a
        simp only [cs, List.map_append, List.map_cons, List.map_nil, List.toFinset_append, Finset.mem_union,
          List.toFinset_cons, List.toFinset_nil, insert_empty_eq, Finset.mem_singleton, mem_csOf, List.mem_append,
          List.mem_singleton]
        have hc' : ∀ b, b ∈ (acc.map (canon L)).toFinset ↔ ∃ y ∈ done, NTb L (toSet y) = true ∧ canon L (toSet y) = b := by
          intro b
          have := (mem_csOf L done b)
          rw [← hc] at this
          exact this
        constructor
        · rintro (h1 | rfl)
          · obtain ⟨y, hy, g1, g2⟩ := (hc' a).mp h1
            exact ⟨y, Or.inl hy, g1, g2⟩
          · exact ⟨x, Or.inr rfl, hnt, rfl⟩
        · rintro ⟨y, hy | rfl, g1, g2⟩
          · exact Or.inl ((hc' a).mpr ⟨y, hy, g1, g2⟩)
          · exact Or.inr g2.symm
    · -- trivial split: skipped
      have hstep : bipStep L acc x = acc := by
        unfold bipStep
        simp only [NTb, Bool.and_eq_true, Bool.not_eq_true', not_and, decide_eq_true_eq] at hnt
        by_cases h1 : ((setDiff L (toSet x)).length == 1 || (toSet x).length == 1) = true
        · simp [h1]
        · have h1' : ((setDiff L (toSet x)).length == 1 || (toSet x).length == 1) = false := by simpa using h1
          simp only [h1', Bool.false_eq_true, if_false]
          have := hnt h1'
          by_cases h2 : 0 < (toSet x).length
          · have h3 := this h2
            simp [h2, h3]
          · simp [h2]
      rw [hstep]
      apply bip_fold L hL hne rest acc (done ++ [x]) hrest h
      rw [hc]
      ext a
      simp only [mem_csOf, List.mem_append, List.mem_singleton]
      constructor
      · rintro ⟨y, hy, h1, h2⟩; exact ⟨y, Or.inl hy, h1, h2⟩
      · rintro ⟨y, hy | rfl, h1, h2⟩
        · exact ⟨y, hy, h1, h2⟩
        · exact absurd h1 hnt

/-- **what `get_bipartition` returns is well formed, and its set of splits is the set of canonical
non-trivial splits of the leaf lists it was given** -/
theorem bipartition_wfs (parts : List (List Nat)) (hne : toSet (parts.getLast?.getD []) ≠ [])
    (hsub : ∀ x ∈ parts, Sub (toSet x) (toSet (parts.getLast?.getD []))) :
    WFS (bipartition parts).2 (bipartition parts).1 ∧
    cs (bipartition parts).2 (bipartition parts).1 = csOf (bipartition parts).2 parts := by
  rw [bipartition_eq]
  simp only
  have := bip_fold _ (sorted_toSet _) hne parts [] [] hsub
    ⟨sorted_toSet _, hne, (by intro u hu; cases hu), (by simp)⟩ (by simp [cs, csOf])
  simpa using this

/-! ### trees: the distance computed from two printed trees -/

theorem leavesL_eq (ts : List Tree) : leavesL ts = ts.flatMap leaves := by
  induction ts with
  | nil => rfl
  | cons t ts ih => simp [leavesL, ih]

theorem cladesL_eq (ts : List Tree) : cladesL ts = ts.flatMap clades := by
  induction ts with
  | nil => rfl
  | cons t ts ih => simp [cladesL, ih]

mutual
theorem clade_sub : ∀ (t : Tree), ∀ c ∈ clades t, ∀ y ∈ c, y ∈ leaves t
  | .leaf _, c, hc, _, _ => by simp [clades] at hc
  | .node cs, c, hc, y, hy => by
    simp only [clades, List.mem_append, List.mem_singleton] at hc
    simp only [leaves]
    rcases hc with hc | rfl
    · exact cladeL_sub cs c hc y hy
    · exact hy
theorem cladeL_sub : ∀ (ts : List Tree), ∀ c ∈ cladesL ts, ∀ y ∈ c, y ∈ leavesL ts
  | [], c, hc, _, _ => by simp [cladesL] at hc
  | t :: ts, c, hc, y, hy => by
    simp only [cladesL, List.mem_append] at hc
    simp only [leavesL, List.mem_append]
    rcases hc with hc | hc
    · exact Or.inl (clade_sub t c hc y hy)
    · exact Or.inr (cladeL_sub ts c hc y hy)
end

mutual
theorem leaves_ne_nil : ∀ (t : Tree), Proper t = true → leaves t ≠ []
  | .leaf n, _ => by simp [leaves]
  | .node cs, h => by
    simp only [Proper, Bool.and_eq_true, decide_eq_true_eq] at h
    simp only [leaves]
    cases cs with
    | nil => simp at h
    | cons c r =>
      simp only [ProperL, Bool.and_eq_true] at h
      simp only [leavesL]
      intro e
      exact leaves_ne_nil c h.2.1 (List.append_eq_nil_iff.mp e).1
end

mutual
/-- the same tree with the children of any nodes listed in another order -/
inductive Reord : Tree → Tree → Prop
  | leaf (n : Nat) : Reord (.leaf n) (.leaf n)
  | node {cs ds es : List Tree} : ReordL cs ds → ds.Perm es → Reord (.node cs) (.node es)
inductive ReordL : List Tree → List Tree → Prop
  | nil : ReordL [] []
  | cons {t t' : Tree} {ts ts' : List Tree} : Reord t t' → ReordL ts ts' → ReordL (t :: ts) (t' :: ts')
end

/-- the sets of leaves below the internal nodes -/
def cladeSets (t : Tree) : List (List Nat) := (clades t).map toSet

mutual
theorem reord_inv : ∀ (t t' : Tree), Reord t t' →
    (leaves t).Perm (leaves t') ∧ ∀ s, s ∈ (clades t).map toSet ↔ s ∈ (clades t').map toSet
  | _, _, .leaf n => ⟨List.Perm.refl _, fun _ => Iff.rfl⟩
  | _, _, @Reord.node cs ds es h hp => by
    obtain ⟨h1, h2⟩ := reordL_inv cs ds h
    have p1 : (leavesL ds).Perm (leavesL es) := by
      rw [leavesL_eq, leavesL_eq]; exact hp.flatMap_right _
    have p2 : (cladesL ds).Perm (cladesL es) := by
      rw [cladesL_eq, cladesL_eq]; exact hp.flatMap_right _
    refine ⟨h1.trans p1, ?_⟩
    intro s
    simp only [clades, List.map_append, List.map_cons, List.map_nil, List.mem_append, List.mem_singleton]
    have hl : toSet (leavesL cs) = toSet (leavesL es) := toSet_congr _ _ (fun x => (h1.trans p1).mem_iff)
    rw [h2 s, hl, (p2.map toSet).mem_iff]
theorem reordL_inv : ∀ (ts ts' : List Tree), ReordL ts ts' →
    (leavesL ts).Perm (leavesL ts') ∧ ∀ s, s ∈ (cladesL ts).map toSet ↔ s ∈ (cladesL ts').map toSet
  | _, _, .nil => ⟨List.Perm.refl _, fun _ => Iff.rfl⟩
  | _, _, @ReordL.cons t t' ts ts' h hs => by
    obtain ⟨a1, a2⟩ := reord_inv t t' h
    obtain ⟨b1, b2⟩ := reordL_inv ts ts' hs
    refine ⟨by simp only [leavesL]; exact a1.append b1, ?_⟩
    intro s
    simp only [cladesL, List.map_append, List.mem_append, a2 s, b2 s]
end

/-- the taxa and the set of canonical splits of a tree -/
def taxa (t : Tree) : List Nat := toSet (leaves t)
def splits (t : Tree) : Finset (List Nat) := csOf (taxa t) (clades t)

theorem csOf_congr (L : List Nat) (p p' : List (List Nat)) (h : ∀ s, s ∈ p.map toSet ↔ s ∈ p'.map toSet) :
    csOf L p = csOf L p' := by
  ext a
  simp only [csOf, List.mem_toFinset, List.mem_map, List.mem_filter]
  constructor
  · rintro ⟨s, ⟨hs, hnt⟩, rfl⟩; exact ⟨s, ⟨(h s).mp (by simpa using hs) |> (by simpa using ·), hnt⟩, rfl⟩
  · rintro ⟨s, ⟨hs, hnt⟩, rfl⟩; exact ⟨s, ⟨(h s).mpr (by simpa using hs) |> (by simpa using ·), hnt⟩, rfl⟩

/-- **the set of splits does not depend on the order in which children are written** -/
theorem C15_splits_reorder (t t' : Tree) (h : Reord t t') : taxa t = taxa t' ∧ splits t = splits t' := by
  obtain ⟨h1, h2⟩ := reord_inv t t' h
  have hL : taxa t = taxa t' := toSet_congr _ _ (fun x => h1.mem_iff)
  exact ⟨hL, by unfold splits; rw [hL]; exact csOf_congr _ _ _ h2⟩

/-- what the code computes for two properly written trees on the same taxa, in terms of sets -/
theorem treeDist_eq_sets (xs ys : List Tree) (hp : Proper (.node xs) = true) (hq : Proper (.node ys) = true)
    (hL : taxa (.node xs) = taxa (.node ys)) :
    treeDist (.node xs) (.node ys) =
      grfSets (taxa (.node xs)) (splits (.node xs)) (splits (.node ys)) := by
  unfold treeDist
  rw [C15_bipart_correct xs hp, C15_bipart_correct ys hq]
  simp only
  have key : ∀ (es : List Tree), Proper (.node es) = true →
      WFS (taxa (.node es)) (bipartition (clades (.node es))).1 ∧
      (bipartition (clades (.node es))).2 = taxa (.node es) ∧
      cs (taxa (.node es)) (bipartition (clades (.node es))).1 = splits (.node es) := by
    intro es he
    have hlast : (clades (.node es)).getLast?.getD [] = leavesL es := by simp [clades]
    have hne : toSet ((clades (.node es)).getLast?.getD []) ≠ [] := by
      rw [hlast]
      intro e
      have hl := leaves_ne_nil (.node es) he
      simp only [leaves] at hl
      obtain ⟨y, hy⟩ := List.exists_mem_of_ne_nil _ hl
      have := (mem_toSet y (leavesL es)).mpr hy
      rw [e] at this; cases this
    have hsub : ∀ x ∈ clades (.node es), Sub (toSet x) (toSet ((clades (.node es)).getLast?.getD [])) := by
      intro x hx y hy
      rw [hlast, mem_toSet]
      have := clade_sub (.node es) x hx y ((mem_toSet y x).mp hy)
      simpa [leaves] using this
    obtain ⟨w1, w2⟩ := bipartition_wfs (clades (.node es)) hne hsub
    have h2 : (bipartition (clades (.node es))).2 = taxa (.node es) := by
      rw [bipartition_eq]; simp only [hlast, taxa, leaves]
    rw [h2] at w1 w2
    exact ⟨w1, h2, w2⟩
  obtain ⟨a1, a2, a3⟩ := key xs hp
  obtain ⟨b1, b2, b3⟩ := key ys hq
  rw [a2, b2, ← hL] at *
  rw [← hL] at b1 b3
  rw [grfParts_eq_sets a1 b1, a3, b3]

/-! ### the clauses of C15 for trees -/

/-- **C15, order invariance**: listing the children of any nodes of one tree in another order changes
neither distance, in either argument position. -/
theorem C15_reorder_invariant (xs xs' ys : List Tree) (hp : Proper (.node xs) = true) (hp' : Proper (.node xs') = true)
    (hq : Proper (.node ys) = true) (hr : Reord (.node xs) (.node xs')) (hL : taxa (.node xs) = taxa (.node ys)) :
    treeDist (.node xs) (.node ys) = treeDist (.node xs') (.node ys) ∧
    treeDist (.node ys) (.node xs) = treeDist (.node ys) (.node xs') := by
  obtain ⟨h1, h2⟩ := C15_splits_reorder _ _ hr
  rw [treeDist_eq_sets xs ys hp hq hL, treeDist_eq_sets xs' ys hp' hq (h1 ▸ hL),
    treeDist_eq_sets ys xs hq hp hL.symm, treeDist_eq_sets ys xs' hq hp' (h1 ▸ hL).symm, h1, h2]
  exact ⟨rfl, rfl⟩

/-- **C15, rf is symmetric and is the normalised symmetric difference of the two sets of splits**
(whenever the code returns a value in both directions). -/
theorem C15_rf_trees (xs ys : List Tree) (hp : Proper (.node xs) = true) (hq : Proper (.node ys) = true)
    (hL : taxa (.node xs) = taxa (.node ys)) (r r' : (Nat × Nat) × (Int × Nat))
    (h : treeDist (.node xs) (.node ys) = some r) (h' : treeDist (.node ys) (.node xs) = some r') :
    r.2 = r'.2 ∧
    r.2.1 = ((symmDiff (splits (.node xs)) (splits (.node ys))).card : Int) ∧
    r.2.2 = (splits (.node xs)).card + (splits (.node ys)).card ∧ 0 ≤ r.2.1 := by
  rw [treeDist_eq_sets xs ys hp hq hL] at h
  rw [treeDist_eq_sets ys xs hq hp hL.symm] at h'
  unfold grfSets at h h'
  split at h
  · cases h
  · split at h'
    · cases h'
    · simp only [Option.some.injEq] at h h'
      subst h; subst h'
      have hs := card_symmDiff_add (splits (.node xs)) (splits (.node ys))
      simp only
      refine ⟨?_, ?_, trivial, ?_⟩
      · rw [Finset.inter_comm, Nat.add_comm]
      · omega
      · omega

mutual
theorem laminar : ∀ (t : Tree), (leaves t).Nodup → ∀ c1 ∈ clades t, ∀ c2 ∈ clades t,
    (∀ y ∈ c1, y ∈ c2) ∨ (∀ y ∈ c2, y ∈ c1) ∨ (∀ y ∈ c1, y ∉ c2)
  | .leaf _, _, c1, h1, _, _ => by simp [clades] at h1
  | .node es, hnd, c1, h1, c2, h2 => by
    simp only [clades, List.mem_append, List.mem_singleton] at h1 h2
    simp only [leaves] at hnd
    rcases h2 with h2 | rfl
    · rcases h1 with h1 | rfl
      · exact laminarL es hnd c1 h1 c2 h2
      · exact Or.inr (Or.inl (fun y hy => cladeL_sub es c2 h2 y hy))
    · rcases h1 with h1 | rfl
      · exact Or.inl (fun y hy => cladeL_sub es c1 h1 y hy)
      · exact Or.inl (fun y hy => hy)
theorem laminarL : ∀ (ts : List Tree), (leavesL ts).Nodup → ∀ c1 ∈ cladesL ts, ∀ c2 ∈ cladesL ts,
    (∀ y ∈ c1, y ∈ c2) ∨ (∀ y ∈ c2, y ∈ c1) ∨ (∀ y ∈ c1, y ∉ c2)
  | [], _, c1, h1, _, _ => by simp [cladesL] at h1
  | t :: ts, hnd, c1, h1, c2, h2 => by
    simp only [cladesL, List.mem_append] at h1 h2
    simp only [leavesL] at hnd
    obtain ⟨n1, n2, n3⟩ := List.nodup_append.mp hnd
    rcases h1 with h1 | h1 <;> rcases h2 with h2 | h2
    · exact laminar t n1 c1 h1 c2 h2
    · refine Or.inr (Or.inr (fun y hy hy2 => ?_))
      exact n3 y (clade_sub t c1 h1 y hy) y (cladeL_sub ts c2 h2 y hy2) rfl
    · refine Or.inr (Or.inr (fun y hy hy2 => ?_))
      exact n3 y (clade_sub t c2 h2 y hy2) y (cladeL_sub ts c1 h1 y hy) rfl
    · exact laminarL ts n2 c1 h1 c2 h2
end

theorem subsetB_iff (a b : List Nat) : subsetB a b = true ↔ ∀ y ∈ a, y ∈ b := by
  simp [subsetB, List.all_eq_true]

/-- **C15, a tree and itself**: both distances are 0 (or the code raises because the tree has no
non-trivial split at all) – for trees whose leaves are distinct. -/
theorem C15_self_zero (xs : List Tree) (hp : Proper (.node xs) = true) (hnd : (leaves (.node xs)).Nodup) :
    treeDist (.node xs) (.node xs) = none ∨
    ∃ n, treeDist (.node xs) (.node xs) = some ((0, n), ((0 : Int), n + n)) := by
  rw [treeDist_eq_sets xs xs hp hp rfl]
  unfold grfSets
  split
  · exact Or.inl rfl
  · rename_i hcard
    right
    refine ⟨(splits (.node xs)).card, ?_⟩
    have hall : (splits (.node xs)).filter (CompatAll (taxa (.node xs)) (splits (.node xs))) = splits (.node xs) := by
      apply Finset.filter_true_of_mem
      intro a ha
      refine ⟨⟨a, ha⟩, ?_⟩
      intro b hb
      obtain ⟨c1, hc1, _, rfl⟩ := (mem_csOf _ _ a).mp ha
      obtain ⟨c2, hc2, _, rfl⟩ := (mem_csOf _ _ b).mp hb
      have hsub : ∀ c ∈ clades (.node xs), Sub (toSet c) (taxa (.node xs)) := by
        intro c hc y hy
        exact (mem_toSet y _).mpr (clade_sub _ c hc y ((mem_toSet y c).mp hy))
      have hsL : SSorted (taxa (.node xs)) := sorted_toSet _
      rw [compat_canon_left (taxa (.node xs)) _ _ hsL (sorted_toSet c1) (hsub c1 hc1),
        compat_canon_right (taxa (.node xs)) _ _ hsL (sorted_toSet c2) (hsub c2 hc2)]
      unfold compat
      simp only [Bool.or_eq_true, subsetB_iff, mem_setDiff, mem_toSet]
      rcases laminar (.node xs) hnd c1 hc1 c2 hc2 with h | h | h
      · exact Or.inl (Or.inl h)
      · exact Or.inr (Or.inr (fun y hy => ⟨hy.1, fun h2 => hy.2 (h y h2)⟩))
      · refine Or.inr (Or.inl (fun y hy => ⟨?_, h y hy⟩))
        exact hsub c1 hc1 y ((mem_toSet y c1).mpr hy)
    rw [hall, Finset.inter_self]
    simp only [Nat.sub_self]
    congr 2
    simp only [Prod.mk.injEq, and_true]
    omega

/-- not vacuous: two writings of `((0,1),(2,3))` and a different tree -/
example : treeDist (.node [.node [.leaf 0, .leaf 1], .node [.leaf 2, .leaf 3]])
    (.node [.node [.leaf 3, .leaf 2], .node [.leaf 1, .leaf 0]]) = some ((0, 1), (0, 2)) := by decide
example : treeDist (.node [.node [.leaf 0, .leaf 1], .node [.leaf 2, .leaf 3]])
    (.node [.node [.leaf 0, .leaf 2], .node [.leaf 1, .leaf 3]]) = some ((1, 1), (2, 2)) := by decide

end Verif.TreeDist
