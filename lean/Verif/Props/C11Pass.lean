/-
# C11 — a whole refinement pass, a whole session of calls, with the score the code compares

`Model/Refine.lean` models `sum_of_pairs` / `score_profile` (both variants) and one `_iter(check='final')` pass.
The theorems below hold for *every* score function of the matrix, hence for `sumOfPairs` with every scorer, gap
weight and carrier; the instances at the end say it for that function.
-/
import Verif.Model.Refine
import Verif.Lemmas.KernelMono
import Verif.Props.C04
namespace Verif.Refine
open Verif.Align Verif.MSA

section generic
variable {S : Type} [ScoreOps S]

/-- **C11, one pass, no law on the numbers**: after `_iter(check='final')` either the matrix is the saved one, cell
by cell, or the compared score is not lower than before. -/
theorem C11_pass (sp : List (List Nat) → S) (steps : List Step) (m : List (List Nat)) :
    iterPass sp steps m = m ∨ ScoreOps.lt (sp (iterPass sp steps m)) (sp m) = false := by
  unfold iterPass
  by_cases h1 : (steps.length == 1) = true
  · left; simp [h1]
  · simp only [h1, Bool.false_eq_true, if_false]
    rcases C11_monotone ScoreOps.lt sp m (candidate steps m) with h | h
    · right; exact h
    · left; exact h

/-- **C11, restore**: when the candidate scores lower the previous alignment comes back unchanged. -/
theorem C11_pass_restore (sp : List (List Nat) → S) (steps : List Step) (m : List (List Nat))
    (h : ScoreOps.lt (sp (candidate steps m)) (sp m) = true) : iterPass sp steps m = m := by
  unfold iterPass
  split
  · rfl
  · exact C11_restore _ _ _ _ _ h

/-- **C11, keep**: otherwise (more than one index set) the candidate of the loop is the result. -/
theorem C11_pass_keep (sp : List (List Nat) → S) (steps : List Step) (m : List (List Nat))
    (hn : steps.length ≠ 1) (h : ScoreOps.lt (sp (candidate steps m)) (sp m) = false) :
    iterPass sp steps m = candidate steps m := by
  unfold iterPass
  have : (steps.length == 1) = false := by simpa using hn
  simp only [this, Bool.false_eq_true, if_false]
  exact C11_keep _ _ _ _ _ h

/-- a pass with a single index set changes nothing (`if len(idx_list) == 1: return`) -/
theorem C11_pass_single (sp : List (List Nat) → S) (f : Step) (m : List (List Nat)) : iterPass sp [f] m = m := by
  simp [iterPass]

end generic

section ordered
variable {S : Type} [ScoreOps S] [LinearOrder S] [ScoreLaws S]
open ScoreLaws

/-- **C11, one pass** on an ordered carrier: the score measured with the call's own function does not go down. -/
theorem C11_pass_le (sp : List (List Nat) → S) (steps : List Step) (m : List (List Nat)) :
    sp m ≤ sp (iterPass sp steps m) := by
  rcases C11_pass sp steps m with h | h
  · rw [h]
  · have : ¬ sp (iterPass sp steps m) < sp m := by
      intro hlt
      have := (lt_iff (sp (iterPass sp steps m)) (sp m)).mpr hlt
      rw [h] at this; exact Bool.false_ne_true this
    exact not_lt.mp this

/-- **C11, one call** (a call that returns before `_iter` leaves the matrix alone) -/
theorem C11_call_le (c : Call S) (m : List (List Nat)) : c.sp m ≤ c.sp (runCall c m) := by
  unfold runCall
  cases c.steps with
  | none => exact le_refl _
  | some st => exact C11_pass_le c.sp st m

/-- every call of a session, measured with *its own* score function (its gap weight), does not lower the score of
the matrix it found -/
def SessionOk : List (Call S) → List (List Nat) → Prop
  | [], _ => True
  | c :: cs, m => c.sp m ≤ c.sp (runCall c m) ∧ SessionOk cs (runCall c m)

/-- **C11, any sequence of refinement calls and their parameters**: each call is monotone for its own score. -/
theorem C11_session_each (calls : List (Call S)) (m : List (List Nat)) : SessionOk calls m := by
  induction calls generalizing m with
  | nil => trivial
  | cons c cs ih => exact ⟨C11_call_le c m, ih _⟩

/-- **C11, a session with one score function** (same gap weight, same scorer): the score at the end is not lower
than at the beginning, whatever the calls did in between. -/
theorem C11_session_le (sp : List (List Nat) → S) (calls : List (Call S)) (hsp : ∀ c ∈ calls, c.sp = sp)
    (m : List (List Nat)) : sp m ≤ sp (session calls m) := by
  induction calls generalizing m with
  | nil => exact le_refl _
  | cons c cs ih =>
    have hc : c.sp = sp := hsp c (by simp)
    have h1 : sp m ≤ sp (runCall c m) := by have := C11_call_le c m; rwa [hc] at this
    have h2 := ih (fun c' hc' => hsp c' (by simp [hc'])) (runCall c m)
    simpa [session] using le_trans h1 h2

/-! ### `check='immediate'` (outside the property: it scores the start with the call's gap weight and every step with the default one) -/

theorem immFold_inv (sp0 : List (List Nat) → S) (m : List (List Nat)) : ∀ (steps : List Step) (st : List (List Nat) × S),
    sp0 m ≤ st.2 → (st.1 = m ∨ sp0 st.1 = st.2) →
    sp0 m ≤ (steps.foldl (immStep sp0 m) st).2 ∧
      ((steps.foldl (immStep sp0 m) st).1 = m ∨ sp0 (steps.foldl (immStep sp0 m) st).1 = (steps.foldl (immStep sp0 m) st).2)
  | [], st, h1, h2 => ⟨h1, h2⟩
  | f :: fs, st, h1, h2 => by
    simp only [List.foldl_cons]
    apply immFold_inv sp0 m fs
    · unfold immStep
      by_cases h : ScoreOps.lt (sp0 (f st.1)) st.2 = true
      · simp [h, h1]
      · have h' : ScoreOps.lt (sp0 (f st.1)) st.2 = false := by simpa using h
        simp only [h', Bool.false_eq_true, if_false]
        have : ¬ sp0 (f st.1) < st.2 := fun hlt => by
          have := (lt_iff (sp0 (f st.1)) st.2).mpr hlt
          rw [h'] at this; exact Bool.false_ne_true this
        exact le_trans h1 (not_lt.mp this)
    · unfold immStep
      by_cases h : ScoreOps.lt (sp0 (f st.1)) st.2 = true
      · simp [h]
      · have h' : ScoreOps.lt (sp0 (f st.1)) st.2 = false := by simpa using h
        simp [h']

/-- when the call's gap weight IS the default one (one score function), the immediate check is monotone as well:
the matrix left is the saved one or one that scores at least as high -/
theorem C11_immediate_le (sp : List (List Nat) → S) (steps : List Step) (m : List (List Nat)) :
    sp m ≤ sp (iterImmediate sp sp steps m) := by
  unfold iterImmediate
  split
  · exact le_refl _
  · obtain ⟨h1, h2⟩ := immFold_inv sp m steps (m, sp m) (le_refl _) (Or.inl rfl)
    rcases h2 with h2 | h2
    · rw [h2]
    · rw [h2]; exact h1

/-- the statement for the function the code compares: `sum_of_pairs` with the scorer, gap cost and gap weight of the call -/
theorem C11_iter_sumOfPairs (k : Kind) (sc : Nat → Nat → S) (gop gw : S) (steps : List Step) (m : List (List Nat)) :
    sumOfPairs k sc gop gw m ≤ sumOfPairs k sc gop gw (iterPass (sumOfPairs k sc gop gw) steps m) :=
  C11_pass_le _ steps m

end ordered

/-! ### the premises are satisfiable, the numbers are the code's (evaluated examples) -/

/-- two columns, three rows, identity-like scorer on `Int`: column scores 9/9 … evaluated -/
example : sumOfPairs (S := Int) .c (fun a b => if a == b then 10 else 0) (-1) 1 [[1, 2], [1, 0], [3, 2]] = 4 := by decide

/-- a pass that worsens the score is rolled back, one that improves it is kept -/
example : iterPass (S := Int) (sumOfPairs .c (fun a b => if a == b then 10 else 0) (-1) 1)
    [fun _ => [[1, 0], [0, 2]], fun x => x] [[1], [1]] = [[1], [1]] := by decide
example : iterPass (S := Int) (sumOfPairs .c (fun a b => if a == b then 10 else 0) (-1) 1)
    [fun _ => [[1], [1]], fun x => x] [[1, 0], [0, 1]] = [[1], [1]] := by decide

/-- why `check='immediate'` is outside the property: with two different score functions (gap weight of the call at the
start, default gap weight at every step) a pass can end lower than it began, measured with the call's own score -/
example : let sp : List (List Nat) → Int := fun m => if m = [[1]] then 5 else 0      -- the call's score
          let sp0 : List (List Nat) → Int := fun m => if m = [[1]] then 5 else 9     -- the default-weight score
          sp (iterImmediate sp sp0 [fun _ => [[2]], fun x => x] [[1]]) < sp [[1]] := by decide

/-- `talign`'s variant differs exactly on a symbol facing a gap -/
example : scoreProfile (S := Int) .t (fun _ _ => 4) (-2) 0 [1, 0] [1, 0] = 0 ∧
          scoreProfile (S := Int) .c (fun _ _ => 4) (-2) 0 [1, 0] [1, 0] = 4 := by decide

end Verif.Refine
