import Verif.Model.SoundClass
set_option linter.unusedSimpArgs false
set_option linter.unusedVariables false
/-!
# C14 — segmentation keeps every symbol and position

For **arbitrary** character classes and options: the tokens concatenate to the input with the
break characters removed (plus the null glyph iff the first non-break character is a
combiner), no token is empty, and the only rejected inputs are those without any non-break
character when geminate merging is on (the code's `out[0]` IndexError).
-/
namespace Verif.SC

def flatOut (out : List (List Nat)) : List Nat := out.reverse.flatten

/-- the flags only claim a previous token when there is one; tokens are non-empty -/
def TokInv (st : TokSt) : Prop :=
  ((st.merge = true ∨ st.start = false ∨ st.vowel = true ∨ st.tone = true) → st.out ≠ []) ∧
  ∀ t ∈ st.out, t ≠ []

theorem appendLast_spec (out : List (List Nat)) (c : Nat) (hne : out ≠ []) (hall : ∀ t ∈ out, t ≠ []) :
    ∃ o, appendLast out c = some o ∧ o ≠ [] ∧ (∀ t ∈ o, t ≠ []) ∧ flatOut o = flatOut out ++ [c] := by
  cases out with
  | nil => exact absurd rfl hne
  | cons t r =>
    refine ⟨(t ++ [c]) :: r, rfl, by simp, ?_, by simp [flatOut]⟩
    intro x hx
    rcases List.mem_cons.mp hx with rfl | hx
    · simp
    · exact hall x (List.mem_cons_of_mem _ hx)

theorem push_spec (out : List (List Nat)) (c : Nat) (hall : ∀ t ∈ out, t ≠ []) :
    ([c] :: out) ≠ [] ∧ (∀ t ∈ [c] :: out, t ≠ []) ∧ flatOut ([c] :: out) = flatOut out ++ [c] := by
  refine ⟨by simp, ?_, by simp [flatOut]⟩
  intro x hx
  rcases List.mem_cons.mp hx with rfl | hx
  · simp
  · exact hall x hx

/-- what one character contributes to the concatenation -/
def contrib (K : Cls) (st : TokSt) (c : Nat) : List Nat :=
  if K.isBreak c then []
  else if K.isCombiner c && st.out.isEmpty then [K.nullGlyph, c]
  else [c]

set_option hygiene false in
macro "app_branch" hne:term : tactic => `(tactic| (
  obtain ⟨o, h1, h2, h3, h4⟩ := appendLast_spec st.out c $hne hall
  simp only [h1, Option.map_some]
  exact ⟨_, rfl, ⟨fun _ => h2, h3⟩, h4, by simp [hb'], fun _ => h2⟩))

set_option hygiene false in
macro "push_branch" : tactic => `(tactic| (
  obtain ⟨p1, p2, p3⟩ := push_spec st.out c hall
  exact ⟨_, rfl, ⟨fun _ => p1, p2⟩, p3, by simp [hb'], fun _ => p1⟩))

theorem tokStep_spec (K : Cls) (st : TokSt) (c : Nat) (h : TokInv st) :
    ∃ st', tokStep K st c = some st' ∧ TokInv st' ∧
      flatOut st'.out = flatOut st.out ++ contrib K st c ∧
      (K.isBreak c = true → st'.out = st.out) ∧ (K.isBreak c = false → st'.out ≠ []) := by
  obtain ⟨hflag, hall⟩ := h
  unfold tokStep contrib
  by_cases hb : K.isBreak c = true
  · simp only [hb, if_true]
    exact ⟨_, rfl, ⟨by simp, hall⟩, by simp, fun _ => rfl, by simp⟩
  · simp only [hb, if_false, Bool.false_eq_true]
    have hb' : K.isBreak c = false := by simpa using hb
    by_cases hc : K.isCombiner c = true
    · simp only [hc, if_true, Bool.true_and]
      cases ho : st.out with
      | nil =>
        exact ⟨_, rfl, ⟨by simp, by simp⟩, by simp [flatOut], by simp [hb'], by simp⟩
      | cons t r =>
        have hne : st.out ≠ [] := by simp [ho]
        obtain ⟨o, h1, h2, h3, h4⟩ := appendLast_spec st.out c hne hall
        rw [ho] at h1 h4
        simp only [h1, Option.map_some, List.isEmpty_cons, Bool.false_eq_true, if_false]
        exact ⟨_, rfl, ⟨fun _ => h2, h3⟩, h4, by simp [hb'], fun _ => h2⟩
    · simp only [hc, if_false, Bool.false_and, Bool.false_eq_true]
      by_cases hs : K.isStress c = true
      · simp only [hs, if_true]; push_branch
      · simp only [hs, if_false, Bool.false_eq_true]
        by_cases hm : st.merge = true
        · simp only [hm, if_true]
          app_branch (hflag (Or.inl hm))
        · simp only [hm, if_false, Bool.false_eq_true]
          by_cases hsemi : semiCond K st c = true
          · simp only [hsemi, if_true]
            have : st.start = false := by
              simp only [semiCond, Bool.and_eq_true, Bool.not_eq_true'] at hsemi
              exact hsemi.1.1.1.2
            app_branch (hflag (Or.inr (Or.inl this)))
          · simp only [hsemi, if_false, Bool.false_eq_true]
            by_cases hd : K.isDiacritic c = true
            · simp only [hd, if_true]
              by_cases hst : st.start = true
              · simp only [hst, Bool.not_true, Bool.false_eq_true, if_false]; push_branch
              · have hst' : st.start = false := by simpa using hst
                simp only [hst', Bool.not_false, if_true]
                app_branch (hflag (Or.inr (Or.inl hst')))
            · simp only [hd, if_false, Bool.false_eq_true]
              by_cases hv : K.isVowel c = true
              · simp only [hv, if_true]
                by_cases hvm : (st.vowel && K.mergeVowels) = true
                · simp only [hvm, if_true]
                  have : st.vowel = true := by simp only [Bool.and_eq_true] at hvm; exact hvm.1
                  app_branch (hflag (Or.inr (Or.inr (Or.inl this))))
                · simp only [hvm, if_false, Bool.false_eq_true]; push_branch
              · simp only [hv, if_false, Bool.false_eq_true]
                by_cases ht : K.isTone c = true
                · simp only [ht, if_true]
                  by_cases htt : st.tone = true
                  · simp only [htt, if_true]
                    app_branch (hflag (Or.inr (Or.inr (Or.inr htt))))
                  · simp only [htt, if_false, Bool.false_eq_true]; push_branch
                · simp only [ht, if_false, Bool.false_eq_true]
                  push_branch

/-- the null glyph is prefixed iff the first non-break character is a combiner -/
def nullPrefix (K : Cls) (s : List Nat) : List Nat :=
  match s.filter (fun c => !K.isBreak c) with
  | c :: _ => if K.isCombiner c then [K.nullGlyph] else []
  | [] => []

theorem tokFold_spec (K : Cls) (s : List Nat) : ∀ (st : TokSt), TokInv st →
    ∃ st', tokFold K s st = some st' ∧ TokInv st' ∧
      flatOut st'.out = flatOut st.out ++ (if st.out.isEmpty then nullPrefix K s else []) ++
        s.filter (fun c => !K.isBreak c) ∧
      ((s.filter (fun c => !K.isBreak c)) ≠ [] → st'.out ≠ []) ∧
      ((s.filter (fun c => !K.isBreak c)) = [] → st'.out = st.out) := by
  induction s with
  | nil => intro st h; exact ⟨st, rfl, h, by simp [nullPrefix], by simp, by simp⟩
  | cons c cs ih =>
    intro st h
    obtain ⟨st1, h1, hinv1, hflat1, hbrk, hnb⟩ := tokStep_spec K st c h
    obtain ⟨st2, h2, hinv2, hflat2, hne2, heq2⟩ := ih st1 hinv1
    refine ⟨st2, by simp [tokFold, h1, h2], hinv2, ?_, ?_, ?_⟩
    · rw [hflat2, hflat1]
      by_cases hb : K.isBreak c = true
      · have := hbrk hb
        simp [contrib, hb, this, nullPrefix, List.filter_cons]
      · have hb' : K.isBreak c = false := by simpa using hb
        have hne1 := hnb hb'
        have he1 : st1.out.isEmpty = false := by
          cases h' : st1.out with
          | nil => exact absurd h' hne1
          | cons _ _ => rfl
        simp only [he1, Bool.false_eq_true, if_false, List.append_nil, contrib, hb', List.filter_cons,
          Bool.not_false, if_true, nullPrefix]
        by_cases hc : K.isCombiner c = true <;> by_cases ho : st.out.isEmpty = true <;>
          simp [hc, ho, List.append_assoc]
    · intro _
      by_cases hb : K.isBreak c = true
      · apply hne2
        intro hcs
        simp [List.filter_cons, hb, hcs] at *
      · have hb' : K.isBreak c = false := by simpa using hb
        by_cases hcs : cs.filter (fun c => !K.isBreak c) = []
        · rw [heq2 hcs]; exact hnb hb'
        · exact hne2 hcs
    · intro hnil
      have hb : K.isBreak c = true := by
        by_cases hb : K.isBreak c = true
        · exact hb
        · simp [List.filter_cons, hb] at hnil
      have hcs : cs.filter (fun c => !K.isBreak c) = [] := by simpa [List.filter_cons, hb] using hnil
      rw [heq2 hcs, hbrk hb]

theorem mergeGem_spec (ts : List (List Nat)) : ∀ (accR : List (List Nat)) (prev : List Nat),
    accR ≠ [] → (∀ t ∈ accR, t ≠ []) → (∀ t ∈ ts, t ≠ []) →
    (mergeGem accR ts prev).flatten = accR.reverse.flatten ++ ts.flatten ∧
    (∀ t ∈ mergeGem accR ts prev, t ≠ []) ∧ mergeGem accR ts prev ≠ [] := by
  induction ts with
  | nil =>
    intro accR prev hne hall _
    refine ⟨by simp [mergeGem], by simpa [mergeGem] using hall, by simpa [mergeGem] using hne⟩
  | cons t ts ih =>
    intro accR prev hne hall hts
    have ht : t ≠ [] := hts t List.mem_cons_self
    have hts' : ∀ x ∈ ts, x ≠ [] := fun x hx => hts x (List.mem_cons_of_mem _ hx)
    simp only [mergeGem]
    split
    · cases accR with
      | nil => exact absurd rfl hne
      | cons a r =>
        simp only
        obtain ⟨h1, h2, h3⟩ := ih ((a ++ t) :: r) t (by simp) (by
          intro x hx
          rcases List.mem_cons.mp hx with rfl | hx
          · simp [ht]
          · exact hall x (List.mem_cons_of_mem _ hx)) hts'
        exact ⟨by rw [h1]; simp, h2, h3⟩
    · obtain ⟨h1, h2, h3⟩ := ih (t :: accR) t (by simp) (by
        intro x hx
        rcases List.mem_cons.mp hx with rfl | hx
        · exact ht
        · exact hall x hx) hts'
      exact ⟨by rw [h1]; simp, h2, h3⟩

/-- **C14, tokens concatenate to the input** (break characters removed, null glyph iff a
combiner comes first), **no token is empty**. -/
theorem C14_tokens_concat (K : Cls) (s : List Nat) (ts : List (List Nat))
    (h : ipa2tokens K s = some ts) :
    ts.flatten = nullPrefix K s ++ s.filter (fun c => !K.isBreak c) ∧ ∀ t ∈ ts, t ≠ [] := by
  obtain ⟨st, h1, hinv, hflat, _, _⟩ := tokFold_spec K s TokSt.init (by simp [TokInv, TokSt.init])
  simp only [ipa2tokens, h1] at h
  simp only [TokSt.init, flatOut, List.reverse_nil, List.flatten_nil, List.isEmpty_nil, if_true,
    List.nil_append] at hflat
  have hall : ∀ t ∈ st.out.reverse, t ≠ [] := fun t ht => hinv.2 t (List.mem_reverse.mp ht)
  split at h
  · unfold geminates at h
    cases hr : st.out.reverse with
    | nil => simp [hr] at h
    | cons t r =>
      simp only [hr, Option.some.injEq] at h
      rw [hr] at hall
      obtain ⟨g1, g2, _⟩ := mergeGem_spec r [t] t (by simp) (by
        intro x hx; simp at hx; rw [hx]; exact hall t List.mem_cons_self)
        (fun x hx => hall x (List.mem_cons_of_mem _ hx))
      subst h
      refine ⟨?_, g2⟩
      rw [g1, ← hflat, hr]; simp
  · simp only [Option.some.injEq] at h
    subst h
    exact ⟨hflat, hall⟩

/-- **totality**: the tokeniser returns whenever there is a non-break character (or geminate
merging is off) … -/
theorem C14_tokens_total (K : Cls) (s : List Nat)
    (h : s.filter (fun c => !K.isBreak c) ≠ [] ∨ K.mergeGeminates = false) :
    ∃ ts, ipa2tokens K s = some ts := by
  obtain ⟨st, h1, hinv, _, hne, _⟩ := tokFold_spec K s TokSt.init (by simp [TokInv, TokSt.init])
  simp only [ipa2tokens, h1]
  split
  · rename_i hg
    rcases h with h | h
    · have := hne h
      unfold geminates
      cases hr : st.out.reverse with
      | nil => simp at hr; exact absurd hr this
      | cons t r => exact ⟨_, rfl⟩
    · rw [h] at hg; cases hg
  · exact ⟨_, rfl⟩

/-- … and the rejected inputs are exactly the documented ones: no non-break character while
geminate merging is on (`out[0]` raises IndexError). -/
theorem C14_tokens_rejects (K : Cls) (s : List Nat)
    (h : s.filter (fun c => !K.isBreak c) = []) (hg : K.mergeGeminates = true) :
    ipa2tokens K s = none := by
  obtain ⟨st, h1, _, _, _, heq⟩ := tokFold_spec K s TokSt.init (by simp [TokInv, TokSt.init])
  have := heq h
  simp only [TokSt.init] at this
  simp [ipa2tokens, h1, hg, this, geminates]


/-! ### prosodic strings: the case analysis is total, one symbol per sonority value -/

theorem proStep_spec (a b c : Nat) (first : Bool) (ps : List Pro) (h : ps = [] → a = 9) :
    ∃ f ps', proStep a b c first ps = some (f, ps') ∧ ps'.length = ps.length + 1 := by
  unfold proStep
  split
  · split
    · exact ⟨_, _, rfl, by simp⟩
    · split <;> exact ⟨_, _, rfl, by simp⟩
  · split
    · exact ⟨_, _, rfl, by simp⟩
    · split
      · split
        · exact ⟨_, _, rfl, by simp⟩
        · split
          · exact ⟨_, _, rfl, by simp⟩
          · split <;> exact ⟨_, _, rfl, by simp⟩
      · split
        · split
          · exact ⟨_, _, rfl, by simp⟩
          · split
            · split
              · exact ⟨_, _, rfl, by simp⟩
              · split
                · exact ⟨_, _, rfl, by simp⟩
                · exact ⟨_, _, rfl, by simp⟩
                · exact ⟨_, _, rfl, by simp⟩
                · rename_i hne _ _ _
                  exact absurd (h rfl) hne
            · exact ⟨_, _, rfl, by simp⟩
        · split
          · split <;> exact ⟨_, _, rfl, by simp⟩
          · omega

theorem proLoop_spec (l : List Nat) : ∀ (a : Nat) (first : Bool) (ps : List Pro), (ps = [] → a = 9) →
    ∃ out, proLoop a l first ps = some out ∧ out.length = ps.length + l.length := by
  induction l with
  | nil => intro a first ps _; exact ⟨_, rfl, by simp⟩
  | cons b rest ih =>
    intro a first ps h
    cases rest with
    | nil =>
      obtain ⟨f, ps', h1, h2⟩ := proStep_spec a b 9 first ps h
      exact ⟨ps'.reverse, by simp [proLoop, h1], by simp [h2]⟩
    | cons c rest =>
      obtain ⟨f, ps', h1, h2⟩ := proStep_spec a b c first ps h
      obtain ⟨out, h3, h4⟩ := ih b f ps' (by intro hp; rw [hp] at h2; simp at h2)
      exact ⟨out, by simp [proLoop, h1, h3], by rw [h4, h2]; simp; omega⟩

theorem splitNine_length (xs : List Nat) : ∀ (cur : List Nat),
    (((splitNine cur xs).map List.length).sum + ((splitNine cur xs).length - 1)) = cur.length + xs.length ∧
    (splitNine cur xs) ≠ [] := by
  induction xs with
  | nil => intro cur; simp [splitNine]
  | cons x xs ih =>
    intro cur
    simp only [splitNine]
    split
    · obtain ⟨h1, h2⟩ := ih []
      refine ⟨?_, by simp⟩
      simp only [List.map_cons, List.sum_cons, List.length_reverse, List.length_cons]
      have : (splitNine [] xs).length ≥ 1 := by
        cases h : splitNine [] xs with
        | nil => exact absurd h h2
        | cons _ _ => simp
      simp at h1 ⊢
      omega
    · obtain ⟨h1, h2⟩ := ih (x :: cur)
      exact ⟨by simp at h1 ⊢; omega, h2⟩

theorem intercalate_length {α : Type} (sep : α) (ls : List (List α)) (hne : ls ≠ []) :
    (List.intercalate [sep] ls).length = (ls.map List.length).sum + (ls.length - 1) := by
  induction ls with
  | nil => exact absurd rfl hne
  | cons l rest ih =>
    cases rest with
    | nil => simp [List.intercalate]
    | cons l2 rest =>
      have := ih (by simp)
      simp only [List.intercalate] at this ⊢
      simp only [List.intersperse_cons_cons, List.flatten_cons, List.length_append, List.length_cons,
        List.length_nil, List.map_cons, List.sum_cons] at this ⊢
      omega

/-- **C14, prosodic strings**: for every sonority profile (any natural numbers, word breaks `9`
anywhere) the case analysis never reaches its `else: raise`, and the result has exactly one
symbol per element of the profile. -/
theorem C14_prosodic_total (profile : List Nat) :
    ∃ ps, prosodic profile = some ps ∧ ps.length = profile.length := by
  unfold prosodic
  have hparts : ∀ p ∈ splitNine [] profile, ∃ out, proLoop 9 p true [] = some out ∧ out.length = p.length := by
    intro p _
    obtain ⟨out, h1, h2⟩ := proLoop_spec p 9 true [] (fun _ => rfl)
    exact ⟨out, h1, by simpa using h2⟩
  have hall : ((splitNine [] profile).map fun p => proLoop 9 p true []).all Option.isSome = true := by
    simp only [List.all_map, List.all_eq_true, Function.comp]
    intro p hp
    obtain ⟨out, h1, _⟩ := hparts p hp
    simp [h1]
  simp only [hall, if_true]
  refine ⟨_, rfl, ?_⟩
  obtain ⟨hlen, hne⟩ := splitNine_length profile []
  rw [intercalate_length _ _ (by simpa using hne)]
  simp only [List.map_map, List.length_map]
  have : (List.map (List.length ∘ (fun o : Option (List Pro) => o.getD []) ∘ fun p => proLoop 9 p true [])
      (splitNine [] profile)) = (splitNine [] profile).map List.length := by
    apply List.map_congr_left
    intro p hp
    obtain ⟨out, h1, h2⟩ := hparts p hp
    simp [h1, h2]
  rw [this]
  simpa using hlen

/-! ### sound classes: one class per token, from the model's alphabet or the unknown marker -/

theorem C14_class_len (M : TokCls) (toks : List (List Nat)) : (tokens2class M toks).length = toks.length := by
  simp [tokens2class]

/-- every class is a value of the converter or the unknown marker – so it is never the gap
class as soon as the converter's values avoid it (generated obligation `GapClassFree`) -/
theorem C14_class_range (M : TokCls) (tok : List Nat) :
    token2class M tok = M.unknown ∨ ∃ k, M.lookup k = some (token2class M tok) := by
  unfold token2class
  cases h1 : M.lookup tok with
  | some c => exact Or.inr ⟨tok, h1⟩
  | none =>
    cases tok with
    | nil => exact Or.inl rfl
    | cons h t =>
      simp only
      cases h2 : M.lookup [h] with
      | some c => exact Or.inr ⟨[h], h2⟩
      | none =>
        simp only
        split
        · cases h3 : M.lookup t with
          | some c => exact Or.inr ⟨t, h3⟩
          | none =>
            cases t with
            | nil => exact Or.inl rfl
            | cons h' t' =>
              simp only
              cases h4 : M.lookup [h'] with
              | some c => exact Or.inr ⟨[h'], by simpa using h4⟩
              | none => exact Or.inl (by simp)
        · exact Or.inl rfl

end Verif.SC
