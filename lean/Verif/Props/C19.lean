import Verif.Model.Heap
set_option linter.unusedSimpArgs false
/-!
# C19 — frame theorem: an object that copied its rows cannot interfere with its source

If the constructor copies the rows, then for **every** sequence of operations on the new
object the source's rows are unchanged, and operations on the source do not show in the new
object.  For the sharing constructor the negation is proved with a two-row witness.
-/
namespace Verif.Heap

theorem update_length (h : Heap) (a : Nat) (f : List Int → List Int) : (update h a f).length = h.length := by
  simp [update]

theorem update_getD_ne (h : Heap) (a b : Nat) (f : List Int → List Int) (hne : b ≠ a) :
    (update h a f).getD b [] = h.getD b [] := by
  simp only [update, List.getD_eq_getElem?_getD, List.getElem?_mapIdx]
  cases hb : h[b]? with
  | none => simp
  | some row => simp [hne]

/-- an operation writes only through the object's own references -/
theorem applyOp_frame (o : Obj) (h : Heap) (op : Op) (b : Nat) (hb : b ∉ o.rows) :
    (applyOp o h op).getD b [] = h.getD b [] := by
  cases op with
  | addCol v =>
    simp only [applyOp]
    have : ∀ (rs : List Nat) (h : Heap), b ∉ rs →
        (rs.foldl (fun h a => update h a (· ++ [v])) h).getD b [] = h.getD b [] := by
      intro rs
      induction rs with
      | nil => intro h _; rfl
      | cons a rs ih =>
        intro h hb
        simp only [List.foldl_cons]
        rw [ih _ (fun hm => hb (List.mem_cons_of_mem _ hm))]
        exact update_getD_ne h a b _ (fun e => hb (e ▸ List.mem_cons_self))
    exact this o.rows h hb
  | assign r col v =>
    simp only [applyOp]
    cases hr : o.rows[r]? with
    | none => rfl
    | some a =>
      simp only
      apply update_getD_ne
      intro e
      apply hb
      rw [e]
      exact List.mem_of_getElem? hr

theorem runOps_frame (o : Obj) (ops : List Op) (h : Heap) (b : Nat) (hb : b ∉ o.rows) :
    (runOps o h ops).getD b [] = h.getD b [] := by
  induction ops generalizing h with
  | nil => rfl
  | cons op ops ih =>
    simp only [runOps, List.foldl_cons] at ih ⊢
    rw [ih, applyOp_frame o h op b hb]

/-- **C19, frame theorem**: after a copying construction, no sequence of operations on the new
object changes what the source sees. -/
theorem C19_frame (src : Obj) (h : Heap) (hwf : ∀ a ∈ src.rows, a < h.length) (ops : List Op) :
    view src (runOps (construct true src h).1 (construct true src h).2 ops) = view src h := by
  simp only [view]
  apply List.map_congr_left
  intro a ha
  have hlt := hwf a ha
  have hnot : a ∉ (construct true src h).1.rows := by
    simp only [construct, if_true, List.mem_map, List.mem_range]
    rintro ⟨i, _, e⟩
    omega
  rw [runOps_frame _ ops _ a hnot]
  simp only [construct, if_true, List.getD_eq_getElem?_getD, List.getElem?_append_left hlt]

/-- **… and conversely**: operations on the source do not change what the new object sees. -/
theorem C19_frame_converse (src : Obj) (h : Heap) (hwf : ∀ a ∈ src.rows, a < h.length) (ops : List Op) :
    view (construct true src h).1 (runOps src (construct true src h).2 ops) =
      view (construct true src h).1 (construct true src h).2 := by
  simp only [view]
  apply List.map_congr_left
  intro a ha
  have hnot : a ∉ src.rows := by
    intro hm
    have := hwf a hm
    simp only [construct, if_true, List.mem_map, List.mem_range] at ha
    obtain ⟨i, _, e⟩ := ha
    omega
  exact runOps_frame src ops _ a hnot

/-- the new object sees copies of the source's rows right after construction -/
theorem C19_copy_faithful (src : Obj) (h : Heap) :
    view (construct true src h).1 (construct true src h).2 = view src h := by
  simp only [view, construct, if_true, List.map_map]
  apply List.ext_getElem
  · simp
  · intro i h1 h2
    simp only [List.getElem_map, List.getElem_range, Function.comp]
    simp only [List.length_map, List.length_range] at h1
    rw [List.getD_eq_getElem?_getD, List.getElem?_append_right (by omega)]
    simp [h1]

/-- **Negation for the sharing constructor**: one added column changes the caller's rows. -/
theorem C19_alias_witness :
    view ⟨[0, 1]⟩ (runOps (construct false ⟨[0, 1]⟩ [[1, 2], [3, 4]]).1
      (construct false ⟨[0, 1]⟩ [[1, 2], [3, 4]]).2 [.addCol 9]) ≠ view ⟨[0, 1]⟩ [[1, 2], [3, 4]] := by
  decide

/-- non-vacuity of the frame theorem on the same two rows -/
example : view ⟨[0, 1]⟩ (runOps (construct true ⟨[0, 1]⟩ [[1, 2], [3, 4]]).1
      (construct true ⟨[0, 1]⟩ [[1, 2], [3, 4]]).2 [.addCol 9, .assign 0 1 7]) = [[1, 2], [3, 4]] := by
  decide

/-- a working copy made of row slices protects a nested list … -/
theorem C19_rowSlices_list (src : Obj) (h : Heap) (hwf : ∀ a ∈ src.rows, a < h.length) (ops : List Op) :
    view src (runOps (rowSlices false src h).1 (rowSlices false src h).2 ops) = view src h :=
  C19_frame src h hwf ops

/-- … and does not protect a numpy array (the twelfth-round change C19l): one cell assigned through the "copy" -/
theorem C19_rowSlices_array_witness :
    view ⟨[0, 1]⟩ (runOps (rowSlices true ⟨[0, 1]⟩ [[0, 5], [5, 0]]).1
      (rowSlices true ⟨[0, 1]⟩ [[0, 5], [5, 0]]).2 [.assign 0 1 7]) ≠ view ⟨[0, 1]⟩ [[0, 5], [5, 0]] := by
  decide

/-! ### matrices: a function that squares into a copy leaves its argument unchanged -/

def squareInPlace (m : List (List Int)) : List (List Int) := m.map fun r => r.map fun c => c * c

/-- model of `flat_cluster('ward', …)`'s effect on the caller's matrix -/
def wardEffect (copies : Bool) (m : List (List Int)) : List (List Int) :=
  if copies then m else squareInPlace m

theorem C19_matrix_unchanged (m : List (List Int)) : wardEffect true m = m := rfl

theorem C19_matrix_witness : wardEffect false [[0, 2], [2, 0]] ≠ [[0, 2], [2, 0]] := by decide

end Verif.Heap
