import Verif.Lemmas.Optimal
import Verif.Model.EditDist
import Verif.Props.C03
set_option linter.unusedSectionVars false
set_option linter.unusedSimpArgs false
/-!
# C03 — the edit distance is the Levenshtein distance

`editDist` (the model of `_malign.edit_dist`) equals the minimum, over **all** edit scripts
(alignments) of the pair, of the number of insertions, deletions and substitutions; hence
identity, bound by the longer length, and (via a swap of the two rows) symmetry.
-/
namespace Verif.Align
variable {α : Type} [DecidableEq α]

theorem rescore_edit (a b : List α) (ms : List Mv) :
    ∀ (i j : Nat) (c : Cell Nat),
      (rescore (editKernel a b) ⟨i, j, c⟩ ms).cur.1 = c.1 + editCost a b ms i j := by
  induction ms with
  | nil => intro i j c; simp [rescore, editCost]
  | cons m ms ih =>
    intro i j c
    simp only [rescore, List.foldl_cons] at ih ⊢
    cases m with
    | up =>
      simp only [rsStep, editCost]
      split <;> (rw [ih]; simp [editKernel]; omega)
    | left =>
      simp only [rsStep, editCost]
      split <;> (rw [ih]; simp [editKernel]; omega)
    | diag =>
      simp only [rsStep, editCost]
      rw [ih]; simp [editKernel, subCost]; omega

theorem editKernel_mono (a b : List α) : MonoR (· ≥ ·) (editKernel a b) where
  up := by intro i j c c' h; simp only [editKernel]; omega
  left := by intro i j c c' h; simp only [editKernel]; omega
  diag := by intro i j v v' h; simp only [editKernel]; omega
  row0 := by intro j c c' h; simp only [editKernel]; omega
  col0 := by intro i c c' h; simp only [editKernel]; omega
  choose := by
    intro x m y
    simp only [editKernel]
    split
    · rename_i h; simp only; omega
    · split <;> (simp only; omega)

theorem editKernel_chooseOk (a b : List α) : ChooseOkG (editKernel a b) := by
  intro x m y
  simp only [editKernel]
  split
  · exact Or.inl rfl
  · split
    · exact Or.inr (Or.inl rfl)
    · exact Or.inr (Or.inr rfl)

theorem editDist_eq_T (a b : List α) :
    editDist a b = (T (editKernel a b).toFill a.length b.length a.length).1 := by
  simp [editDist, getCell_eq_T]

/-- **Lower bound**: no edit script is cheaper than `editDist`. -/
theorem C03_edit_le (a b : List α) (ms : List Mv) (hp : IsPath b.length a.length ms) :
    editDist a b ≤ editCost a b ms 0 0 := by
  have hpos := rescore_pos (editKernel a b) ms ⟨0, 0, (editKernel a b).corner⟩
  have h := rescore_r (· ≥ ·) (fun _ _ _ h1 h2 => Nat.le_trans h2 h1) (editKernel a b) (editKernel_mono a b)
    a.length ms ⟨0, 0, (editKernel a b).corner⟩ (by rw [hpos.2, hp.2]; simp)
    (by simp only [T_corner]; exact Nat.le_refl _)
  rw [hpos.1, hpos.2, hp.1, hp.2, rescore_edit] at h
  simp only [editKernel, Nat.zero_add] at h
  rw [editDist_eq_T]
  simpa [editKernel] using h

/-- **Attained**: some edit script of the pair costs exactly `editDist`. -/
theorem C03_edit_attained (a b : List α) :
    ∃ ms, IsPath b.length a.length ms ∧ editCost a b ms 0 0 = editDist a b := by
  obtain ⟨cols, _, h2⟩ :=
    rescore_tbGlobal (editKernel a b) (editKernel_chooseOk a b)
      (by intro j c; simp [editKernel]) (by intro i c; simp [editKernel])
      a b b.length a.length (Nat.le_refl _) (Nat.le_refl _)
      (fun i j => (T (editKernel a b).toFill a.length i j).2) (by intro i j _ _; rfl)
      b.length a.length [] (Nat.le_refl _) (Nat.le_refl _)
  refine ⟨movesOf cols, ?_, ?_⟩
  · have := rescore_pos (editKernel a b) (movesOf cols) ⟨0, 0, (editKernel a b).corner⟩
    rw [h2] at this
    exact ⟨by simpa using this.1.symm, by simpa using this.2.symm⟩
  · have := congrArg (fun s => s.cur.1) h2
    simp only [rescore_edit] at this
    rw [editDist_eq_T, ← this]
    simp [editKernel]

/-- **C03: edit distance = Levenshtein distance** (minimum over all edit scripts). -/
theorem C03_edit_eq_lev (a b : List α) :
    (∀ ms, IsPath b.length a.length ms → editDist a b ≤ editCost a b ms 0 0) ∧
    (∃ ms, IsPath b.length a.length ms ∧ editCost a b ms 0 0 = editDist a b) :=
  ⟨C03_edit_le a b, C03_edit_attained a b⟩

/-- the all-match script of a sequence with itself costs nothing -/
theorem editCost_self (a : List α) (k : Nat) (i : Nat) (h : i + k = a.length) :
    editCost a a (List.replicate k .diag) i i = 0 := by
  induction k generalizing i with
  | zero => simp [editCost]
  | succ k ih =>
    simp only [List.replicate_succ, editCost]
    rw [ih (i+1) (by omega)]
    simp

theorem isPath_replicate_diag (n : Nat) : IsPath n n (List.replicate n .diag) := by
  constructor <;> simp [List.filter_replicate]

/-- **identity**: `d(a, a) = 0`. -/
theorem C03_edit_self (a : List α) : editDist a a = 0 := by
  have := C03_edit_le a a (List.replicate a.length .diag) (isPath_replicate_diag _)
  rw [editCost_self a a.length 0 (by simp)] at this
  omega

/-- cost of a script is at most its length -/
theorem editCost_le_length (a b : List α) (ms : List Mv) (i j : Nat) : editCost a b ms i j ≤ ms.length := by
  induction ms generalizing i j with
  | nil => simp [editCost]
  | cons m ms ih =>
    cases m <;> simp only [editCost, List.length_cons]
    · have := ih (i+1) j; omega
    · have := ih (i+1) (j+1); split <;> omega
    · have := ih i (j+1); omega

/-- **bound**: the distance never exceeds the longer length. -/
theorem C03_edit_le_max (a b : List α) : editDist a b ≤ max a.length b.length := by
  let d := min a.length b.length
  let ms : List Mv := List.replicate d .diag ++ List.replicate (b.length - d) .up ++ List.replicate (a.length - d) .left
  have hp : IsPath b.length a.length ms := by
    constructor <;> simp [ms, d, List.filter_append, List.filter_replicate]
  have h1 := C03_edit_le a b ms hp
  have h2 := editCost_le_length a b ms 0 0
  have h3 : ms.length = max a.length b.length := by simp [ms, d]; omega
  omega

end Verif.Align
