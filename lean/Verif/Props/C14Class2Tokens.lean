import Verif.Model.SoundClass
set_option linter.unusedSimpArgs false
/-!
# C01 / C14 — mapping an aligned class string back onto the tokens

`class2tokens` (the `list.insert` loop as written) inserts gaps at the gap positions of the
aligned class string and leaves the tokens untouched, whenever the class string has as many
non-gap symbols as there are tokens (which C01 proves of every alignment and C14 of every
class string: one class per token).
-/
namespace Verif.SC
variable {α : Type}

/-- specification: walk along the class string, emit a gap or the next token -/
def mergeSpec : List Bool → List α → List (Option α)
  | [], ts => ts.map some
  | false :: cs, ts => none :: mergeSpec cs ts
  | true :: cs, t :: ts => some t :: mergeSpec cs ts
  | true :: cs, [] => mergeSpec cs []

theorem go_eq_mergeSpec (cs : List Bool) : ∀ (done : List (Option α)) (ts : List α),
    (cs.filter id).length = ts.length →
    class2tokensGo cs done.length (done ++ ts.map some) = done ++ mergeSpec cs ts := by
  induction cs with
  | nil => intro done ts _; simp [class2tokensGo, mergeSpec]
  | cons c cs ih =>
    intro done ts h
    cases c with
    | false =>
      simp only [class2tokensGo, Bool.false_eq_true, if_false, mergeSpec]
      have hins : pyInsert (done ++ ts.map some) done.length none = (done ++ [none]) ++ ts.map some := by
        simp [pyInsert]
      rw [hins]
      have := ih (done ++ [none]) ts (by simpa using h)
      simp only [List.length_append, List.length_cons, List.length_nil] at this
      rw [this]; simp
    | true =>
      cases ts with
      | nil => simp at h
      | cons t ts =>
        simp only [class2tokensGo, if_true, mergeSpec]
        have := ih (done ++ [some t]) ts (by simpa using h)
        simp only [List.length_append, List.length_cons, List.length_nil, List.append_assoc,
          List.cons_append, List.nil_append] at this
        simp only [List.map_cons]
        rw [this]

theorem mergeSpec_props (cs : List Bool) : ∀ (ts : List α), (cs.filter id).length = ts.length →
    (mergeSpec cs ts).filterMap id = ts ∧ (mergeSpec cs ts).length = cs.length ∧
    ∀ i : Nat, ((mergeSpec cs ts)[i]? = some none ↔ cs[i]? = some false) := by
  induction cs with
  | nil =>
    intro ts h
    have : ts = [] := by simpa using h.symm
    subst this
    simp [mergeSpec]
  | cons c cs ih =>
    intro ts h
    cases c with
    | false =>
      obtain ⟨h1, h2, h3⟩ := ih ts (by simpa using h)
      refine ⟨by simp [mergeSpec, h1], by simp [mergeSpec, h2], ?_⟩
      intro i
      cases i with
      | zero => simp [mergeSpec]
      | succ i => simpa [mergeSpec] using h3 i
    | true =>
      cases ts with
      | nil => simp at h
      | cons t ts =>
        obtain ⟨h1, h2, h3⟩ := ih ts (by simpa using h)
        refine ⟨by simp [mergeSpec, h1], by simp [mergeSpec, h2], ?_⟩
        intro i
        cases i with
        | zero => simp [mergeSpec]
        | succ i => simpa [mergeSpec] using h3 i

/-- **C01/C14, gap re-insertion**: removing the gaps gives back the tokens, the length is the
length of the class string, and gaps stand exactly at the gap positions of the class string. -/
theorem C14_class2tokens (tokens : List α) (classes : List Bool)
    (h : (classes.filter id).length = tokens.length) :
    (class2tokens tokens classes).filterMap id = tokens ∧
    (class2tokens tokens classes).length = classes.length ∧
    ∀ i : Nat, ((class2tokens tokens classes)[i]? = some none ↔ classes[i]? = some false) := by
  have := go_eq_mergeSpec classes ([] : List (Option α)) tokens h
  simp only [List.length_nil, List.nil_append] at this
  unfold class2tokens
  rw [this]
  exact mergeSpec_props classes tokens h

/-- local mode: the aligned part de-gaps to `tokens[prefix : len - suffix]` -/
theorem C14_class2tokens_local (tokens : List α) (pre suf : Nat) (mid : List Bool)
    (h : (mid.filter id).length = ((tokens.take (tokens.length - suf)).drop pre).length) :
    (class2tokensLocal tokens pre mid suf).filterMap id = (tokens.take (tokens.length - suf)).drop pre ∧
    (class2tokensLocal tokens pre mid suf).length = mid.length :=
  let r := C14_class2tokens _ mid h
  ⟨r.1, r.2.1⟩

end Verif.SC
