/-
# C13 — the `<dst>` block: what `read_qlc` rebuilds from the upper triangle is the matrix that was saved
-/
import Verif.Model.Dst
namespace Verif.Dst
variable {α : Type}

theorem rebuild_length (z : α) (m : List (List α)) : (rebuild z m).length = m.length := by simp [rebuild]

theorem rebuild_cell (z : α) (m : List (List α)) (i j : Nat) (hi : i < m.length) (hj : j < m.length) :
    cellOf z (rebuild z m) i j = if i < j then cellOf z m i j else if j < i then cellOf z m j i else z := by
  simp [cellOf, rebuild, List.getD_eq_getElem?_getD, List.getElem?_map, List.getElem?_range hi, List.getElem?_range hj]

/-- whatever was read, the rebuilt matrix is symmetric … -/
theorem rebuild_symm (z : α) (m : List (List α)) (i j : Nat) (hi : i < m.length) (hj : j < m.length) :
    cellOf z (rebuild z m) i j = cellOf z (rebuild z m) j i := by
  rw [rebuild_cell z m i j hi hj, rebuild_cell z m j i hj hi]
  by_cases h1 : i < j
  · have : ¬ j < i := by omega
    simp [h1, this]
  · by_cases h2 : j < i
    · simp [h1, h2]
    · simp [h1, h2]

/-- … and has a zero diagonal -/
theorem rebuild_diag (z : α) (m : List (List α)) (i : Nat) (hi : i < m.length) : cellOf z (rebuild z m) i i = z := by
  rw [rebuild_cell z m i i hi hi]; simp

/-- **C13, `<dst>` block**: a square, symmetric matrix with a zero diagonal comes back cell by cell. -/
theorem C13_dst_rebuild (z : α) (m : List (List α)) (hsq : ∀ r ∈ m, r.length = m.length)
    (hsym : ∀ i j, i < m.length → j < m.length → cellOf z m i j = cellOf z m j i)
    (hdiag : ∀ i, i < m.length → cellOf z m i i = z) : rebuild z m = m := by
  apply List.ext_getElem (rebuild_length z m)
  intro i h1 h2
  have hrow : m[i].length = m.length := hsq _ (List.getElem_mem h2)
  apply List.ext_getElem
  · simp [rebuild, hrow]
  · intro j h3 h4
    have hj : j < m.length := by rw [← hrow]; exact h4
    have e1 : (rebuild z m)[i][j] = cellOf z (rebuild z m) i j := by
      simp [cellOf, List.getD_eq_getElem?_getD, List.getElem?_eq_getElem h1, List.getElem?_eq_getElem h3]
    have e2 : m[i][j] = cellOf z m i j := by
      simp [cellOf, List.getD_eq_getElem?_getD, List.getElem?_eq_getElem h2, List.getElem?_eq_getElem h4]
    rw [e1, e2, rebuild_cell z m i j h2 hj]
    by_cases h5 : i < j
    · simp [h5]
    · by_cases h6 : j < i
      · simp [h5, h6, hsym i j h2 hj]
      · have : i = j := by omega
        subst this
        simp [hdiag i h2]

/-- through any cell codec that reads back what it wrote (the values as rounded in the file) -/
theorem C13_dst_codec {β : Type} (z : α) (enc : α → β) (dec : β → α) (hcodec : ∀ x, dec (enc x) = x) (m : List (List α))
    (hsq : ∀ r ∈ m, r.length = m.length)
    (hsym : ∀ i j, i < m.length → j < m.length → cellOf z m i j = cellOf z m j i)
    (hdiag : ∀ i, i < m.length → cellOf z m i i = z) :
    rebuild z ((m.map fun r => r.map enc).map fun r => r.map dec) = m := by
  have : ((m.map fun r => r.map enc).map fun r => r.map dec) = m := by
    simp [List.map_map, Function.comp_def, hcodec]
  rw [this]
  exact C13_dst_rebuild z m hsq hsym hdiag

/-- a matrix that is not symmetric does not come back: the lower triangle is the mirrored upper one -/
example : rebuild (0 : Nat) [[0, 1], [2, 0]] = [[0, 1], [1, 0]] := by decide
/-- the mirrored write must go to `[j][i]` – with `[j][j]` (a one-token slip) the lower triangle stays empty; the model says what is right -/
example : rebuild (0 : Nat) [[0, 5, 7], [5, 0, 9], [7, 9, 0]] = [[0, 5, 7], [5, 0, 9], [7, 9, 0]] := by decide

end Verif.Dst

/-! ### the line level -/
namespace Verif.Dst

def Tok (v : List Nat) : Prop := v ≠ [] ∧ 32 ∉ v

theorem splitWsGo_tok (t : List Nat) (ht : 32 ∉ t) (rest cur : List Nat) :
    splitWsGo (t ++ rest) cur = splitWsGo rest (t.reverse ++ cur) := by
  induction t generalizing cur with
  | nil => simp
  | cons c cs ih =>
    have hc : (c == 32) = false := by
      have : c ≠ 32 := fun h => ht (by simp [h])
      simpa using this
    have hcs : 32 ∉ cs := fun h => ht (List.mem_cons_of_mem _ h)
    simp only [List.cons_append, splitWsGo, hc, Bool.false_eq_true, if_false]
    rw [ih hcs]
    simp

theorem splitWs_joinSp : ∀ (vals : List (List Nat)), (∀ v ∈ vals, Tok v) → splitWs (joinSp vals) = vals
  | [], _ => by simp [splitWs, joinSp, splitWsGo]
  | [v], h => by
    obtain ⟨hne, hsp⟩ := h v (by simp)
    have := splitWsGo_tok v hsp [] []
    simp only [List.append_nil] at this
    simp only [splitWs, joinSp, this, splitWsGo]
    simp [hne]
  | v :: w :: vs, h => by
    obtain ⟨hne, hsp⟩ := h v (by simp)
    have ih := splitWs_joinSp (w :: vs) (fun x hx => h x (List.mem_cons_of_mem _ hx))
    have := splitWsGo_tok v hsp (32 :: joinSp (w :: vs)) []
    simp only [List.append_nil] at this
    simp only [splitWs, joinSp, this, splitWsGo, beq_self_eq_true, if_true]
    have hr : v.reverse.isEmpty = false := by simpa using hne
    simp only [hr, Bool.false_eq_true, if_false, List.reverse_reverse]
    unfold splitWs at ih
    rw [ih]

theorem splitWs_blank (s : List Nat) : splitWs (32 :: s) = splitWs s := by simp [splitWs, splitWsGo]

/-- **C13, one line of the `<dst>` block**: the values come back as written (whatever the taxon name – it is cut or padded
to its field), and the name field read is the first ten characters of the padded name, stripped. -/
theorem C13_dst_line (name : List Nat) (vals : List (List Nat)) (hv : ∀ v ∈ vals, Tok v) :
    (readLine (writeLine name vals)).2 = vals ∧
    (readLine (writeLine name vals)).1 = stripSp ((name ++ List.replicate (10 - name.length) 32).take 10) := by
  generalize hp : name ++ List.replicate (10 - name.length) 32 = padded
  have hlen : 10 ≤ padded.length := by rw [← hp]; simp; omega
  constructor
  · simp only [readLine, writeLine, hp]
    by_cases h11 : padded.length ≤ 10
    · -- the name fits: ten characters, the separator is character 10
      have h10 : padded.length = 10 := by omega
      have : padded.take 11 = padded := List.take_of_length_le (by omega)
      rw [this, List.drop_append, h10]
      simp only [Nat.reduceSub, List.drop_succ_cons, List.drop_zero]
      rw [List.drop_of_length_le (by omega), List.nil_append]
      exact splitWs_joinSp vals hv
    · -- a long name: eleven characters of it, then the separator
      have hl : (padded.take 11).length = 11 := by simp; omega
      rw [List.drop_append, hl, List.drop_of_length_le (by omega)]
      simp only [Nat.sub_self, List.drop_zero, List.nil_append, splitWs_blank]
      exact splitWs_joinSp vals hv
  · simp only [readLine, writeLine, hp]
    congr 1
    rw [List.take_append_of_le_length (by simp; omega), List.take_take]
    simp

example : readLine (writeLine [65, 66] [[48, 46, 53], [49]]) = ([65, 66], [[48, 46, 53], [49]]) := by decide
/-- a name of twelve characters: the field keeps ten, the values are untouched -/
example : (readLine (writeLine [65,66,67,68,69,70,71,72,73,74,75,76] [[48], [49]])) = ([65,66,67,68,69,70,71,72,73,74], [[48], [49]]) := by decide

end Verif.Dst
