import Verif.Model.Cognates
import Verif.Props.C05
set_option linter.unusedSimpArgs false
/-!
# C06 — cognate detection is per-concept clustering: the id bookkeeping

Every word gets exactly one id, ids of different concepts never coincide (each concept's ids
lie strictly above all ids handed out before), and within a concept two words share an id iff
they share a cluster label.  Needs only that labels are ≥ 1 – which `C05_partition_revert`
proves of every reverted flat clustering.
-/
namespace Verif.Cognates

theorem le_foldl_max (l : List Nat) (a : Nat) : a ≤ l.foldl max a ∧ ∀ x ∈ l, x ≤ l.foldl max a := by
  induction l generalizing a with
  | nil => simp
  | cons y ys ih =>
    simp only [List.foldl_cons]
    obtain ⟨h1, h2⟩ := ih (max a y)
    refine ⟨Nat.le_trans (Nat.le_max_left _ _) h1, ?_⟩
    intro x hx
    rcases List.mem_cons.mp hx with rfl | hx
    · exact Nat.le_trans (Nat.le_max_right _ _) h1
    · exact h2 x hx

theorem foldl_max_ge_of_mem (l : List Nat) (x : Nat) (hx : x ∈ l) : x ≤ l.foldl max 0 :=
  (le_foldl_max l 0).2 x hx

/-- well-formed input: as many labels as words, all labels ≥ 1, every concept has a word -/
def WF (parts : List (List Nat × List Nat)) : Prop :=
  ∀ p ∈ parts, p.1.length = p.2.length ∧ (∀ l ∈ p.2, 1 ≤ l) ∧ p.1 ≠ []

/-- **C06, totality**: the words of every concept get exactly one id each, in order. -/
theorem C06_total (parts : List (List Nat × List Nat)) (hwf : WF parts) : ∀ k,
    (glue k parts).map (fun c => c.map (·.1)) = parts.map (·.1) := by
  induction parts with
  | nil => intro k; rfl
  | cons p rest ih =>
    intro k
    obtain ⟨idx, labs⟩ := p
    have h := hwf (idx, labs) List.mem_cons_self
    simp only [glue, List.map_cons]
    rw [ih (fun q hq => hwf q (List.mem_cons_of_mem _ hq))]
    congr 1
    rw [List.map_fst_zip]
    simp [h.1]

/-- every id handed out for `parts` with offset `k` is greater than `k` -/
theorem glue_gt (parts : List (List Nat × List Nat)) (hwf : WF parts) : ∀ k,
    ∀ c ∈ glue k parts, ∀ e ∈ c, k < e.2 := by
  induction parts with
  | nil => intro k c hc; simp [glue] at hc
  | cons p rest ih =>
    intro k c hc e he
    obtain ⟨idx, labs⟩ := p
    have h := hwf (idx, labs) List.mem_cons_self
    simp only [glue, List.mem_cons] at hc
    rcases hc with rfl | hc
    · have := List.of_mem_zip he
      obtain ⟨l, hl, hle⟩ := List.mem_map.mp this.2
      have := h.2.1 l hl
      omega
    · have hgt := ih (fun q hq => hwf q (List.mem_cons_of_mem _ hq)) _ c hc e he
      -- the new offset is at least k (some label exists, all are > k)
      obtain ⟨i0, hi0⟩ := List.exists_mem_of_ne_nil _ h.2.2
      have hlabs : labs ≠ [] := by
        intro hl; rw [hl] at h; simp at h
      obtain ⟨l0, hl0⟩ := List.exists_mem_of_ne_nil _ hlabs
      have : l0 + k ≤ (labs.map (· + k)).foldl max 0 :=
        foldl_max_ge_of_mem _ _ (List.mem_map.mpr ⟨l0, hl0, rfl⟩)
      omega

/-- **C06, no cross-concept sets**: an id of the first concept is smaller than every id of any
later concept – so ids of different concepts never coincide. -/
theorem C06_no_cross_concept (p : List Nat × List Nat) (rest : List (List Nat × List Nat))
    (hwf : WF (p :: rest)) (k : Nat) :
    ∀ e ∈ (glue k (p :: rest)).headD [], ∀ c ∈ (glue k (p :: rest)).tail, ∀ e' ∈ c, e.2 < e'.2 := by
  obtain ⟨idx, labs⟩ := p
  intro e he c hc e' he'
  simp only [glue, List.headD_cons, List.tail_cons] at he hc
  have h1 : e.2 ≤ (labs.map (· + k)).foldl max 0 :=
    foldl_max_ge_of_mem _ _ (List.of_mem_zip he).2
  have h2 := glue_gt rest (fun q hq => hwf q (List.mem_cons_of_mem _ hq)) _ c hc e' he'
  omega

/-- … and the same for every pair of different concepts (by position). -/
theorem C06_no_cross_concept_all (parts : List (List Nat × List Nat)) (hwf : WF parts) :
    ∀ (k i j : Nat), i < j → ∀ (ci cj : List (Nat × Nat)),
    (glue k parts)[i]? = some ci → (glue k parts)[j]? = some cj →
    ∀ e ∈ ci, ∀ e' ∈ cj, e.2 < e'.2 := by
  induction parts with
  | nil => intro k i j _ ci cj h; simp [glue] at h
  | cons p rest ih =>
    intro k i j hij ci cj hi hj e he e' he'
    cases i with
    | zero =>
      obtain ⟨j', rfl⟩ : ∃ j', j = j' + 1 := ⟨j - 1, by omega⟩
      have hc : cj ∈ (glue k (p :: rest)).tail := by
        obtain ⟨idx, labs⟩ := p
        simp only [glue, List.tail_cons, List.getElem?_cons_succ] at hj ⊢
        exact List.mem_of_getElem? hj
      have he0 : e ∈ (glue k (p :: rest)).headD [] := by
        obtain ⟨idx, labs⟩ := p
        simp only [glue, List.getElem?_cons_zero, Option.some.injEq, List.headD_cons] at hi ⊢
        rw [hi]; exact he
      exact C06_no_cross_concept p rest hwf k e he0 cj hc e' he'
    | succ i =>
      obtain ⟨j', rfl⟩ : ∃ j', j = j' + 1 := ⟨j - 1, by omega⟩
      obtain ⟨idx, labs⟩ := p
      simp only [glue, List.getElem?_cons_succ] at hi hj
      exact ih (fun q hq => hwf q (List.mem_cons_of_mem _ hq)) _ i j' (by omega) ci cj hi hj e he e' he'

/-- **C06, within a concept**: two words get the same id iff they got the same cluster label. -/
theorem C06_within (idx labs : List Nat) (rest : List (List Nat × List Nat)) (k : Nat)
    (i j : Nat) (a b la lb : Nat)
    (ha : (idx.zip (labs.map (· + k)))[i]? = some (a, la)) (hb : (idx.zip (labs.map (· + k)))[j]? = some (b, lb)) :
    (glue k ((idx, labs) :: rest)).headD [] = idx.zip (labs.map (· + k)) ∧
    (la = lb ↔ labs[i]? = labs[j]?) := by
  refine ⟨by simp [glue], ?_⟩
  simp only [List.getElem?_zip_eq_some, List.getElem?_map] at ha hb
  obtain ⟨_, ha2⟩ := ha
  obtain ⟨_, hb2⟩ := hb
  cases hi : labs[i]? with
  | none => simp [hi] at ha2
  | some x =>
    cases hj : labs[j]? with
    | none => simp [hj] at hb2
    | some y =>
      simp only [hi, hj, Option.map_some, Option.some.injEq] at ha2 hb2 ⊢
      omega

/-- the labels read off a reverted flat clustering are ≥ 1 for every item -/
theorem labels_pos {S : Type} [Verif.Align.ScoreOps S] (cfg : Verif.Cluster.Cfg) (M : Nat → Nat → S) (t : S)
    (n : Nat) : ∀ x ∈ Verif.Cluster.revert (Verif.Cluster.flatCluster cfg M t n), 1 ≤ x.2 :=
  fun x hx => ((Verif.Cluster.C05_partition_revert cfg M t n).2 x hx).1

end Verif.Cognates
