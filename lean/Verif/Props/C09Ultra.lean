import Verif.Props.C09
set_option linter.unusedSimpArgs false
set_option linter.unusedVariables false
/-!
# C09 — the UPGMA tree is ultrametric

The tree matrix is decoded as the harness and `lingpy` decode it: leaves are `0 … n-1`, row `i`
creates node `n + i` with the two children and branch lengths it lists.  `leafDepths` lists, for a
node, every leaf below it with the length of the path down to it.

Theorem `C09_upgma_ultrametric`: in a carrier where `x + (h - x) = h` (exact arithmetic – the
integers; floats satisfy it only up to rounding, which is why the implementation is *tested* with a
tolerance) every leaf below the root of the UPGMA tree lies at the same depth, the recorded height of
the root – for every matrix (ties, asymmetric, negative entries) and pick rule.  The invariant says
the same of every live cluster: `branch = height(new node) − height(child)` telescopes.
-/
namespace Verif.TreeBuild
open Verif.Align Verif.Cluster ScoreOps
variable {S : Type} [ScoreOps S]

/-- leaves below node `k` with their depth below `k` -/
def leafDepths (n : Nat) (rows : List (Row S)) : Nat → Nat → List (Nat × S)
  | 0, _ => []
  | f+1, k =>
    if k < n then [(k, zero)]
    else match rows[k - n]? with
      | none => []
      | some (a, b, bA, bB) =>
        ((leafDepths n rows f a).map fun p => (p.1, add p.2 bA)) ++
        ((leafDepths n rows f b).map fun p => (p.1, add p.2 bB))

theorem leafDepths_node (n : Nat) (rows : List (Row S)) (f k a b : Nat) (bA bB : S) (h1 : ¬ k < n)
    (h2 : rows[k - n]? = some (a, b, bA, bB)) :
    leafDepths n rows (f + 1) k =
      ((leafDepths n rows f a).map fun p => (p.1, add p.2 bA)) ++
      ((leafDepths n rows f b).map fun p => (p.1, add p.2 bB)) := by
  simp only [leafDepths, h1, if_false, h2]

/-- children are created before their parent -/
def RowsWf (n : Nat) (rows : List (Row S)) : Prop :=
  ∀ i a b x y, rows[i]? = some (a, b, x, y) → a < n + i ∧ b < n + i

theorem leafDepths_fuel (n : Nat) (rows : List (Row S)) (wf : RowsWf n rows) :
    ∀ (f1 f2 k : Nat), k < f1 → k < f2 → leafDepths n rows f1 k = leafDepths n rows f2 k := by
  intro f1
  induction f1 with
  | zero => intro f2 k h; omega
  | succ g1 ih =>
    intro f2 k h1 h2
    cases f2 with
    | zero => omega
    | succ g2 =>
      simp only [leafDepths]
      by_cases hk : k < n
      · simp [hk]
      · simp only [hk, if_false]
        cases hr : rows[k - n]? with
        | none => rfl
        | some r =>
          obtain ⟨a, b, x, y⟩ := r
          obtain ⟨ha, hb⟩ := wf (k - n) a b x y hr
          simp only
          rw [ih g2 a (by omega) (by omega), ih g2 b (by omega) (by omega)]

theorem leafDepths_append (n : Nat) (rows r : List (Row S)) (wf : RowsWf n rows) :
    ∀ (f k : Nat), k < n + rows.length → leafDepths n (rows ++ r) f k = leafDepths n rows f k := by
  intro f
  induction f with
  | zero => intro k _; rfl
  | succ g ih =>
    intro k hk
    simp only [leafDepths]
    by_cases hkn : k < n
    · simp [hkn]
    · simp only [hkn, if_false]
      have hidx : k - n < rows.length := by omega
      rw [List.getElem?_append_left hidx]
      cases hr : rows[k - n]? with
      | none => rfl
      | some row =>
        obtain ⟨a, b, x, y⟩ := row
        obtain ⟨ha, hb⟩ := wf (k - n) a b x y hr
        simp only
        rw [ih a (by omega), ih b (by omega)]

theorem foldl_max_le (l : List Nat) (m b : Nat) (hb : b ≤ m) (h : ∀ x ∈ l, x ≤ m) : l.foldl max b ≤ m := by
  induction l generalizing b with
  | nil => simpa
  | cons x xs ih =>
    simp only [List.foldl_cons]
    exact ih (max b x) (by have := h x List.mem_cons_self; omega) (fun y hy => h y (List.mem_cons_of_mem _ hy))

theorem heightOf_append_ne (hs : List (Nat × S)) (k new : Nat) (h : S) (hne : k ≠ new) :
    heightOf (hs ++ [(new, h)]) k = heightOf hs k := by
  unfold heightOf
  rw [List.find?_append]
  cases hf : hs.find? (fun p => p.1 == k) with
  | some p => simp
  | none =>
    have : ((new == k) = false) := by simpa using fun e => hne e.symm
    simp [this]

theorem heightOf_append_new (hs : List (Nat × S)) (new : Nat) (h : S) (hfresh : ∀ p ∈ hs, p.1 ≠ new) :
    heightOf (hs ++ [(new, h)]) new = h := by
  unfold heightOf
  rw [List.find?_append]
  have : hs.find? (fun p => p.1 == new) = none := by
    rw [List.find?_eq_none]
    intro p hp
    simpa using hfresh p hp
  simp [this]

/-- the invariant of the UPGMA run -/
structure UInv (n : Nat) (st : UState S) : Prop where
  wf : RowsWf n st.rows
  keysLt : ∀ c ∈ st.clusters, c.1 < n + st.rows.length
  maxKey : (st.clusters.map (·.1)).foldl max 0 + 1 = n + st.rows.length
  hkeys : ∀ p ∈ st.heights, p.1 < n + st.rows.length
  ld : ∀ c ∈ st.clusters, (leafDepths n st.rows (c.1 + 1) c.1).map (·.1) = c.2 ∧
        ∀ p ∈ leafDepths n st.rows (c.1 + 1) c.1, p.2 = heightOf st.heights c.1

theorem mem_eraseIdx_two {α : Type} (l : List α) (i j : Nat) (x : α) (h : x ∈ (l.eraseIdx i).eraseIdx j) : x ∈ l :=
  (List.eraseIdx_sublist l i).subset ((List.eraseIdx_sublist _ j).subset h)

theorem upgmaStep_inv (hlaw : ∀ h x : S, add x (sub h x) = h) (lastMin : Bool) (M : Nat → Nat → S) (n : Nat)
    (st st' : UState S) (hinv : UInv n st) (h : upgmaStep lastMin M st = some st') : UInv n st' := by
  unfold upgmaStep at h
  split at h
  · cases h
  · split at h
    · cases h
    · rename_i p q m heq
      have hmem := argMin_mem _ _ _ heq
      obtain ⟨hp, hq, hne, _⟩ := pairScores_valid _ M st.clusters _ hmem
      simp only at hp hq hne
      simp only [Option.some.injEq] at h
      simp only [List.getD_eq_getElem?_getD, List.getElem?_eq_getElem hp, List.getElem?_eq_getElem hq,
        Option.getD_some] at h
      have hidx : (st.clusters.map (·.1)).foldl max 0 + 1 = n + st.rows.length := hinv.maxKey
      generalize hnew : (st.clusters.map (·.1)).foldl max 0 + 1 = idxNew at h hidx
      have hamem : st.clusters[p] ∈ st.clusters := List.getElem_mem hp
      have hbmem : st.clusters[q] ∈ st.clusters := List.getElem_mem hq
      have ha := hinv.keysLt _ hamem
      have hb := hinv.keysLt _ hbmem
      generalize hA : st.clusters[p] = A at h hamem ha
      generalize hB : st.clusters[q] = B at h hbmem hb
      generalize hh : div m (two : S) = hgt at h
      subst h
      have hwf' : RowsWf n (st.rows ++ [(A.1, B.1, sub hgt (heightOf st.heights A.1), sub hgt (heightOf st.heights B.1))]) := by
        intro i a b x y hi
        by_cases hlt : i < st.rows.length
        · rw [List.getElem?_append_left hlt] at hi
          exact hinv.wf i a b x y hi
        · by_cases heq : i = st.rows.length
          · subst heq
            simp only [List.getElem?_append_right (Nat.le_refl _), Nat.sub_self, List.getElem?_cons_zero,
              Option.some.injEq, Prod.mk.injEq] at hi
            obtain ⟨rfl, rfl, _, _⟩ := hi
            exact ⟨ha, hb⟩
          · have : st.rows.length + 1 ≤ i := by omega
            rw [List.getElem?_eq_none (by simp; omega)] at hi
            cases hi
      refine ⟨hwf', ?_, ?_, ?_, ?_⟩
      · -- keys
        intro c hc
        simp only [List.length_append, List.length_cons, List.length_nil]
        rcases List.mem_append.mp hc with hc | hc
        · have := hinv.keysLt c (mem_eraseIdx_two _ _ _ _ hc); omega
        · simp only [List.mem_singleton] at hc; subst hc; simp only; omega
      · -- the new key is the largest
        simp only [List.map_append, List.map_cons, List.map_nil, List.foldl_append, List.foldl_cons, List.foldl_nil,
          List.length_append, List.length_cons, List.length_nil]
        have hle : (((st.clusters.eraseIdx (max p q)).eraseIdx (min p q)).map (·.1)).foldl max 0 ≤ idxNew := by
          apply foldl_max_le _ _ _ (by omega)
          intro x hx
          obtain ⟨c, hc, rfl⟩ := List.mem_map.mp hx
          have := hinv.keysLt c (mem_eraseIdx_two _ _ _ _ hc); omega
        omega
      · intro pp hpp
        simp only [List.length_append, List.length_cons, List.length_nil]
        rcases List.mem_append.mp hpp with hpp | hpp
        · have := hinv.hkeys pp hpp; omega
        · simp only [List.mem_singleton] at hpp; subst hpp; simp only; omega
      · -- depths
        have hfresh : ∀ pp ∈ st.heights, pp.1 ≠ idxNew := by
          intro pp hpp; have := hinv.hkeys pp hpp; omega
        intro c hc
        rcases List.mem_append.mp hc with hc | hc
        · have hcm := mem_eraseIdx_two _ _ _ _ hc
          have hck := hinv.keysLt c hcm
          rw [leafDepths_append n st.rows _ hinv.wf (c.1 + 1) c.1 hck,
            heightOf_append_ne st.heights c.1 idxNew hgt (by omega)]
          exact hinv.ld c hcm
        · simp only [List.mem_singleton] at hc
          subst hc
          simp only
          have hnl : ¬ idxNew < n := by omega
          have hrow : (st.rows ++ [(A.1, B.1, sub hgt (heightOf st.heights A.1), sub hgt (heightOf st.heights B.1))])[idxNew - n]? =
              some (A.1, B.1, sub hgt (heightOf st.heights A.1), sub hgt (heightOf st.heights B.1)) := by
            have : idxNew - n = st.rows.length := by omega
            rw [this, List.getElem?_append_right (Nat.le_refl _)]
            simp
          have hldA : leafDepths n (st.rows ++ [(A.1, B.1, sub hgt (heightOf st.heights A.1), sub hgt (heightOf st.heights B.1))]) idxNew A.1 =
              leafDepths n st.rows (A.1 + 1) A.1 := by
            rw [leafDepths_fuel n _ hwf' idxNew (A.1 + 1) A.1 (by omega) (by omega),
              leafDepths_append n st.rows _ hinv.wf (A.1 + 1) A.1 ha]
          have hldB : leafDepths n (st.rows ++ [(A.1, B.1, sub hgt (heightOf st.heights A.1), sub hgt (heightOf st.heights B.1))]) idxNew B.1 =
              leafDepths n st.rows (B.1 + 1) B.1 := by
            rw [leafDepths_fuel n _ hwf' idxNew (B.1 + 1) B.1 (by omega) (by omega),
              leafDepths_append n st.rows _ hinv.wf (B.1 + 1) B.1 hb]
          obtain ⟨a1, a2⟩ := hinv.ld A hamem
          obtain ⟨b1, b2⟩ := hinv.ld B hbmem
          rw [leafDepths_node n _ idxNew idxNew A.1 B.1 _ _ hnl hrow, hldA, hldB]
          constructor
          · simp only [List.map_append, List.map_map, Function.comp_def]
            rw [← a1, ← b1]
          · intro pp hpp
            rw [heightOf_append_new st.heights idxNew hgt hfresh]
            rcases List.mem_append.mp hpp with hpp | hpp
            · obtain ⟨x, hx, rfl⟩ := List.mem_map.mp hpp
              simp only
              rw [a2 x hx]; exact hlaw _ _
            · obtain ⟨x, hx, rfl⟩ := List.mem_map.mp hpp
              simp only
              rw [b2 x hx]; exact hlaw _ _

theorem upgmaRun_inv (hlaw : ∀ h x : S, add x (sub h x) = h) (lastMin : Bool) (M : Nat → Nat → S) (n : Nat) :
    ∀ (fuel : Nat) (st : UState S), UInv n st → UInv n (upgmaRun lastMin M fuel st)
  | 0, st, h => by simpa [upgmaRun] using h
  | f+1, st, h => by
    simp only [upgmaRun]
    cases hs : upgmaStep lastMin M st with
    | none => exact h
    | some st' => exact upgmaRun_inv hlaw lastMin M n f st' (upgmaStep_inv hlaw lastMin M n st st' h hs)

theorem foldl_max_range (n : Nat) (hn : 1 ≤ n) : ((List.range n).foldl max 0) + 1 = n := by
  induction n with
  | zero => omega
  | succ k ih =>
    rw [List.range_succ, List.foldl_append]
    simp only [List.foldl_cons, List.foldl_nil]
    by_cases hk : 1 ≤ k
    · have := ih hk; omega
    · have : k = 0 := by omega
      subst this; simp

theorem uinv_init (n : Nat) (hn : 1 ≤ n) :
    UInv (S := S) n ⟨init n, (List.range n).map fun i => (i, zero), []⟩ := by
  refine ⟨?_, ?_, ?_, ?_, ?_⟩
  · intro i a b x y hi; simp at hi
  · intro c hc
    simp only [init, List.mem_map, List.mem_range] at hc
    obtain ⟨i, hi, rfl⟩ := hc
    simpa using hi
  · simp only [init, List.map_map, Function.comp_def, List.map_id', List.length_nil, Nat.add_zero]
    exact foldl_max_range n hn
  · intro p hp
    simp only [List.mem_map, List.mem_range] at hp
    obtain ⟨i, hi, rfl⟩ := hp
    simpa using hi
  · intro c hc
    simp only [init, List.mem_map, List.mem_range] at hc
    obtain ⟨i, hi, rfl⟩ := hc
    refine ⟨by simp [leafDepths, hi], ?_⟩
    intro p hp
    simp only [leafDepths, hi, if_true, List.mem_singleton] at hp
    subst hp
    simp only
    unfold heightOf
    have : ((List.range n).map fun i => (i, (zero : S))).find? (fun p => p.1 == i) = some (i, zero) := by
      rw [List.find?_map]
      have : (List.range n).find? ((fun p : Nat × S => p.1 == i) ∘ fun i => (i, (zero : S))) = some i := by
        rw [List.find?_eq_some_iff_append]
        refine ⟨by simp, List.range i, (List.range' (i + 1) (n - i - 1)), ?_, ?_⟩
        · have : List.range n = List.range i ++ i :: List.range' (i + 1) (n - i - 1) := by
            rw [List.range_eq_range', List.range_eq_range']
            have h1 : n = i + (1 + (n - i - 1)) := by omega
            conv => lhs; rw [h1]
            rw [← List.range'_append_1, ← List.range'_append_1]
            simp [List.range'_one]
          exact this
        · intro a ha
          simp only [List.mem_range] at ha
          simp only [Function.comp_def, beq_iff_eq, Bool.not_eq_true']
          simpa using (by omega : a ≠ i)
      rw [this]; rfl
    rw [this]; rfl

/-- **C09, ultrametricity (UPGMA)**: in exact arithmetic every leaf below the root of the UPGMA tree
has the same depth, and the leaves below the root are the taxa. -/
theorem C09_upgma_ultrametric (hlaw : ∀ h x : S, add x (sub h x) = h) (lastMin : Bool) (M : Nat → Nat → S)
    (n : Nat) (hn : 1 ≤ n) :
    ∃ root members, (upgma lastMin M n).clusters = [(root, members)] ∧ members.Perm (List.range n) ∧
      (leafDepths n (upgma lastMin M n).rows (root + 1) root).map (·.1) = members ∧
      ∀ p ∈ leafDepths n (upgma lastMin M n).rows (root + 1) root,
        p.2 = heightOf (upgma lastMin M n).heights root := by
  obtain ⟨hperm, hlen, _⟩ := C09_upgma_structure (S := S) lastMin M n hn
  have hinv := upgmaRun_inv hlaw lastMin M n n _ (uinv_init (S := S) n hn)
  change UInv n (upgma lastMin M n) at hinv
  generalize upgma lastMin M n = st at hperm hlen hinv
  match hc : st.clusters, hlen with
  | [(root, members)], _ =>
    refine ⟨root, members, rfl, ?_, ?_, ?_⟩
    · simpa [items, hc] using hperm
    · exact (hinv.ld (root, members) (by rw [hc]; exact List.mem_singleton.mpr rfl)).1
    · exact (hinv.ld (root, members) (by rw [hc]; exact List.mem_singleton.mpr rfl)).2

/-- the integers are such a carrier -/
example : ∀ h x : Int, ScoreOps.add x (ScoreOps.sub h x) = h := by
  intro h x; show x + (h - x) = h; omega

/-- … and the statement is not vacuous: three taxa, distances 2, 6, 6 -/
example : (upgma (S := Int) false (fun i j => if i = j then 0 else if i + j = 1 then 2 else 6) 3).rows =
    [(0, 1, 1, 1), (2, 3, 3, 2)] := by decide

end Verif.TreeBuild
