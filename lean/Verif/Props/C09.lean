import Verif.Model.TreeBuild
import Verif.Lemmas.Cluster
import Verif.Props.C05
set_option linter.unusedSimpArgs false
set_option linter.unusedVariables false
/-!
# C09 — structure of the UPGMA join sequence

For every matrix, carrier and pick rule: every join removes two clusters and adds their union
under a fresh id, the taxa are never lost or duplicated, and for `n ≥ 1` taxa the builder stops
after exactly `n − 1` joins with a single cluster holding every taxon once – i.e. the tree matrix
describes a rooted binary tree whose leaves are exactly the taxa.
-/
namespace Verif.TreeBuild
open Verif.Align Verif.Cluster ScoreOps
variable {S : Type} [ScoreOps S]

theorem erase_two_perm (cs : St) (p q : Nat) (hp : p < cs.length) (hq : q < cs.length) (hne : p ≠ q) :
    (cs[p] :: cs[q] :: (cs.eraseIdx (max p q)).eraseIdx (min p q)).Perm cs ∧
    ((cs.eraseIdx (max p q)).eraseIdx (min p q)).length + 2 = cs.length := by
  have key : ∀ (lo hi : Nat) (hlo : lo < hi) (hhi : hi < cs.length),
      (cs[lo]'(by omega) :: cs[hi] :: (cs.eraseIdx hi).eraseIdx lo).Perm cs ∧
      ((cs.eraseIdx hi).eraseIdx lo).length + 2 = cs.length := by
    intro lo hi hlo hhi
    have h1 := getElem_cons_eraseIdx_perm cs hi hhi
    have hlen1 : (cs.eraseIdx hi).length = cs.length - 1 := List.length_eraseIdx_of_lt hhi
    have hlo' : lo < (cs.eraseIdx hi).length := by omega
    have h2 := getElem_cons_eraseIdx_perm (cs.eraseIdx hi) lo hlo'
    have hget : (cs.eraseIdx hi)[lo] = cs[lo]'(by omega) := by
      rw [List.getElem_eraseIdx_of_lt hlo' hlo]
    rw [hget] at h2
    refine ⟨?_, ?_⟩
    · exact ((List.Perm.swap _ _ _).trans (List.Perm.cons _ h2)).trans h1
    · rw [List.length_eraseIdx_of_lt hlo', hlen1]; omega
  by_cases hpq : p < q
  · have hmax : max p q = q := by omega
    have hmin : min p q = p := by omega
    rw [hmax, hmin]
    exact key p q hpq hq
  · have hqp : q < p := by omega
    have hmax : max p q = p := by omega
    have hmin : min p q = q := by omega
    rw [hmax, hmin]
    obtain ⟨h1, h2⟩ := key q p hqp hp
    exact ⟨(List.Perm.swap _ _ _).trans h1, h2⟩

/-- what one UPGMA join does -/
theorem upgmaStep_spec (lastMin : Bool) (M : Nat → Nat → S) (st st' : UState S)
    (h : upgmaStep lastMin M st = some st') :
    (items st'.clusters).Perm (items st.clusters) ∧ st'.clusters.length + 1 = st.clusters.length ∧
    st'.rows.length = st.rows.length + 1 := by
  unfold upgmaStep at h
  split at h
  · cases h
  · split at h
    · cases h
    · rename_i p q m heq
      have hmem := argMin_mem _ _ _ heq
      obtain ⟨hp, hq, hne, _⟩ := pairScores_valid _ M st.clusters _ hmem
      simp only at hp hq hne
      obtain ⟨hperm, hlen⟩ := erase_two_perm st.clusters p q hp hq hne
      generalize hrest : (st.clusters.eraseIdx (max p q)).eraseIdx (min p q) = rest at hperm hlen h
      simp only [Option.some.injEq] at h
      subst h
      simp only [List.getD_eq_getElem?_getD, List.getElem?_eq_getElem hp, List.getElem?_eq_getElem hq,
        Option.getD_some, List.length_append, List.length_cons, List.length_nil]
      refine ⟨?_, by rw [← hlen], by simp⟩
      have e1 : items (rest ++
          [((st.clusters.map (·.1)).foldl max 0 + 1, st.clusters[p].2 ++ st.clusters[q].2)]) =
          items rest ++ (st.clusters[p].2 ++ st.clusters[q].2) := by
        simp [items, List.flatMap_append]
      rw [e1]
      have e2 : items (st.clusters[p] :: st.clusters[q] :: rest) =
          (st.clusters[p].2 ++ st.clusters[q].2) ++ items rest := by
        simp [items, List.flatMap_cons]
      exact List.perm_append_comm.trans (e2 ▸ items_perm hperm)

/-- the step is defined whenever at least two clusters are left -/
theorem upgmaStep_some (lastMin : Bool) (M : Nat → Nat → S) (st : UState S) (h : 2 ≤ st.clusters.length) :
    ∃ st', upgmaStep lastMin M st = some st' := by
  unfold upgmaStep
  have h1 : ¬ st.clusters.length ≤ 1 := by omega
  simp only [h1, if_false]
  cases ha : argMin lastMin (pairScores ⟨.average, lastMin, false⟩ M st.clusters) with
  | some x => obtain ⟨⟨p, q⟩, m⟩ := x; exact ⟨_, rfl⟩
  | none =>
    exfalso
    cases hps : pairScores ⟨.average, lastMin, false⟩ M st.clusters with
    | cons x xs => rw [hps] at ha; simp [argMin] at ha
    | nil =>
      -- positions 0 and 1 are scored by the ordered-pair scan
      have hm : ((0, 1), linkage Link.average M (st.clusters[0]'(by omega)).2 (st.clusters[1]'(by omega)).2)
          ∈ pairScores ⟨.average, lastMin, false⟩ M st.clusters := by
        simp only [pairScores, List.mem_flatMap, List.mem_filterMap]
        refine ⟨(st.clusters[0]'(by omega), 0), ?_, (st.clusters[1]'(by omega), 1), ?_, by simp⟩
        · rw [List.mem_zipIdx_iff_getElem?]; simp [List.getElem?_eq_getElem (by omega : 0 < st.clusters.length)]
        · rw [List.mem_zipIdx_iff_getElem?]; simp [List.getElem?_eq_getElem (by omega : 1 < st.clusters.length)]
      rw [hps] at hm; cases hm

theorem upgmaRun_spec (lastMin : Bool) (M : Nat → Nat → S) (fuel : Nat) (st : UState S)
    (hf : st.clusters.length ≤ fuel + 1) (hne : 1 ≤ st.clusters.length) :
    (items (upgmaRun lastMin M fuel st).clusters).Perm (items st.clusters) ∧
    (upgmaRun lastMin M fuel st).clusters.length = 1 ∧
    (upgmaRun lastMin M fuel st).rows.length + 1 = st.rows.length + st.clusters.length := by
  induction fuel generalizing st with
  | zero => simp only [upgmaRun]; exact ⟨List.Perm.refl _, by omega, by omega⟩
  | succ f ih =>
    simp only [upgmaRun]
    by_cases h2 : 2 ≤ st.clusters.length
    · obtain ⟨st', hs⟩ := upgmaStep_some lastMin M st h2
      obtain ⟨h1, hl, hr⟩ := upgmaStep_spec lastMin M st st' hs
      rw [hs]
      simp only
      obtain ⟨i1, i2, i3⟩ := ih st' (by omega) (by omega)
      exact ⟨i1.trans h1, i2, by omega⟩
    · have h1 : st.clusters.length = 1 := by omega
      have hn : upgmaStep lastMin M st = none := by simp [upgmaStep, h1]
      rw [hn]
      simp only
      exact ⟨List.Perm.refl _, h1, by omega⟩

/-- **C09, structure (UPGMA)**: for `n ≥ 1` taxa the builder performs exactly `n − 1` joins and
ends with one cluster that holds every taxon exactly once – for every matrix (symmetric or not,
ties or not), carrier and pick rule. -/
theorem C09_upgma_structure (lastMin : Bool) (M : Nat → Nat → S) (n : Nat) (hn : 1 ≤ n) :
    (items (upgma lastMin M n).clusters).Perm (List.range n) ∧
    (upgma lastMin M n).clusters.length = 1 ∧ (upgma lastMin M n).rows.length = n - 1 := by
  have := upgmaRun_spec lastMin M n ⟨init n, (List.range n).map fun i => (i, zero), []⟩
    (by simp [init]) (by simp [init]; omega)
  rw [items_init] at this
  simp only [init, List.length_map, List.length_range, List.length_nil] at this
  unfold upgma
  refine ⟨this.1, this.2.1, ?_⟩
  have h3 := this.2.2
  simp only [init, List.length_map, List.length_range] at h3 ⊢
  omega

end Verif.TreeBuild
