import Verif.Props.C06Cor
set_option linter.unusedSectionVars false
set_option linter.unusedSimpArgs false
set_option linter.unusedVariables false
/-!
# C06 — equivalence matrices with average linkage (UPGMA, the default of the consonant-class method)

When "distance ≤ threshold" is an equivalence on the words of a concept, average linkage returns
exactly its classes as well.  The only facts about the arithmetic that are used are two laws of the
mean at the threshold:

* a mean of values that are all `≤ t` is `≤ t`            (`MeanLe`)
* a mean of values that are all `> t` is `> t`            (`MeanGt`)

They are proved for the `Int` carrier below (floor division).  For IEEE doubles they hold for the
0/1 matrices of the consonant-class method (sums of at most 2^53 ones and zeros are exact, `k/k = 1`,
`0/k = 0`) – that instance is assumed, and exercised by the correspondence on the real code.

Invariant along the run: every cluster lies inside one class ("pure").  A merge of two pure clusters
with mean cross distance `≤ t` joins clusters of the same class: otherwise one unrelated cross pair
makes every cross pair unrelated (classes!), so the mean would be `> t`.  At the stop every pair of
clusters has mean `> t`; one related cross pair would make all cross pairs related and the mean `≤ t`.
-/
namespace Verif.Cluster
open Verif.Align ScoreOps ScoreLaws
variable {S : Type} [ScoreOps S] [LinearOrder S] [ScoreLaws S]

def MeanLe (t : S) : Prop :=
  ∀ vals : List S, vals ≠ [] → (∀ v ∈ vals, v ≤ t) → div (ScoreOps.sum vals) (ofNat vals.length) ≤ t

def MeanGt (t : S) : Prop :=
  ∀ vals : List S, vals ≠ [] → (∀ v ∈ vals, t < v) → t < div (ScoreOps.sum vals) (ofNat vals.length)

/-- all members of a cluster are pairwise related -/
def PureInv (M : Nat → Nat → S) (t : S) (cs : St) : Prop :=
  NonEmpty cs ∧ ∀ c ∈ cs, ∀ x ∈ c.2, ∀ y ∈ c.2, M x y ≤ t

theorem pure_step (cfg : Cfg) (hl : cfg.link = .average) (M : Nat → Nat → S) (t : S)
    (hsymm : ∀ x y, M x y ≤ t → M y x ≤ t) (htrans : ∀ x y z, M x y ≤ t → M y z ≤ t → M x z ≤ t)
    (hgt : MeanGt t)
    (cs : St) (m : S) (cs' : St) (hP : PureInv M t cs) (hn : next cfg M cs = some (m, cs'))
    (hm : le m t = true) : PureInv M t cs' := by
  obtain ⟨a, b, rest, h1, h2, hmv⟩ := next_perm cfg M cs cs' m hn
  obtain ⟨hne, hd⟩ := hP
  have ha : a ∈ cs := h1.mem_iff.mp (by simp)
  have hb : b ∈ cs := h1.mem_iff.mp (by simp)
  have hrest : ∀ c ∈ rest, c ∈ cs := fun c hc => h1.mem_iff.mp (by simp [hc])
  rw [hl] at hmv
  simp only [linkage] at hmv
  have hcne := cross_ne_nil M a.2 b.2 (hne a ha) (hne b hb)
  have hmt : m ≤ t := by rw [← le_iff]; exact hm
  -- every cross pair is related
  have hcross : ∀ x ∈ a.2, ∀ y ∈ b.2, M x y ≤ t := by
    intro x hx y hy
    by_cases hxy : M x y ≤ t
    · exact hxy
    · exfalso
      have hall : ∀ v ∈ cross M a.2 b.2, t < v := by
        intro v hv
        obtain ⟨x', hx', y', hy', rfl⟩ := (mem_cross M _ _ _).mp hv
        by_cases h' : M x' y' ≤ t
        · exfalso
          -- x ~ x' ~ y' ~ y
          have e1 := hd a ha x hx x' hx'
          have e2 := hd b hb y' hy' y hy
          exact hxy (htrans _ _ _ (htrans _ _ _ e1 h') e2)
        · order
      have := hgt _ hcne hall
      rw [← hmv] at this
      order
  constructor
  · intro c hc
    rcases List.mem_cons.mp (h2.mem_iff.mp hc) with rfl | hc
    · simp [hne a ha]
    · exact hne c (hrest c hc)
  · intro c hc x hx y hy
    rcases List.mem_cons.mp (h2.mem_iff.mp hc) with rfl | hc
    · simp only [List.mem_append] at hx hy
      rcases hx with hx | hx <;> rcases hy with hy | hy
      · exact hd a ha x hx y hy
      · exact hcross x hx y hy
      · exact hsymm _ _ (hcross y hy x hx)
      · exact hd b hb x hx y hy
    · exact hd c (hrest c hc) x hx y hy

theorem pure_flatCluster (cfg : Cfg) (hl : cfg.link = .average) (M : Nat → Nat → S) (t : S) (n : Nat)
    (hrefl : ∀ x, M x x ≤ t)
    (hsymm : ∀ x y, M x y ≤ t → M y x ≤ t) (htrans : ∀ x y z, M x y ≤ t → M y z ≤ t → M x z ≤ t)
    (hgt : MeanGt t) : PureInv M t (flatCluster cfg M t n) := by
  refine run_inv (PureInv M t) cfg M t (fun cs m cs' hP hn hm => pure_step cfg hl M t hsymm htrans hgt cs m cs' hP hn hm)
    n (init n) ⟨nonEmpty_init n, ?_⟩
  intro c hc x hx y hy
  simp only [init, List.mem_map] at hc
  obtain ⟨i, _, rfl⟩ := hc
  simp only [List.mem_singleton] at hx hy
  subst hx; subst hy
  exact hrefl _

/-- **equivalence matrices, average linkage**: two items share a cluster iff they are related -/
theorem C06_classes_average (cfg : Cfg) (hl : cfg.link = .average) (hu : cfg.unordered = false)
    (M : Nat → Nat → S) (t : S) (n : Nat)
    (hrefl : ∀ x, M x x ≤ t)
    (hsymm : ∀ x y, M x y ≤ t → M y x ≤ t) (htrans : ∀ x y z, M x y ≤ t → M y z ≤ t → M x z ≤ t)
    (hle : MeanLe t) (hgt : MeanGt t) :
    (∀ c ∈ flatCluster cfg M t n, ∀ x ∈ c.2, ∀ y ∈ c.2, M x y ≤ t) ∧
    (∀ p q (hp : p < (flatCluster cfg M t n).length) (hq : q < (flatCluster cfg M t n).length), p ≠ q →
      ∀ x ∈ (flatCluster cfg M t n)[p].2, ∀ y ∈ (flatCluster cfg M t n)[q].2, ¬ M x y ≤ t) := by
  have hpure := pure_flatCluster cfg hl M t n hrefl hsymm htrans hgt
  refine ⟨hpure.2, ?_⟩
  intro p q hp hq hne x hx y hy hxy
  have hstop := C05_stop cfg hu M t n p q hp hq hne
  rw [hl] at hstop
  simp only [linkage] at hstop
  have hP := hpure.2 _ (List.getElem_mem hp)
  have hQ := hpure.2 _ (List.getElem_mem hq)
  have hcne := cross_ne_nil M _ _ (hpure.1 _ (List.getElem_mem hp)) (hpure.1 _ (List.getElem_mem hq))
  have hall : ∀ v ∈ cross M (flatCluster cfg M t n)[p].2 (flatCluster cfg M t n)[q].2, v ≤ t := by
    intro v hv
    obtain ⟨x', hx', y', hy', rfl⟩ := (mem_cross M _ _ _).mp hv
    exact htrans _ _ _ (htrans _ _ _ (hP x' hx' x hx) hxy) (hQ y hy y' hy')
  have := hle _ hcne hall
  order

/-! ### the two laws of the mean hold for the `Int` carrier -/

theorem foldl_add_shift (l : List Int) (a : Int) : l.foldl (· + ·) a = a + l.foldl (· + ·) 0 := by
  induction l generalizing a with
  | nil => simp
  | cons x xs ih => simp only [List.foldl_cons]; rw [ih (a + x), ih (0 + x)]; omega

theorem sum_le_int (t : Int) : ∀ (l : List Int), (∀ v ∈ l, v ≤ t) → l.foldl (· + ·) 0 ≤ t * l.length
  | [], _ => by simp
  | x :: xs, h => by
    have h1 := h x (by simp)
    have h2 := sum_le_int t xs (fun v hv => h v (by simp [hv]))
    simp only [List.foldl_cons, List.length_cons]
    rw [foldl_add_shift]
    push_cast
    have : t * ((xs.length : Int) + 1) = t * xs.length + t := by rw [Int.mul_add, Int.mul_one]
    omega

theorem sum_ge_int (t : Int) : ∀ (l : List Int), (∀ v ∈ l, t < v) → (t + 1) * l.length ≤ l.foldl (· + ·) 0
  | [], _ => by simp
  | x :: xs, h => by
    have h1 := h x (by simp)
    have h2 := sum_ge_int t xs (fun v hv => h v (by simp [hv]))
    simp only [List.foldl_cons, List.length_cons]
    rw [foldl_add_shift]
    push_cast
    have : (t + 1) * ((xs.length : Int) + 1) = (t + 1) * xs.length + (t + 1) := by rw [Int.mul_add, Int.mul_one]
    omega

theorem meanLe_int (t : Int) : MeanLe t := by
  intro vals hne hall
  have hs := sum_le_int t vals hall
  have hpos : (0 : Int) < vals.length := by
    have : 0 < vals.length := List.length_pos_iff.mpr hne
    omega
  show (vals.foldl (· + ·) 0) / (Int.ofNat vals.length) ≤ t
  exact Int.ediv_le_of_le_mul hpos hs

theorem meanGt_int (t : Int) : MeanGt t := by
  intro vals hne hall
  have hs := sum_ge_int t vals hall
  have hpos : (0 : Int) < vals.length := by
    have : 0 < vals.length := List.length_pos_iff.mpr hne
    omega
  show t < (vals.foldl (· + ·) 0) / (Int.ofNat vals.length)
  have : t + 1 ≤ (vals.foldl (· + ·) 0) / (vals.length : Int) := Int.le_ediv_of_mul_le hpos hs
  exact Int.lt_of_lt_of_le (by omega) this

/-- the theorem is not vacuous: the 0/1 matrix of "same key" on keys `[7, 7, 9, 7]`, threshold 0 -/
example : (flatCluster (S := Int) { link := .average, lastMin := false, unordered := false }
    (fun i j => if [7, 7, 9, 7][i]? = [7, 7, 9, 7][j]? then 0 else 1) 0 4).map (·.2) = [[0, 1, 3], [2]] := by
  decide

end Verif.Cluster
