import Verif.Lemmas.KernelMono
import Verif.Lemmas.Scan
import Verif.Props.C02
set_option linter.unusedSectionVars false
/-!
# C03 — with linear gap costs alignment is exact

Optimality theorems.  `score` is C02's independent re-scorer applied to an arbitrary
alignment (= list of moves); *all possible alignments of the pair* are the move lists that
consume exactly `N` symbols of B and `M` symbols of A.  Only a total order and monotone
`+`/`-` are used (class `ScoreLaws`; instance proved for `Int`).
-/
namespace Verif.Align
open ScoreOps ScoreLaws
variable {S : Type} [ScoreOps S] [Inhabited S] [LinearOrder S] [ScoreLaws S]

/-- an alignment of a prefix pair: consumes `i` symbols of B and `j` symbols of A -/
def IsPath (i j : Nat) (ms : List Mv) : Prop :=
  (ms.filter (· ≠ .left)).length = i ∧ (ms.filter (· ≠ .up)).length = j

/-- score of an arbitrary global / overlap alignment under the scheme of `cfg` -/
def score (cfg : Cfg) (inp : Input S) (ms : List Mv) : S :=
  (rescore (kernelOf cfg inp) ⟨0, 0, (kernelOf cfg inp).corner⟩ ms).cur.1

/-- **C03, global and semi-global (overlap) optimality.**  With `scale = 1` the returned
similarity is the score of the returned alignment (which is an alignment of the whole
pair) and no alignment of the pair scores higher. -/
theorem C03_global_opt (cfg : Cfg) (inp : Input S) (hm : cfg.mode = .global ∨ cfg.mode = .overlap)
    (hs : ∀ g : S, mul g inp.scale = g) (ha : inp.a ≠ []) (hb : inp.b ≠ []) :
    ∃ cols sim, run cfg inp = .glob cols sim ∧
      IsPath inp.N inp.M (movesOf cols) ∧ sim = score cfg inp (movesOf cols) ∧
      ∀ ms, IsPath inp.N inp.M ms → score cfg inp ms ≤ sim := by
  have hl : cfg.mode ≠ .local := by rcases hm with h | h <;> simp [h]
  have hd : cfg.mode ≠ .dialign := by rcases hm with h | h <;> simp [h]
  have hM : inp.M ≠ 0 := by simpa [Input.M] using ha
  have hN : inp.N ≠ 0 := by simpa [Input.N] using hb
  have hrow : ∀ j c, ((kernelOf cfg inp).row0 j c).2 ≠ 3 ∧ ((kernelOf cfg inp).row0 j c).2 ≠ 1 := by
    intro j c
    have := fill_row0_move cfg inp hl j c
    rw [fillOf_aff cfg inp hd] at this
    simp only [AffKernel.toFill] at this
    omega
  have hcol : ∀ i c, ((kernelOf cfg inp).col0 i c).2 = 3 := by
    intro i c
    have := fill_col0_move cfg inp hl i c
    rw [fillOf_aff cfg inp hd] at this
    simpa only [AffKernel.toFill] using this
  obtain ⟨cols, h1, h2⟩ :=
    rescore_tbGlobal (kernelOf cfg inp) (kernel_chooseOkG cfg inp hl) hrow hcol inp.a inp.b inp.N inp.M
      (Nat.le_refl _) (Nat.le_refl _)
      (fun i j => (getCell (rowsRev (fillOf cfg inp) inp.M inp.N) inp.N i j).2)
      (by intro i j hi _; simp only [getCell_eq_T _ _ _ _ _ hi, fillOf_aff cfg inp hd])
      inp.N inp.M [] (Nat.le_refl _) (Nat.le_refl _)
  simp only [List.append_nil] at h1
  refine ⟨cols, (T (kernelOf cfg inp).toFill inp.M inp.N inp.M).1, ?_, ?_, ?_, ?_⟩
  · simp only [run, hM, hN, hl, false_or, if_false, h1, getCell_eq_T _ _ _ _ _ (Nat.le_refl _)]
    rw [fillOf_aff cfg inp hd]
  · have := rescore_pos (kernelOf cfg inp) (movesOf cols) ⟨0, 0, (kernelOf cfg inp).corner⟩
    rw [h2] at this
    exact ⟨by simpa using this.1.symm, by simpa using this.2.symm⟩
  · simp only [score, h2]
  · intro ms hp
    have hpos := rescore_pos (kernelOf cfg inp) ms ⟨0, 0, (kernelOf cfg inp).corner⟩
    have hle := rescore_le (kernelOf cfg inp) (kernel_monoK cfg inp hl hs) inp.M ms
      ⟨0, 0, (kernelOf cfg inp).corner⟩ (by rw [hpos.2, hp.2]; simp)
      (by simp only [T_corner]; exact le_refl _)
    rw [hpos.1, hpos.2, hp.1, hp.2] at hle
    simpa [score] using hle


theorem getD_mem_drop_one {α : Type} (l : List α) (j : Nat) (d : α) (hj : j + 1 < l.length) :
    l.getD (j+1) d ∈ l.drop 1 := by
  cases l with
  | nil => simp at hj
  | cons x xs =>
    simp only [List.length_cons] at hj
    simp only [List.getD_cons_succ, List.drop_succ_cons, List.drop_zero]
    rw [List.getD_eq_getElem?_getD, List.getElem?_eq_getElem (by omega : j < xs.length)]
    exact List.getElem_mem _

/-- in local mode every cell is ≥ 0 -/
theorem T_local_nonneg (cfg : Cfg) (inp : Input S) (hm : cfg.mode = .local) (M i j : Nat) (hj : j ≤ M) :
    (zero : S) ≤ (T (kernelOf cfg inp).toFill M i j).1 := by
  have hd : cfg.mode ≠ .dialign := by simp [hm]
  have hc := fill_local_corner cfg inp hm
  have hr0 := fill_local_row0 cfg inp hm
  have hc0 := fill_local_col0 cfg inp hm
  rw [fillOf_aff cfg inp hd] at hc hr0 hc0
  match i, j with
  | 0, 0 => rw [T_corner, hc]
  | 0, j+1 => rw [T_row0 _ _ _ (by omega), hr0]
  | i+1, 0 => rw [T_col0, hc0]
  | i+1, j+1 =>
    rw [T_inner_aff _ _ _ _ (by omega)]
    simp only [kernelOf, hm, if_true]
    exact (chooseLocal_max cfg _ _ _).2.2.2

/-- border cells of a local table hold zero -/
theorem T_local_border (cfg : Cfg) (inp : Input S) (hm : cfg.mode = .local) (M i j : Nat) (hj : j ≤ M)
    (h0 : i = 0 ∨ j = 0) : (T (kernelOf cfg inp).toFill M i j).1 = zero := by
  have hd : cfg.mode ≠ .dialign := by simp [hm]
  have hc := fill_local_corner cfg inp hm
  have hr0 := fill_local_row0 cfg inp hm
  have hc0 := fill_local_col0 cfg inp hm
  rw [fillOf_aff cfg inp hd] at hc hr0 hc0
  match i, j with
  | 0, 0 => rw [T_corner, hc]
  | 0, j+1 => rw [T_row0 _ _ _ (by omega), hr0]
  | i+1, 0 => rw [T_col0, hc0]
  | i+1, j+1 => omega

/-- **C03, local (best segment pair) optimality.**  With `scale = 1`, whenever the local
kernel returns, its similarity is the score of the returned aligned part and no alignment
of any pair of segments `B[i0'..i)`, `A[j0'..j)` scores higher. -/
theorem C03_local_opt (cfg : Cfg) (inp : Input S) (hm : cfg.mode = .local)
    (hs : ∀ g : S, mul g inp.scale = g)
    (i0 j0 k l : Nat) (cols : List (Col Nat)) (sim : S)
    (hr : run cfg inp = .loc i0 j0 k l cols sim) :
    sim = rescoreLocal cfg inp i0 j0 cols ∧
    ∀ (i0' j0' : Nat) (ms : List Mv),
      i0' + (ms.filter (· ≠ .left)).length ≤ inp.N → j0' + (ms.filter (· ≠ .up)).length ≤ inp.M →
      (rescore (kernelOf cfg inp) ⟨i0', j0', (zero, 0)⟩ ms).cur.1 ≤ sim := by
  refine ⟨C02_score_local cfg inp hm i0 j0 k l cols sim hr, ?_⟩
  have hd : cfg.mode ≠ .dialign := by simp [hm]
  simp only [run, hm] at hr
  split at hr
  · cases hr
  · simp only [if_true] at hr
    have hspec := bestScan_spec cfg (List.drop 1 (rowsRev (fillOf cfg inp) inp.M inp.N).reverse) 1
      ((zero : S), 0, 0)
    generalize hbs : bestScan cfg 1 (List.drop 1 (rowsRev (fillOf cfg inp) inp.M inp.N).reverse) (zero, 0, 0) = bs
      at hr hspec
    obtain ⟨s, k', l'⟩ := bs
    simp only at hr
    split at hr
    · cases hr
    · rename_i hkl
      have hk : k' ≤ inp.N := by omega
      have hl : l' ≤ inp.M := by omega
      split at hr
      case h_2 => cases hr
      case h_1 i1 j1 cs htb =>
      cases hr
      obtain ⟨a1, a2, a3⟩ := hspec
      simp only [scanRows_length] at a2 a3
      -- the scan value is the value of the returned cell
      have hsval : s = (T (kernelOf cfg inp).toFill inp.M k l).1 := by
        rcases a3 with a3 | ⟨t, u, ht, hu, a3⟩
        · simp only [Prod.mk.injEq] at a3; omega
        · rw [scanRows_getD _ _ _ _ ht] at a3 hu
          simp only [Prod.mk.injEq] at a3
          obtain ⟨e1, e2, e3⟩ := a3
          have e2' : k = t + 1 := by omega
          subst e1 e2' e3
          simp only [T, fillOf_aff cfg inp hd]
      -- every cell within the table is dominated
      have hall : ∀ i j, i ≤ inp.N → j ≤ inp.M → (T (kernelOf cfg inp).toFill inp.M i j).1 ≤ s := by
        intro i j hi hj
        by_cases h0 : i = 0 ∨ j = 0
        · rw [T_local_border cfg inp hm _ _ _ hj h0]; exact a1
        · obtain ⟨i', rfl⟩ : ∃ i', i = i' + 1 := ⟨i - 1, by omega⟩
          obtain ⟨j', rfl⟩ : ∃ j', j = j' + 1 := ⟨j - 1, by omega⟩
          have hmem := a2 i' (by omega) (T (kernelOf cfg inp).toFill inp.M (i'+1) (j'+1)) (by
            rw [scanRows_getD _ _ _ _ (by omega), fillOf_aff cfg inp hd]
            have hlen := rowAt_length (kernelOf cfg inp).toFill inp.M (i'+1)
            simp only [T]
            exact getD_mem_drop_one _ _ _ (by omega))
          exact hmem
      intro i0' j0' ms hi hj
      have hpos := rescore_pos (kernelOf cfg inp) ms ⟨i0', j0', (zero, 0)⟩
      have hle := rescore_le (kernelOf cfg inp) (kernel_monoK_local cfg inp hm hs) inp.M ms
        ⟨i0', j0', (zero, 0)⟩ (by rw [hpos.2]; exact hj)
        (T_local_nonneg cfg inp hm _ _ _ (by simp only []; omega))
      rw [getCell_eq_T _ _ _ _ _ hk, fillOf_aff cfg inp hd, ← hsval]
      refine le_trans hle (hall _ _ ?_ ?_)
      · rw [hpos.1]; exact hi
      · rw [hpos.2]; exact hj

end Verif.Align
