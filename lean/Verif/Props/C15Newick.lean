import Verif.Model.Newick
set_option linter.unusedSimpArgs false
set_option linter.unusedVariables false
/-!
# C15 — parsing the Newick text of a tree gives the tree back

`C15_newick_roundtrip`: for every tree whose internal nodes have at least one child, parsing the
printed token sequence (with enough fuel, followed by anything) returns exactly the tree – same
leaves, same nesting, same order of children – and leaves the rest of the input untouched.  Hence the
leaf list and the clades of the parsed tree are those of the original (`C15_newick_clades`).
-/
namespace Verif.Newick
open Verif.TreeDist

mutual
def nonEmpty : Tree → Bool
  | .leaf _ => true
  | .node cs => !cs.isEmpty && nonEmptyL cs
def nonEmptyL : List Tree → Bool
  | [] => true
  | t :: ts => nonEmpty t && nonEmptyL ts
end

mutual
theorem parse_print : ∀ (t : Tree), nonEmpty t = true → ∀ (rest : List Tok) (f : Nat),
    (print t).length + 1 ≤ f → parse f (print t ++ rest) = some (t, rest)
  | .leaf n, _, rest, f, hf => by
    obtain ⟨g, rfl⟩ : ∃ g, f = g + 1 := ⟨f - 1, by simp [print] at hf; omega⟩
    simp [print, parse]
  | .node cs, h, rest, f, hf => by
    simp only [nonEmpty, Bool.and_eq_true, Bool.not_eq_true', List.isEmpty_eq_false_iff] at h
    simp only [print, List.length_cons, List.length_append, List.length_nil] at hf
    obtain ⟨g, rfl⟩ : ∃ g, f = g + 1 := ⟨f - 1, by omega⟩
    have := parseL_print cs h.1 h.2 rest g (by omega)
    simp only [print, List.cons_append, List.append_assoc, List.singleton_append, List.nil_append, parse, this]
theorem parseL_print : ∀ (ts : List Tree), ts ≠ [] → nonEmptyL ts = true → ∀ (rest : List Tok) (f : Nat),
    (printL ts).length + 2 ≤ f → parseL f (printL ts ++ .rpar :: rest) = some (ts, rest)
  | [], h, _, _, _, _ => absurd rfl h
  | [t], _, hne, rest, f, hf => by
    simp only [nonEmptyL, Bool.and_eq_true] at hne
    simp only [printL] at hf ⊢
    obtain ⟨g, rfl⟩ : ∃ g, f = g + 1 := ⟨f - 1, by omega⟩
    simp only [parseL, parse_print t hne.1 (.rpar :: rest) g (by omega)]
  | t :: t' :: ts, _, hne, rest, f, hf => by
    simp only [nonEmptyL, Bool.and_eq_true] at hne
    simp only [printL, List.length_append, List.length_cons] at hf
    obtain ⟨g, rfl⟩ : ∃ g, f = g + 1 := ⟨f - 1, by omega⟩
    have h1 := parse_print t hne.1 (.comma :: (printL (t' :: ts) ++ .rpar :: rest)) g (by omega)
    have h2 := parseL_print (t' :: ts) (by simp) (by simp [nonEmptyL, hne.2]) rest g (by omega)
    simp only [printL, List.append_assoc, List.cons_append, parseL, h1, h2]
end

/-- **C15, Newick round trip** -/
theorem C15_newick_roundtrip (t : Tree) (h : nonEmpty t = true) :
    parse ((print t).length + 1) (print t) = some (t, []) := by
  have := parse_print t h [] ((print t).length + 1) (Nat.le_refl _)
  simpa using this

/-- … in particular the parsed tree has the same leaves and the same clades -/
theorem C15_newick_clades (t t' : Tree) (r : List Tok) (h : nonEmpty t = true)
    (hp : parse ((print t).length + 1) (print t) = some (t', r)) :
    leaves t' = leaves t ∧ clades t' = clades t := by
  rw [C15_newick_roundtrip t h] at hp
  simp only [Option.some.injEq, Prod.mk.injEq] at hp
  rw [← hp.1]; exact ⟨rfl, rfl⟩

/-- not vacuous: `((0,1),2,(3))` -/
example : parse 20 (print (.node [.node [.leaf 0, .leaf 1], .leaf 2, .node [.leaf 3]])) =
    some (.node [.node [.leaf 0, .leaf 1], .leaf 2, .node [.leaf 3]], []) := by rfl

end Verif.Newick
