import Verif.Model.Cache
set_option linter.unusedSimpArgs false
/-!
# C20 — the cache state machine recovers from every state

If the handler catches both kinds of failure (missing file, unpickling failure – what the
bare `except:` of the source does), then from **every** cache state a start succeeds, leaves
every file it reads valid, a second start compiles nothing, and hence any history of
(damage ; start)* ends consistent.  With a handler that catches only `missing` the negation
is proved by a witness.
-/
namespace Verif.Cache

/-- units are well formed: the compile step writes the file that is loaded, inside the cache -/
def WF (us : List CUnit) (n : Nat) : Prop := ∀ u ∈ us, u.main ∈ u.writes ∧ ∀ f ∈ u.writes, f < n

theorem stateOf_setValid (c : Cache) (f g : Nat) :
    stateOf (setValid c f) g = if g = f ∧ g < c.length then .valid else stateOf c g := by
  simp only [stateOf, setValid, List.getD_eq_getElem?_getD, List.getElem?_mapIdx]
  by_cases hg : g < c.length
  · simp only [List.getElem?_eq_getElem hg, Option.map_some, Option.getD_some, hg, and_true]
  · simp [List.getElem?_eq_none (by omega : c.length ≤ g), hg]

theorem setValid_length (c : Cache) (f : Nat) : (setValid c f).length = c.length := by
  simp [setValid]

theorem foldl_setValid_length (ws : List Nat) (c : Cache) : (ws.foldl setValid c).length = c.length := by
  induction ws generalizing c with
  | nil => rfl
  | cons w ws ih => simp [List.foldl_cons, ih, setValid_length]

theorem stateOf_foldl_setValid (ws : List Nat) (c : Cache) (g : Nat) :
    stateOf (ws.foldl setValid c) g = if g ∈ ws ∧ g < c.length then .valid else stateOf c g := by
  induction ws generalizing c with
  | nil => simp
  | cons w ws ih =>
    simp only [List.foldl_cons]
    rw [ih, stateOf_setValid, setValid_length]
    by_cases h1 : g ∈ ws ∧ g < c.length
    · simp [h1]
    · by_cases h2 : g = w ∧ g < c.length
      · simp [h1, h2]
        intro _ a b
        omega
      · simp only [h1, h2, if_false, List.mem_cons]
        have : ¬ ((g = w ∨ g ∈ ws) ∧ g < c.length) := by
          rintro ⟨h | h, hl⟩
          · exact h2 ⟨h, hl⟩
          · exact h1 ⟨h, hl⟩
        simp [this]

/-- every valid file stays valid through a unit's start -/
theorem startUnit_spec (E : Failure → Bool) (hE : ∀ e, E e = true) (c : Cache) (u : CUnit)
    (hu : u.main ∈ u.writes ∧ ∀ f ∈ u.writes, f < c.length) :
    ∃ c' ev, startUnit E c u = .ok (c', ev) ∧ c'.length = c.length ∧ stateOf c' u.main = .valid ∧
      (∀ g, stateOf c g = .valid → stateOf c' g = .valid) ∧
      (stateOf c u.main = .valid → c' = c ∧ ev = [.loadOk u.main]) := by
  unfold startUnit tryLoad
  cases hs : stateOf c u.main with
  | valid => exact ⟨c, _, rfl, rfl, hs, fun _ h => h, fun _ => ⟨rfl, rfl⟩⟩
  | absent =>
    simp only [hE, if_true]
    have hv : stateOf (u.writes.foldl setValid c) u.main = .valid := by
      rw [stateOf_foldl_setValid]; simp [hu.1, hu.2 _ hu.1]
    simp only [hv]
    refine ⟨_, _, rfl, foldl_setValid_length _ _, hv, ?_, fun h => by cases h⟩
    intro g hg
    rw [stateOf_foldl_setValid]; split <;> simp [hg]
  | corrupt =>
    simp only [hE, if_true]
    have hv : stateOf (u.writes.foldl setValid c) u.main = .valid := by
      rw [stateOf_foldl_setValid]; simp [hu.1, hu.2 _ hu.1]
    simp only [hv]
    refine ⟨_, _, rfl, foldl_setValid_length _ _, hv, ?_, fun h => by cases h⟩
    intro g hg
    rw [stateOf_foldl_setValid]; split <;> simp [hg]

/-- **C20, recovery**: with a handler that catches every failure, a start from *any* cache
state succeeds and afterwards every file it loads is valid (and stays the size it was). -/
theorem C20_recovers (E : Failure → Bool) (hE : ∀ e, E e = true) (us : List CUnit) (c : Cache)
    (hwf : WF us c.length) :
    ∃ c' ev, start E us c = .ok (c', ev) ∧ c'.length = c.length ∧
      (∀ u ∈ us, stateOf c' u.main = .valid) ∧ (∀ g, stateOf c g = .valid → stateOf c' g = .valid) := by
  induction us generalizing c with
  | nil => exact ⟨c, [], rfl, rfl, by simp, fun _ h => h⟩
  | cons u us ih =>
    obtain ⟨c1, ev1, h1, hl1, hv1, hm1, _⟩ := startUnit_spec E hE c u (hwf u List.mem_cons_self)
    obtain ⟨c2, ev2, h2, hl2, hv2, hm2⟩ := ih c1 (by
      intro v hv; rw [hl1]; exact hwf v (List.mem_cons_of_mem _ hv))
    refine ⟨c2, ev1 ++ ev2, by simp [start, h1, h2], by omega, ?_, fun g hg => hm2 g (hm1 g hg)⟩
    intro v hv
    rcases List.mem_cons.mp hv with rfl | hv
    · exact hm2 _ hv1
    · exact hv2 v hv

/-- **C20, clean restart**: when every loaded file is valid, a start compiles nothing (its event
log consists of successful loads only) and leaves the cache as it is. -/
theorem C20_clean_restart (E : Failure → Bool) (us : List CUnit) (c : Cache)
    (hv : ∀ u ∈ us, stateOf c u.main = .valid) :
    start E us c = .ok (c, us.map fun u => .loadOk u.main) := by
  induction us with
  | nil => rfl
  | cons u us ih =>
    have h1 : startUnit E c u = .ok (c, [.loadOk u.main]) := by
      simp [startUnit, tryLoad, hv u List.mem_cons_self]
    simp [start, h1, ih (fun v hv' => hv v (List.mem_cons_of_mem _ hv'))]

/-- a history: faults (any file set to any state) interleaved with starts -/
inductive Step where
  | fault (f : Nat) (s : FState)
  | boot
  deriving Repr

def runHistory (E : Failure → Bool) (us : List CUnit) : List Step → Cache → Option Cache
  | [], c => some c
  | .fault f s :: hs, c => runHistory E us hs (damage c f s)
  | .boot :: hs, c =>
    match start E us c with
    | .ok (c', _) => runHistory E us hs c'
    | .error _ => none

theorem damage_length (c : Cache) (f : Nat) (s : FState) : (damage c f s).length = c.length := by
  simp [damage]

/-- **C20, any history**: no history of faults and starts ever makes a start fail; and if the
history ends with a start, the next start is clean. -/
theorem C20_any_history (E : Failure → Bool) (hE : ∀ e, E e = true) (us : List CUnit) (hs : List Step)
    (c : Cache) (hwf : WF us c.length) :
    ∃ c', runHistory E us hs c = some c' ∧ c'.length = c.length := by
  induction hs generalizing c with
  | nil => exact ⟨c, rfl, rfl⟩
  | cons h hs ih =>
    cases h with
    | fault f s =>
      obtain ⟨c', h1, h2⟩ := ih (damage c f s) (by rw [damage_length]; exact hwf)
      exact ⟨c', by simp [runHistory, h1], by rw [h2, damage_length]⟩
    | boot =>
      obtain ⟨c1, ev, h1, hl, _, _⟩ := C20_recovers E hE us c hwf
      obtain ⟨c', h2, h3⟩ := ih c1 (by rw [hl]; exact hwf)
      exact ⟨c', by simp [runHistory, h1, h2], by omega⟩

/-- **Negation for a narrower handler** (`except FileNotFoundError:`): a truncated converter
pickle makes the start fail. -/
theorem C20_narrow_handler_fails :
    start (fun e => e == .missing) [⟨0, [0, 1]⟩] [.corrupt, .valid] = .error .unpickle := by
  rfl

/-- non-vacuity: the broad handler recovers from the same state, and the restart is clean -/
example : start (fun _ => true) [⟨0, [0, 1]⟩] [.corrupt, .valid] =
    .ok ([.valid, .valid], [.loadFail 0 .unpickle, .dump 0, .dump 1, .loadOk 0]) := by rfl
example : start (fun _ => true) [⟨0, [0, 1]⟩] [.valid, .valid] = .ok ([.valid, .valid], [.loadOk 0]) := by
  rfl

end Verif.Cache
