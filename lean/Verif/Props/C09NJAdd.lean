import Verif.Props.C09Cherry
import Verif.Lemmas.RatCarrier
import Verif.Props.C09NJ
import Verif.Props.C05Order
set_option linter.unusedSectionVars false
set_option linter.unusedSimpArgs false
set_option linter.unusedVariables false
/-!
# C09 — the model of `_neighbor` on additive input (exact arithmetic, carrier `ℚ`)

`Props/C09Cherry.lean` is about numbers; this file ties it to the executable model `njStep` of
`Model/TreeBuild.lean`: the row sums, the averages, the criterion, the pair `argMin` picks, the
condensed vector and its `squareform`.
-/
namespace Verif.TreeBuild
open Verif.Align Verif.Cluster ScoreOps ScoreLaws Verif.NJ

@[simp] theorem q_two : (two : ℚ) = 2 := by simp only [two, q_add, q_one]; norm_num

/-! ### lists -/

theorem getD_map_range {α : Type} (n : Nat) (f : Nat → α) (i : Nat) (d : α) (h : i < n) :
    ((List.range n).map f).getD i d = f i := by
  simp [List.getD_eq_getElem?_getD, h]

theorem list_sum_getD (l : List ℚ) : l.sum = ∑ m ∈ Finset.range l.length, l.getD m 0 := by
  induction l with
  | nil => simp
  | cons x xs ih =>
    rw [List.length_cons, Finset.sum_range_succ', List.sum_cons, ih]
    simp [add_comm]

/-- the matrix `M` is `k × k` and holds `D` -/
structure Rep (k : Nat) (M : List (List ℚ)) (D : Nat → Nat → ℚ) : Prop where
  rows : M.length = k
  cols : ∀ i < k, (M.getD i []).length = k
  val : ∀ i < k, ∀ j < k, mget M i j = D i j

theorem rep_rowSum (k : Nat) (M : List (List ℚ)) (D : Nat → Nat → ℚ) (hR : Rep k M D) (i : Nat) (hi : i < k) :
    (M.getD i []).sum = ∑ m ∈ Finset.range k, D i m := by
  rw [list_sum_getD, hR.cols i hi]
  apply Finset.sum_congr rfl
  intro m hm
  exact hR.val i hi m (by simpa using hm)

/-! ### the condensed vector -/

theorem filter_gt_range (n x : Nat) : (List.range n).filter (fun y => x < y) = List.range' (x + 1) (n - (x + 1)) := by
  induction n with
  | zero => simp
  | succ n ih =>
    rw [List.range_succ, List.filter_append, ih]
    by_cases h : x < n
    · have : n + 1 - (x + 1) = (n - (x + 1)) + 1 := by omega
      rw [this, List.range'_concat]
      simp only [List.filter_cons, h, decide_true, if_true, List.filter_nil, Nat.mul_one]
      congr 2
      omega
    · have h1 : n - (x + 1) = 0 := by omega
      have h2 : n + 1 - (x + 1) = 0 := by omega
      simp [h, h1, h2]

def condOf (n : Nat) (f : Nat → Nat → ℚ) : List ℚ :=
  (List.range n).flatMap fun x => ((List.range n).filter fun y => x < y).map (f x)

theorem tri_succ (x : Nat) : (x + 1) * (x + 2) / 2 = x * (x + 1) / 2 + (x + 1) := by
  have : (x + 1) * (x + 2) = x * (x + 1) + 2 * (x + 1) := by ring
  rw [this, Nat.add_mul_div_left _ _ (by norm_num : 0 < 2)]

theorem cond_prefix_length (n : Nat) (r : Nat → List ℚ) (hr : ∀ x', (r x').length = n - (x' + 1)) (x : Nat) (hx : x ≤ n) :
    ((List.range x).flatMap r).length + x * (x + 1) / 2 = x * n := by
  induction x with
  | zero => simp
  | succ x ih =>
    have ih' := ih (by omega)
    rw [List.range_succ, List.flatMap_append, List.length_append]
    simp only [List.flatMap_cons, List.flatMap_nil, List.append_nil, hr]
    have h1 := tri_succ x
    have h2 : (x + 1) * n = x * n + n := Nat.succ_mul x n
    have h3 : (x + 1) * (x + 1 + 1) / 2 = (x + 1) * (x + 2) / 2 := rfl
    rw [h3, h1, h2]
    omega

theorem condOf_getD (n : Nat) (f : Nat → Nat → ℚ) (x y : Nat) (hxy : x < y) (hy : y < n) :
    (condOf n f).getD (x * n - x * (x + 1) / 2 + (y - x - 1)) 0 = f x y := by
  have hsplit : List.range n = List.range x ++ (x :: List.range' (x + 1) (n - (x + 1))) := by
    rw [List.range_eq_range', List.range_eq_range']
    have h1 : n = x + (n - x) := by omega
    conv => lhs; rw [h1, ← List.range'_append_1]
    congr 1
    have h2 : n - x = (n - (x + 1)) + 1 := by omega
    rw [h2, List.range'_succ]
    simp
  unfold condOf
  generalize hr : (fun x => ((List.range n).filter fun y => x < y).map (f x)) = r
  have hrx : ∀ x', r x' = (List.range' (x' + 1) (n - (x' + 1))).map (f x') := by
    intro x'; rw [← hr]; simp only [filter_gt_range]
  have hlen : ∀ x', (r x').length = n - (x' + 1) := by intro x'; rw [hrx]; simp
  have hp := cond_prefix_length n r hlen x (by omega)
  rw [hsplit, List.flatMap_append, List.flatMap_cons]
  have hidx : x * n - x * (x + 1) / 2 + (y - x - 1) = ((List.range x).flatMap r).length + (y - x - 1) := by
    omega
  rw [hidx, List.getD_eq_getElem?_getD, List.getElem?_append_right (by omega)]
  simp only [Nat.add_sub_cancel_left]
  rw [List.getElem?_append_left (by rw [hlen]; omega)]
  rw [hrx]
  simp only [List.getElem?_map, List.getElem?_range', Nat.mul_one]
  have : y - x - 1 < n - (x + 1) := by omega
  rw [List.getElem?_eq_getElem (by simpa using this)]
  simp only [List.getElem_range', Nat.mul_one, Option.map_some, Option.getD_some]
  congr 1
  omega

theorem squareform_entry (n : Nat) (f : Nat → Nat → ℚ) (x y : Nat) (hx : x < n) (hy : y < n) :
    mget (squareform n (condOf n f)) x y = if x < y then f x y else if y < x then f y x else 0 := by
  unfold mget squareform
  rw [getD_map_range n _ x _ hx, getD_map_range n _ y _ hy]
  by_cases h1 : x < y
  · simp only [h1, if_true]; exact condOf_getD n f x y h1 hy
  · simp only [h1, if_false]
    by_cases h2 : y < x
    · simp only [h2, if_true]; exact condOf_getD n f y x h2 hx
    · simp [h2]

theorem squareform_rep (n : Nat) (f : Nat → Nat → ℚ) (D : Nat → Nat → ℚ)
    (hD : ∀ x y, x < y → y < n → f x y = D x y) (hsym : ∀ x y, D x y = D y x) (hself : ∀ x, D x x = 0) :
    Rep n (squareform n (condOf n f)) D := by
  refine ⟨by simp [squareform], ?_, ?_⟩
  · intro i hi
    unfold squareform
    rw [getD_map_range n _ i _ hi]
    simp
  · intro i hi j hj
    rw [squareform_entry n f i j hi hj]
    by_cases h1 : i < j
    · simp only [h1, if_true]; exact hD i j h1 hj
    · simp only [h1, if_false]
      by_cases h2 : j < i
      · simp only [h2, if_true]; rw [hD j i h2 hi, hsym]
      · have : i = j := by omega
        simp [h2, this, hself]

/-! ### the keys after the join -/

theorem keys_eq (k ib : Nat) (hb : ib < k) :
    (List.range k).filter (· != ib) = (List.range (k - 1)).map (up ib) := by
  have h1 : List.range k = List.range' 0 ib ++ (ib :: List.range' (ib + 1) (k - (ib + 1))) := by
    rw [List.range_eq_range']
    have e1 : k = ib + (k - ib) := by omega
    conv => lhs; rw [e1, ← List.range'_append_1]
    congr 1
    have e2 : k - ib = (k - (ib + 1)) + 1 := by omega
    rw [e2, List.range'_succ]
    simp
  have h2 : List.range (k - 1) = List.range' 0 ib ++ List.range' ib (k - (ib + 1)) := by
    rw [List.range_eq_range']
    have e1 : k - 1 = ib + (k - (ib + 1)) := by omega
    conv => lhs; rw [e1, ← List.range'_append_1]
    simp
  rw [h1, h2, List.filter_append, List.map_append, List.filter_cons]
  simp only [bne_self_eq_false, Bool.false_eq_true, if_false]
  congr 1
  · rw [List.filter_eq_self.mpr]
    · symm
      conv => rhs; rw [← List.map_id (List.range' 0 ib)]
      apply List.map_congr_left
      intro x hx
      simp only [List.mem_range'_1] at hx
      have : x < ib := by omega
      simp [up, this]
    · intro x hx
      simp only [List.mem_range'_1] at hx
      simp; omega
  · rw [List.filter_eq_self.mpr]
    · apply List.ext_getElem
      · simp
      · intro i h1 h2
        simp only [List.length_range'] at h1
        simp only [List.getElem_range', List.getElem_map, up, Nat.mul_one]
        split <;> omega
    · intro x hx
      simp only [List.mem_range'_1] at hx
      simp; omega

theorem zipIdx_map_range {α : Type} (n : Nat) (f : Nat → α) :
    ((List.range n).map f).zipIdx = (List.range n).map fun x => (f x, x) := by
  apply List.ext_getElem
  · simp
  · intro i h1 h2
    simp only [List.getElem_zipIdx, List.getElem_map, List.getElem_range, Nat.zero_add]

theorem cond_eq (k' ib : Nat) (G : Nat → Nat → ℚ) :
    (((List.range k').map fun x => (up ib x, x)).flatMap fun (x : Nat × Nat) =>
      ((((List.range k').map fun x => (up ib x, x))).filter fun (y : Nat × Nat) => x.2 < y.2).map
        fun (y : Nat × Nat) => G x.1 y.1) = condOf k' (fun x y => G (up ib x) (up ib y)) := by
  simp [condOf, List.flatMap_map, List.filter_map, Function.comp_def]

theorem getD_map_lt {α β : Type} (l : List α) (g : α → β) (i : Nat) (d : α) (d' : β) (h : i < l.length) :
    (l.map g).getD i d' = g (l.getD i d) := by
  simp [List.getD_eq_getElem?_getD, h]

theorem up_lt_self (b x : Nat) (h : x < b) : up b x = x := by simp [up, h]

theorem reduce_dist_joined (L : List (Split × ℚ)) (a b x y : Nat) (hx : up b x = a) :
    dist (reduce L a b) x y = (dist L a (up b y) + dist L b (up b y) - dist L a b) / 2 := by
  rw [← reduce_joined L a b (up b y)]
  simp only [dist, reduce, List.map_map, Function.comp_def, sep, hx]

theorem up_mono (b x y : Nat) (h : x < y) : up b x < up b y := by unfold up; split <;> split <;> omega

/-! ### one join of the model on an additive matrix -/

/-- what `njStep` does on `k ≥ 3` points whose matrix is the metric of the split system `L` -/
theorem njStep_additive (st st' : NState ℚ) (L : List (Split × ℚ)) (hk : 3 ≤ st.clusters.length)
    (hS : System st.clusters.length L) (hR : Rep st.clusters.length st.matrix (dist L))
    (h : njStep st = some st') :
    ∃ ia ib sA sB, ia < ib ∧ ib < st.clusters.length ∧ IsCherry st.clusters.length L ia ib ∧
      System (st.clusters.length - 1) (reduce L ia ib) ∧
      Rep (st.clusters.length - 1) st'.matrix (dist (reduce L ia ib)) ∧
      st'.clusters = (List.range (st.clusters.length - 1)).map (fun x =>
        if up ib x = ia then st.clusters.getD ia [] ++ st.clusters.getD ib [] else st.clusters.getD (up ib x) []) ∧
      st'.tracer = st.tracer ++ [(st.clusters.getD ia [] ++ st.clusters.getD ib [], (st.tracer.map (·.2)).foldl max 0 + 1)] ∧
      st'.rows = st.rows ++ [(traceId st.tracer (st.clusters.getD ia []), traceId st.tracer (st.clusters.getD ib []), sA, sB)] ∧
      sA + sB = dist L ia ib ∧
      ∀ z < st.clusters.length, z ≠ ia → z ≠ ib →
        sA + (dist L ia z + dist L ib z - dist L ia ib) / 2 = dist L ia z ∧
        sB + (dist L ia z + dist L ib z - dist L ia ib) / 2 = dist L ib z := by
  unfold njStep at h
  simp only at h
  split at h
  · omega
  · split at h
    · omega
    · split at h
      · cases h
      · rename_i ia ib m heq
        have hk2 : ((st.clusters.length : ℚ) - 2) > 0 := by
          have : (3 : ℚ) ≤ (st.clusters.length : ℚ) := by exact_mod_cast hk
          linarith
        have hav : ∀ i < st.clusters.length,
            (st.matrix.map fun line => div (ScoreOps.sum line) (sub (ofNat st.clusters.length) two)).getD i zero =
              rowSum st.clusters.length L i / ((st.clusters.length : ℚ) - 2) := by
          intro i hi
          rw [getD_map_lt st.matrix _ i [] _ (by rw [hR.rows]; exact hi)]
          simp only [q_div, q_sum, q_sub, q_ofNat, q_two]
          rw [rep_rowSum _ _ _ hR i hi]
          rfl
        have hmem := argMin_mem _ _ _ heq
        simp only [List.mem_flatMap, List.mem_map, List.mem_filter, List.mem_range, decide_eq_true_eq,
          Prod.mk.injEq] at hmem
        obtain ⟨i, hi, j, ⟨hj, hij⟩, ⟨rfl, rfl⟩, hm⟩ := hmem
        have hle := argMin_le _ _ _ heq
        -- the criterion of the model is Qc / (k - 2)
        have hq : ∀ x y, x < st.clusters.length → y < st.clusters.length →
            sub (sub (mget st.matrix y x)
              ((st.matrix.map fun line => div (ScoreOps.sum line) (sub (ofNat st.clusters.length) two)).getD y zero))
              ((st.matrix.map fun line => div (ScoreOps.sum line) (sub (ofNat st.clusters.length) two)).getD x zero)
            = Qc st.clusters.length L x y / ((st.clusters.length : ℚ) - 2) := by
          intro x y hx hy
          rw [hav x hx, hav y hy, hR.val y hy x hx]
          simp only [q_sub, Qc]
          rw [dist_comm L y x]
          field_simp
          ring
        have hmin : ∀ x y, x < st.clusters.length → y < st.clusters.length → x ≠ y →
            Qc st.clusters.length L i j ≤ Qc st.clusters.length L x y := by
          have hlt : ∀ x y, x < y → y < st.clusters.length →
              Qc st.clusters.length L i j ≤ Qc st.clusters.length L x y := by
            intro x y hxy hy
            have := hle ((x, y), _) (by
              simp only [List.mem_flatMap, List.mem_map, List.mem_filter, List.mem_range, decide_eq_true_eq]
              exact ⟨x, by omega, y, ⟨hy, hxy⟩, rfl⟩)
            simp only at this
            rw [← hm, hq i j hi hj, hq x y (by omega) hy] at this
            exact (div_le_div_iff_of_pos_right hk2).mp this
          intro x y hx hy hxy
          rcases Nat.lt_or_gt_of_ne hxy with hlt' | hgt
          · exact hlt x y hlt' hy
          · rw [Qc_comm _ L x y]; exact hlt y x hgt hx
        have hch : IsCherry st.clusters.length L i j :=
          isCherry_of_trivial _ L i j hi hj (argmin_is_cherry _ L hS i j hi hj hmin)
        simp only [Option.some.injEq] at h
        subst h
        refine ⟨i, j, _, _, hij, hj, hch, reduce_system _ L i j hj hS, ?_, ?_, rfl, rfl, ?_, ?_⟩
        · -- the new matrix
          simp only
          rw [keys_eq _ j hj, zipIdx_map_range,
            cond_eq _ j (fun X Y => if (X != i && Y != i) = true then mget st.matrix X Y
              else if (X == i) = true then
                div (sub (add (mget st.matrix i Y) (mget st.matrix j Y)) (mget st.matrix i j)) two
              else div (sub (add (mget st.matrix i X) (mget st.matrix j X)) (mget st.matrix i j)) two)]
          apply squareform_rep
          · intro x y hxy hy
            have hux : up j x < st.clusters.length := up_lt _ j x hj (by omega)
            have huy : up j y < st.clusters.length := up_lt _ j y hj hy
            have hmono := up_mono j x y hxy
            by_cases hxa : up j x = i
            · have hya : up j y ≠ i := by omega
              simp only [hxa, bne_self_eq_false, Bool.false_and, Bool.false_eq_true, if_false, beq_self_eq_true, if_true,
                q_div, q_sub, q_add, q_two]
              rw [reduce_dist_joined L i j x y hxa, hR.val i hi _ huy, hR.val j hj _ huy, hR.val i hi j hj]
            · by_cases hya : up j y = i
              · have hb1 : (up j x != i) = true := by simpa using hxa
                have hb2 : (up j x == i) = false := by simpa using hxa
                simp only [hya, hb1, hb2, bne_self_eq_false, Bool.and_false, Bool.false_eq_true, if_false,
                  q_div, q_sub, q_add, q_two]
                rw [dist_comm (reduce L i j) x y, reduce_dist_joined L i j y x hya, hR.val i hi _ hux, hR.val j hj _ hux,
                  hR.val i hi j hj]
              · have hb1 : (up j x != i) = true := by simpa using hxa
                have hb2 : (up j y != i) = true := by simpa using hya
                simp only [hb1, hb2, Bool.and_self, if_true]
                rw [hR.val _ hux _ huy, reduce_other _ L i j hch x y hux huy hxa hya]
          · intro x y; exact dist_comm _ x y
          · intro x; exact dist_self _ x
        · -- the new clusters
          simp only
          rw [keys_eq _ j hj, List.map_map]
          apply List.map_congr_left
          intro x _
          simp only [Function.comp]
        · simp only [q_sub, q_add]; rw [← hR.val i hi j hj]; ring
        · intro z hz hzi hzj
          have := cherry_exact _ hk L i j hi hj (by omega) hch z hz hzi hzj
          simp only at this
          rw [hav i hi, hav j hj, hR.val i hi j hj]
          simp only [q_sub, q_add, q_div, q_two]
          exact this

end Verif.TreeBuild
