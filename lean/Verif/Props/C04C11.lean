/-
# C04 ∧ C11 — a refinement pass made of real splits: whatever the end-of-pass check decides, the matrix it leaves has the
height, the rectangular shape and the row contents it had before (C04) and a score that is not lower (C11)
-/
import Verif.Props.C11Pass
import Verif.Props.C04Prog
import Verif.Props.C04Gap
namespace Verif.Refine
open Verif.Align Verif.MSA

/-- one index set of the loop of `_iter` as a step function: `_split`, `_align_profile`, `_join` with the index rows the
profile aligner returned -/
def stepOf (g : Nat) (s : Split) : Step := fun m => refineSplit g m s.1 s.2.1 s.2.2

theorem candidate_eq_foldl (g : Nat) (hist : List Split) (m : List (List Nat)) :
    candidate (hist.map (stepOf g)) m = hist.foldl (fun m s => refineSplit g m s.1 s.2.1 s.2.2) m := by
  unfold candidate
  rw [List.foldl_map]
  rfl

variable {S : Type} [ScoreOps S]

/-- **the pass keeps what C04 promises**, whichever way the score comparison goes -/
theorem C11_pass_keeps_C04 (g : Nat) (sp : List (List Nat) → S) (hist : List Split) (msa : List (List Nat))
    (hr : Rect msa) (hok : histOkb g msa hist = true) :
    (iterPass sp (hist.map (stepOf g)) msa).length = msa.length ∧ Rect (iterPass sp (hist.map (stepOf g)) msa) ∧
    (iterPass sp (hist.map (stepOf g)) msa).map (degap g) = msa.map (degap g) := by
  have hc := C04_history g hist msa hr hok
  simp only at hc
  rw [← candidate_eq_foldl] at hc
  unfold iterPass
  split
  · exact ⟨rfl, hr, rfl⟩
  · unfold iterFinal
    split
    · exact ⟨rfl, hr, rfl⟩
    · exact hc

/-- no all-gap column before the pass, none after it (rolled back or kept) -/
theorem C11_pass_keeps_nogap (g : Nat) (sp : List (List Nat) → S) (hist : List Split) (msa : List (List Nat))
    (hr : Rect msa) (hok : histOkb g msa hist = true) (hnd : ∀ s ∈ hist, s.1.Nodup) (hg : NoGapCol g msa) :
    NoGapCol g (iterPass sp (hist.map (stepOf g)) msa) := by
  unfold iterPass
  split
  · exact hg
  · unfold iterFinal
    split
    · exact hg
    · rw [candidate_eq_foldl]
      by_cases hne : hist = []
      · subst hne; exact hg
      · exact C04_history_nogap g hist msa hne hr hok hnd

/-- **… and what C11 promises**, on an ordered carrier: both properties of one and the same result -/
theorem C04_C11_pass [LinearOrder S] [ScoreLaws S] (g : Nat) (sp : List (List Nat) → S) (hist : List Split)
    (msa : List (List Nat)) (hr : Rect msa) (hok : histOkb g msa hist = true) :
    let out := iterPass sp (hist.map (stepOf g)) msa
    out.length = msa.length ∧ Rect out ∧ out.map (degap g) = msa.map (degap g) ∧ sp msa ≤ sp out := by
  intro out
  obtain ⟨a, b, c⟩ := C11_pass_keeps_C04 g sp hist msa hr hok
  exact ⟨a, b, c, C11_pass_le sp _ msa⟩

end Verif.Refine
