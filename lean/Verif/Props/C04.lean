import Verif.Model.MSA
import Verif.Props.C14Class2Tokens
set_option linter.unusedSimpArgs false
/-!
# C04 — profile merging and gap-site reduction keep every row's content; C11 — the final check

* merging two blocks along a profile alignment gives rows of one common length that de-gap to
  what they de-gapped to before (so, by induction over any guide tree, to the input sequences);
* removing all-gap columns keeps rectangularity and every row's de-gapped content;
* the end-of-pass comparison never lowers the score it compares, and otherwise restores the
  previous matrix exactly.
-/
namespace Verif.MSA
open Verif.SC

theorem insertGaps_spec (g : Nat) (row : List Nat) (flags : List Bool)
    (h : (flags.filter id).length = row.length) :
    (insertGaps g row flags).length = flags.length ∧
    degap g (insertGaps g row flags) = degap g row := by
  obtain ⟨h1, h2, h3⟩ := C14_class2tokens row flags h
  constructor
  · simp [insertGaps, h2]
  · -- inserting gaps and removing them again
    unfold insertGaps degap
    have : ∀ (l : List (Option Nat)),
        (l.map fun o => o.getD g).filter (· != g) = (l.filterMap id).filter (· != g) := by
      intro l
      induction l with
      | nil => rfl
      | cons o os ih =>
        cases o with
        | none => simp [ih]
        | some x =>
          simp only [List.map_cons, Option.getD_some, List.filterMap_cons, id]
          by_cases hx : x = g <;> simp [hx, List.filter_cons, ih]
    rw [this, h1]

/-- **C04, merge**: all rows of the merged block have the length of the profile alignment, rows
of A come first, then rows of B, and every row de-gaps to what it de-gapped to before. -/
theorem C04_merge (g : Nat) (almsA almsB : List (List Nat)) (flagsA flagsB : List Bool)
    (hlen : flagsA.length = flagsB.length)
    (hA : ∀ r ∈ almsA, (flagsA.filter id).length = r.length)
    (hB : ∀ r ∈ almsB, (((flagsA.zip flagsB).map fun p => p.2 || !p.1).filter id).length = r.length) :
    (∀ r ∈ mergeBlocks g almsA almsB flagsA flagsB, r.length = flagsA.length) ∧
    (mergeBlocks g almsA almsB flagsA flagsB).map (degap g) = (almsA ++ almsB).map (degap g) ∧
    (mergeBlocks g almsA almsB flagsA flagsB).length = almsA.length + almsB.length := by
  refine ⟨?_, ?_, by simp [mergeBlocks]⟩
  · intro r hr
    simp only [mergeBlocks, List.mem_append, List.mem_map] at hr
    rcases hr with ⟨x, hx, rfl⟩ | ⟨x, hx, rfl⟩
    · exact (insertGaps_spec g x flagsA (hA x hx)).1
    · rw [(insertGaps_spec g x _ (hB x hx)).1]
      simp [hlen]
  · simp only [mergeBlocks, List.map_append, List.map_map]
    congr 1
    · apply List.map_congr_left
      intro x hx
      exact (insertGaps_spec g x flagsA (hA x hx)).2
    · apply List.map_congr_left
      intro x hx
      exact (insertGaps_spec g x _ (hB x hx)).2

/-- when the two index rows never have a gap in the same column (C01), block B receives a gap
column exactly where its own index row has a gap -/
theorem flagsB_of_no_double_gap (flagsA flagsB : List Bool) (hlen : flagsA.length = flagsB.length)
    (hnd : ∀ p ∈ flagsA.zip flagsB, p.1 = true ∨ p.2 = true) :
    ((flagsA.zip flagsB).map fun p => p.2 || !p.1) = flagsB := by
  induction flagsA generalizing flagsB with
  | nil => cases flagsB <;> simp at hlen ⊢
  | cons a as ih =>
    cases flagsB with
    | nil => simp at hlen
    | cons b bs =>
      simp only [List.zip_cons_cons, List.map_cons, List.cons.injEq]
      refine ⟨?_, ih bs (by simpa using hlen) (fun p hp => hnd p (List.mem_cons_of_mem _ hp))⟩
      have := hnd (a, b) (by simp)
      cases a <;> cases b <;> simp at this ⊢

/-! ### gap-site reduction -/

theorem filter_keep_degap (g : Nat) (line : List Nat) (keep : Nat → Bool)
    (hdrop : ∀ i, i < line.length → keep i = false → line.getD i g = g) :
    ∀ (off : Nat) (l : List Nat), (∀ i, i < l.length → l.getD i g = line.getD (off + i) g) →
      off + l.length = line.length →
      degap g (((List.range' off l.length).filter keep).map fun i => line.getD i g) = degap g l := by
  intro off l
  induction l generalizing off with
  | nil => intro _ _; simp [degap]
  | cons x xs ih =>
    intro hl hlen
    simp only [List.length_cons] at hlen
    have hx : x = line.getD off g := by simpa using hl 0 (by simp)
    have ih' := ih (off + 1) (by
      intro i hi
      have := hl (i + 1) (by simp; omega)
      simp only [List.getD_cons_succ] at this
      rw [this]; congr 1; omega) (by omega)
    simp only [List.length_cons, List.range'_succ, List.filter_cons]
    by_cases hk : keep off = true
    · simp only [hk, if_true, List.map_cons, degap, List.filter_cons] at ih' ⊢
      rw [← hx]
      split
      · congr 1
      · exact ih'
    · have hk' : keep off = false := by simpa using hk
      simp only [hk', Bool.false_eq_true, if_false]
      have hg : x = g := by rw [hx]; exact hdrop off (by omega) hk'
      simp only [degap, List.filter_cons, hg, bne_self_eq_false, Bool.false_eq_true, if_false] at ih' ⊢
      exact ih'

/-- **C04, gap-site reduction**: every row keeps its de-gapped content and all rows get the
same length. -/
theorem C04_reduce (g : Nat) (msa : List (List Nat)) (w : Nat) (hrect : ∀ r ∈ msa, r.length = w) :
    (reduceGapSites g msa).map (degap g) = msa.map (degap g) ∧
    ∃ w', ∀ r ∈ reduceGapSites g msa, r.length = w' := by
  cases msa with
  | nil => exact ⟨rfl, 0, by simp [reduceGapSites]⟩
  | cons first rest =>
    have hfw : first.length = w := hrect first List.mem_cons_self
    constructor
    · simp only [reduceGapSites, List.map_map]
      apply List.map_congr_left
      intro line hline
      simp only [Function.comp]
      have hlw : line.length = w := hrect line hline
      have := filter_keep_degap g line (keepCol g (first :: rest)) (by
        intro i hi hk
        simp only [keepCol, Bool.not_eq_false', List.all_eq_true, beq_iff_eq] at hk
        exact hk line hline) 0 line (by intro i _; simp) (by simp)
      simp only [List.range_eq_range', hfw, ← hlw]
      simpa using this
    · refine ⟨((List.range first.length).filter (keepCol g (first :: rest))).length, ?_⟩
      intro r hr
      simp only [reduceGapSites, List.mem_map] at hr
      obtain ⟨line, _, rfl⟩ := hr
      simp only [List.length_map]

/-! ### C11 -/

/-- **C11**: with the end-of-pass check the compared score never decreases – for any realignment,
any score function `sp` of the matrix and any carrier on which "not lower" is the negation of
"lower" – and if the new score is lower the previous matrix is restored exactly. -/
theorem C11_monotone {S : Type} (lt : S → S → Bool) (sp : List (List Nat) → S) (old new : List (List Nat)) :
    lt (sp (iterFinal lt (sp old) (sp new) old new)) (sp old) = false ∨
      iterFinal lt (sp old) (sp new) old new = old := by
  unfold iterFinal
  by_cases h : lt (sp new) (sp old) = true
  · right; simp [h]
  · left
    have h' : lt (sp new) (sp old) = false := by simpa using h
    simp only [h', Bool.false_eq_true, if_false]

theorem C11_restore {S : Type} (lt : S → S → Bool) (sop0 sop1 : S) (old new : List (List Nat))
    (h : lt sop1 sop0 = true) : iterFinal lt sop0 sop1 old new = old := by
  simp [iterFinal, h]

theorem C11_keep {S : Type} (lt : S → S → Bool) (sop0 sop1 : S) (old new : List (List Nat))
    (h : lt sop1 sop0 = false) : iterFinal lt sop0 sop1 old new = new := by
  simp [iterFinal, h]

/-- the direction of the comparison matters: with `>` in place of `<` an improvement is thrown away -/
example : iterFinal (fun a b : Int => decide (a > b)) 1 5 [[0]] [[1]] = [[0]] := by decide

end Verif.MSA
