import Verif.Props.C05Order
set_option linter.unusedSectionVars false
set_option linter.unusedSimpArgs false
set_option linter.unusedVariables false
/-!
# C05 — the clusterer is the textbook agglomerative procedure

A *textbook step* merges two clusters whose linkage is minimal among **all** pairs of current
clusters, provided that minimum is `≤ t`; the procedure stops when no pair is `≤ t` (`C05_stop`).
`C05_textbook`: every step of the model's run is a textbook step – for every linkage, pick rule and
matrix, with or without ties.  On a matrix without ties the minimal pair is unique at every step, so
the textbook procedure has only one run and the result coincides with it; with ties the code follows
one of the admissible runs.
-/
namespace Verif.Cluster
open Verif.Align ScoreOps ScoreLaws
variable {S : Type} [ScoreOps S] [LinearOrder S] [ScoreLaws S]

def TextbookStep (link : Link) (M : Nat → Nat → S) (t : S) (cs cs' : St) : Prop :=
  ∃ (p q : Nat) (hp : p < cs.length) (hq : q < cs.length), p ≠ q ∧ cs' = mergeAt cs p q ∧
    linkage link M cs[p].2 cs[q].2 ≤ t ∧
    ∀ (p' q' : Nat) (hp' : p' < cs.length) (hq' : q' < cs.length), p' ≠ q' →
      linkage link M cs[p].2 cs[q].2 ≤ linkage link M cs[p'].2 cs[q'].2

theorem next_textbook (cfg : Cfg) (hu : cfg.unordered = false) (M : Nat → Nat → S) (t : S) (cs cs' : St) (m : S)
    (h : next cfg M cs = some (m, cs')) (hm : le m t = true) : TextbookStep cfg.link M t cs cs' := by
  obtain ⟨p, q, hp, hq, hne, hcs, hml, _⟩ := next_spec cfg M cs m cs' h
  refine ⟨p, q, hp, hq, hne, hcs, ?_, ?_⟩
  · rw [← hml, ← le_iff]; exact hm
  · intro p' q' hp' hq' hne'
    -- the chosen pair is an argMin of the scan, and the scan contains every ordered pair
    unfold next at h
    have h2 : ¬ cs.length ≤ 1 := by omega
    simp only [h2, if_false] at h
    cases ha : argMin cfg.lastMin (pairScores cfg M cs) with
    | none => simp [ha] at h
    | some x =>
      obtain ⟨⟨p0, q0⟩, m0⟩ := x
      simp only [ha, Option.some.injEq, Prod.mk.injEq] at h
      have hmin := argMin_le cfg.lastMin _ _ ha _ (pairScores_complete cfg hu M cs p' q' hp' hq' hne')
      simp only at hmin
      rw [← hml, ← h.1]; exact hmin

/-- every two consecutive states of the run are related by a textbook step -/
theorem trace_textbook (cfg : Cfg) (hu : cfg.unordered = false) (M : Nat → Nat → S) (t : S) :
    ∀ (n : Nat) (cs : St), List.IsChain (TextbookStep cfg.link M t) (trace cfg M t n cs)
  | 0, cs => by simp [trace]
  | n+1, cs => by
    simp only [trace]
    cases hn : next cfg M cs with
    | none => simp
    | some x =>
      obtain ⟨m, cs'⟩ := x
      simp only
      by_cases hm : le m t = true
      · simp only [hm, if_true]
        have ih := trace_textbook cfg hu M t n cs'
        have hstep := next_textbook cfg hu M t cs cs' m hn hm
        cases htr : trace cfg M t n cs' with
        | nil => simp
        | cons y ys =>
          have hy : y = cs' := by
            cases n with
            | zero => simp [trace] at htr; exact htr.1.symm
            | succ k =>
              simp only [trace] at htr
              split at htr
              · simp at htr; exact htr.1.symm
              · split at htr <;> simp at htr <;> exact htr.1.symm
          rw [htr] at ih
          subst hy
          exact List.IsChain.cons_cons hstep ih
      · simp [hm]

/-- **C05, textbook procedure**: the run of the clusterer is a chain of textbook steps starting from
the singletons, and it ends in a state in which no two clusters have linkage `≤ t`. -/
theorem C05_textbook (cfg : Cfg) (hu : cfg.unordered = false) (M : Nat → Nat → S) (t : S) (n : Nat) :
    List.IsChain (TextbookStep cfg.link M t) (trace cfg M t n (init n)) ∧
    ∀ (p q : Nat) (hp : p < (flatCluster cfg M t n).length) (hq : q < (flatCluster cfg M t n).length), p ≠ q →
      t < linkage cfg.link M (flatCluster cfg M t n)[p].2 (flatCluster cfg M t n)[q].2 :=
  ⟨trace_textbook cfg hu M t n (init n), fun p q hp hq hne => C05_stop cfg hu M t n p q hp hq hne⟩

/-- without ties the minimal pair of a state is unique up to its orientation: any two textbook steps from
one state merge the same two clusters -/
theorem textbook_step_unique (link : Link) (M : Nat → Nat → S) (t : S) (cs c1 c2 : St)
    (hdistinct : ∀ (p q p' q' : Nat) (hp : p < cs.length) (hq : q < cs.length) (hp' : p' < cs.length)
      (hq' : q' < cs.length), p ≠ q → p' ≠ q' →
      linkage link M cs[p].2 cs[q].2 = linkage link M cs[p'].2 cs[q'].2 → (p = p' ∧ q = q') ∨ (p = q' ∧ q = p'))
    (h1 : TextbookStep link M t cs c1) (h2 : TextbookStep link M t cs c2) :
    ∃ p q, (c1 = mergeAt cs p q ∨ c1 = mergeAt cs q p) ∧ (c2 = mergeAt cs p q ∨ c2 = mergeAt cs q p) := by
  obtain ⟨p, q, hp, hq, hne, rfl, _, hmin⟩ := h1
  obtain ⟨p', q', hp', hq', hne', rfl, _, hmin'⟩ := h2
  have heq : linkage link M cs[p].2 cs[q].2 = linkage link M cs[p'].2 cs[q'].2 :=
    le_antisymm (hmin p' q' hp' hq' hne') (hmin' p q hp hq hne)
  rcases hdistinct p q p' q' hp hq hp' hq' hne hne' heq with ⟨rfl, rfl⟩ | ⟨rfl, rfl⟩
  · exact ⟨p, q, Or.inl rfl, Or.inl rfl⟩
  · exact ⟨p, q, Or.inl rfl, Or.inr rfl⟩

end Verif.Cluster
