import Verif.Model.Wordlist
set_option linter.unusedSimpArgs false
/-!
# C12 — all views of a wordlist describe the same rows;  C17 — distances and patterns

The concept-by-language table (`_array`) is sound and complete with respect to the rows, for
every duplicate-free enumeration `cols` of the languages; the etymological dictionary lists an
id under exactly the cognate ids it carries, in its language slot; renumbering is injective and
positive (empty ↦ 0).  C17: the shared-cognate counts are symmetric and `shared ≤ attested by both`.
-/
namespace Verif.WL

def cellAt (b : List (List Nat)) (i j : Nat) : Option Nat := b[i]?.bind fun r => r[j]?

theorem mem_keyOrder (xs : List Nat) (x : Nat) : x ∈ keyOrder xs ↔ x ∈ xs := by
  unfold keyOrder
  have : ∀ (acc : List Nat), x ∈ xs.foldl (fun acc x => if acc.contains x then acc else acc ++ [x]) acc ↔
      x ∈ acc ∨ x ∈ xs := by
    induction xs with
    | nil => intro acc; simp
    | cons y ys ih =>
      intro acc
      simp only [List.foldl_cons]
      rw [ih]
      split
      · rename_i h
        have hy : y ∈ acc := by simpa using h
        constructor
        · rintro (h1 | h1)
          · exact Or.inl h1
          · exact Or.inr (List.mem_cons_of_mem _ h1)
        · rintro (h1 | h1)
          · exact Or.inl h1
          · rcases List.mem_cons.mp h1 with rfl | h1
            · exact Or.inl hy
            · exact Or.inr h1
      · simp only [List.mem_append, List.mem_singleton, List.mem_cons, List.not_mem_nil, or_false]
        constructor
        · rintro ((h1 | h1) | h1)
          · exact Or.inl h1
          · exact Or.inr (Or.inl h1)
          · exact Or.inr (Or.inr h1)
        · rintro (h1 | h1 | h1)
          · exact Or.inl (Or.inl h1)
          · exact Or.inl (Or.inr h1)
          · exact Or.inr h1
  simpa using this []

theorem mem_idsOf (rows : List Row) (c l v : Nat) :
    v ∈ idsOf rows c l ↔ ∃ r ∈ rows, r.id = v ∧ r.concept = c ∧ r.lang = l := by
  simp only [idsOf, List.mem_map, List.mem_filter, Bool.and_eq_true, beq_iff_eq]
  constructor
  · rintro ⟨r, ⟨hr, hc, hl⟩, rfl⟩; exact ⟨r, hr, rfl, hc, hl⟩
  · rintro ⟨r, hr, rfl, hc, hl⟩; exact ⟨r, ⟨hr, hc, hl⟩, rfl⟩

theorem le_foldl_max (l : List Nat) (a : Nat) : a ≤ l.foldl max a ∧ ∀ x ∈ l, x ≤ l.foldl max a := by
  induction l generalizing a with
  | nil => simp
  | cons y ys ih =>
    simp only [List.foldl_cons]
    obtain ⟨h1, h2⟩ := ih (max a y)
    refine ⟨Nat.le_trans (Nat.le_max_left _ _) h1, ?_⟩
    intro x hx
    rcases List.mem_cons.mp hx with rfl | hx
    · exact Nat.le_trans (Nat.le_max_right _ _) h1
    · exact h2 x hx

/-- cell `(i, j)` of the block of concept `c` -/
theorem block_cell (rows : List Row) (cols : List Nat) (c i j : Nat) (hi : i < maxLen rows cols c)
    (l : Nat) (hj : cols[j]? = some l) :
    cellAt (block rows cols c) i j = some ((idsOf rows c l)[i]?.getD 0) := by
  simp only [cellAt, block, List.getElem?_map, List.getElem?_range hi, Option.map_some, Option.bind_some, hj]

/-- **C12, soundness of the table**: a non-zero cell in the block of concept `c`, column `j`,
is the id of a row with concept `c` and language `cols[j]`. -/
theorem C12_array_sound (rows : List Row) (cols : List Nat) (c i j v : Nat)
    (h : cellAt (block rows cols c) i j = some v) (hv : v ≠ 0) :
    ∃ r ∈ rows, r.id = v ∧ r.concept = c ∧ cols[j]? = some r.lang := by
  simp only [cellAt, block, List.getElem?_map] at h
  cases hr : (List.range (maxLen rows cols c))[i]? with
  | none => simp [hr] at h
  | some i' =>
    have hi' : i' = i := by
      have := List.getElem?_eq_some_iff.mp hr
      obtain ⟨hlt, he⟩ := this
      simpa using he.symm
    subst hi'
    simp only [hr, Option.map_some, Option.bind_some, List.getElem?_map] at h
    cases hc : cols[j]? with
    | none => simp [hc] at h
    | some l =>
      simp only [hc, Option.map_some, Option.some.injEq] at h
      cases hg : (idsOf rows c l)[i']? with
      | none => simp [hg] at h; exact absurd h.symm hv
      | some w =>
        simp only [hg, Option.getD_some] at h
        subst h
        obtain ⟨r, hr', h1, h2, h3⟩ := (mem_idsOf rows c l w).mp (List.mem_of_getElem? hg)
        exact ⟨r, hr', h1, h2, by rw [h3]⟩

/-- **C12, completeness of the table**: every row appears in the block of its concept, in the
column of its language. -/
theorem C12_array_complete (rows : List Row) (cols : List Nat) (r : Row) (hr : r ∈ rows)
    (j : Nat) (hj : cols[j]? = some r.lang) :
    r.concept ∈ concepts rows ∧
    ∃ i, cellAt (block rows cols r.concept) i j = some r.id := by
  constructor
  · simp only [concepts, mem_keyOrder, List.mem_map]; exact ⟨r, hr, rfl⟩
  · have hm : r.id ∈ idsOf rows r.concept r.lang := (mem_idsOf _ _ _ _).mpr ⟨r, hr, rfl, rfl, rfl⟩
    obtain ⟨i, hi, he⟩ := List.getElem_of_mem hm
    have hlen : (idsOf rows r.concept r.lang).length ≤ maxLen rows cols r.concept := by
      unfold maxLen
      apply (le_foldl_max _ 0).2
      simp only [List.mem_map]
      exact ⟨r.lang, List.mem_of_getElem? hj, rfl⟩
    refine ⟨i, ?_⟩
    rw [block_cell rows cols r.concept i j (by omega) r.lang hj]
    simp [List.getElem?_eq_getElem hi, he]

/-! ### the per-concept and per-language id lists -/

theorem mem_cells (b : List (List Nat)) (v : Nat) : v ∈ b.flatMap id ↔ ∃ i j, cellAt b i j = some v := by
  simp only [List.mem_flatMap, id, cellAt]
  constructor
  · rintro ⟨row, hrow, hv⟩
    obtain ⟨i, hi, rfl⟩ := List.getElem_of_mem hrow
    obtain ⟨j, hj, rfl⟩ := List.getElem_of_mem hv
    exact ⟨i, j, by simp [List.getElem?_eq_getElem hi, List.getElem?_eq_getElem hj]⟩
  · rintro ⟨i, j, h⟩
    cases hr : b[i]? with
    | none => simp [hr] at h
    | some row =>
      simp only [hr, Option.bind_some] at h
      exact ⟨row, List.mem_of_getElem? hr, List.mem_of_getElem? h⟩

/-- **C12, `get_list(row=c, flat=True)`**: exactly the non-zero ids of the rows of concept `c` whose
language is a column. -/
theorem C12_listOfRow (rows : List Row) (cols : List Nat) (c v : Nat) :
    v ∈ listOfRow rows cols c ↔ v ≠ 0 ∧ ∃ r ∈ rows, r.id = v ∧ r.concept = c ∧ r.lang ∈ cols := by
  simp only [listOfRow, List.mem_filter, bne_iff_ne, ne_eq, mem_cells]
  constructor
  · rintro ⟨⟨i, j, h⟩, hv⟩
    obtain ⟨r, hr, h1, h2, h3⟩ := C12_array_sound rows cols c i j v h hv
    exact ⟨hv, r, hr, h1, h2, List.mem_of_getElem? h3⟩
  · rintro ⟨hv, r, hr, rfl, rfl, hl⟩
    obtain ⟨j, hj, he⟩ := List.getElem_of_mem hl
    obtain ⟨_, i, hi⟩ := C12_array_complete rows cols r hr j (by rw [List.getElem?_eq_getElem hj, he])
    exact ⟨⟨i, j, hi⟩, hv⟩

theorem idxOf?_getElem (cols : List Nat) (l j : Nat) (h : cols.idxOf? l = some j) : cols[j]? = some l := by
  unfold List.idxOf? at h
  obtain ⟨hj, he, _⟩ := List.findIdx?_eq_some_iff_getElem.mp h
  rw [List.getElem?_eq_getElem hj]
  simpa using he

/-- **C12, `get_list(col=l, flat=True)`**: exactly the non-zero ids of the rows of language `l`. -/
theorem C12_listOfCol (rows : List Row) (cols : List Nat) (l j v : Nat) (hj : cols.idxOf? l = some j) :
    v ∈ listOfCol rows cols l ↔ v ≠ 0 ∧ ∃ r ∈ rows, r.id = v ∧ r.lang = l := by
  have hcj := idxOf?_getElem cols l j hj
  simp only [listOfCol, hj, List.mem_filter, bne_iff_ne, ne_eq, List.mem_map, array, arrayBlocks,
    List.mem_flatMap]
  constructor
  · rintro ⟨⟨line, ⟨⟨c, blk⟩, ⟨c', hc', hcb⟩, hline⟩, rfl⟩, hv⟩
    simp only [Prod.mk.injEq] at hcb
    obtain ⟨rfl, rfl⟩ := hcb
    simp only at hline
    obtain ⟨i, hi, rfl⟩ := List.getElem_of_mem hline
    have hcell : cellAt (block rows cols c') i j = some ((block rows cols c')[i].getD j 0) := by
      simp only [cellAt, List.getElem?_eq_getElem hi, Option.bind_some]
      have hlen : ((block rows cols c')[i]).length = cols.length := by simp [block]
      have hjl : j < cols.length := by
        cases h : cols[j]? with
        | none => rw [h] at hcj; cases hcj
        | some _ => exact (List.getElem?_eq_some_iff.mp h).1
      rw [List.getElem?_eq_getElem (by omega)]
      simp [List.getD_eq_getElem?_getD, List.getElem?_eq_getElem (show j < ((block rows cols c')[i]).length by omega)]
    obtain ⟨r, hr, h1, _, h3⟩ := C12_array_sound rows cols c' i j _ hcell hv
    refine ⟨hv, r, hr, h1, ?_⟩
    rw [hcj] at h3; exact (Option.some.inj h3).symm
  · rintro ⟨hv, r, hr, rfl, rfl⟩
    obtain ⟨hc, i, hi⟩ := C12_array_complete rows cols r hr j hcj
    simp only [cellAt] at hi
    cases h : (block rows cols r.concept)[i]? with
    | none => simp [h] at hi
    | some line =>
      simp only [h, Option.bind_some] at hi
      refine ⟨⟨line, ⟨(r.concept, block rows cols r.concept), ⟨r.concept, hc, rfl⟩, List.mem_of_getElem? h⟩, ?_⟩, hv⟩
      rw [List.getD_eq_getElem?_getD, hi]; rfl

/-- **C12, etymological dictionary**: a row id stands in slot `j` of cognate id `g` iff the
row carries `g` and its language is `cols[j]`. -/
theorem C12_etymdict (rows : List Row) (cols : List Nat) (g : Nat) (slots : List (List Nat))
    (h : (g, slots) ∈ etymdict rows cols) (j l v : Nat) (hj : cols[j]? = some l) :
    (∃ s, slots[j]? = some s ∧ v ∈ s) ↔ ∃ r ∈ rows, r.id = v ∧ g ∈ r.cogs ∧ r.lang = l := by
  simp only [etymdict, List.mem_map, Prod.mk.injEq] at h
  obtain ⟨g', _, rfl, rfl⟩ := h
  simp only [List.getElem?_map, hj, Option.map_some, Option.some.injEq]
  constructor
  · rintro ⟨s, rfl, hv⟩
    simp only [List.mem_map, List.mem_filter, Bool.and_eq_true, beq_iff_eq, List.contains_iff_mem] at hv
    obtain ⟨r, ⟨hr, hg, hl⟩, rfl⟩ := hv
    exact ⟨r, hr, rfl, hg, hl⟩
  · rintro ⟨r, hr, rfl, hg, hl⟩
    refine ⟨_, rfl, ?_⟩
    simp only [List.mem_map, List.mem_filter, Bool.and_eq_true, beq_iff_eq, List.contains_iff_mem]
    exact ⟨r, ⟨hr, hg, hl⟩, rfl⟩

/-- every cognate id carried by a row has an entry -/
theorem C12_etymdict_keys (rows : List Row) (cols : List Nat) (r : Row) (hr : r ∈ rows) (g : Nat)
    (hg : g ∈ r.cogs) : ∃ slots, (g, slots) ∈ etymdict rows cols := by
  simp only [etymdict, List.mem_map, Prod.mk.injEq]
  refine ⟨_, g, ?_, rfl, rfl⟩
  rw [mem_keyOrder]
  simp only [List.mem_flatMap]
  exact ⟨r, hr, hg⟩

/-- **C12, renumber**: equal values get equal numbers, different values different numbers,
all positive except that the empty value (code 0) gets 0 – for every duplicate-free list of
the distinct values, whatever its order. -/
theorem C12_renumber (sources : List Nat) (x y : Nat)
    (hx : x ∈ sources) (hy : y ∈ sources) :
    (renumber sources x = renumber sources y ↔ x = y) ∧ (x ≠ 0 → 0 < renumber sources x) ∧
      renumber sources 0 = 0 := by
  refine ⟨⟨?_, fun h => h ▸ rfl⟩, ?_, by simp [renumber]⟩
  · intro h
    unfold renumber at h
    by_cases hx0 : x = 0 <;> by_cases hy0 : y = 0
    · rw [hx0, hy0]
    · simp [hx0, hy0] at h
    · simp [hx0, hy0] at h
    · simp only [hx0, hy0, if_false, Nat.add_right_cancel_iff] at h
      have h1 := List.getElem_idxOf (List.idxOf_lt_length_of_mem hx)
      have h2 := List.getElem_idxOf (List.idxOf_lt_length_of_mem hy)
      rw [← h1, ← h2]
      simp [h]
  · intro hx0; simp [renumber, hx0]

/-! ### C17 -/

/-- **C17, range**: shared concepts are among those both languages attest, so the distance
`1 − shared/denominator` lies in `[0, 1]` (the code returns 1.0 when the denominator is 0). -/
theorem C17_dst_range (rows : List Row) (im : Bool) (a b : Nat) :
    (dstCounts rows im a b).1 ≤ (dstCounts rows im a b).2 := by
  simp only [dstCounts]
  split
  · exact Nat.le_trans (List.length_filter_le _ _) (List.length_filter_le _ _)
  · exact List.length_filter_le _ _

/-- **C17, symmetry** of the shared-cognate counts. -/
theorem C17_dst_symm (rows : List Row) (im : Bool) (a b : Nat) :
    dstCounts rows im a b = dstCounts rows im b a := by
  simp only [dstCounts]
  have hboth : ∀ c, ((rows.any fun r => r.lang == a && r.concept == c) && rows.any fun r => r.lang == b && r.concept == c) =
      ((rows.any fun r => r.lang == b && r.concept == c) && rows.any fun r => r.lang == a && r.concept == c) :=
    fun c => Bool.and_comm _ _
  have hshared : ∀ (A B : List Nat), (A.any fun k => B.contains k) = (B.any fun k => A.contains k) := by
    intro A B
    rw [Bool.eq_iff_iff]
    simp only [List.any_eq_true, List.contains_iff_mem]
    constructor
    · rintro ⟨k, h1, h2⟩; exact ⟨k, h2, h1⟩
    · rintro ⟨k, h1, h2⟩; exact ⟨k, h2, h1⟩
  simp only [hboth, hshared]

/-- zero diagonal: with itself a language shares every concept it attests -/
theorem C17_dst_self (rows : List Row) (a : Nat) (hc : ∀ r ∈ rows, r.cogs ≠ []) :
    (dstCounts rows false a a).1 = (dstCounts rows false a a).2 := by
  simp only [dstCounts, Bool.false_eq_true, if_false]
  congr 1
  apply List.filter_eq_self.mpr
  intro c hcm
  simp only [List.mem_filter, Bool.and_self, List.any_eq_true, Bool.and_eq_true, beq_iff_eq] at hcm
  obtain ⟨_, r, hr, hl, hcc⟩ := hcm
  obtain ⟨k, hk⟩ := List.exists_mem_of_ne_nil _ (hc r hr)
  simp only [List.any_eq_true, List.contains_iff_mem, List.mem_flatMap, List.mem_filter, Bool.and_eq_true,
    beq_iff_eq]
  exact ⟨k, ⟨r, ⟨hr, hl, hcc⟩, hk⟩, ⟨r, ⟨hr, hl, hcc⟩, hk⟩⟩

/-- **C17, presence/absence coding** for a cognate set that lies within one concept `c`:
present iff the language has a word in the set; otherwise missing iff it has no word for
`c` at all; otherwise absent. -/
theorem C17_paps (rows : List Row) (cols : List Nat) (m : Int) (g c : Nat)
    (hc : keyOrder ((rows.filter fun r => r.cogs.contains g).map (·.concept)) = [c]) (j l : Nat)
    (hj : cols[j]? = some l) :
    (papOf rows cols m g)[j]? = some
      (if (rows.any fun r => r.cogs.contains g && r.lang == l) then 1
       else if (idsOf rows c l).isEmpty then m else 0) := by
  simp only [papOf, hc, List.getElem?_map, hj, Option.map_some, List.any_filter]

/-- cognate sets spanning several concepts (hand-made ids): the code answers 1 everywhere -/
theorem C17_paps_multi (rows : List Row) (cols : List Nat) (m : Int) (g c c' : Nat) (cs : List Nat)
    (hc : keyOrder ((rows.filter fun r => r.cogs.contains g).map (·.concept)) = c :: c' :: cs) :
    ∀ v ∈ papOf rows cols m g, v = 1 := by
  intro v hv
  simp only [papOf, hc, List.mem_map] at hv
  obtain ⟨l, _, rfl⟩ := hv
  split <;> rfl

end Verif.WL
