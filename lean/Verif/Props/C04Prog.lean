import Verif.Props.C04
set_option linter.unusedSimpArgs false
set_option linter.unusedVariables false
/-!
# C04 — the whole progressive pass and every refinement split keep each row's content

`C04_progressive`: for every guide tree (any tree matrix whose rows point to existing blocks) and
whatever the profile aligner returns at each node, as long as its two index rows have one common
length and as many non-gap entries as the blocks are wide (which is C01 for the profile aligner),
every block built on the way is rectangular, non-empty and its rows de-gap to the input sequences
listed in `seq_ord`; if the last `seq_ord` entry is a permutation of `0 … h-1` (a valid join
sequence), the re-ordered matrix has one row per input, in input order, all of one length, and row
`j` de-gaps to input `j`.

`C04_refineSplit`: one refinement split of a rectangular matrix, with any profile alignment of the
two reduced parts, gives back a rectangular matrix of the same height whose rows de-gap to what they
de-gapped to before.  By induction (`C04_history`) the same holds after any sequence of splits.
-/
namespace Verif.MSA
open Verif.SC

def Rect (block : List (List Nat)) : Prop := ∀ r ∈ block, r.length = width block

/-- the rows of `block` de-gap to the sequences named in `ord` -/
def RowsOf (g : Nat) (seqs : List (List Nat)) (block : List (List Nat)) (ord : List Nat) : Prop :=
  block.length = ord.length ∧ ∀ p ∈ ord.zip block, degap g p.2 = degap g (seqs.getD p.1 [])

structure PInv (g : Nat) (seqs : List (List Nat)) (st : PState) : Prop where
  len : st.blocks.length = st.ords.length
  ok : ∀ k (hk : k < st.blocks.length), Rect st.blocks[k] ∧ st.blocks[k] ≠ [] ∧
        RowsOf g seqs st.blocks[k] (st.ords.getD k [])

theorem rect_width {block : List (List Nat)} (h : Rect block) (w : Nat) (r : List Nat) (hr : r ∈ block)
    (hw : r.length = w) : width block = w := by rw [← h r hr, hw]

theorem merge_rect (g : Nat) (A B : List (List Nat)) (fa fb : List Bool) (hA : Rect A) (hB : Rect B)
    (hAne : A ≠ []) (hok : flagsOkb A B fa fb = true) :
    Rect (mergeBlocks g A B fa fb) ∧ mergeBlocks g A B fa fb ≠ [] ∧
    (mergeBlocks g A B fa fb).map (degap g) = (A ++ B).map (degap g) ∧
    (mergeBlocks g A B fa fb).length = A.length + B.length := by
  simp only [flagsOkb, Bool.and_eq_true, beq_iff_eq] at hok
  obtain ⟨⟨h1, h2⟩, h3⟩ := hok
  obtain ⟨m1, m2, m3⟩ := C04_merge g A B fa fb h1 (fun r hr => by rw [h2, hA r hr])
    (fun r hr => by rw [h3, hB r hr])
  have hne : mergeBlocks g A B fa fb ≠ [] := by
    intro h
    have : (mergeBlocks g A B fa fb).length = 0 := by rw [h]; rfl
    rw [m3] at this
    have : A.length = 0 := by omega
    exact hAne (List.length_eq_zero_iff.mp this)
  refine ⟨?_, hne, m2, m3⟩
  intro r hr
  have hw : width (mergeBlocks g A B fa fb) = fa.length := by
    cases hm : mergeBlocks g A B fa fb with
    | nil => exact absurd hm hne
    | cons x xs =>
      simp only [width, List.headD_cons]
      exact m1 x (by rw [hm]; exact List.mem_cons_self)
  rw [hw]; exact m1 r hr

theorem rowsOf_append (g : Nat) (seqs : List (List Nat)) (A B : List (List Nat)) (oA oB : List Nat)
    (hA : RowsOf g seqs A oA) (hB : RowsOf g seqs B oB) : RowsOf g seqs (A ++ B) (oA ++ oB) := by
  refine ⟨by simp [hA.1, hB.1], ?_⟩
  intro p hp
  rw [List.zip_append hA.1.symm] at hp
  rcases List.mem_append.mp hp with h | h
  · exact hA.2 p h
  · exact hB.2 p h

/-- `RowsOf` only looks at the de-gapped rows -/
theorem rowsOf_congr (g : Nat) (seqs : List (List Nat)) (X Y : List (List Nat)) (o : List Nat)
    (h : X.map (degap g) = Y.map (degap g)) (hY : RowsOf g seqs Y o) : RowsOf g seqs X o := by
  have hlen : X.length = Y.length := by simpa using congrArg List.length h
  refine ⟨by rw [hlen, hY.1], ?_⟩
  intro p hp
  obtain ⟨i, hi1, hi2, rfl⟩ : ∃ (i : Nat) (h1 : i < o.length) (h2 : i < X.length), p = (o[i], X[i]) := by
    rw [List.mem_iff_getElem] at hp
    obtain ⟨i, hi, rfl⟩ := hp
    simp only [List.length_zip] at hi
    exact ⟨i, by omega, by omega, by simp⟩
  have hiy : i < Y.length := by omega
  have hx : degap g X[i] = degap g Y[i] := by
    have := congrArg (fun l => l[i]?) h
    simpa [List.getElem?_map, List.getElem?_eq_getElem hi2, List.getElem?_eq_getElem hiy] using this
  simp only
  rw [hx]
  exact hY.2 (o[i], Y[i]) (by
    rw [List.mem_iff_getElem]
    exact ⟨i, by simp only [List.length_zip]; omega, by simp⟩)

theorem progStep_inv (g : Nat) (seqs : List (List Nat)) (st : PState) (step : PStep) (hinv : PInv g seqs st)
    (hok : stepOkb st step = true) : PInv g seqs (progStep g st step) := by
  simp only [stepOkb, Bool.and_eq_true, decide_eq_true_eq] at hok
  obtain ⟨⟨hm, hn⟩, hf⟩ := hok
  have hm' : step.1.1 < st.ords.length := hinv.len ▸ hm
  have hn' : step.1.2 < st.ords.length := hinv.len ▸ hn
  obtain ⟨rA, neA, roA⟩ := hinv.ok _ hm
  obtain ⟨rB, neB, roB⟩ := hinv.ok _ hn
  have eA : st.blocks.getD step.1.1 [] = st.blocks[step.1.1] := by
    simp [List.getD_eq_getElem?_getD, List.getElem?_eq_getElem hm]
  have eB : st.blocks.getD step.1.2 [] = st.blocks[step.1.2] := by
    simp [List.getD_eq_getElem?_getD, List.getElem?_eq_getElem hn]
  rw [eA, eB] at hf
  obtain ⟨mr, mne, mdg, mlen⟩ := merge_rect g _ _ _ _ rA rB neA hf
  constructor
  · simp [progStep, hinv.len]
  · intro k hk
    simp only [progStep, List.length_append, List.length_cons, List.length_nil] at hk
    by_cases hlt : k < st.blocks.length
    · have e1 : (progStep g st step).blocks[k] = st.blocks[k] := by
        simp only [progStep]; rw [List.getElem_append_left hlt]
      have e2 : (progStep g st step).ords.getD k [] = st.ords.getD k [] := by
        simp only [progStep, List.getD_eq_getElem?_getD]
        rw [List.getElem?_append_left (by have := hinv.len; omega)]
      rw [e1, e2]; exact hinv.ok k hlt
    · have hk' : k = st.blocks.length := by omega
      subst hk'
      have e1 : (progStep g st step).blocks[st.blocks.length] =
          mergeBlocks g st.blocks[step.1.1] st.blocks[step.1.2] step.2.1 step.2.2 := by
        simp only [progStep, eA, eB]
        rw [List.getElem_append_right (Nat.le_refl _)]
        simp
      have e2 : (progStep g st step).ords.getD st.blocks.length [] =
          st.ords.getD step.1.1 [] ++ st.ords.getD step.1.2 [] := by
        simp only [progStep, List.getD_eq_getElem?_getD]
        rw [hinv.len, List.getElem?_append_right (Nat.le_refl _)]
        simp
      rw [e1, e2]
      exact ⟨mr, mne, rowsOf_congr g seqs _ _ _ mdg (rowsOf_append g seqs _ _ _ _ roA roB)⟩

theorem progInit_inv (g : Nat) (seqs : List (List Nat)) : PInv g seqs (progInit seqs) := by
  constructor
  · simp [progInit]
  · intro k hk
    simp only [progInit, List.length_map] at hk
    simp only [progInit, List.getElem_map, List.getD_eq_getElem?_getD, List.getElem?_map,
      List.getElem?_range hk, Option.map_some, Option.getD_some]
    refine ⟨?_, by simp, by simp, ?_⟩
    · intro r hr
      simp only [List.mem_singleton] at hr
      subst hr; simp [width]
    · intro p hp
      simp only [List.zip_cons_cons, List.zip_nil_right, List.mem_singleton] at hp
      subst hp
      simp [List.getD_eq_getElem?_getD, List.getElem?_eq_getElem hk]

theorem progRun_inv (g : Nat) (seqs : List (List Nat)) : ∀ (steps : List PStep) (st : PState), PInv g seqs st →
    stepsOkb g st steps = true → PInv g seqs (steps.foldl (progStep g) st)
  | [], st, h, _ => by simpa using h
  | s :: r, st, h, hok => by
    simp only [stepsOkb, Bool.and_eq_true] at hok
    simp only [List.foldl_cons]
    exact progRun_inv g seqs r _ (progStep_inv g seqs st s h hok.1) hok.2

/-! ### putting the rows back into input order -/

theorem reorder_spec (g : Nat) (seqs : List (List Nat)) (block : List (List Nat)) (ord : List Nat) (h : Nat)
    (hrows : RowsOf g seqs block ord) (hrect : Rect block) (hperm : ord.Perm (List.range h)) :
    (reorder ord block).length = h ∧ (∀ r ∈ reorder ord block, r.length = width block) ∧
    ∀ j (hj : j < (reorder ord block).length), degap g (reorder ord block)[j] = degap g (seqs.getD j []) := by
  unfold reorder
  generalize hs : (ord.zip block).mergeSort (fun a b => decide (a.1 ≤ b.1)) = sorted
  have hp : sorted.Perm (ord.zip block) := hs ▸ List.mergeSort_perm _ _
  have hsorted : sorted.Pairwise (fun a b => decide (a.1 ≤ b.1) = true) := by
    rw [← hs]
    apply List.pairwise_mergeSort
    · intro a b c hab hbc
      simp only [decide_eq_true_eq] at hab hbc ⊢; omega
    · intro a b
      simp only [Bool.or_eq_true, decide_eq_true_eq]; omega
  have hkeys : sorted.map (·.1) = List.range h := by
    have hk1 : (sorted.map (·.1)).Perm (List.range h) := by
      have : ((ord.zip block).map (·.1)) = ord := by
        rw [List.map_fst_zip]; rw [hrows.1]; exact Nat.le_refl _
      have h0 := hp.map (fun x : Nat × List Nat => x.1)
      rw [this] at h0
      exact h0.trans hperm
    apply List.Perm.eq_of_pairwise (le := fun a b : Nat => a ≤ b) _ _ List.pairwise_le_range hk1
    · intro a b _ _ h1 h2; omega
    · rw [List.pairwise_map]
      exact hsorted.imp (fun hab => by simpa using hab)
  have hlen : sorted.length = h := by
    have := congrArg List.length hkeys
    simpa using this
  refine ⟨by simp [hlen], ?_, ?_⟩
  · intro r hr
    obtain ⟨p, hpm, rfl⟩ := List.mem_map.mp hr
    have := (List.of_mem_zip (hp.subset hpm)).2
    exact hrect _ this
  · intro j hj
    simp only [List.length_map] at hj
    simp only [List.getElem_map]
    have hmem : sorted[j] ∈ ord.zip block := hp.subset (List.getElem_mem hj)
    have hkey : sorted[j].1 = j := by
      have := congrArg (fun l => l[j]?) hkeys
      simp only [List.getElem?_map, List.getElem?_eq_getElem hj, Option.map_some,
        List.getElem?_range (hlen ▸ hj)] at this
      simpa using this
    rw [hrows.2 _ hmem, hkey]

/-- **C04, progressive pass**: see the header. -/
theorem C04_progressive (g : Nat) (seqs : List (List Nat)) (steps : List PStep) (hne : steps ≠ [])
    (hok : stepsOkb g (progInit seqs) steps = true)
    (hperm : ((progRun g seqs steps).ords.getLast?.getD []).Perm (List.range seqs.length)) :
    (progressive g seqs steps).length = seqs.length ∧
    (∃ w, ∀ r ∈ progressive g seqs steps, r.length = w) ∧
    ∀ j (hj : j < (progressive g seqs steps).length),
      degap g (progressive g seqs steps)[j] = degap g (seqs.getD j []) := by
  have hinv := progRun_inv g seqs steps _ (progInit_inv g seqs) hok
  change PInv g seqs (progRun g seqs steps) at hinv
  unfold progressive
  simp only
  generalize progRun g seqs steps = st at hinv hperm
  have hpos : 0 < st.blocks.length ∨ st.blocks = [] := by
    cases st.blocks <;> simp
  rcases hpos with hpos | hnil
  · have hlast : st.blocks.getLast?.getD [] = st.blocks[st.blocks.length - 1] := by
      rw [List.getLast?_eq_getElem?, List.getElem?_eq_getElem (by omega)]; rfl
    have hlasto : st.ords.getLast?.getD [] = st.ords.getD (st.blocks.length - 1) [] := by
      rw [List.getLast?_eq_getElem?, hinv.len, List.getD_eq_getElem?_getD]
    obtain ⟨r1, _, r3⟩ := hinv.ok (st.blocks.length - 1) (by omega)
    rw [hlasto] at hperm
    rw [hlast, hlasto]
    obtain ⟨a, b, c⟩ := reorder_spec g seqs _ _ seqs.length r3 r1 hperm
    exact ⟨a, ⟨_, b⟩, c⟩
  · -- no block at all: then there is no sequence either
    have : st.ords = [] := List.length_eq_zero_iff.mp (by rw [← hinv.len, hnil]; rfl)
    rw [this] at hperm
    simp only [List.getLast?_nil, Option.getD_none] at hperm
    have h0 : seqs.length = 0 := by
      have := hperm.length_eq
      simpa using this.symm
    simp [hnil, this, reorder, h0]

/-! ### refinement splits -/

theorem reduce_rect (g : Nat) (msa : List (List Nat)) (hr : Rect msa) :
    Rect (reduceGapSites g msa) ∧ (reduceGapSites g msa).map (degap g) = msa.map (degap g) ∧
    (reduceGapSites g msa).length = msa.length := by
  obtain ⟨h1, w', h2⟩ := C04_reduce g msa (width msa) hr
  refine ⟨?_, h1, by simpa using congrArg List.length h1⟩
  intro r hrm
  cases hm : reduceGapSites g msa with
  | nil => rw [hm] at hrm; cases hrm
  | cons x xs =>
    simp only [width, List.headD_cons]
    rw [h2 r hrm, h2 x (by rw [hm]; exact List.mem_cons_self)]

theorem find_zip {α : Type} : ∀ (ks : List Nat) (vs : List α), ks.length = vs.length → ∀ i, i ∈ ks →
    ∃ (p : Nat) (hp : p < vs.length) (hk : p < ks.length), ks[p] = i ∧
      (ks.zip vs).find? (fun q => q.1 == i) = some (i, vs[p])
  | [], _, _, i, hi => by cases hi
  | k :: ks, [], h, _, _ => by simp at h
  | k :: ks, v :: vs, h, i, hi => by
    by_cases hk : k = i
    · subst hk
      exact ⟨0, by simp, by simp, rfl, by simp⟩
    · have hi' : i ∈ ks := by
        rcases List.mem_cons.mp hi with h' | h'
        · exact absurd h'.symm hk
        · exact h'
      obtain ⟨p, hp, hkp, e1, e2⟩ := find_zip ks vs (by simpa using h) i hi'
      refine ⟨p + 1, by simp; omega, by simp; omega, by simpa using e1, ?_⟩
      have : (k == i) = false := by simpa using hk
      simp only [List.zip_cons_cons, List.find?_cons, this]
      simpa using e2

theorem rect_pick (msa : List (List Nat)) (hr : Rect msa) (idx : List Nat) (hidx : ∀ i ∈ idx, i < msa.length) :
    Rect (idx.map fun i => msa.getD i []) := by
  intro r hrm
  obtain ⟨i, hi, rfl⟩ := List.mem_map.mp hrm
  have hil := hidx i hi
  have e : msa.getD i [] = msa[i] := by simp [List.getD_eq_getElem?_getD, List.getElem?_eq_getElem hil]
  rw [e, hr _ (List.getElem_mem hil)]
  cases idx with
  | nil => cases hi
  | cons j js =>
    have hjl := hidx j List.mem_cons_self
    have e2 : msa.getD j [] = msa[j] := by simp [List.getD_eq_getElem?_getD, List.getElem?_eq_getElem hjl]
    simp only [width, List.map_cons, List.headD_cons, e2]
    rw [hr _ (List.getElem_mem hjl)]
    rfl

/-- **C04, one refinement split**: the result has the same height, is rectangular, and every row
de-gaps to what it de-gapped to before. -/
theorem C04_refineSplit (g : Nat) (msa : List (List Nat)) (hr : Rect msa) (idxA : List Nat) (fa fb : List Bool)
    (hok : splitOkb g msa idxA fa fb = true) :
    (refineSplit g msa idxA fa fb).length = msa.length ∧ Rect (refineSplit g msa idxA fa fb) ∧
    (refineSplit g msa idxA fa fb).map (degap g) = msa.map (degap g) := by
  simp only [splitOkb, Bool.and_eq_true, Bool.not_eq_true', List.all_eq_true, decide_eq_true_eq] at hok
  obtain ⟨⟨hne, hlt⟩, hf⟩ := hok
  generalize hB : (List.range msa.length).filter (fun i => !idxA.contains i) = idxB at hf
  have hltB : ∀ i ∈ idxB, i < msa.length := by
    intro i hi; rw [← hB] at hi
    exact List.mem_range.mp (List.mem_filter.mp hi).1
  have rA := rect_pick msa hr idxA hlt
  have rB := rect_pick msa hr idxB hltB
  obtain ⟨ra1, ra2, ra3⟩ := reduce_rect g _ rA
  obtain ⟨rb1, rb2, rb3⟩ := reduce_rect g _ rB
  have hAne : reduceGapSites g (idxA.map fun i => msa.getD i []) ≠ [] := by
    intro h
    have : (reduceGapSites g (idxA.map fun i => msa.getD i [])).length = 0 := by rw [h]; rfl
    rw [ra3] at this
    simp only [List.length_map] at this
    have : idxA = [] := List.length_eq_zero_iff.mp this
    simp [this] at hne
  obtain ⟨mr, mne, mdg, mlen⟩ := merge_rect g _ _ fa fb ra1 rb1 hAne hf
  generalize hm : mergeBlocks g (reduceGapSites g (idxA.map fun i => msa.getD i []))
      (reduceGapSites g (idxB.map fun i => msa.getD i [])) fa fb = merged at mr mne mdg mlen
  have hlen : (idxA ++ idxB).length = merged.length := by
    rw [mlen, ra3, rb3]; simp
  have hdg : merged.map (degap g) = (idxA ++ idxB).map (fun i => degap g (msa.getD i [])) := by
    rw [mdg, List.map_append, ra2, rb2]
    simp [List.map_map, Function.comp_def]
  have hcover : ∀ i, i < msa.length → i ∈ idxA ++ idxB := by
    intro i hi
    by_cases ha : i ∈ idxA
    · exact List.mem_append.mpr (Or.inl ha)
    · refine List.mem_append.mpr (Or.inr ?_)
      rw [← hB]
      exact List.mem_filter.mpr ⟨List.mem_range.mpr hi, by simpa using ha⟩
  have hrow : ∀ i (hi : i < msa.length), ∃ (p : Nat) (hp : p < merged.length),
      (refineSplit g msa idxA fa fb)[i]? = some merged[p] ∧ degap g merged[p] = degap g msa[i] := by
    intro i hi
    obtain ⟨p, hp, hkp, e1, e2⟩ := find_zip (idxA ++ idxB) merged hlen i (hcover i hi)
    refine ⟨p, hp, ?_, ?_⟩
    · simp only [refineSplit, hB, hm, joinRows]
      rw [List.getElem?_map, List.getElem?_range hi]
      simp only [Option.map_some, e2, Option.getD_some]
    · have := congrArg (fun l => l[p]?) hdg
      simp only [List.getElem?_map, List.getElem?_eq_getElem hp, List.getElem?_eq_getElem hkp, Option.map_some,
        Option.some.injEq, e1] at this
      rw [this]
      simp [List.getD_eq_getElem?_getD, List.getElem?_eq_getElem hi]
  have hheight : (refineSplit g msa idxA fa fb).length = msa.length := by
    simp [refineSplit, joinRows]
  refine ⟨hheight, ?_, ?_⟩
  · -- all rows are rows of the merged block
    have hall : ∀ r ∈ refineSplit g msa idxA fa fb, r.length = width merged := by
      intro r hrm
      obtain ⟨i, hi, rfl⟩ := List.getElem_of_mem hrm
      obtain ⟨p, hp, e1, _⟩ := hrow i (hheight ▸ hi)
      rw [List.getElem?_eq_getElem hi] at e1
      simp only [Option.some.injEq] at e1
      rw [e1]; exact mr _ (List.getElem_mem hp)
    intro r hrm
    cases hrs : refineSplit g msa idxA fa fb with
    | nil => rw [hrs] at hrm; cases hrm
    | cons x xs =>
      simp only [width, List.headD_cons]
      rw [hall r hrm, hall x (by rw [hrs]; exact List.mem_cons_self)]
  · apply List.ext_getElem?
    intro i
    by_cases hi : i < msa.length
    · obtain ⟨p, hp, e1, e2⟩ := hrow i hi
      simp only [List.getElem?_map, e1, Option.map_some, List.getElem?_eq_getElem hi, e2]
    · rw [List.getElem?_eq_none (by simp [hheight]; omega), List.getElem?_eq_none (by simp; omega)]

/-- **C04, any sequence of refinement splits** keeps height, rectangularity and every row's content -/
theorem C04_history (g : Nat) : ∀ (hist : List Split) (msa : List (List Nat)), Rect msa → histOkb g msa hist = true →
    let out := hist.foldl (fun m s => refineSplit g m s.1 s.2.1 s.2.2) msa
    out.length = msa.length ∧ Rect out ∧ out.map (degap g) = msa.map (degap g)
  | [], msa, hr, _ => by simp only [List.foldl_nil]; exact ⟨trivial, hr, trivial⟩
  | s :: r, msa, hr, hok => by
    simp only [histOkb, Bool.and_eq_true] at hok
    obtain ⟨h1, h2, h3⟩ := C04_refineSplit g msa hr s.1 s.2.1 s.2.2 hok.1
    obtain ⟨i1, i2, i3⟩ := C04_history g r _ h2 hok.2
    simp only [List.foldl_cons]
    exact ⟨i1.trans h1, i2, i3.trans h3⟩

/-- the decidable form used by the harness on every observed run -/
theorem C04_progressive_observed (g : Nat) (seqs : List (List Nat)) (steps : List PStep)
    (hok : progOkb g seqs steps = true) :
    (progressive g seqs steps).length = seqs.length ∧
    (∃ w, ∀ r ∈ progressive g seqs steps, r.length = w) ∧
    ∀ j (hj : j < (progressive g seqs steps).length),
      degap g (progressive g seqs steps)[j] = degap g (seqs.getD j []) := by
  simp only [progOkb, Bool.and_eq_true, Bool.not_eq_true', List.isEmpty_eq_false_iff, List.isPerm_iff] at hok
  exact C04_progressive g seqs steps hok.1.1 hok.1.2 hok.2

theorem rectb_iff (msa : List (List Nat)) : rectb msa = true ↔ Rect msa := by
  simp [rectb, Rect, List.all_eq_true]

end Verif.MSA
