/-
# C12 — the dictionary views (`get_dict`) describe the same rows as every other view
-/
import Verif.Props.C12
import Verif.Model.WordlistViews
set_option linter.unusedSimpArgs false
namespace Verif.WL

/-- row ids are keys of the data dictionary: two rows with one id are one row -/
def UniqueIds (rows : List Row) : Prop := ∀ r ∈ rows, ∀ r' ∈ rows, r.id = r'.id → r = r'

theorem conceptOfId_of_mem (rows : List Row) (hu : UniqueIds rows) (r : Row) (hr : r ∈ rows) :
    conceptOfId rows r.id = r.concept := by
  unfold conceptOfId
  cases hf : rows.find? (fun x => x.id == r.id) with
  | none =>
    have := List.find?_eq_none.mp hf r hr
    simp at this
  | some r' =>
    have h1 := List.find?_some hf
    have h2 := List.mem_of_find?_eq_some hf
    have : r' = r := hu r' h2 r hr (by simpa using h1)
    simp [this]

/-- **C12, `get_dict(row=c)`**: language `l` is a key iff some row of concept `c` is in language `l`, and the ids listed
under it are exactly the ids of the rows of concept `c` and language `l`. -/
theorem C12_dictOfRow (rows : List Row) (c l : Nat) (ids : List Nat) (h : (l, ids) ∈ dictOfRow rows c) (v : Nat) :
    (∃ r ∈ rows, r.concept = c ∧ r.lang = l) ∧
    (v ∈ ids ↔ ∃ r ∈ rows, r.id = v ∧ r.concept = c ∧ r.lang = l) := by
  simp only [dictOfRow, List.mem_map, Prod.mk.injEq] at h
  obtain ⟨l', hl', rfl, rfl⟩ := h
  rw [mem_keyOrder] at hl'
  simp only [List.mem_map, List.mem_filter, beq_iff_eq] at hl'
  obtain ⟨r, ⟨hr, hc⟩, rfl⟩ := hl'
  exact ⟨⟨r, hr, hc, rfl⟩, mem_idsOf rows c r.lang v⟩

theorem C12_dictOfRow_keys (rows : List Row) (c : Nat) (r : Row) (hr : r ∈ rows) (hc : r.concept = c) :
    ∃ ids, (r.lang, ids) ∈ dictOfRow rows c := by
  simp only [dictOfRow, List.mem_map, Prod.mk.injEq]
  refine ⟨_, r.lang, ?_, rfl, rfl⟩
  rw [mem_keyOrder]
  simp only [List.mem_map, List.mem_filter, beq_iff_eq]
  exact ⟨r, ⟨hr, hc⟩, rfl⟩

/-- **C12, `get_dict(col=l)`**: the ids listed under concept `c` in the dictionary of language `l` are exactly the non-zero
ids of the rows of language `l` and concept `c` (row ids being unique). -/
theorem C12_dictOfCol (rows : List Row) (cols : List Nat) (hu : UniqueIds rows) (l j : Nat) (hj : cols.idxOf? l = some j)
    (c : Nat) (ids : List Nat) (h : (c, ids) ∈ dictOfCol rows cols l) (v : Nat) :
    v ∈ ids ↔ v ≠ 0 ∧ ∃ r ∈ rows, r.id = v ∧ r.lang = l ∧ r.concept = c := by
  simp only [dictOfCol, List.mem_map, Prod.mk.injEq] at h
  obtain ⟨c', _, rfl, rfl⟩ := h
  simp only [List.mem_filter, beq_iff_eq, C12_listOfCol rows cols l j v hj]
  constructor
  · rintro ⟨⟨hv, r, hr, rfl, hl⟩, hc⟩
    rw [conceptOfId_of_mem rows hu r hr] at hc
    exact ⟨hv, r, hr, rfl, hl, hc⟩
  · rintro ⟨hv, r, hr, rfl, hl, hc⟩
    exact ⟨⟨hv, r, hr, rfl, hl⟩, by rw [conceptOfId_of_mem rows hu r hr]; exact hc⟩

/-- every row with a non-zero id is listed in the dictionary of its language, under its concept -/
theorem C12_dictOfCol_keys (rows : List Row) (cols : List Nat) (hu : UniqueIds rows) (r : Row) (hr : r ∈ rows) (h0 : r.id ≠ 0)
    (j : Nat) (hj : cols.idxOf? r.lang = some j) : ∃ ids, (r.concept, ids) ∈ dictOfCol rows cols r.lang ∧ r.id ∈ ids := by
  have hmem : r.id ∈ listOfCol rows cols r.lang := (C12_listOfCol rows cols r.lang j r.id hj).mpr ⟨h0, r, hr, rfl, rfl⟩
  refine ⟨(listOfCol rows cols r.lang).filter (fun v => conceptOfId rows v == r.concept), ?_, ?_⟩
  · simp only [dictOfCol, List.mem_map, Prod.mk.injEq]
    refine ⟨r.concept, ?_, rfl, rfl⟩
    rw [mem_keyOrder]
    exact List.mem_map.mpr ⟨r.id, hmem, conceptOfId_of_mem rows hu r hr⟩
  · simp only [List.mem_filter, beq_iff_eq]
    exact ⟨hmem, conceptOfId_of_mem rows hu r hr⟩

/-- **the two dictionaries agree**: an id stands under concept `c` in the dictionary of language `l` iff it stands under
language `l` in the dictionary of concept `c`. -/
theorem C12_dicts_agree (rows : List Row) (cols : List Nat) (hu : UniqueIds rows) (l j : Nat) (hj : cols.idxOf? l = some j)
    (c : Nat) (idsC idsR : List Nat) (hC : (c, idsC) ∈ dictOfCol rows cols l) (hR : (l, idsR) ∈ dictOfRow rows c)
    (v : Nat) (hv : v ≠ 0) : v ∈ idsC ↔ v ∈ idsR := by
  rw [C12_dictOfCol rows cols hu l j hj c idsC hC v, (C12_dictOfRow rows c l idsR hR v).2]
  constructor
  · rintro ⟨_, r, hr, h1, h2, h3⟩; exact ⟨r, hr, h1, h3, h2⟩
  · rintro ⟨r, hr, h1, h2, h3⟩; exact ⟨hv, r, hr, h1, h3, h2⟩

/-- with an entry the cells are those of the listed rows, in the same order -/
theorem C12_withEntry {α : Type} (cell : Nat → α) (d : List (Nat × List Nat)) (k : Nat) (ids : List Nat) (h : (k, ids) ∈ d) :
    (k, ids.map cell) ∈ withEntry cell d := by
  simp only [withEntry, List.mem_map, Prod.mk.injEq]
  exact ⟨(k, ids), h, rfl, rfl⟩

/-- **which concepts a language's dictionary has**: exactly those for which it has a row (what `get_score` tests with
`concept not in dictA`) -/
theorem C12_dictOfCol_key_iff (rows : List Row) (cols : List Nat) (hu : UniqueIds rows) (l j : Nat) (hj : cols.idxOf? l = some j)
    (c : Nat) : (∃ ids, (c, ids) ∈ dictOfCol rows cols l) ↔ ∃ r ∈ rows, r.id ≠ 0 ∧ r.lang = l ∧ r.concept = c := by
  constructor
  · rintro ⟨ids, h⟩
    simp only [dictOfCol, List.mem_map, Prod.mk.injEq] at h
    obtain ⟨c', hc', rfl, _⟩ := h
    rw [mem_keyOrder] at hc'
    obtain ⟨v, hv, hcv⟩ := List.mem_map.mp hc'
    obtain ⟨hv0, r, hr, rfl, hl⟩ := (C12_listOfCol rows cols l j v hj).mp hv
    rw [conceptOfId_of_mem rows hu r hr] at hcv
    exact ⟨r, hr, hv0, hl, hcv⟩
  · rintro ⟨r, hr, h0, rfl, rfl⟩
    obtain ⟨ids, h, _⟩ := C12_dictOfCol_keys rows cols hu r hr h0 j hj
    exact ⟨ids, h⟩

theorem keyOrder_nodup (xs : List Nat) : (keyOrder xs).Nodup := by
  unfold keyOrder
  have : ∀ (acc : List Nat), acc.Nodup →
      (xs.foldl (fun acc x => if acc.contains x then acc else acc ++ [x]) acc).Nodup := by
    induction xs with
    | nil => intro acc h; simpa using h
    | cons x xs ih =>
      intro acc h
      simp only [List.foldl_cons]
      apply ih
      by_cases hc : acc.contains x = true
      · simp only [hc, if_true]; exact h
      · have hc' : acc.contains x = false := by simpa using hc
        simp only [hc', Bool.false_eq_true, if_false]
        rw [List.nodup_append]
        refine ⟨h, by simp, ?_⟩
        intro a ha b hb hab
        simp only [List.mem_singleton] at hb
        subst hb; subst hab
        simp [List.contains_iff_mem] at hc'
        exact hc' ha
  exact this [] List.nodup_nil

/-- **the views are dictionaries**: every key occurs once -/
theorem C12_dict_keys_nodup (rows : List Row) (cols : List Nat) (l c : Nat) :
    ((dictOfCol rows cols l).map (·.1)).Nodup ∧ ((dictOfRow rows c).map (·.1)).Nodup := by
  constructor
  · simp only [dictOfCol, List.map_map, Function.comp_def, List.map_id']
    exact keyOrder_nodup _
  · simp only [dictOfRow, List.map_map, Function.comp_def, List.map_id']
    exact keyOrder_nodup _

/-- a word list with a synonym pair and a gap: the statements are about something -/
example : dictOfCol [⟨1, 1, 1, [1]⟩, ⟨2, 1, 2, [1]⟩, ⟨3, 2, 1, [2]⟩, ⟨4, 1, 1, [3]⟩] [1, 2] 1 = [(1, [1, 4]), (2, [3])] ∧
    dictOfRow [⟨1, 1, 1, [1]⟩, ⟨2, 1, 2, [1]⟩, ⟨3, 2, 1, [2]⟩, ⟨4, 1, 1, [3]⟩] 1 = [(1, [1, 4]), (2, [2])] := by decide

end Verif.WL
