import Verif.Model.Partial
set_option linter.unusedSimpArgs false
/-!
# C16 — partial cognates: one id per morpheme, concept-disjoint ids, exact 'strict' derivation
-/
namespace Verif.Partial

/-- well-formed: one label per morpheme, labels between 1 and the number of morphemes of the
concept (what a reverted flat clustering of an `n × n` matrix returns) -/
def WF (parts : List (List Nat × List Nat)) : Prop :=
  ∀ p ∈ parts, p.1.length = p.2.length ∧ ∀ l ∈ p.2, 1 ≤ l ∧ l ≤ p.2.length

/-- **C16, one id per morpheme**: per concept the output lists exactly the morphemes' words, in order. -/
theorem C16_count (parts : List (List Nat × List Nat)) (hwf : WF parts) : ∀ k,
    (pglue k parts).map (fun c => c.map (·.1)) = parts.map (·.1) := by
  induction parts with
  | nil => intro k; rfl
  | cons p rest ih =>
    intro k
    obtain ⟨ws, labs⟩ := p
    have h := hwf (ws, labs) List.mem_cons_self
    simp only [pglue, List.map_cons]
    rw [ih (fun q hq => hwf q (List.mem_cons_of_mem _ hq))]
    congr 1
    rw [List.map_fst_zip]
    simp [h.1]

theorem pglue_gt (parts : List (List Nat × List Nat)) (hwf : WF parts) : ∀ k,
    ∀ c ∈ pglue k parts, ∀ e ∈ c, k < e.2 := by
  induction parts with
  | nil => intro k c hc; simp [pglue] at hc
  | cons p rest ih =>
    intro k c hc e he
    obtain ⟨ws, labs⟩ := p
    have h := hwf (ws, labs) List.mem_cons_self
    simp only [pglue, List.mem_cons] at hc
    rcases hc with rfl | hc
    · obtain ⟨l, hl, hle⟩ := List.mem_map.mp (List.of_mem_zip he).2
      have := (h.2 l hl).1
      omega
    · have := ih (fun q hq => hwf q (List.mem_cons_of_mem _ hq)) _ c hc e he
      omega

/-- **C16, ids are never shared between concepts**: every id of the first concept is at most
`k + n` and every id of a later concept is greater than `k + n + 1`. -/
theorem C16_no_cross_concept (p : List Nat × List Nat) (rest : List (List Nat × List Nat))
    (hwf : WF (p :: rest)) (k : Nat) :
    ∀ e ∈ (pglue k (p :: rest)).headD [], ∀ c ∈ (pglue k (p :: rest)).tail, ∀ e' ∈ c, e.2 < e'.2 := by
  obtain ⟨ws, labs⟩ := p
  intro e he c hc e' he'
  simp only [pglue, List.headD_cons, List.tail_cons] at he hc
  have h := hwf (ws, labs) List.mem_cons_self
  obtain ⟨l, hl, hle⟩ := List.mem_map.mp (List.of_mem_zip he).2
  have h1 : l ≤ labs.length := (h.2 l hl).2
  have h2 := pglue_gt rest (fun q hq => hwf q (List.mem_cons_of_mem _ hq)) _ c hc e' he'
  omega

theorem mem_distinct {α : Type} [DecidableEq α] (xs : List α) (x : α) : x ∈ distinct xs ↔ x ∈ xs := by
  unfold distinct
  have : ∀ (acc : List α), x ∈ xs.foldl (fun acc x => if x ∈ acc then acc else acc ++ [x]) acc ↔
      x ∈ acc ∨ x ∈ xs := by
    induction xs with
    | nil => intro acc; simp
    | cons y ys ih =>
      intro acc
      simp only [List.foldl_cons]
      rw [ih]
      split
      · rename_i hy
        constructor
        · rintro (h1 | h1)
          · exact Or.inl h1
          · exact Or.inr (List.mem_cons_of_mem _ h1)
        · rintro (h1 | h1)
          · exact Or.inl h1
          · rcases List.mem_cons.mp h1 with rfl | h1
            · exact Or.inl hy
            · exact Or.inr h1
      · simp only [List.mem_append, List.mem_singleton, List.mem_cons, List.not_mem_nil, or_false]
        constructor
        · rintro ((h1 | h1) | h1)
          · exact Or.inl h1
          · exact Or.inr (Or.inl h1)
          · exact Or.inr (Or.inr h1)
        · rintro (h1 | h1 | h1)
          · exact Or.inl (Or.inl h1)
          · exact Or.inl (Or.inr h1)
          · exact Or.inr h1
  simpa using this []

/-- **C16, strict ids are exact**: two words get the same strict id iff their sequences of
partial ids are identical; ids are positive. -/
theorem C16_strict (rows : List (Nat × List Nat)) (a b : Nat × List Nat) (ha : a ∈ rows) (hb : b ∈ rows) :
    ((distinct (rows.map (·.2))).idxOf a.2 + 1 = (distinct (rows.map (·.2))).idxOf b.2 + 1 ↔ a.2 = b.2) ∧
    (a.1, (distinct (rows.map (·.2))).idxOf a.2 + 1) ∈ strictIds rows := by
  constructor
  · constructor
    · intro h
      have h' : (distinct (rows.map (·.2))).idxOf a.2 = (distinct (rows.map (·.2))).idxOf b.2 := by omega
      have ma : a.2 ∈ distinct (rows.map (·.2)) := (mem_distinct _ _).mpr (List.mem_map.mpr ⟨a, ha, rfl⟩)
      have mb : b.2 ∈ distinct (rows.map (·.2)) := (mem_distinct _ _).mpr (List.mem_map.mpr ⟨b, hb, rfl⟩)
      have h1 := List.getElem_idxOf (List.idxOf_lt_length_of_mem ma)
      have h2 := List.getElem_idxOf (List.idxOf_lt_length_of_mem mb)
      rw [← h1, ← h2]
      simp [h']
    · intro h; rw [h]
  · simp only [strictIds, List.mem_map]
    exact ⟨a, ha, rfl⟩

end Verif.Partial
