import Mathlib.Algebra.BigOperators.Group.Finset.Basic
import Mathlib.Algebra.Order.BigOperators.Group.Finset
import Mathlib.Algebra.BigOperators.Group.Finset.Piecewise
import Mathlib.Algebra.BigOperators.Ring.Finset
import Mathlib.Algebra.Order.BigOperators.Group.List
import Mathlib.Algebra.Order.Field.Rat
import Mathlib.Data.Rat.Defs
import Mathlib.Tactic.Linarith
import Mathlib.Tactic.Ring
import Mathlib.Tactic.FieldSimp
set_option linter.unusedSectionVars false
set_option linter.unusedSimpArgs false
set_option linter.unusedVariables false
/-!
# C09 — Neighbor-Joining on additive input: the selection criterion picks a cherry

An additive (tree) metric on the points `0 … k-1` is given here the way phylogenetics writes it without
drawing a tree: as a weighted **split system** – every edge of the generating tree cuts the points in two
sides (`Split = Nat → Bool`), the distance of two points is the total weight of the splits that separate
them, and two splits of one tree are *compatible* (one of the four side intersections is empty).

Facts proved (all over `ℚ`, no bound on `k`):

* `Qc_eq_coef` – the Saitou–Nei criterion `(k-2)·d(x,y) − R(x) − R(y)` is the weighted sum, over the splits,
  of a coefficient that is `-2` when the split separates the pair and `-2·|far side|` when it does not;
* `exists_cherry` – inside every side with at least two points there is a pair that no non-trivial split
  separates (a cherry);
* `better_pair` – if a non-trivial split of positive weight separates `i` and `j`, some pair has a strictly
  smaller criterion.  Hence (`argmin_is_cherry`) a pair of minimal criterion is separated by trivial splits
  only – the two points hang on one inner node of the generating tree.
-/
namespace Verif.NJ
open Finset

abbrev Split := Nat → Bool

/-- number of points on side `b` -/
def sideCard (k : Nat) (s : Split) (b : Bool) : Nat := ((range k).filter fun m => s m = b).card

theorem sideCard_add (k : Nat) (s : Split) (b : Bool) : sideCard k s b + sideCard k s (!b) = k := by
  unfold sideCard
  have h : ((range k).filter fun m => s m = (!b)) = (range k).filter fun m => ¬ s m = b := by
    apply Finset.filter_congr
    intro m _
    cases s m <;> cases b <;> simp
  rw [h, Finset.card_filter_add_card_filter_not]
  simp

theorem sideCard_mono (k : Nat) (s t : Split) (a b : Bool) (h : ∀ m < k, s m = a → t m = b) :
    sideCard k s a ≤ sideCard k t b := by
  unfold sideCard
  apply Finset.card_le_card
  intro m hm
  simp only [mem_filter, mem_range] at hm ⊢
  exact ⟨hm.1, h m hm.1 hm.2⟩

theorem sideCard_pos (k : Nat) (s : Split) (x : Nat) (hx : x < k) : 1 ≤ sideCard k s (s x) := by
  unfold sideCard
  apply Finset.card_pos.mpr
  exact ⟨x, by simp [hx]⟩

theorem sideCard_two (k : Nat) (s : Split) (x y : Nat) (hx : x < k) (hy : y < k) (hxy : x ≠ y) (h : s x = s y) :
    2 ≤ sideCard k s (s x) := by
  unfold sideCard
  have : ({x, y} : Finset Nat) ⊆ (range k).filter fun m => s m = s x := by
    intro m hm
    simp only [mem_insert, mem_singleton] at hm
    rcases hm with rfl | rfl <;> simp [hx, hy, h]
  have h2 := Finset.card_le_card this
  rwa [Finset.card_pair hxy] at h2

theorem exists_two (k : Nat) (s : Split) (b : Bool) (h : 2 ≤ sideCard k s b) :
    ∃ x y, x < k ∧ y < k ∧ x ≠ y ∧ s x = b ∧ s y = b := by
  unfold sideCard at h
  have h1 : 1 < ((range k).filter fun m => s m = b).card := by omega
  obtain ⟨x, hx, y, hy, hxy⟩ := Finset.one_lt_card.mp h1
  simp only [mem_filter, mem_range] at hx hy
  exact ⟨x, y, hx.1, hy.1, hxy, hx.2, hy.2⟩

/-- `1` when the split separates the two points -/
def sep (s : Split) (x y : Nat) : ℚ := if s x = s y then 0 else 1

def dist (L : List (Split × ℚ)) (x y : Nat) : ℚ := (L.map fun p => p.2 * sep p.1 x y).sum

def rowSum (k : Nat) (L : List (Split × ℚ)) (x : Nat) : ℚ := ∑ m ∈ range k, dist L x m

/-- the selection criterion, multiplied by `k - 2` -/
def Qc (k : Nat) (L : List (Split × ℚ)) (x y : Nat) : ℚ :=
  ((k : ℚ) - 2) * dist L x y - rowSum k L x - rowSum k L y

def coef (k : Nat) (s : Split) (x y : Nat) : ℚ :=
  if s x = s y then -2 * (sideCard k s (!s x) : ℚ) else -2

theorem sep_comm (s : Split) (x y : Nat) : sep s x y = sep s y x := by
  unfold sep; by_cases h : s x = s y
  · simp [h]
  · have : ¬ s y = s x := fun e => h e.symm
    simp [h, this]

theorem dist_comm (L : List (Split × ℚ)) (x y : Nat) : dist L x y = dist L y x := by
  unfold dist; congr 1; apply List.map_congr_left; intro p _; rw [sep_comm]

theorem dist_self (L : List (Split × ℚ)) (x : Nat) : dist L x x = 0 := by
  unfold dist
  induction L with
  | nil => simp
  | cons p L ih => simp [sep, ih]

theorem Qc_comm (k : Nat) (L : List (Split × ℚ)) (x y : Nat) : Qc k L x y = Qc k L y x := by
  unfold Qc; rw [dist_comm]; ring

theorem sum_sep (k : Nat) (s : Split) (x : Nat) : ∑ m ∈ range k, sep s x m = (sideCard k s (!s x) : ℚ) := by
  unfold sep sideCard
  rw [Finset.card_filter]
  push_cast
  apply Finset.sum_congr rfl
  intro m _
  cases s x <;> cases s m <;> simp

theorem coef_eq (k : Nat) (s : Split) (x y : Nat) :
    ((k : ℚ) - 2) * sep s x y - ∑ m ∈ range k, sep s x m - ∑ m ∈ range k, sep s y m = coef k s x y := by
  rw [sum_sep, sum_sep]
  unfold coef sep
  by_cases h : s x = s y
  · simp only [h, if_true]; ring
  · simp only [h, if_false]
    have hy : s y = !s x := by cases hx : s x <;> cases hy : s y <;> simp_all
    have := sideCard_add k s (!s x)
    rw [hy]
    simp only [Bool.not_not] at this ⊢
    have hk : (k : ℚ) = (sideCard k s (!s x) : ℚ) + (sideCard k s (s x) : ℚ) := by exact_mod_cast this.symm
    rw [hk]; ring

theorem Qc_eq_coef (k : Nat) (L : List (Split × ℚ)) (x y : Nat) :
    Qc k L x y = (L.map fun p => p.2 * coef k p.1 x y).sum := by
  unfold Qc rowSum
  induction L with
  | nil => simp [dist]
  | cons p L ih =>
    have hd : ∀ a b, dist (p :: L) a b = p.2 * sep p.1 a b + dist L a b := by intro a b; simp [dist]
    rw [List.map_cons, List.sum_cons, ← ih, ← coef_eq]
    simp only [hd, Finset.sum_add_distrib, ← Finset.mul_sum]
    ring

/-! ### compatible split systems -/

def Compat (k : Nat) (s t : Split) : Prop := ∃ a b : Bool, ∀ m < k, ¬ (s m = a ∧ t m = b)

def Nontriv (k : Nat) (s : Split) : Prop := 2 ≤ sideCard k s true ∧ 2 ≤ sideCard k s false

structure System (k : Nat) (L : List (Split × ℚ)) : Prop where
  pos : ∀ p ∈ L, 0 < p.2
  compat : ∀ p ∈ L, ∀ q ∈ L, Compat k p.1 q.1

theorem nontriv_side (k : Nat) (s : Split) (h : Nontriv k s) (b : Bool) : 2 ≤ sideCard k s b := by
  cases b
  · exact h.2
  · exact h.1

/-- inside every side with at least two points there is a pair no non-trivial split separates -/
theorem exists_cherry (k : Nat) (L : List (Split × ℚ)) (hC : ∀ p ∈ L, ∀ q ∈ L, Compat k p.1 q.1) :
    ∀ n, ∀ p ∈ L, ∀ b, sideCard k p.1 b = n → 2 ≤ n →
      ∃ x y, x < k ∧ y < k ∧ x ≠ y ∧ p.1 x = b ∧ p.1 y = b ∧ ∀ q ∈ L, Nontriv k q.1 → q.1 x = q.1 y := by
  intro n
  induction n using Nat.strong_induction_on with
  | _ n ih =>
    intro p hp b hn h2
    obtain ⟨x, y, hx, hy, hxy, hpx, hpy⟩ := exists_two k p.1 b (by omega)
    by_cases hall : ∀ q ∈ L, Nontriv k q.1 → q.1 x = q.1 y
    · exact ⟨x, y, hx, hy, hxy, hpx, hpy, hall⟩
    · push Not at hall
      obtain ⟨q, hq, hnt, hne⟩ := hall
      obtain ⟨a, c, hac⟩ := hC p hp q hq
      by_cases hab : a = b
      · -- side b of p lies inside side !c of q: x and y are not separated
        exfalso
        have h1 := hac x hx
        have h2 := hac y hy
        rw [hab] at h1 h2
        have hqx : q.1 x = !c := by
          cases hh : q.1 x <;> cases c <;> simp_all
        have hqy : q.1 y = !c := by
          cases hh : q.1 y <;> cases c <;> simp_all
        exact hne (hqx.trans hqy.symm)
      · -- side c of q lies strictly inside side b of p
        have hsub : ∀ m < k, q.1 m = c → p.1 m = b := by
          intro m hm hqm
          have := hac m hm
          cases hh : p.1 m <;> cases a <;> cases b <;> simp_all
        have hlt : sideCard k q.1 c < n := by
          rw [← hn]
          unfold sideCard
          apply Finset.card_lt_card
          constructor
          · intro m hm
            simp only [mem_filter, mem_range] at hm ⊢
            exact ⟨hm.1, hsub m hm.1 hm.2⟩
          · intro hsup
            -- one of x, y is not on side c of q
            by_cases hxc : q.1 x = c
            · have : y ∈ (range k).filter fun m => q.1 m = c := hsup (by simp [hy, hpy])
              simp only [mem_filter, mem_range] at this
              exact hne (hxc.trans this.2.symm)
            · have : x ∈ (range k).filter fun m => q.1 m = c := hsup (by simp [hx, hpx])
              simp only [mem_filter, mem_range] at this
              exact hxc this.2
        obtain ⟨x', y', hx', hy', hxy', hqx', hqy', hch⟩ :=
          ih (sideCard k q.1 c) hlt q hq c rfl (nontriv_side k q.1 hnt c)
        exact ⟨x', y', hx', hy', hxy', hsub x' hx' hqx', hsub y' hy' hqy', hch⟩

theorem bool_ne_not {a b : Bool} (h : a ≠ b) : a = !b := by cases a <;> cases b <;> simp_all

theorem bool_corner : ∀ (a c u v : Bool), ¬ ((!u) = a ∧ v = c) → ¬ ((!u) = a ∧ (!v) = c) → ¬ (u = a ∧ v = c) →
    a = u ∧ c = !v := by decide

/-- the coefficient comparison: a cherry on the smaller side of a separating split is at least as good on every split -/
theorem coef_le (k : Nat) (e q : Split) (i j x y : Nat) (hi : i < k) (hj : j < k) (hx : x < k) (hy : y < k)
    (hij : e i ≠ e j) (hex : e x = e i) (hey : e y = e i)
    (hsmall : sideCard k e (e i) ≤ sideCard k e (!e i))
    (hc : Compat k q e) (hch : Nontriv k q → q x = q y) :
    coef k q x y ≤ coef k q i j := by
  have hijne : i ≠ j := fun h => hij (by rw [h])
  unfold coef
  by_cases hxy : q x = q y
  · simp only [hxy, if_true]
    by_cases hqij : q i = q j
    · simp only [hqij, if_true]
      by_cases hb : q y = q j
      · rw [hb]
      · -- i, j on the other side of q: that side is the larger one
        have hnot : q j = !q y := bool_ne_not (fun h => hb h.symm)
        obtain ⟨a, c, hac⟩ := hc
        have hej : e j = !e i := bool_ne_not (fun h => hij h.symm)
        have h1 := hac i hi
        have h2 := hac j hj
        have h3 := hac x hx
        rw [hqij, hnot] at h1
        rw [hnot, hej] at h2
        rw [hxy, hex] at h3
        obtain ⟨ha, hcc⟩ := bool_corner a c (q y) (e i) h1 h2 h3
        subst ha; subst hcc
        -- side (q y) of q ⊆ side (e i) of e, side !(e i) of e ⊆ side !(q y) of q
        have s1 : sideCard k q (q y) ≤ sideCard k e (e i) := by
          apply sideCard_mono
          intro m hm hqm
          have := hac m hm
          cases hh : e m <;> cases he : e i <;> simp_all
        have s2 : sideCard k e (!e i) ≤ sideCard k q (!q y) := by
          apply sideCard_mono
          intro m hm hem
          have := hac m hm
          cases hh : q m <;> cases hq : q y <;> simp_all
        rw [hnot]
        simp only [Bool.not_not]
        have : sideCard k q (q y) ≤ sideCard k q (!q y) := by omega
        have : (sideCard k q (q y) : ℚ) ≤ (sideCard k q (!q y) : ℚ) := by exact_mod_cast this
        linarith
    · simp only [hqij, if_false]
      -- one of i, j is on the side away from x, y
      have h1 : 1 ≤ sideCard k q (!q y) := by
        by_cases hiy : q i = q y
        · have : q j = !q y := bool_ne_not (fun h => hqij (hiy.trans h.symm))
          rw [← this]; exact sideCard_pos k q j hj
        · have : q i = !q y := bool_ne_not hiy
          rw [← this]; exact sideCard_pos k q i hi
      have : (1 : ℚ) ≤ (sideCard k q (!q y) : ℚ) := by exact_mod_cast h1
      linarith
  · simp only [hxy, if_false]
    have hnt : ¬ Nontriv k q := fun h => hxy (hch h)
    by_cases hqij : q i = q j
    · simp only [hqij, if_true]
      -- the side away from i, j has at most one point
      have h2 : 2 ≤ sideCard k q (q j) := by
        have := sideCard_two k q i j hi hj hijne hqij
        rwa [hqij] at this
      have hle : sideCard k q (!q j) ≤ 1 := by
        by_contra hcon
        apply hnt
        cases hb : q j <;> rw [hb] at h2 hcon <;> simp only [Bool.not_false, Bool.not_true] at hcon
        · exact ⟨by omega, h2⟩
        · exact ⟨h2, by omega⟩
      have : (sideCard k q (!q j) : ℚ) ≤ 1 := by exact_mod_cast hle
      linarith
    · simp only [hqij, if_false]; exact le_refl _

theorem coef_lt (k : Nat) (e : Split) (i j x y : Nat) (hij : e i ≠ e j) (hex : e x = e i) (hey : e y = e i)
    (hnt : Nontriv k e) : coef k e x y < coef k e i j := by
  unfold coef
  simp only [hij, if_false, hex, hey, if_true]
  have := nontriv_side k e hnt (!e i)
  have : (2 : ℚ) ≤ (sideCard k e (!e i) : ℚ) := by exact_mod_cast this
  linarith

theorem sum_lt_of (L : List (Split × ℚ)) (f g : Split → ℚ) (hpos : ∀ p ∈ L, 0 < p.2)
    (hle : ∀ p ∈ L, f p.1 ≤ g p.1) (e : Split × ℚ) (he : e ∈ L) (hlt : f e.1 < g e.1) :
    (L.map fun p => p.2 * f p.1).sum < (L.map fun p => p.2 * g p.1).sum := by
  induction L with
  | nil => simp at he
  | cons p L ih =>
    simp only [List.map_cons, List.sum_cons]
    have hp := hpos p (by simp)
    have hle' : (L.map fun p => p.2 * f p.1).sum ≤ (L.map fun p => p.2 * g p.1).sum := by
      apply List.sum_le_sum
      intro q hq
      exact mul_le_mul_of_nonneg_left (hle q (by simp [hq])) (le_of_lt (hpos q (by simp [hq])))
    rcases List.mem_cons.mp he with rfl | he'
    · have := mul_lt_mul_of_pos_left hlt hp
      linarith
    · have := ih (fun q hq => hpos q (by simp [hq])) (fun q hq => hle q (by simp [hq])) he'
      have := mul_le_mul_of_nonneg_left (hle p (by simp)) (le_of_lt hp)
      linarith

/-- a pair separated by a non-trivial split is beaten, when it stands on the smaller side -/
theorem better_pair_small (k : Nat) (L : List (Split × ℚ)) (hS : System k L) (e : Split × ℚ) (he : e ∈ L)
    (hnt : Nontriv k e.1) (i j : Nat) (hi : i < k) (hj : j < k) (hij : e.1 i ≠ e.1 j)
    (hsmall : sideCard k e.1 (e.1 i) ≤ sideCard k e.1 (!e.1 i)) :
    ∃ x y, x < k ∧ y < k ∧ x ≠ y ∧ Qc k L x y < Qc k L i j := by
  obtain ⟨x, y, hx, hy, hxy, hex, hey, hch⟩ :=
    exists_cherry k L hS.compat _ e he (e.1 i) rfl (nontriv_side k e.1 hnt _)
  refine ⟨x, y, hx, hy, hxy, ?_⟩
  rw [Qc_eq_coef, Qc_eq_coef]
  apply sum_lt_of L (fun s => coef k s x y) (fun s => coef k s i j) hS.pos _ e he
  · exact coef_lt k e.1 i j x y hij hex hey hnt
  · intro q hq
    exact coef_le k e.1 q.1 i j x y hi hj hx hy hij hex hey hsmall (hS.compat q hq e he) (hch q hq)

theorem better_pair (k : Nat) (L : List (Split × ℚ)) (hS : System k L) (e : Split × ℚ) (he : e ∈ L)
    (hnt : Nontriv k e.1) (i j : Nat) (hi : i < k) (hj : j < k) (hij : e.1 i ≠ e.1 j) :
    ∃ x y, x < k ∧ y < k ∧ x ≠ y ∧ Qc k L x y < Qc k L i j := by
  by_cases hsmall : sideCard k e.1 (e.1 i) ≤ sideCard k e.1 (!e.1 i)
  · exact better_pair_small k L hS e he hnt i j hi hj hij hsmall
  · have hej : e.1 j = !e.1 i := bool_ne_not (fun h => hij h.symm)
    have hsm : sideCard k e.1 (e.1 j) ≤ sideCard k e.1 (!e.1 j) := by
      rw [hej]
      simp only [Bool.not_not]
      omega
    obtain ⟨x, y, hx, hy, hxy, hlt⟩ := better_pair_small k L hS e he hnt j i hj hi (fun h => hij h.symm) hsm
    exact ⟨x, y, hx, hy, hxy, by rwa [Qc_comm k L i j]⟩

/-- **the selection step**: a pair of minimal criterion is separated by trivial splits only -/
theorem argmin_is_cherry (k : Nat) (L : List (Split × ℚ)) (hS : System k L) (i j : Nat) (hi : i < k) (hj : j < k)
    (hmin : ∀ x y, x < k → y < k → x ≠ y → Qc k L i j ≤ Qc k L x y) :
    ∀ e ∈ L, Nontriv k e.1 → e.1 i = e.1 j := by
  intro e he hnt
  by_contra hne
  obtain ⟨x, y, hx, hy, hxy, hlt⟩ := better_pair k L hS e he hnt i j hi hj hne
  have := hmin x y hx hy hxy
  linarith

/-! ### what a cherry means for the numbers, and the reduced system -/

/-- every split that separates `a` and `b` keeps all other points together -/
def IsCherry (k : Nat) (L : List (Split × ℚ)) (a b : Nat) : Prop :=
  ∀ p ∈ L, p.1 a ≠ p.1 b → ∀ z z', z < k → z' < k → z ≠ a → z ≠ b → z' ≠ a → z' ≠ b → p.1 z = p.1 z'

theorem isCherry_of_trivial (k : Nat) (L : List (Split × ℚ)) (a b : Nat) (ha : a < k) (hb : b < k)
    (h : ∀ e ∈ L, Nontriv k e.1 → e.1 a = e.1 b) : IsCherry k L a b := by
  intro p hp hne z z' hz hz' hza hzb hz'a hz'b
  by_contra hzz
  apply hne
  apply h p hp
  -- both sides have two points
  have hside : ∀ c : Bool, 2 ≤ sideCard k p.1 c := by
    intro c
    -- on side c there is one of a, b and one of z, z'
    have h1 : ∃ u, u < k ∧ (u = a ∨ u = b) ∧ p.1 u = c := by
      by_cases hc : p.1 a = c
      · exact ⟨a, ha, Or.inl rfl, hc⟩
      · refine ⟨b, hb, Or.inr rfl, ?_⟩
        cases h1 : p.1 a <;> cases h2 : p.1 b <;> cases c <;> simp_all
    have h2 : ∃ v, v < k ∧ (v = z ∨ v = z') ∧ p.1 v = c := by
      by_cases hc : p.1 z = c
      · exact ⟨z, hz, Or.inl rfl, hc⟩
      · refine ⟨z', hz', Or.inr rfl, ?_⟩
        cases h1 : p.1 z <;> cases h2 : p.1 z' <;> cases c <;> simp_all
    obtain ⟨u, hu, hu', huc⟩ := h1
    obtain ⟨v, hv, hv', hvc⟩ := h2
    have huv : u ≠ v := by
      rcases hu' with rfl | rfl <;> rcases hv' with rfl | rfl <;> first | exact fun e => hza e.symm | exact fun e => hzb e.symm | exact fun e => hz'a e.symm | exact fun e => hz'b e.symm
    have := sideCard_two k p.1 u v hu hv huv (huc.trans hvc.symm)
    rwa [huc] at this
  exact ⟨hside true, hside false⟩

/-- for a cherry the difference of the two distance rows is one constant -/
theorem cherry_const (k : Nat) (L : List (Split × ℚ)) (a b : Nat) (hch : IsCherry k L a b)
    (z z' : Nat) (hz : z < k) (hz' : z' < k) (hza : z ≠ a) (hzb : z ≠ b) (hz'a : z' ≠ a) (hz'b : z' ≠ b) :
    dist L a z - dist L b z = dist L a z' - dist L b z' := by
  unfold dist
  unfold IsCherry at hch
  induction L with
  | nil => simp
  | cons p L ih =>
    simp only [List.map_cons, List.sum_cons]
    have ih' := ih (fun q hq => hch q (by simp [hq]))
    have hp : sep p.1 a z - sep p.1 b z = sep p.1 a z' - sep p.1 b z' := by
      by_cases hab : p.1 a = p.1 b
      · unfold sep; rw [hab]; ring
      · have := hch p (by simp) hab z z' hz hz' hza hzb hz'a hz'b
        unfold sep; rw [this]
    have : p.2 * sep p.1 a z - p.2 * sep p.1 b z = p.2 * sep p.1 a z' - p.2 * sep p.1 b z' := by
      rw [← mul_sub, ← mul_sub, hp]
    linarith

/-- the renumbering after deleting index `b` -/
def up (b x : Nat) : Nat := if x < b then x else x + 1

/-- the split system of the joined pair: the splits that separate the pair are gone, the others are renumbered -/
def reduce (L : List (Split × ℚ)) (a b : Nat) : List (Split × ℚ) :=
  (L.filter fun p => p.1 a == p.1 b).map fun p => (fun x => p.1 (up b x), p.2)

theorem up_lt (k b x : Nat) (hb : b < k) (hx : x < k - 1) : up b x < k := by unfold up; split <;> omega
theorem up_ne (b x : Nat) : up b x ≠ b := by unfold up; split <;> omega

theorem reduce_system (k : Nat) (L : List (Split × ℚ)) (a b : Nat) (hb : b < k) (hS : System k L) :
    System (k - 1) (reduce L a b) := by
  constructor
  · intro p hp
    simp only [reduce, List.mem_map, List.mem_filter] at hp
    obtain ⟨p0, ⟨hp0, _⟩, rfl⟩ := hp
    exact hS.pos p0 hp0
  · intro p hp q hq
    simp only [reduce, List.mem_map, List.mem_filter] at hp hq
    obtain ⟨p0, ⟨hp0, _⟩, rfl⟩ := hp
    obtain ⟨q0, ⟨hq0, _⟩, rfl⟩ := hq
    obtain ⟨c, d, hcd⟩ := hS.compat p0 hp0 q0 hq0
    exact ⟨c, d, fun m hm => hcd (up b m) (up_lt k b m hb hm)⟩

/-- entries of the reduced system that do not involve the joined pair: unchanged -/
theorem reduce_other (k : Nat) (L : List (Split × ℚ)) (a b : Nat) (hch : IsCherry k L a b)
    (x y : Nat) (hx : up b x < k) (hy : up b y < k) (hxa : up b x ≠ a) (hya : up b y ≠ a) :
    dist (reduce L a b) x y = dist L (up b x) (up b y) := by
  unfold dist reduce
  unfold IsCherry at hch
  induction L with
  | nil => simp
  | cons p L ih =>
    have ih' := ih (fun q hq => hch q (by simp [hq]))
    by_cases hab : p.1 a = p.1 b
    · simp only [List.filter_cons, hab, beq_self_eq_true, if_true, List.map_cons, List.sum_cons]
      rw [ih']
      rfl
    · have hf : (p.1 a == p.1 b) = false := by simpa using hab
      simp only [List.filter_cons, hf, Bool.false_eq_true, if_false, List.map_cons, List.sum_cons]
      rw [ih']
      have := hch p (by simp) hab (up b x) (up b y) hx hy hxa (up_ne b x) hya (up_ne b y)
      simp [sep, this]

/-- entries of the reduced system for the joined pair: the Saitou–Nei update formula -/
theorem reduce_joined (L : List (Split × ℚ)) (a b : Nat) (z : Nat) :
    ((L.filter fun p => p.1 a == p.1 b).map (fun p => p.2 * sep p.1 a z)).sum =
      (dist L a z + dist L b z - dist L a b) / 2 := by
  unfold dist
  induction L with
  | nil => simp
  | cons p L ih =>
    by_cases hab : p.1 a = p.1 b
    · simp only [List.filter_cons, hab, beq_self_eq_true, if_true, List.map_cons, List.sum_cons, ih]
      simp only [sep, hab, if_true]
      ring
    · have hf : (p.1 a == p.1 b) = false := by simpa using hab
      simp only [List.filter_cons, hf, Bool.false_eq_true, if_false, List.map_cons, List.sum_cons, ih]
      have : sep p.1 a z + sep p.1 b z - sep p.1 a b = 0 := by
        unfold sep
        cases h1 : p.1 a <;> cases h2 : p.1 b <;> cases h3 : p.1 z <;> simp_all
      have h2 : p.2 * sep p.1 a z + p.2 * sep p.1 b z - p.2 * sep p.1 a b = 0 := by
        rw [← mul_add, ← mul_sub, this, mul_zero]
      linarith

/-- for a cherry the two row sums differ by `k - 2` times the constant of `cherry_const` -/
theorem rowSum_diff (k : Nat) (L : List (Split × ℚ)) (a b : Nat) (ha : a < k) (hb : b < k) (hab : a ≠ b)
    (hch : IsCherry k L a b) (z : Nat) (hz : z < k) (hza : z ≠ a) (hzb : z ≠ b) :
    rowSum k L a - rowSum k L b = ((k : ℚ) - 2) * (dist L a z - dist L b z) := by
  unfold rowSum
  rw [← Finset.sum_sub_distrib]
  have h1 : ∑ m ∈ range k, (dist L a m - dist L b m) =
      ∑ m ∈ range k, ((dist L a m - dist L b m - (dist L a z - dist L b z)) + (dist L a z - dist L b z)) := by
    apply Finset.sum_congr rfl; intro m _; ring
  rw [h1, Finset.sum_add_distrib, Finset.sum_const, card_range,
    Finset.sum_eq_add a b hab]
  · rw [dist_self, dist_self, dist_comm L b a, nsmul_eq_mul]; ring
  · intro m hm hne
    rw [cherry_const k L a b hch m z (by simpa using hm) hz hne.1 hne.2 hza hzb]; ring
  · intro h; exact absurd (by simpa using ha) h
  · intro h; exact absurd (by simpa using hb) h

/-- **branch lengths and update formula are exact on a cherry** -/
theorem cherry_exact (k : Nat) (hk : 3 ≤ k) (L : List (Split × ℚ)) (a b : Nat) (ha : a < k) (hb : b < k) (hab : a ≠ b)
    (hch : IsCherry k L a b) (z : Nat) (hz : z < k) (hza : z ≠ a) (hzb : z ≠ b) :
    let sA := dist L a b / 2 + (rowSum k L a / ((k : ℚ) - 2) - rowSum k L b / ((k : ℚ) - 2)) / 2
    let sB := dist L a b - sA
    sA + (dist L a z + dist L b z - dist L a b) / 2 = dist L a z ∧
    sB + (dist L a z + dist L b z - dist L a b) / 2 = dist L b z := by
  intro sA sB
  have hk2 : ((k : ℚ) - 2) ≠ 0 := by
    have : (3 : ℚ) ≤ (k : ℚ) := by exact_mod_cast hk
    linarith
  have hd := rowSum_diff k L a b ha hb hab hch z hz hza hzb
  have hr : rowSum k L a / ((k : ℚ) - 2) - rowSum k L b / ((k : ℚ) - 2) = dist L a z - dist L b z := by
    rw [← sub_div, hd]; field_simp
  simp only [sA, sB, hr]
  constructor <;> ring

end Verif.NJ
